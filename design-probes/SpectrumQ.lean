import Mathlib.Algebra.Order.Field.Rat
import Mathlib.Tactic.Linarith
import Mathlib.Tactic.Positivity
import Mathlib.Tactic.NormNum

/-! Feasibility probe (design round): complete model + spec + theorems for C12
(`spectrum_q_value`). `true` = decoy (label −1). -/

namespace C12

/-- forward pass: running (decoy+1, target) counts *after* each PSM; `decoy` starts at 1 -/
def counts : Nat → Nat → List Bool → List (Nat × Nat)
  | _, _, [] => []
  | d, t, b :: bs =>
    let d' := if b then d + 1 else d
    let t' := if b then t else t + 1
    (d', t') :: counts d' t' bs

/-- `decoy as f32 / target as f32`; `none` is the float `+∞` (target = 0, decoy ≥ 1) -/
def ratio (c : Nat × Nat) : Option Rat := if c.2 = 0 then none else some ((c.1 : Rat) / (c.2 : Rat))

/-- `q_min = q_min.min(x)` with `+∞` ignored -/
def minOpt (m : Rat) : Option Rat → Rat
  | none => m
  | some x => min m x

/-- head of the already-computed suffix, `1` at the end of the list (the initial `q_min`) -/
def hd : List Rat → Rat
  | [] => 1
  | x :: _ => x

@[simp] theorem hd_nil : hd [] = 1 := rfl
@[simp] theorem hd_cons (x : Rat) (l : List Rat) : hd (x :: l) = x := rfl

/-- backward pass: cumulative minimum from the end, starting from 1 -/
def cummin : List (Option Rat) → List Rat
  | [] => []
  | r :: rs =>
    let tl := cummin rs
    minOpt (hd tl) r :: tl

def spectrumQ (labels : List Bool) : List Rat × Nat :=
  let qs := cummin ((counts 1 0 labels).map ratio)
  (qs, (qs.filter (fun q => decide (q ≤ 1/100))).length)

/-! ### specification: the O(n²) definition -/

/-- q-value at position `i`: min over all cut-offs `j ≥ i` of (decoys+1)/targets, capped at 1 -/
def qSpec (rs : List (Option Rat)) (i : Nat) : Rat := (rs.drop i).foldr (fun r m => minOpt m r) 1

theorem cummin_length (rs : List (Option Rat)) : (cummin rs).length = rs.length := by
  induction rs with
  | nil => rfl
  | cons r rs ih => simp [cummin, ih]

theorem cummin_head (rs : List (Option Rat)) : hd (cummin rs) = rs.foldr (fun r m => minOpt m r) 1 := by
  induction rs with
  | nil => rfl
  | cons r rs ih => simp only [cummin, hd_cons, List.foldr_cons, ih]

theorem q_eq_spec (rs : List (Option Rat)) (i : Nat) (h : i < rs.length) :
    (cummin rs)[i]? = some (qSpec rs i) := by
  induction rs generalizing i with
  | nil => simp at h
  | cons r rs ih =>
    cases i with
    | zero => simp only [cummin, qSpec, List.drop_zero, List.foldr_cons, List.getElem?_cons_zero, cummin_head]
    | succ i =>
      simp only [cummin, List.getElem?_cons_succ, qSpec, List.drop_succ_cons]
      exact ih i (by simpa using h)

/-- counts really are the prefix counts -/
theorem counts_spec (d t : Nat) (l : List Bool) (i : Nat) (h : i < l.length) :
    (counts d t l)[i]? = some (d + ((l.take (i+1)).filter id).length,
                               t + ((l.take (i+1)).filter (fun b => !b)).length) := by
  induction l generalizing d t i with
  | nil => simp at h
  | cons b bs ih =>
    cases i with
    | zero => cases b <;> simp [counts]
    | succ i =>
      simp only [counts, List.getElem?_cons_succ]
      rw [ih _ _ i (by simpa using h)]
      cases b <;> simp <;> omega

theorem minOpt_le (m : Rat) (r : Option Rat) : minOpt m r ≤ m := by
  cases r <;> simp [minOpt]

theorem minOpt_pos (m : Rat) (r : Option Rat) (hm : 0 < m) (hr : ∀ x, r = some x → 0 < x) : 0 < minOpt m r := by
  cases r with
  | none => simpa [minOpt]
  | some x => simp only [minOpt]; exact lt_min hm (hr x rfl)

theorem ratio_some_pos (d t : Nat) (hd : 0 < d) (x : Rat) (h : ratio (d, t) = some x) : 0 < x := by
  unfold ratio at h
  by_cases ht : t = 0
  · simp [ht] at h
  · simp only [ht, ↓reduceIte, Option.some.injEq] at h
    subst h
    have h1 : (0 : Rat) < (d : Rat) := by exact_mod_cast hd
    have h2 : (0 : Rat) < (t : Rat) := by exact_mod_cast Nat.pos_of_ne_zero ht
    exact div_pos h1 h2

theorem ratio_pos (d t : Nat) (l : List Bool) (hd : 0 < d) :
    ∀ r ∈ (counts d t l).map ratio, ∀ x, r = some x → 0 < x := by
  induction l generalizing d t with
  | nil => simp [counts]
  | cons b bs ih =>
    intro r hr x hx
    simp only [counts, List.map_cons, List.mem_cons] at hr
    rcases hr with rfl | hr
    · exact ratio_some_pos _ _ (by split <;> omega) x hx
    · exact ih _ _ (by split <;> omega) r hr x hx

/-- every q-value lies in (0, 1] -/
theorem cummin_range (rs : List (Option Rat)) (hpos : ∀ r ∈ rs, ∀ x, r = some x → 0 < x) :
    ∀ q ∈ cummin rs, 0 < q ∧ q ≤ 1 := by
  induction rs with
  | nil => simp [cummin]
  | cons r rs ih =>
    have ih' := ih (fun r' hr' => hpos r' (List.mem_cons_of_mem _ hr'))
    intro q hq
    simp only [cummin, List.mem_cons] at hq
    rcases hq with rfl | hq
    · have hh : 0 < hd (cummin rs) ∧ hd (cummin rs) ≤ 1 := by
        cases hc : cummin rs with
        | nil => simp
        | cons a as => simp only [hd_cons]; exact ih' a (by rw [hc]; simp)
      exact ⟨minOpt_pos _ _ hh.1 (hpos r (by simp)), le_trans (minOpt_le _ _) hh.2⟩
    · exact ih' q hq

theorem q_range (labels : List Bool) : ∀ q ∈ (spectrumQ labels).1, 0 < q ∧ q ≤ 1 :=
  cummin_range _ (ratio_pos 1 0 labels (by omega))

/-- q-values never decrease down the list -/
theorem cummin_mono (rs : List (Option Rat)) : (cummin rs).Pairwise (· ≤ ·) := by
  induction rs with
  | nil => simp [cummin]
  | cons r rs ih =>
    simp only [cummin, List.pairwise_cons]
    refine ⟨?_, ih⟩
    intro q hq
    cases hc : cummin rs with
    | nil => rw [hc] at hq; simp at hq
    | cons a as =>
      rw [hc] at hq ih
      simp only [hd_cons]
      have ha : a ≤ q := by
        rcases List.mem_cons.mp hq with rfl | hq'
        · exact le_refl _
        · exact (List.pairwise_cons.mp ih).1 q hq'
      exact le_trans (minOpt_le _ _) ha

theorem q_monotone (labels : List Bool) : (spectrumQ labels).1.Pairwise (· ≤ ·) := cummin_mono _

theorem count_eq (labels : List Bool) :
    (spectrumQ labels).2 = ((spectrumQ labels).1.filter (fun q => decide (q ≤ 1/100))).length := rfl

/-- non-vacuity / sanity: T T D T D D -/
example : (spectrumQ [false, false, true, false, true, true]).1 = [1/2, 1/2, 2/3, 2/3, 1, 1] := by
  norm_num [spectrumQ, counts, ratio, cummin, minOpt]

#print axioms q_eq_spec
#print axioms q_range
#print axioms q_monotone
end C12
