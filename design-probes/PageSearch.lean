import Mathlib.Tactic.Order
import Mathlib.Order.Defs.LinearOrder
import Mathlib.Tactic.Set

/-! Feasibility probe from the design round (not part of the machinery).
Model of `binary_search_slice` (walk loops + `binary_search_by` answers as parameters constrained
only by std's contract), of `IndexedQuery::page_search` (page range, per-page slice, inner range,
edge filter exactly as coded), and a complete proof of

  `pageSearch_exact : DbInv … → pageSearch … = frags.filter (inWin masses q)`

for an arbitrary linear order, arbitrary bucket size, arbitrary database satisfying the index
invariant. Also `edgeFilter_eq_inWin`: the code's index-only edge filter is pointwise the
specification predicate. `lean PageSearch.lean` checks it. -/

/-! Feasibility probe (design round): the two `while` loops of `binary_search_slice`
and the "widest range" covering property, for an arbitrary linear order and an
arbitrary start index (i.e. for *any* answer of `binary_search_by`). -/

variable {α : Type}

/-- left walk: `while idx > 0 && slice[idx] >= low { idx -= 1 }` -/
def walkLeft [LT α] [DecidableLT α] (l : Array α) (low : α) : Nat → Nat
  | 0 => 0
  | i+1 => match l[i+1]? with
    | some x => if x < low then i+1 else walkLeft l low i
    | none => i+1   -- out of bounds: Rust would panic; unreachable because start ≤ len-1

/-- right walk with fuel: `while idx < len && slice[idx] <= high { idx += 1 }` -/
def walkRight [LE α] [DecidableLE α] (l : Array α) (high : α) (idx : Nat) : Nat → Nat
  | 0 => idx
  | f+1 => match l[idx]? with
    | some x => if x ≤ high then walkRight l high (idx+1) f else idx
    | none => idx

def Sorted [LE α] (l : Array α) : Prop :=
  ∀ i j (hi : i < l.size) (hj : j < l.size), i ≤ j → l[i] ≤ l[j]

theorem walkLeft_le [LinearOrder α] (l : Array α) (low : α) (s : Nat) : walkLeft l low s ≤ s := by
  induction s with
  | zero => simp [walkLeft]
  | succ i ih =>
    unfold walkLeft
    split
    · split <;> omega
    · omega

theorem walkLeft_succ_some [LinearOrder α] (l : Array α) (low x : α) (i : Nat) (h : l[i+1]? = some x) :
    walkLeft l low (i+1) = if x < low then i+1 else walkLeft l low i := by
  rw [walkLeft, h]

theorem walkLeft_exit [LinearOrder α] (l : Array α) (low : α) (s : Nat) (hs : s < l.size) :
    walkLeft l low s = 0 ∨ ∃ x, l[walkLeft l low s]? = some x ∧ x < low := by
  induction s with
  | zero => left; simp [walkLeft]
  | succ i ih =>
    have h1 : l[i+1]? = some l[i+1] := by simp [hs]
    rw [walkLeft_succ_some l low _ i h1]
    split
    · right; exact ⟨_, h1, by assumption⟩
    · exact ih (by omega)

theorem left_covers [LinearOrder α] (l : Array α) (hl : Sorted l) (low : α) (s : Nat) (hs : s < l.size)
    (i : Nat) (hi : i < l.size) (h : low ≤ l[i]) : walkLeft l low s ≤ i := by
  rcases walkLeft_exit l low s hs with h0 | ⟨x, hx, hlt⟩
  · omega
  · by_contra hc
    have hw : walkLeft l low s < l.size := by
      have := walkLeft_le l low s; omega
    have hx' : l[walkLeft l low s] = x := by
      have : l[walkLeft l low s]? = some l[walkLeft l low s] := by simp [hw]
      rw [this] at hx; exact Option.some.inj hx
    have := hl i (walkLeft l low s) hi hw (by omega)
    order

theorem walkRight_exit [LinearOrder α] (l : Array α) (high : α) (idx f : Nat) (hf : idx + f ≥ l.size) :
    let r := walkRight l high idx f
    idx ≤ r ∧ (r ≥ l.size ∨ ∃ h : r < l.size, high < l[r]) := by
  induction f generalizing idx with
  | zero => simp [walkRight]; left; omega
  | succ f ih =>
    unfold walkRight
    by_cases hidx : idx < l.size
    · have : l[idx]? = some l[idx] := by simp [hidx]
      rw [this]; simp only
      split
      · have := ih (idx+1) (by omega)
        exact ⟨by omega, this.2⟩
      · exact ⟨by omega, Or.inr ⟨hidx, by order⟩⟩
    · have : l[idx]? = none := by simp; omega
      rw [this]; simp only
      exact ⟨by omega, Or.inl (by omega)⟩

theorem right_covers [LinearOrder α] (l : Array α) (hl : Sorted l) (high : α) (idx f : Nat) (hf : idx + f ≥ l.size)
    (i : Nat) (hi : i < l.size) (h : l[i] ≤ high) : i < walkRight l high idx f := by
  have ⟨_, hex⟩ := walkRight_exit l high idx f hf
  rcases hex with hge | ⟨hlt, hx⟩
  · omega
  · by_contra hc
    have := hl (walkRight l high idx f) i hlt hi (by omega)
    order


/-! ### tightness (needs std's `binary_search_by` contract) and the assembled `bss` -/

/-- std's contract, weak form covering both `Ok i` and `Err i` -/
def BinSearchOk [LE α] (l : Array α) (x : α) (r : Nat) : Prop :=
  r ≤ l.size ∧ (∀ (i : Nat) (y : α), i < r → l[i]? = some y → y ≤ x) ∧
  (∀ (i : Nat) (y : α), r ≤ i → l[i]? = some y → x ≤ y)

theorem walkLeft_between [LinearOrder α] (l : Array α) (low : α) (s : Nat) (hs : s < l.size)
    (i : Nat) (h1 : walkLeft l low s < i) (h2 : i ≤ s) (y : α) (hy : l[i]? = some y) : low ≤ y := by
  induction s with
  | zero => omega
  | succ n ih =>
    have hn : l[n+1]? = some l[n+1] := by simp [hs]
    rw [walkLeft_succ_some l low _ n hn] at h1
    split at h1
    · omega
    · rename_i hnl
      by_cases hi : i = n+1
      · subst hi; rw [hn] at hy; cases hy; order
      · exact ih (by omega) h1 (by omega)

theorem walkRight_between [LinearOrder α] (l : Array α) (high : α) (idx f : Nat)
    (i : Nat) (h1 : idx ≤ i) (h2 : i < walkRight l high idx f) (y : α) (hy : l[i]? = some y) : y ≤ high := by
  induction f generalizing idx with
  | zero => simp [walkRight] at h2; omega
  | succ f ih =>
    unfold walkRight at h2
    cases hx : l[idx]? with
    | none => rw [hx] at h2; simp only at h2; omega
    | some x =>
      rw [hx] at h2; simp only at h2
      split at h2
      · rename_i hle
        by_cases hi : i = idx
        · subst hi; rw [hx] at hy; cases hy; exact hle
        · exact ih (idx+1) (by omega) h2
      · omega

theorem walkRight_le_size [LinearOrder α] (l : Array α) (high : α) (idx f : Nat) (h : idx ≤ l.size) :
    walkRight l high idx f ≤ l.size := by
  induction f generalizing idx with
  | zero => simpa [walkRight]
  | succ f ih =>
    unfold walkRight
    cases hx : l[idx]? with
    | none => simpa
    | some x =>
      simp only
      have : idx < l.size := by
        by_contra hc
        have : l[idx]? = none := by simp; omega
        rw [this] at hx; cases hx
      split
      · exact ih (idx+1) (by omega)
      · omega

/-- `binary_search_slice`, with the two `binary_search_by` answers as parameters -/
def bss [LT α] [DecidableLT α] [LE α] [DecidableLE α] (l : Array α) (lo hi : α) (rLo rHi : Nat) : Nat × Nat :=
  let L := walkLeft l lo (rLo - 1)
  (L, min (walkRight l hi (rHi + L) (l.size - (rHi + L))) l.size)

def SortedArr [LE α] (l : Array α) : Prop :=
  ∀ (i j : Nat) (x y : α), i ≤ j → l[i]? = some x → l[j]? = some y → x ≤ y

theorem sorted_of_sortedArr [LinearOrder α] (l : Array α) (h : SortedArr l) : Sorted l := by
  intro i j hi hj hij
  exact h i j _ _ hij (by simp [hi]) (by simp [hj])

theorem bss_covers [LinearOrder α] (l : Array α) (hl : SortedArr l) (lo hi : α) (rLo rHi : Nat)
    (hr : rLo ≤ l.size) (i : Nat) (x : α) (hx : l[i]? = some x) (h1 : lo ≤ x) (h2 : x ≤ hi) :
    (bss l lo hi rLo rHi).1 ≤ i ∧ i < (bss l lo hi rLo rHi).2 := by
  have hi' : i < l.size := by
    by_contra hc
    have : l[i]? = none := by simp; omega
    rw [this] at hx; cases hx
  have hxe : l[i] = x := by
    have : l[i]? = some l[i] := by simp [hi']
    rw [this] at hx; exact Option.some.inj hx
  have hs := sorted_of_sortedArr l hl
  unfold bss
  simp only
  constructor
  · exact left_covers l hs lo (rLo - 1) (by omega) i hi' (by rw [hxe]; exact h1)
  · have := right_covers l hs hi (rHi + walkLeft l lo (rLo - 1)) (l.size - (rHi + walkLeft l lo (rLo - 1)))
      (by omega) i hi' (by rw [hxe]; exact h2)
    omega

theorem bss_tight [LinearOrder α] (l : Array α) (lo hi : α) (rLo rHi : Nat)
    (hLo : BinSearchOk l lo rLo)
    (hHi : BinSearchOk (l.extract (bss l lo hi rLo rHi).1 l.size) hi rHi)
    (i : Nat) (x : α) (hx : l[i]? = some x) :
    ((bss l lo hi rLo rHi).1 < i → lo ≤ x) ∧
    ((bss l lo hi rLo rHi).1 ≤ i → i < (bss l lo hi rLo rHi).2 → x ≤ hi) := by
  have hi' : i < l.size := by
    by_contra hc
    have : l[i]? = none := by simp; omega
    rw [this] at hx; cases hx
  unfold bss at *
  simp only at *
  set L := walkLeft l lo (rLo - 1) with hL
  constructor
  · intro hLi
    by_cases hc : i ≤ rLo - 1
    · have := hLo.1
      exact walkLeft_between l lo (rLo - 1) (by omega) i hLi hc x hx
    · exact hLo.2.2 i x (by omega) hx
  · intro hLi hiR
    by_cases hc : i < rHi + L
    · -- inside the part vouched for by the binary search on the sub-slice
      have := hHi.2.1 (i - L) x (by omega)
      apply this
      rw [Array.getElem?_extract]
      have : L + (i - L) = i := by omega
      simp [this, hx]; omega
    · exact walkRight_between l hi (rHi + L) (l.size - (rHi + L)) i (by omega) (by omega) x hx

/-! chunk decomposition lemmas (pure list facts) -/

theorem flatMap_chunks_take {β : Type} (l : List β) (B n : Nat) :
    (List.range n).flatMap (fun p => (l.drop (p*B)).take B) = l.take (n*B) := by
  induction n with
  | zero => simp
  | succ n ih =>
    rw [List.range_succ, List.flatMap_append, ih]
    simp only [List.flatMap_cons, List.flatMap_nil, List.append_nil]
    rw [Nat.succ_mul, List.take_add]

theorem flatMap_chunks {β : Type} (l : List β) (B n : Nat) (h : l.length ≤ n*B) :
    (List.range n).flatMap (fun p => (l.drop (p*B)).take B) = l := by
  rw [flatMap_chunks_take, List.take_of_length_le h]

theorem range_split (a b n : Nat) (h1 : a ≤ b) (h2 : b ≤ n) :
    List.range n = List.range a ++ (List.range' a (b - a) ++ List.range' b (n - b)) := by
  rw [List.range_eq_range', List.range_eq_range']
  have e2 : List.range' b (n - b) = List.range' (a + (b - a)) (n - b) := by congr 1; omega
  rw [e2, List.range'_append_1]
  have e3 : List.range' a (b - a + (n - b)) = List.range' (0 + a) (b - a + (n - b)) := by simp
  rw [e3, List.range'_append_1]
  congr 1; omega

/-! ### the fragment index: model of `IndexedQuery::page_search` and exactness -/

structure Frag (α : Type) where
  pep : Nat
  mz  : α

structure Q (α : Type) where
  fragLo : α
  fragHi : α
  preLo  : α
  preHi  : α

section
variable [LinearOrder α]

/-- `bss` with a concrete binary search `bs` plugged in (second search runs on `slice[left..]`) -/
def bssWith {κ : Type} [LinearOrder κ] (bs : Array κ → κ → Nat) (l : Array κ) (lo hi : κ) : Nat × Nat :=
  let rLo := bs l lo
  let L := walkLeft l lo (rLo - 1)
  bss l lo hi rLo (bs (l.extract L l.size) hi)

def BsOk {κ : Type} [LinearOrder κ] (bs : Array κ → κ → Nat) : Prop :=
  ∀ l x, SortedArr l → BinSearchOk l x (bs l x)

def massOf (masses : Array α) (f : Frag α) : Option α := masses[f.pep]?

/-- specification predicate -/
def inWin (masses : Array α) (q : Q α) (f : Frag α) : Bool :=
  decide (q.fragLo ≤ f.mz) && decide (f.mz ≤ q.fragHi) &&
  match massOf masses f with
  | some m => decide (q.preLo ≤ m) && decide (m ≤ q.preHi)
  | none => false

/-- the edge filter of `page_search`, literally -/
def edgeFilter (masses : Array α) (q : Q α) (pLo pHi : Nat) (f : Frag α) : Bool :=
  (decide (pLo < f.pep) || (decide (f.pep = pLo) &&
      match massOf masses f with | some m => decide (q.preLo ≤ m) | none => false)) &&
  (decide (f.pep < pHi) || (decide (f.pep = pHi) &&
      match massOf masses f with | some m => decide (m ≤ q.preHi) | none => false)) &&
  decide (q.fragLo ≤ f.mz) && decide (f.mz ≤ q.fragHi)

def slice (frags : List (Frag α)) (B p : Nat) : List (Frag α) := (frags.drop (p*B)).take B

def pageSearch (bsA : Array α → α → Nat) (bsN : Array Nat → Nat → Nat)
    (masses minv : Array α) (frags : List (Frag α)) (B : Nat) (q : Q α) : List (Frag α) :=
  let pre := bssWith bsA masses q.preLo q.preHi
  let pg := bssWith bsA minv q.fragLo q.fragHi
  (List.range' pg.1 (pg.2 - pg.1)).flatMap fun p =>
    let s := slice frags B p
    let ix := bssWith bsN (s.map (·.pep)).toArray pre.1 pre.2
    ((s.drop ix.1).take (ix.2 - ix.1)).filter (edgeFilter masses q pre.1 pre.2)

structure DbInv (masses minv : Array α) (frags : List (Frag α)) (B : Nat) : Prop where
  massesSorted : SortedArr masses
  bpos : 0 < B
  pages : frags.length ≤ minv.size * B
  minvSorted : SortedArr minv
  lower : ∀ p f m, f ∈ slice frags B p → minv[p]? = some m → m ≤ f.mz
  upper : ∀ p f m, f ∈ slice frags B p → minv[p+1]? = some m → f.mz ≤ m
  keysSorted : ∀ p, SortedArr (((slice frags B p).map (·.pep)).toArray)
  pepValid : ∀ f ∈ frags, f.pep < masses.size

theorem extract_sorted {κ : Type} [LinearOrder κ] (l : Array κ) (h : SortedArr l) (a b : Nat) :
    SortedArr (l.extract a b) := by
  intro i j x y hij hx hy
  rw [Array.getElem?_extract] at hx hy
  split at hx
  · split at hy
    · exact h (a+i) (a+j) x y (by omega) hx hy
    · cases hy
  · cases hx

theorem bssWith_covers {κ : Type} [LinearOrder κ] (bs : Array κ → κ → Nat) (hbs : BsOk bs) (l : Array κ)
    (hl : SortedArr l) (lo hi : κ) (i : Nat) (x : κ) (hx : l[i]? = some x) (h1 : lo ≤ x) (h2 : x ≤ hi) :
    (bssWith bs l lo hi).1 ≤ i ∧ i < (bssWith bs l lo hi).2 := by
  unfold bssWith
  exact bss_covers l hl lo hi _ _ (hbs l lo hl).1 i x hx h1 h2

theorem bssWith_tight {κ : Type} [LinearOrder κ] (bs : Array κ → κ → Nat) (hbs : BsOk bs) (l : Array κ)
    (hl : SortedArr l) (lo hi : κ) (i : Nat) (x : κ) (hx : l[i]? = some x) :
    ((bssWith bs l lo hi).1 < i → lo ≤ x) ∧
    ((bssWith bs l lo hi).1 ≤ i → i < (bssWith bs l lo hi).2 → x ≤ hi) := by
  unfold bssWith
  simp only
  apply bss_tight l lo hi _ _ (hbs l lo hl)
  · have : (bss l lo hi (bs l lo) (bs (l.extract (walkLeft l lo (bs l lo - 1)) l.size) hi)).1
        = walkLeft l lo (bs l lo - 1) := rfl
    rw [this]
    exact hbs _ hi (extract_sorted l hl _ _)
  · exact hx

theorem bssWith_le {κ : Type} [LinearOrder κ] (bs : Array κ → κ → Nat) (l : Array κ) (lo hi : κ) :
    (bssWith bs l lo hi).2 ≤ l.size := by
  unfold bssWith bss; simp only; omega
end

section
variable [LinearOrder α]

theorem bssWith_fst_le_snd {κ : Type} [LinearOrder κ] (bs : Array κ → κ → Nat) (hbs : BsOk bs) (l : Array κ)
    (hl : SortedArr l) (lo hi : κ) : (bssWith bs l lo hi).1 ≤ (bssWith bs l lo hi).2 := by
  unfold bssWith bss
  simp only
  have h1 := (hbs l lo hl).1
  have h2 := walkLeft_le l lo (bs l lo - 1)
  have h3 := (walkRight_exit l hi (bs (l.extract (walkLeft l lo (bs l lo - 1)) l.size) hi + walkLeft l lo (bs l lo - 1))
    (l.size - (bs (l.extract (walkLeft l lo (bs l lo - 1)) l.size) hi + walkLeft l lo (bs l lo - 1))) (by omega)).1
  omega

theorem bssWith_fst_exit {κ : Type} [LinearOrder κ] (bs : Array κ → κ → Nat) (hbs : BsOk bs) (l : Array κ)
    (hl : SortedArr l) (lo hi : κ) :
    (bssWith bs l lo hi).1 = 0 ∨ ∃ x, l[(bssWith bs l lo hi).1]? = some x ∧ x < lo := by
  unfold bssWith bss
  simp only
  have h1 := (hbs l lo hl).1
  by_cases hz : l.size = 0
  · left
    have := walkLeft_le l lo (bs l lo - 1); omega
  · exact walkLeft_exit l lo (bs l lo - 1) (by omega)

theorem bssWith_snd_exit {κ : Type} [LinearOrder κ] (bs : Array κ → κ → Nat) (l : Array κ) (lo hi : κ) :
    (bssWith bs l lo hi).2 = l.size ∨ ∃ x, l[(bssWith bs l lo hi).2]? = some x ∧ hi < x := by
  unfold bssWith bss
  simp only
  set L := walkLeft l lo (bs l lo - 1)
  set r := bs (l.extract L l.size) hi
  have h3 := walkRight_exit l hi (r + L) (l.size - (r + L)) (by omega)
  simp only at h3
  rcases h3.2 with hge | ⟨hlt, hx⟩
  · left; omega
  · right
    have : min (walkRight l hi (r + L) (l.size - (r + L))) l.size = walkRight l hi (r + L) (l.size - (r + L)) := by omega
    rw [this]
    exact ⟨_, by simp [hlt], hx⟩

/-- the edge filter of the code is *pointwise* the specification predicate -/
theorem edgeFilter_eq_inWin (bsA : Array α → α → Nat) (hbs : BsOk bsA) (masses : Array α) (hm : SortedArr masses)
    (q : Q α) (f : Frag α) (hv : f.pep < masses.size) :
    edgeFilter masses q (bssWith bsA masses q.preLo q.preHi).1 (bssWith bsA masses q.preLo q.preHi).2 f
      = inWin masses q f := by
  have hmass : masses[f.pep]? = some masses[f.pep] := by simp [hv]
  have hc := bssWith_covers bsA hbs masses hm q.preLo q.preHi f.pep _ hmass
  have ht := bssWith_tight bsA hbs masses hm q.preLo q.preHi f.pep _ hmass
  unfold edgeFilter inWin massOf
  rw [hmass]
  simp only
  set pLo := (bssWith bsA masses q.preLo q.preHi).1
  set pHi := (bssWith bsA masses q.preLo q.preHi).2
  rw [Bool.eq_iff_iff]
  simp only [Bool.and_eq_true, Bool.or_eq_true, decide_eq_true_eq]
  constructor
  · rintro ⟨⟨⟨h1, h2⟩, h3⟩, h4⟩
    refine ⟨⟨h3, h4⟩, ?_, ?_⟩
    · rcases h1 with h1 | ⟨_, h1⟩
      · exact ht.1 h1
      · exact h1
    · rcases h2 with h2 | ⟨_, h2⟩
      · have hle : pLo ≤ f.pep := by
          rcases h1 with h1 | ⟨h1, _⟩ <;> omega
        exact ht.2 hle h2
      · exact h2
  · rintro ⟨⟨h3, h4⟩, h5, h6⟩
    have := hc h5 h6
    refine ⟨⟨⟨?_, ?_⟩, h3⟩, h4⟩
    · by_cases he : f.pep = pLo
      · right; exact ⟨he, h5⟩
      · left; omega
    · left; exact this.2

end

section
variable [LinearOrder α]

/-- within one page: restricting to the index range found by the inner search loses nothing -/
theorem inner_exact (bsN : Array Nat → Nat → Nat) (hbsN : BsOk bsN) (s : List (Frag α)) (P : Frag α → Bool)
    (lo hi : Nat) (hs : SortedArr (s.map (·.pep)).toArray)
    (hP : ∀ f, P f = true → lo ≤ f.pep ∧ f.pep ≤ hi) :
    ((s.drop (bssWith bsN (s.map (·.pep)).toArray lo hi).1).take
        ((bssWith bsN (s.map (·.pep)).toArray lo hi).2 - (bssWith bsN (s.map (·.pep)).toArray lo hi).1)).filter P
      = s.filter P := by
  set keys := (s.map (·.pep)).toArray with hk
  set iL := (bssWith bsN keys lo hi).1
  set iR := (bssWith bsN keys lo hi).2
  have hle : iL ≤ iR := bssWith_fst_le_snd bsN hbsN keys hs lo hi
  have hkey : ∀ (i : Nat) (f : Frag α), s[i]? = some f → keys[i]? = some f.pep := by
    intro i f hf; simp [hk, hf]
  have hcov : ∀ (i : Nat) (f : Frag α), s[i]? = some f → P f = true → iL ≤ i ∧ i < iR := by
    intro i f hf hp
    have := hP f hp
    exact bssWith_covers bsN hbsN keys hs lo hi i f.pep (hkey i f hf) this.1 this.2
  -- decompose s
  have hdecomp : s = s.take iL ++ ((s.drop iL).take (iR - iL) ++ (s.drop iL).drop (iR - iL)) := by
    rw [List.take_append_drop, List.take_append_drop]
  conv_rhs => rw [hdecomp]
  rw [List.filter_append, List.filter_append]
  have h1 : (s.take iL).filter P = [] := by
    rw [List.filter_eq_nil_iff]
    intro f hf hp
    obtain ⟨i, hfi⟩ := List.mem_iff_getElem?.mp hf
    rw [List.getElem?_take] at hfi
    split at hfi
    · have := hcov i f hfi (by simpa using hp); omega
    · cases hfi
  have h2 : ((s.drop iL).drop (iR - iL)).filter P = [] := by
    rw [List.filter_eq_nil_iff]
    intro f hf hp
    obtain ⟨i, hfi⟩ := List.mem_iff_getElem?.mp hf
    rw [List.getElem?_drop, List.getElem?_drop] at hfi
    have := hcov _ f hfi (by simpa using hp); omega
  rw [h1, h2]; simp

theorem pageSearch_exact (bsA : Array α → α → Nat) (bsN : Array Nat → Nat → Nat) (hA : BsOk bsA) (hN : BsOk bsN)
    (masses minv : Array α) (frags : List (Frag α)) (B : Nat) (inv : DbInv masses minv frags B) (q : Q α) :
    pageSearch bsA bsN masses minv frags B q = frags.filter (inWin masses q) := by
  unfold pageSearch
  simp only
  set pre := bssWith bsA masses q.preLo q.preHi with hpre
  set pg := bssWith bsA minv q.fragLo q.fragHi with hpg
  -- step 1: each visited page contributes exactly its matching fragments
  have hpage : ∀ p, ((((slice frags B p).drop (bssWith bsN ((slice frags B p).map (·.pep)).toArray pre.1 pre.2).1).take
        ((bssWith bsN ((slice frags B p).map (·.pep)).toArray pre.1 pre.2).2 -
         (bssWith bsN ((slice frags B p).map (·.pep)).toArray pre.1 pre.2).1)).filter (edgeFilter masses q pre.1 pre.2))
      = (slice frags B p).filter (inWin masses q) := by
    intro p
    have hmem : ∀ f ∈ slice frags B p, f ∈ frags := by
      intro f hf; unfold slice at hf
      exact List.mem_of_mem_drop (List.mem_of_mem_take hf)
    have hcongr : ∀ (l : List (Frag α)), (∀ f ∈ l, f ∈ frags) →
        l.filter (edgeFilter masses q pre.1 pre.2) = l.filter (inWin masses q) := by
      intro l hl
      apply List.filter_congr
      intro f hf
      exact edgeFilter_eq_inWin bsA hA masses inv.massesSorted q f (inv.pepValid f (hl f hf))
    rw [hcongr _ (fun f hf => hmem f (List.mem_of_mem_drop (List.mem_of_mem_take hf)))]
    apply inner_exact bsN hN (slice frags B p) (inWin masses q) pre.1 pre.2 (inv.keysSorted p)
    intro f hf
    -- a matching fragment's peptide lies in the index window
    unfold inWin massOf at hf
    cases hm : masses[f.pep]? with
    | none => simp [hm] at hf
    | some m =>
      simp [hm] at hf
      have := bssWith_covers bsA hA masses inv.massesSorted q.preLo q.preHi f.pep m hm hf.2.1 hf.2.2
      rw [← hpre] at this
      omega
  simp only [hpage]
  -- step 2: the flat filter is the concatenation over all pages
  have hall : frags.filter (inWin masses q)
      = (List.range minv.size).flatMap (fun p => (slice frags B p).filter (inWin masses q)) := by
    conv_lhs => rw [← flatMap_chunks frags B minv.size inv.pages]
    rw [List.filter_flatMap]
    rfl
  rw [hall]
  have hle := bssWith_fst_le_snd bsA hA minv inv.minvSorted q.fragLo q.fragHi
  have hsz := bssWith_le bsA minv q.fragLo q.fragHi
  rw [range_split pg.1 pg.2 minv.size hle hsz, List.flatMap_append, List.flatMap_append]
  -- step 3: pages outside [pg.1, pg.2) contribute nothing
  have hbefore : (List.range pg.1).flatMap (fun p => (slice frags B p).filter (inWin masses q)) = [] := by
    rw [List.flatMap_eq_nil_iff]
    intro p hp
    rw [List.mem_range] at hp
    rw [List.filter_eq_nil_iff]
    intro f hf hw
    rcases bssWith_fst_exit bsA hA minv inv.minvSorted q.fragLo q.fragHi with h0 | ⟨x, hx, hxlo⟩
    · rw [← hpg] at h0; omega
    · rw [← hpg] at hx
      have hp1 : p + 1 < minv.size := by
        by_contra hc
        have : minv[pg.1]? = none := by simp; omega
        rw [this] at hx; cases hx
      have hm1 : minv[p+1]? = some minv[p+1] := by simp [hp1]
      have hup := inv.upper p f _ hf hm1
      have hs := inv.minvSorted (p+1) pg.1 _ _ (by omega) hm1 hx
      unfold inWin at hw
      simp only [Bool.and_eq_true, decide_eq_true_eq] at hw
      have := hw.1.1
      order
  have hafter : (List.range' pg.2 (minv.size - pg.2)).flatMap (fun p => (slice frags B p).filter (inWin masses q)) = [] := by
    rw [List.flatMap_eq_nil_iff]
    intro p hp
    rw [List.mem_range'_1] at hp
    rw [List.filter_eq_nil_iff]
    intro f hf hw
    rcases bssWith_snd_exit bsA minv q.fragLo q.fragHi with h0 | ⟨x, hx, hxhi⟩
    · rw [← hpg] at h0; omega
    · rw [← hpg] at hx
      have hpm : minv[p]? = some minv[p] := by
        have : p < minv.size := by omega
        simp [this]
      have hlo := inv.lower p f _ hf hpm
      have hs := inv.minvSorted pg.2 p _ _ (by omega) hx hpm
      unfold inWin at hw
      simp only [Bool.and_eq_true, decide_eq_true_eq] at hw
      have := hw.1.2
      order
  rw [hbefore, hafter]
  simp

#print axioms pageSearch_exact
end
