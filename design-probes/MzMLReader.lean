/-! Feasibility probe (design round): `MzMLReader::parse` as an event-level state machine.
Numbers are an abstract type `ν` (values arrive already parsed; a parse failure is `none`).
Core Lean only. `fixed := false` mirrors the code; `fixed := true` adds the resets the repair needs. -/

namespace MzML

inductive Tag | spectrum | scan | binaryDataArray | binary | precursor | selectedIon | other
deriving DecidableEq, Repr

inductive St | spectrum | scan | binaryDataArray | binary | precursor | selectedIon
deriving DecidableEq, Repr

inductive Cv
  | zlib | noCompression | f64 | f32 | mzArray | intensityArray | noiseArray
  | msLevel | profile | centroid | tic | scanStart | injectionTime
  | selMz | selInt | selCharge | isoLower | isoUpper | invMobility | other
deriving DecidableEq, Repr

inductive TimeUnit | seconds | minutes | other | absent
deriving DecidableEq, Repr

inductive Kind | mz | intensity | noise
deriving DecidableEq, Repr

/-- payload of a `<binary>` text node after unescape/base64/(zlib): -/
inductive Payload (ν : Type)
  | empty                          -- empty text: skipped
  | bad                            -- base64 / zlib / utf8 error
  | bytes (len : Nat) (as32 : List ν) (as64 : List ν)   -- the two readings of the same bytes
deriving DecidableEq, Repr

inductive Event (ν : Type)
  | start (t : Tag) (id : Option String) (spectrumRef : Option String)
  | cv (c : Cv) (value : Option ν) (unit : TimeUnit)      -- `<cvParam …/>`; `value = none`: missing/unparsable
  | text (p : Payload ν)
  | «end» (t : Tag)
deriving DecidableEq, Repr

structure Precursor (ν : Type) where
  mz : Option ν := none            -- `none` = 0.0
  intensity : Option ν := none
  charge : Option ν := none
  spectrumRef : Option String := none
  window : Option (ν × ν) := none  -- (lower offset, upper offset)
  mobility : Option ν := none
deriving DecidableEq, Repr

structure Spectrum (ν : Type) where
  id : String := ""
  level : Option ν := none         -- `none` = 0
  centroid : Bool := false
  tic : Option ν := none
  startTime : Option (ν × Bool) := none   -- (value, inSeconds)
  injection : Option ν := none
  precursors : List (Precursor ν) := []
  mz : List ν := []
  intensity : List ν := []
  noiseDivided : Bool := false
deriving DecidableEq, Repr

structure PState (ν : Type) where
  state : Option St := none
  compression : Bool := false
  dtype64 : Bool := true
  kind : Option Kind := none
  spectrum : Spectrum ν := {}
  precursor : Precursor ν := {}
  isoLo : Option ν := none
  isoHi : Option ν := none
  noise : List ν := []
  out : List (Spectrum ν) := []    -- reversed
deriving DecidableEq, Repr

inductive Outcome (ν : Type)
  | ok (spectra : List (Spectrum ν))
  | err                             -- `Err(MzMLError::…)`
  | panic
deriving DecidableEq, Repr

structure Config (ν : Type) where
  levelFilter : Option ν := none
  sn : Option ν := none
  fixed : Bool := false

variable {ν : Type} [DecidableEq ν]

def transStart (t : Tag) (s : Option St) : Option St :=
  match t, s with
  | .spectrum, _ => some .spectrum
  | .scan, some .spectrum => some .scan
  | .binaryDataArray, some .spectrum => some .binaryDataArray
  | .binary, some .binaryDataArray => some .binary
  | .precursor, some .spectrum => some .precursor
  | .selectedIon, some .precursor => some .selectedIon
  | _, s => s

/-- one event; `Sum.inr` aborts the parse with an error / a panic -/
def step (cfg : Config ν) (zero : ν) (s : PState ν) : Event ν → Sum (PState ν) (Outcome ν)
  | .start t id ref =>
    let s := { s with state := transStart t s.state }
    match t with
    | .spectrum =>
      match id with
      | none => .inr .err                                   -- `extract!(ev, b"id")` → Malformed
      | some i => .inl { s with spectrum := { s.spectrum with id := i } }
    | .precursor =>
      match ref with
      | some r => .inl { s with precursor := { s.precursor with spectrumRef := some r } }
      | none => .inl s
    | _ => .inl s
  | .cv c v u =>
    match s.state with
    | some .binaryDataArray =>
      match c with
      | .zlib => .inl { s with compression := true }
      | .noCompression => .inl { s with compression := false }
      | .f64 => .inl { s with dtype64 := true }
      | .f32 => .inl { s with dtype64 := false }
      | .intensityArray => .inl { s with kind := some .intensity }
      | .mzArray => .inl { s with kind := some .mz }
      | .noiseArray => .inl { s with kind := some .noise }
      | _ => .inl { s with kind := none }                   -- unknown accession resets the array kind
    | some .spectrum =>
      match c with
      | .msLevel =>
        match v with
        | none => .inr .err
        | some lv =>
          let drop := match cfg.levelFilter with | some f => decide (lv ≠ f) | none => false
          let s := if drop then { s with spectrum := {}, state := none } else s
          .inl { s with spectrum := { s.spectrum with level := some lv } }
      | .profile => .inl { s with spectrum := { s.spectrum with centroid := false } }
      | .centroid => .inl { s with spectrum := { s.spectrum with centroid := true } }
      | .tic =>
        match v with
        | none => .inr .err
        | some x =>
          if x = zero then .inl { s with spectrum := {}, state := none }
          else .inl { s with spectrum := { s.spectrum with tic := some x } }
      | _ => .inl s
    | some .precursor =>
      match c, v with
      | .isoLower, some x => .inl { s with isoLo := some x }
      | .isoUpper, some x => .inl { s with isoHi := some x }
      | .isoLower, none => .inr .err
      | .isoUpper, none => .inr .err
      | _, _ => .inl s
    | some .selectedIon =>
      match c, v with
      | .selCharge, some x => .inl { s with precursor := { s.precursor with charge := some x } }
      | .selMz, some x => .inl { s with precursor := { s.precursor with mz := some x } }
      | .selInt, some x => .inl { s with precursor := { s.precursor with intensity := some x } }
      | .invMobility, some x => .inl { s with precursor := { s.precursor with mobility := some x } }
      | .selCharge, none => .inr .err
      | .selMz, none => .inr .err
      | .selInt, none => .inr .err
      | .invMobility, none => .inr .err
      | _, _ => .inl s
    | some .scan =>
      match c, v with
      | .scanStart, some x =>
        match u with
        | .seconds => .inl { s with spectrum := { s.spectrum with startTime := some (x, true) } }
        | .minutes => .inl { s with spectrum := { s.spectrum with startTime := some (x, false) } }
        | _ => .inr .err
      | .scanStart, none => .inr .err
      | .injectionTime, some x => .inl { s with spectrum := { s.spectrum with injection := some x } }
      | .injectionTime, none => .inr .err
      | .invMobility, some x => .inl { s with precursor := { s.precursor with mobility := some x } }
      | .invMobility, none => .inr .err
      | _, _ => .inl s
    | _ => .inl s
  | .text p =>
    if s.state ≠ some .binary then .inl s else
    let skipLevel := match cfg.levelFilter with | some f => decide (s.spectrum.level ≠ some f) | none => false
    if skipLevel then .inl s else
    match p with
    | .empty => .inl s
    | .bad => if s.kind.isNone then .inl s else .inr .err
    | .bytes len a32 a64 =>
      match s.kind with
      | none => .inl s
      | some k =>
        if s.dtype64 ∧ len % 8 ≠ 0 ∧ ¬ cfg.fixed then .inr .panic      -- `copy_from_slice` on a short chunk
        else
          let arr := if s.dtype64 then a64 else a32
          let s := match k with
            | .intensity => { s with spectrum := { s.spectrum with intensity := arr } }
            | .mz => { s with spectrum := { s.spectrum with mz := arr } }
            | .noise => { s with noise := arr }
          .inl { s with kind := none }
  | .end t =>
    match s.state, t with
    | some .binary, .binary => .inl { s with state := some .binaryDataArray }
    | some .binaryDataArray, .binaryDataArray => .inl { s with state := some .spectrum }
    | some .selectedIon, .selectedIon => .inl { s with state := some .precursor }
    | some .precursor, .precursor =>
      let s := { s with state := some .spectrum }
      let s := match s.precursor.mz with
        | none => s
        | some m =>
          if m = zero then s else
          let w := match s.isoLo, s.isoHi with | some lo, some hi => some (lo, hi) | _, _ => none
          { s with spectrum := { s.spectrum with precursors := s.spectrum.precursors ++ [{ s.precursor with window := w }] },
                   precursor := {} }
      .inl (if cfg.fixed then { s with isoLo := none, isoHi := none } else s)
    | some .scan, .scan => .inl { s with state := some .spectrum }
    | _, .spectrum =>
      let allow := match cfg.levelFilter with | some f => decide (s.spectrum.level = some f) | none => true
      let useSn := match cfg.sn with | some l => decide (s.spectrum.level = some l) && !s.noise.isEmpty | none => false
      let sp := if useSn then { s.spectrum with noiseDivided := true } else s.spectrum
      let s' := { s with out := if allow then sp :: s.out else s.out,
                         noise := if allow && useSn then [] else s.noise,
                         spectrum := {}, state := none }
      .inl (if cfg.fixed then { s' with precursor := {}, isoLo := none, isoHi := none, noise := [] } else s')
    | _, _ => .inl s

def run (cfg : Config ν) (zero : ν) : PState ν → List (Event ν) → Outcome ν
  | s, [] => .ok s.out.reverse
  | s, e :: es =>
    match step cfg zero s e with
    | .inl s' => run cfg zero s' es
    | .inr o => o

def parse (cfg : Config ν) (zero : ν) (doc : List (Event ν)) : Outcome ν := run cfg zero {} doc

/-! ### the three leaks reproduced on the real code during the design round, replayed on the model -/

def cvp (c : Cv) (v : Nat) : Event Nat := .cv c (some v) .absent
def cv0 (c : Cv) : Event Nat := .cv c none .absent

/-- an MS2 spectrum with one precursor; `iso` = isolation-window params present -/
def ms2 (id : String) (iso : Bool) : List (Event Nat) :=
  [.start .spectrum (some id) none, cvp .msLevel 2, cv0 .centroid,
   .start .precursor none none] ++
  (if iso then [cvp .isoLower 15, cvp .isoUpper 7] else []) ++
  [.start .selectedIon none none, cvp .selMz 500, .end .selectedIon, .end .precursor,
   .end .spectrum]

def windowsOf : Outcome Nat → Option (List (List (Option (Nat × Nat))))
  | .ok sps => some (sps.map (fun sp => sp.precursors.map (·.window)))
  | _ => none

/-- (1) isolation window leaks into the next spectrum (code), and does not after the repair -/
theorem iso_window_leaks :
    windowsOf (parse {} 0 (ms2 "a" true ++ ms2 "b" false)) = some [[some (15, 7)], [some (15, 7)]] := by decide
theorem iso_window_fixed :
    windowsOf (parse { fixed := true } 0 (ms2 "a" true ++ ms2 "b" false)) = some [[some (15, 7)], [none]] := by decide

/-- (2) ion mobility of an MS1 `scan` leaks into the next MS2 precursor -/
def ms1Mobility : List (Event Nat) :=
  [.start .spectrum (some "ms1") none, cvp .msLevel 1, cv0 .centroid,
   .start .scan none none, .cv .scanStart (some 1) .minutes, cvp .invMobility 107, .end .scan, .end .spectrum]
def mobilityOf : Outcome Nat → Option (List (List (Option Nat)))
  | .ok sps => some (sps.map (fun sp => sp.precursors.map (·.mobility)))
  | _ => none
theorem mobility_leaks : mobilityOf (parse {} 0 (ms1Mobility ++ ms2 "b" false)) = some [[], [some 107]] := by decide
theorem mobility_fixed :
    mobilityOf (parse { fixed := true } 0 (ms1Mobility ++ ms2 "b" false)) = some [[], [none]] := by decide

/-- (3) TIC = 0 makes the reader emit a blank spectrum (empty id, level 0) -/
def ticZero : List (Event Nat) :=
  [.start .spectrum (some "zero") none, cvp .msLevel 2, cv0 .centroid, cvp .tic 0, .end .spectrum]
def idsOf : Outcome Nat → Option (List (String × Option Nat))
  | .ok sps => some (sps.map (fun sp => (sp.id, sp.level)))
  | _ => none
theorem tic_zero_blank : idsOf (parse {} 0 ticZero) = some [("", none)] := by decide

/-- (4) 64-bit payload whose length is not a multiple of 8: panic (code) vs value (repair) -/
def oddPayload : List (Event Nat) :=
  [.start .spectrum (some "a") none, cvp .msLevel 2,
   .start .binaryDataArray none none, cv0 .mzArray, cv0 .f64, cv0 .noCompression,
   .start .binary none none, .text (.bytes 10 [1, 2] [1]), .end .binary, .end .binaryDataArray, .end .spectrum]
theorem odd_payload_panics : parse {} 0 oddPayload = .panic := by decide
theorem odd_payload_fixed : (match parse { fixed := true } 0 oddPayload with | .ok _ => true | _ => false) = true := by decide


/-- (5) seen in the source, not yet replayed on the real code: a precursor without selected-ion
m/z is not pushed *and not reset*, so its charge leaks into the next spectrum's precursor -/
def noMzPrecursor : List (Event Nat) :=
  [.start .spectrum (some "a") none, cvp .msLevel 2, .start .precursor none none,
   .start .selectedIon none none, cvp .selCharge 3, .end .selectedIon, .end .precursor, .end .spectrum]
def chargesOf : Outcome Nat → Option (List (List (Option Nat)))
  | .ok sps => some (sps.map (fun sp => sp.precursors.map (·.charge)))
  | _ => none
theorem unpushed_precursor_leaks :
    chargesOf (parse {} 0 (noMzPrecursor ++ ms2 "b" false)) = some [[], [some 3]] := by decide
theorem unpushed_precursor_fixed :
    chargesOf (parse { fixed := true } 0 (noMzPrecursor ++ ms2 "b" false)) = some [[], [none]] := by decide

/-- (6) likewise: with S/N requested for level 3, a noise array read in a level-2 spectrum survives
and divides the intensities of the next level-3 spectrum that has no noise array of its own -/
def withNoise (id : String) (level : Nat) (noise : Bool) : List (Event Nat) :=
  [.start .spectrum (some id) none, cvp .msLevel level] ++
  (if noise then
    [.start .binaryDataArray none none, cv0 .noiseArray, cv0 .f32, cv0 .noCompression,
     .start .binary none none, .text (.bytes 8 [4, 5] [9]), .end .binary, .end .binaryDataArray]
   else []) ++ [.end .spectrum]
def dividedOf : Outcome Nat → Option (List Bool)
  | .ok sps => some (sps.map (·.noiseDivided))
  | _ => none
theorem noise_leaks :
    dividedOf (parse { sn := some 3 } 0 (withNoise "a" 2 true ++ withNoise "b" 3 false)) = some [false, true] := by decide
theorem noise_fixed :
    dividedOf (parse { sn := some 3, fixed := true } 0 (withNoise "a" 2 true ++ withNoise "b" 3 false))
      = some [false, false] := by decide

end MzML
