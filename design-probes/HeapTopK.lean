import Mathlib.Order.Defs.LinearOrder
import Mathlib.Tactic.Order
import Mathlib.Tactic.Set

/-! Feasibility probe from the design round (not part of the machinery): swap-level model of
`heap.rs::bounded_min_heapify` and a complete proof of the top-k property for 0 < k < len,
arbitrary linear order. `lean HeapTopK.lean` checks it (Lean 4.33 + Mathlib on the search path). -/

variable {α : Type} [LinearOrder α]

def lt? (a : Array α) (c s : Nat) : Bool :=
  match a[c]?, a[s]? with
  | some x, some y => decide (x < y)
  | _, _ => false

def smaller (a : Array α) (k c s : Nat) : Nat := if c < k ∧ lt? a c s then c else s

def siftDown (a : Array α) (k : Nat) : Nat → Nat → Array α
  | _, 0 => a
  | i, fuel+1 =>
    if 2*i+1 < k then
      let s := smaller a k (2*i+2) (smaller a k (2*i+1) i)
      if s ≠ i then siftDown (a.swapIfInBounds s i) k s fuel else a
    else a

def le? (a : Array α) (p c : Nat) : Prop := ∀ x y, a[p]? = some x → a[c]? = some y → x ≤ y

/-- all heap edges whose parent index is ≥ m hold -/
def HeapFrom (a : Array α) (k m : Nat) : Prop := ∀ j, 0 < j → j < k → m ≤ (j-1)/2 → le? a ((j-1)/2) j
def Heap (a : Array α) (k : Nat) : Prop := HeapFrom a k 0

/-- `HeapFrom` except that `i` may exceed its children; grandparent of i's children is fine -/
def HeapEx (a : Array α) (k m i : Nat) : Prop :=
  (∀ j, 0 < j → j < k → m ≤ (j-1)/2 → (j-1)/2 ≠ i → le? a ((j-1)/2) j) ∧
  (∀ j, 0 < j → j < k → (j-1)/2 = i → 0 < i → m ≤ (i-1)/2 → le? a ((i-1)/2) j)

theorem lt?_true (a : Array α) (c s : Nat) (h : lt? a c s = true) :
    ∃ x y, a[c]? = some x ∧ a[s]? = some y ∧ x < y := by
  unfold lt? at h
  cases hx : a[c]? <;> cases hy : a[s]? <;> simp [hx, hy] at h
  exact ⟨_, _, rfl, rfl, h⟩

theorem lt?_false (a : Array α) (c s : Nat) (h : lt? a c s = false) : le? a s c := by
  intro y x hy hx
  unfold lt? at h
  simp [hx, hy] at h
  exact h

/-- reading after a swap, as a total statement on `?` reads -/
theorem get_swap (a : Array α) (s i n : Nat) (hs : s < a.size) (hi : i < a.size) :
    (a.swapIfInBounds s i)[n]? = if n = s then a[i]? else if n = i then a[s]? else a[n]? := by
  rw [Array.swapIfInBounds_def]
  simp only [hs, hi, ↓reduceDIte]
  rw [Array.getElem?_swap]
  grind

theorem siftDown_heap (m : Nat) (f : Nat) : ∀ (a : Array α) (k i : Nat), k ≤ a.size → i < k → m ≤ i → k ≤ i + f + 1 →
    HeapEx a k m i → HeapFrom (siftDown a k i f) k m := by
  induction f with
  | zero =>
    intro a k i hk hi hmi hf h j hj0 hjk hmj
    simp only [siftDown]
    exact h.1 j hj0 hjk hmj (by omega)
  | succ f ih =>
    intro a k i hk hi hmi hf h
    unfold siftDown
    by_cases hl : 2*i+1 < k
    · simp only [hl, ↓reduceIte]
      -- name the choices
      generalize hs1 : smaller a k (2*i+1) i = s1
      generalize hs2 : smaller a k (2*i+2) s1 = s
      have hs1c : (s1 = i ∧ le? a i (2*i+1)) ∨ (s1 = 2*i+1 ∧ ∃ x y, a[2*i+1]? = some x ∧ a[i]? = some y ∧ x < y) := by
        unfold smaller at hs1
        by_cases hc : lt? a (2*i+1) i = true
        · right; simp [hl, hc] at hs1; exact ⟨hs1.symm, lt?_true _ _ _ hc⟩
        · left; simp [hc] at hs1; exact ⟨hs1.symm, lt?_false _ _ _ (by simpa using hc)⟩
      have hs2c : (s = s1 ∧ (2*i+2 < k → le? a s1 (2*i+2))) ∨ (s = 2*i+2 ∧ 2*i+2 < k ∧ ∃ x y, a[2*i+2]? = some x ∧ a[s1]? = some y ∧ x < y) := by
        unfold smaller at hs2
        by_cases hc : 2*i+2 < k ∧ lt? a (2*i+2) s1 = true
        · right; simp [hc] at hs2; exact ⟨hs2.symm, hc.1, lt?_true _ _ _ hc.2⟩
        · left; simp [hc] at hs2
          refine ⟨hs2.symm, fun h2 => lt?_false _ _ _ ?_⟩
          by_contra hne; exact hc ⟨h2, by simpa using hne⟩
      by_cases hsi : s = i
      · -- no swap: i ≤ both children
        simp only [hsi, ne_eq, not_true_eq_false, ↓reduceIte]
        have hs1i : s1 = i := by
          rcases hs2c with ⟨h1, _⟩ | ⟨h1, _⟩
          · omega
          · omega
        intro j hj0 hjk hmj
        by_cases hp : (j-1)/2 = i
        · have hj : j = 2*i+1 ∨ j = 2*i+2 := by omega
          rcases hj with rfl | rfl
          · rcases hs1c with ⟨_, h1⟩ | ⟨h1, _⟩
            · rw [hp]; exact h1
            · omega
          · rcases hs2c with ⟨_, h2⟩ | ⟨h2, _⟩
            · rw [hp]; rw [hs1i] at h2; exact h2 hjk
            · omega
        · exact h.1 j hj0 hjk hmj hp
      · simp only [ne_eq, hsi, not_false_eq_true, ↓reduceIte]
        -- s is a child of i, in range, strictly smaller than a[i], and ≤ its sibling
        have hsk : s < k := by
          rcases hs2c with ⟨h1, _⟩ | ⟨h1, h2, _⟩
          · rcases hs1c with ⟨h3, _⟩ | ⟨h3, _⟩ <;> omega
          · omega
        have hchild : s = 2*i+1 ∨ s = 2*i+2 := by
          rcases hs2c with ⟨h1, _⟩ | ⟨h1, _⟩
          · rcases hs1c with ⟨h3, _⟩ | ⟨h3, _⟩ <;> omega
          · omega
        have hsa : s < a.size := by omega
        have hia : i < a.size := by omega
        -- a[s] < a[i]
        have hlt : ∃ x y, a[s]? = some x ∧ a[i]? = some y ∧ x < y := by
          rcases hs2c with ⟨h1, _⟩ | ⟨h1, _, x, y, hx, hy, hxy⟩
          · rcases hs1c with ⟨h3, _⟩ | ⟨h3, hh⟩
            · omega
            · rw [h1, h3]; exact hh
          · rcases hs1c with ⟨h3, hle⟩ | ⟨h3, x', y', hx', hy', hxy'⟩
            · rw [h3] at hy; exact ⟨x, y, by rw [h1]; exact hx, hy, hxy⟩
            · rw [h3] at hy; rw [hx'] at hy; cases hy
              exact ⟨x, y', by rw [h1]; exact hx, hy', by order⟩
        -- a[s] ≤ the other child (when it exists)
        have hsib : ∀ c, (c = 2*i+1 ∨ c = 2*i+2) → c < k → le? a s c := by
          intro c hc hck
          rcases hs2c with ⟨h1, hle2⟩ | ⟨h1, _, x, y, hx, hy, hxy⟩
          · rcases hs1c with ⟨h3, _⟩ | ⟨h3, x', y', hx', hy', hxy'⟩
            · omega
            · rcases hc with rfl | rfl
              · rw [h1, h3]; intro u v hu hv; rw [hu] at hv; cases hv; exact le_refl _
              · rw [h1]; exact hle2 hck
          · rcases hc with rfl | rfl
            · rcases hs1c with ⟨h3, hle⟩ | ⟨h3, x', y', hx', hy', hxy'⟩
              · -- s1 = i : a[2i+2] < a[i] ≤ a[2i+1]
                rw [h3] at hy
                intro u v hu hv
                rw [h1] at hu; rw [hx] at hu; cases hu
                have := hle y v hy hv; order
              · rw [h3] at hy
                intro u v hu hv
                rw [h1] at hu; rw [hx] at hu; cases hu
                rw [hy] at hv; cases hv; order
            · rw [h1]; intro u v hu hv; rw [hu] at hv; cases hv; exact le_refl _
        apply ih _ k s (by simpa using hk) hsk (by omega) (by omega)
        obtain ⟨xs, xi, hxs, hxi, hxsi⟩ := hlt
        constructor
        · intro j hj0 hjk hmj hp u v hu hv
          rw [get_swap a s i _ hsa hia] at hu hv
          by_cases hji : (j-1)/2 = i
          · -- j is a child of i : new a'[i] = old a[s]
            have hjc : j = 2*i+1 ∨ j = 2*i+2 := by omega
            have hne : (j-1)/2 ≠ s := hp
            simp only [hji] at hu
            have : i ≠ s := by omega
            simp only [this, ↓reduceIte] at hu
            rw [hxs] at hu; cases hu
            by_cases hjs : j = s
            · simp only [hjs, ↓reduceIte] at hv; rw [hxi] at hv; cases hv; order
            · have : j ≠ i := by omega
              simp only [hjs, this, ↓reduceIte] at hv
              exact hsib j hjc hjk _ _ hxs hv
          · by_cases hj_i : j = i
            · -- j = i : parent is the grandparent of s; a'[i] = a[s]
              subst hj_i
              have hp0 : 0 < j := hj0
              have h1 : (j-1)/2 ≠ s := hp
              have h2 : (j-1)/2 ≠ j := by omega
              simp only [h1, h2, ↓reduceIte] at hu
              have : j ≠ s := by omega
              simp only [this, ↓reduceIte] at hv
              rw [hxs] at hv; cases hv
              exact h.2 s (by omega) hsk (by omega) hp0 hmj _ _ hu hxs
            · have h1 : (j-1)/2 ≠ s := hp
              have h3 : j ≠ s := by omega
              simp only [h1, hji, h3, hj_i, ↓reduceIte] at hu hv
              exact h.1 j hj0 hjk hmj hji _ _ hu hv
        · intro j hj0 hjk hp hs0 hms u v hu hv
          rw [get_swap a s i _ hsa hia] at hu hv
          have hpi : (s-1)/2 = i := by omega
          rw [hpi] at hu
          have : i ≠ s := by omega
          simp only [this, ↓reduceIte] at hu
          rw [hxs] at hu; cases hu
          have h3 : j ≠ s := by omega
          have h4 : j ≠ i := by omega
          simp only [h3, h4, ↓reduceIte] at hv
          have hh := h.1 j hj0 hjk (by omega) (by omega : (j-1)/2 ≠ i)
          rw [hp] at hh
          exact hh _ _ hxs hv
    · simp only [hl, ↓reduceIte]
      intro j hj0 hjk hmj
      exact h.1 j hj0 hjk hmj (by omega)

#print axioms siftDown_heap

/-- `for i in (0..k/2).rev() { sift_down(&mut slice[..k], i) }` -/
def buildHeap (a : Array α) (k : Nat) : Nat → Array α
  | 0 => a
  | n+1 => buildHeap (siftDown a k n k) k n

theorem size_siftDown (a : Array α) (k i f : Nat) : (siftDown a k i f).size = a.size := by
  induction f generalizing a i with
  | zero => rfl
  | succ f ih =>
    unfold siftDown
    split
    · simp only []; split
      · rw [ih]; simp
      · rfl
    · rfl

theorem buildHeap_heap (n : Nat) : ∀ (a : Array α) (k : Nat), k ≤ a.size → n ≤ k →
    HeapFrom a k n → Heap (buildHeap a k n) k := by
  induction n with
  | zero => intro a k _ _ h; exact h
  | succ n ih =>
    intro a k hk hn h
    unfold buildHeap
    apply ih _ k (by rw [size_siftDown]; exact hk) (by omega)
    apply siftDown_heap n k a k n hk (by omega) (le_refl _) (by omega)
    constructor
    · intro j hj0 hjk hmj hne
      exact h j hj0 hjk (by omega)
    · intro j hj0 hjk hp hn0 hm
      omega

theorem buildHeap_init (a : Array α) (k : Nat) : HeapFrom a k (k/2) := by
  intro j hj0 hjk hm
  omega

/-- in a heap the root is a minimum of the prefix -/
theorem root_min (a : Array α) (k : Nat) (hk : k ≤ a.size) (h : Heap a k) :
    ∀ j, j < k → le? a 0 j := by
  intro j
  induction j using Nat.strong_induction_on with
  | _ j ih =>
    intro hjk
    by_cases hj0 : j = 0
    · subst hj0; intro x y hx hy; rw [hx] at hy; cases hy; exact le_refl _
    · have hp := ih ((j-1)/2) (by omega) (by omega)
      have he := h j (by omega) hjk (by omega)
      intro x y hx hy
      have hpa : (j-1)/2 < a.size := by omega
      have : a[(j-1)/2]? = some a[(j-1)/2] := by simp [hpa]
      have h1 := hp x _ hx this
      have h2 := he _ y this hy
      order

#print axioms buildHeap_heap
#print axioms root_min

/-! ### the scan loop and the top-k theorem -/

theorem smaller_lt (a : Array α) (k c s : Nat) (hs : s < k) : smaller a k c s < k := by
  unfold smaller; split <;> omega

/-- positions outside `i`'s reach are untouched; generally: any position-wise predicate on the
prefix is preserved, and positions ≥ k are unchanged -/
theorem siftDown_outside (f : Nat) : ∀ (a : Array α) (k i n : Nat), k ≤ a.size → i < k → k ≤ n →
    (siftDown a k i f)[n]? = a[n]? := by
  induction f with
  | zero => intros; rfl
  | succ f ih =>
    intro a k i n hk hi hn
    unfold siftDown
    split
    · simp only []
      have hs : smaller a k (2*i+2) (smaller a k (2*i+1) i) < k := smaller_lt _ _ _ _ (smaller_lt _ _ _ _ hi)
      split
      · rw [ih _ k _ n (by simpa using hk) hs hn, get_swap a _ i n (by omega) (by omega)]
        have h1 : n ≠ smaller a k (2*i+2) (smaller a k (2*i+1) i) := by omega
        have h2 : n ≠ i := by omega
        simp [h1, h2]
      · rfl
    · rfl

theorem siftDown_prefix (P : α → Prop) (f : Nat) : ∀ (a : Array α) (k i : Nat), k ≤ a.size → i < k →
    (∀ j x, j < k → a[j]? = some x → P x) → ∀ j x, j < k → (siftDown a k i f)[j]? = some x → P x := by
  induction f with
  | zero => intro a k i _ _ h; exact h
  | succ f ih =>
    intro a k i hk hi h
    unfold siftDown
    split
    · simp only []
      have hs : smaller a k (2*i+2) (smaller a k (2*i+1) i) < k := smaller_lt _ _ _ _ (smaller_lt _ _ _ _ hi)
      split
      · apply ih _ k _ (by simpa using hk) hs
        intro j x hj hx
        rw [get_swap a _ i j (by omega) (by omega)] at hx
        split at hx
        · exact h i x hi hx
        · split at hx
          · exact h _ x hs hx
          · exact h j x hj hx
      · exact h
    · exact h

def scanLoop (a : Array α) (k : Nat) : Nat → Nat → Array α
  | _, 0 => a
  | i, f+1 =>
    if i < a.size then
      if lt? a 0 i then scanLoop (siftDown (a.swapIfInBounds i 0) k 0 k) k (i+1) f
      else scanLoop a k (i+1) f
    else a

def ScanInv (a : Array α) (k i : Nat) : Prop :=
  Heap a k ∧ ∀ j, k ≤ j → j < i → le? a j 0

theorem size_scanLoop (f : Nat) : ∀ (a : Array α) (k i : Nat), (scanLoop a k i f).size = a.size := by
  induction f with
  | zero => intros; rfl
  | succ f ih =>
    intro a k i
    unfold scanLoop
    split
    · split
      · rw [ih, size_siftDown]; simp
      · rw [ih]
    · rfl

theorem scanLoop_inv (f : Nat) : ∀ (a : Array α) (k i : Nat), 0 < k → k ≤ a.size → k ≤ i → a.size ≤ i + f →
    ScanInv a k i → ScanInv (scanLoop a k i f) k a.size := by
  induction f with
  | zero =>
    intro a k i _ _ _ hf h
    simp only [scanLoop]
    exact ⟨h.1, fun j hkj hj => h.2 j hkj (by omega)⟩
  | succ f ih =>
    intro a k i hk0 hk hki hf h
    unfold scanLoop
    by_cases hi : i < a.size
    · simp only [hi, ↓reduceIte]
      by_cases hgt : lt? a 0 i = true
      · simp only [hgt, ↓reduceIte]
        obtain ⟨r, v, hr, hv, hrv⟩ := lt?_true _ _ _ hgt
        set a' := a.swapIfInBounds i 0 with ha'
        have hsz : a'.size = a.size := by simp [ha']
        have hrd : ∀ n, a'[n]? = if n = i then a[0]? else if n = 0 then a[i]? else a[n]? :=
          fun n => get_swap a i 0 n hi (by omega)
        have hres := ih (siftDown a' k 0 k) k (i+1) hk0 (by rw [size_siftDown, hsz]; exact hk) (by omega)
          (by rw [size_siftDown, hsz]; omega)
        rw [size_siftDown, hsz] at hres
        apply hres
        -- old root r is a lower bound of the new prefix
        have hlb : ∀ j x, j < k → a'[j]? = some x → r ≤ x := by
          intro j x hj hx
          rw [hrd] at hx
          have : j ≠ i := by omega
          simp only [this, ↓reduceIte] at hx
          split at hx
          · rw [hv] at hx; cases hx; order
          · exact root_min a k hk h.1 j hj r x hr hx
        constructor
        · -- heap restored
          apply siftDown_heap 0 k a' k 0 (by omega) hk0 (le_refl _) (by omega)
          constructor
          · intro j hj0 hjk _ hne u w hu hw
            rw [hrd] at hu hw
            have h1 : (j-1)/2 ≠ i := by omega
            have h2 : j ≠ i := by omega
            have h3 : j ≠ 0 := by omega
            simp only [h1, hne, h2, h3, ↓reduceIte] at hu hw
            exact h.1 j hj0 hjk (by omega) u w hu hw
          · intro j _ _ _ h0; omega
        · -- dropped elements ≤ new root
          intro j hkj hji u w hu hw
          have hroot : r ≤ w := siftDown_prefix (fun x => r ≤ x) k a' k 0 (by omega) hk0 hlb 0 w hk0 hw
          rw [siftDown_outside k a' k 0 j (by omega) hk0 hkj, hrd] at hu
          by_cases hj : j = i
          · simp only [hj, ↓reduceIte] at hu; rw [hr] at hu; cases hu; exact hroot
          · have : j ≠ 0 := by omega
            simp only [hj, this, ↓reduceIte] at hu
            have := h.2 j hkj (by omega) u r hu hr
            order
      · simp only [hgt, Bool.false_eq_true, ↓reduceIte]
        apply ih a k (i+1) hk0 hk (by omega) (by omega)
        refine ⟨h.1, fun j hkj hji => ?_⟩
        by_cases hj : j = i
        · subst hj; exact lt?_false _ _ _ (by simpa using hgt)
        · exact h.2 j hkj (by omega)
    · simp only [hi, ↓reduceIte]
      exact ⟨h.1, fun j hkj hj => h.2 j hkj (by omega)⟩

/-- `bounded_min_heapify` for `0 < k < len` -/
def boundedMinHeapify (a : Array α) (k : Nat) : Array α :=
  if a.size ≤ k then a else scanLoop (buildHeap a k (k/2)) k k (a.size - k)

theorem size_buildHeap (n : Nat) : ∀ (a : Array α) (k : Nat), (buildHeap a k n).size = a.size := by
  induction n with
  | zero => intros; rfl
  | succ n ih => intro a k; unfold buildHeap; rw [ih, size_siftDown]

/-- every element kept in the first `k` slots is ≥ every element after them -/
theorem heapify_topk (a : Array α) (k : Nat) (hk0 : 0 < k) (hk : k < a.size) :
    ∀ t j x y, t < k → k ≤ j → (boundedMinHeapify a k)[t]? = some x → (boundedMinHeapify a k)[j]? = some y → y ≤ x := by
  intro t j x y ht hj hx hy
  unfold boundedMinHeapify at hx hy
  have hnot : ¬ a.size ≤ k := by omega
  simp only [hnot, ↓reduceIte] at hx hy
  set b := buildHeap a k (k/2) with hb
  have hbs : b.size = a.size := size_buildHeap _ _ _
  have hbh : Heap b k := buildHeap_heap (k/2) a k (by omega) (by omega) (buildHeap_init a k)
  have hinv := scanLoop_inv (a.size - k) b k k hk0 (by omega) (le_refl _) (by omega)
    ⟨hbh, fun j h1 h2 => by omega⟩
  set c := scanLoop b k k (a.size - k) with hc
  have hcs : c.size = a.size := by rw [hc, size_scanLoop, hbs]
  rw [hbs] at hinv
  have hj' : j < a.size := by
    by_contra hge
    have : c[j]? = none := by simp; omega
    rw [this] at hy; cases hy
  have h0 : 0 < c.size := by omega
  have hroot : c[0]? = some c[0] := by simp [h0]
  have h1 := hinv.2 j hj hj' y _ hy hroot
  have h2 := root_min c k (by omega) hinv.1 t ht _ x hroot hx
  order

#print axioms heapify_topk
