/-! Feasibility probe (design round): MGF reader as a line-level state machine, with the code's
behaviour (`fixed := false`) and the intended repair (`fixed := true`) side by side.
Core Lean only. `ν` = numeric token (the harness parses token text with `str::parse::<f32>`). -/

namespace Mgf

inductive Tok (ν : Type) where
  | absent | ok (v : ν) | bad
deriving DecidableEq, Repr

inductive Line (ν : Type) where
  | beginIons | endIons
  | title (s : String)
  | pepmass (mz : Tok ν) (int : Tok ν)
  | charge (cs : List Nat)
  | tol (v : Tok ν)
  | tolu (s : String)
  | rt (v : Tok ν)
  | peak (mz : Tok ν) (int : Tok ν)
  | other
deriving DecidableEq, Repr

structure Defaults (ν : Type) where
  tol : Option ν := none
  tolu : Option String := none
  charges : Option (List Nat) := none
deriving DecidableEq, Repr

structure Prec (ν : Type) where
  mz : Option ν            -- `none` = the default 0.0 (PEPMASS= with no value)
  intensity : Option ν
  charge : Option Nat := none
  window : Option (String × ν) := none   -- (unit, |tol|)
deriving DecidableEq, Repr

structure Cur (ν : Type) where
  id : String := ""
  precs : List (Prec ν) := []
  tol : Option ν := none
  tolu : Option String := none
  charges : Option (List Nat) := none
  rt : Option ν := none
  mzs : List ν := []
  ints : List (Option ν) := []     -- `none` = intensity omitted → 1.0
deriving DecidableEq, Repr

structure Spectrum (ν : Type) where
  id : String
  precs : List (Prec ν)
  rt : Option ν
  mzs : List ν
  ints : List (Option ν)
deriving DecidableEq, Repr

variable {ν : Type}

/-- `QueryData::init` -/
def initCur (d : Defaults ν) : Cur ν := { tol := d.tol, tolu := d.tolu, charges := d.charges }

/-- header parsers, in the code's order: begin, tol, tolu, charge -/
def hstep (d : Defaults ν) : Line ν → Defaults ν
  | .tol (.ok v) => { d with tol := some v }
  | .tolu s => { d with tolu := some s }
  | .charge cs => { d with charges := some cs }
  | _ => d

/-- header phase: `none` = the `lines.next().unwrap()` panic (no BEGIN IONS) -/
def header : Defaults ν → List (Line ν) → Option (Defaults ν × List (Line ν))
  | _, [] => none
  | d, .beginIons :: rest => some (d, rest)
  | d, l :: rest => header (hstep d l) rest

def window (c : Cur ν) : Option (String × ν) :=
  match c.tol, c.tolu with
  | some t, some "Da" => some ("Da", t)
  | some t, some "ppm" => some ("ppm", t)
  | _, _ => none

def build (c : Cur ν) : Option (Spectrum ν) :=
  let w := window c
  let ps := c.precs.flatMap fun p =>
    match c.charges with
    | some cs => cs.map fun z => { p with window := w, charge := some z }
    | none => [{ p with window := w }]
  if c.id ≠ "" ∧ ps ≠ [] ∧ c.mzs ≠ [] ∧ c.mzs.length = c.ints.length then
    some { id := c.id, precs := ps, rt := c.rt, mzs := c.mzs, ints := c.ints }
  else none

structure QState (ν : Type) where
  d : Defaults ν
  cur : Cur ν
  out : List (Spectrum ν) := []     -- reversed

def pushOpt {σ : Type} (o : Option σ) (out : List σ) : List σ :=
  match o with
  | some sp => sp :: out
  | none => out

/-- query parsers in the code's order: mz, end, pepmass, title, charge, tol, tolu, rt -/
def qstep (s : QState ν) : Line ν → QState ν
  | .peak (.ok m) (.ok i) => { s with cur := { s.cur with mzs := s.cur.mzs ++ [m], ints := s.cur.ints ++ [some i] } }
  | .peak (.ok m) .absent => { s with cur := { s.cur with mzs := s.cur.mzs ++ [m], ints := s.cur.ints ++ [none] } }
  | .peak (.ok m) .bad => { s with cur := { s.cur with mzs := s.cur.mzs ++ [m] } }   -- arrays now differ in length
  | .peak _ _ => s                                                                      -- Err(Malformed), ignored
  | .endIons => { s with cur := initCur s.d, out := pushOpt (build s.cur) s.out }
  | .pepmass .bad _ => s
  | .pepmass mz int =>
    let m := match mz with | .ok v => some v | _ => none
    let i := match int with | .ok v => some v | _ => none
    { s with cur := { s.cur with precs := s.cur.precs ++ [{ mz := m, intensity := i }] } }
  | .title t => { s with cur := { s.cur with id := t } }
  | .charge cs => { s with cur := { s.cur with charges := some cs } }
  | .tol (.ok v) => { s with cur := { s.cur with tol := some v } }
  | .tolu u => { s with cur := { s.cur with tolu := some u } }
  | .rt (.ok v) => { s with cur := { s.cur with rt := some v } }
  | _ => s

/-- the whole reader. `fixed = false`: the first block starts from `Cur::default()` as in the code;
`fixed = true`: it starts from the header defaults, and a missing BEGIN IONS yields `[]`. -/
def parse (fixed : Bool) (doc : List (Line ν)) : Option (List (Spectrum ν)) :=
  match header {} doc with
  | none => if fixed then some [] else none
  | some (d, rest) =>
    let c0 : Cur ν := if fixed then initCur d else {}
    some ((rest.foldl qstep { d := d, cur := c0 }).out.reverse)

/-! ### specification: what one block means, given the header -/

def defaultsOf (h : List (Line ν)) : Defaults ν := h.foldl hstep {}

def IsHeaderLine : Line ν → Prop
  | .beginIons => False
  | _ => True

def IsBodyLine : Line ν → Prop
  | .beginIons => False
  | .endIons => False
  | _ => True

/-- denotation of one block body -/
def denote (d : Defaults ν) (body : List (Line ν)) : Option (Spectrum ν) :=
  build (body.foldl qstep { d := d, cur := initCur d }).cur

/-- a document: header lines, then blocks `BEGIN IONS … END IONS` -/
def render (h : List (Line ν)) (blocks : List (List (Line ν))) : List (Line ν) :=
  h ++ blocks.flatMap (fun b => .beginIons :: b ++ [.endIons])

/-! ### theorems -/

theorem header_skip (d : Defaults ν) (h rest : List (Line ν)) (hh : ∀ l ∈ h, IsHeaderLine l) :
    header d (h ++ .beginIons :: rest) = some (h.foldl hstep d, rest) := by
  induction h generalizing d with
  | nil => rfl
  | cons l h ih =>
    have hl := hh l (by simp)
    have := ih (hstep d l) (fun l' hl' => hh l' (by simp [hl']))
    cases l <;> simp_all [header, IsHeaderLine]

/-- body lines never touch `d` or `out` -/
theorem body_fold (s : QState ν) (body : List (Line ν)) (hb : ∀ l ∈ body, IsBodyLine l) :
    (body.foldl qstep s).d = s.d ∧ (body.foldl qstep s).out = s.out := by
  induction body generalizing s with
  | nil => exact ⟨rfl, rfl⟩
  | cons l body ih =>
    have hl := hb l (by simp)
    have h2 := ih (qstep s l) (fun l' hl' => hb l' (by simp [hl']))
    simp only [List.foldl_cons]
    have : (qstep s l).d = s.d ∧ (qstep s l).out = s.out := by
      unfold qstep
      cases l <;> simp_all [IsBodyLine] <;> (split <;> simp_all)
    exact ⟨h2.1.trans this.1, h2.2.trans this.2⟩

/-- folding a body depends on the state only through `cur` -/
theorem body_cur (s s' : QState ν) (body : List (Line ν)) (hb : ∀ l ∈ body, IsBodyLine l)
    (hc : s.cur = s'.cur) : (body.foldl qstep s).cur = (body.foldl qstep s').cur := by
  induction body generalizing s s' with
  | nil => exact hc
  | cons l body ih =>
    simp only [List.foldl_cons]
    apply ih _ _ (fun l' hl' => hb l' (by simp [hl']))
    have hl := hb l (by simp)
    unfold qstep
    cases l <;> simp_all [IsBodyLine] <;> (split <;> simp_all)


/-- processing the blocks from a state whose `cur` is the re-initialised one -/
theorem blocks_fold (d : Defaults ν) (out : List (Spectrum ν)) (blocks : List (List (Line ν)))
    (hb : ∀ b ∈ blocks, ∀ l ∈ b, IsBodyLine l) :
    let s := (blocks.flatMap (fun b => .beginIons :: b ++ [.endIons])).foldl qstep
                { d := d, cur := initCur d, out := out }
    s.d = d ∧ s.cur = initCur d ∧ s.out = (blocks.filterMap (denote d)).reverse ++ out := by
  induction blocks generalizing out with
  | nil => simp
  | cons b blocks ih =>
    simp only [List.flatMap_cons, List.cons_append, List.append_assoc, List.foldl_cons, List.foldl_append,
      List.foldl_nil]
    -- BEGIN IONS inside the query phase is ignored
    have hbegin : qstep ({ d := d, cur := initCur d, out := out } : QState ν) .beginIons
        = { d := d, cur := initCur d, out := out } := rfl
    rw [hbegin]
    have hbody := hb b (by simp)
    obtain ⟨h1, h2⟩ := body_fold ({ d := d, cur := initCur d, out := out } : QState ν) b hbody
    have hcur := body_cur ({ d := d, cur := initCur d, out := out } : QState ν) { d := d, cur := initCur d } b hbody rfl
    -- END IONS
    generalize hsb : b.foldl qstep ({ d := d, cur := initCur d, out := out } : QState ν) = sb at h1 h2 hcur ⊢
    have hend : qstep sb .endIons = { d := d, cur := initCur d, out := pushOpt (denote d b) out } := by
      simp only [qstep, denote]
      rw [← hcur, h1, h2]
    rw [hend]
    have := ih (pushOpt (denote d b) out) (fun b' hb' => hb b' (by simp [hb']))
    simp only at this
    refine ⟨this.1, this.2.1, ?_⟩
    refine Eq.trans this.2.2 ?_
    cases hd : denote d b <;> simp [List.filterMap_cons, hd, pushOpt]

/-- **block_denotation** (repaired reader): every block is read in isolation, under the header's
defaults — the first block like all the others; in particular no block leaks into a later one and
permuting blocks permutes the output. -/
theorem block_denotation (h : List (Line ν)) (blocks : List (List (Line ν)))
    (hh : ∀ l ∈ h, IsHeaderLine l) (hb : ∀ b ∈ blocks, ∀ l ∈ b, IsBodyLine l) (hne : blocks ≠ []) :
    parse true (render h blocks) = some (blocks.filterMap (denote (defaultsOf h))) := by
  obtain ⟨b, bs, rfl⟩ := List.exists_cons_of_ne_nil hne
  unfold parse render
  simp only [List.flatMap_cons, List.cons_append, List.append_assoc]
  rw [header_skip {} h _ hh]
  simp only [if_true]
  -- re-attach the consumed BEGIN IONS: the query phase ignores it anyway
  have key := blocks_fold (defaultsOf h) [] (b :: bs) hb
  simp only [List.flatMap_cons, List.cons_append, List.append_assoc, List.foldl_cons] at key
  have hbegin : qstep ({ d := defaultsOf h, cur := initCur (defaultsOf h), out := [] } : QState ν) .beginIons
      = { d := defaultsOf h, cur := initCur (defaultsOf h), out := [] } := rfl
  rw [hbegin] at key
  unfold defaultsOf at key ⊢
  rw [key.2.2]
  simp

/-- totality of the repaired reader: no BEGIN IONS ⇒ empty result, never `none` (= panic) -/
theorem total_fixed (doc : List (Line ν)) : (parse true doc).isSome := by
  unfold parse; split <;> simp

/-! ### the code as it is: counter-examples -/

/-- header `CHARGE=2+ and 3+`, two blocks without their own CHARGE: the first block does not
get the header's charges (the code calls `init()` only after END IONS). -/
def witness : List (Line Nat) :=
  render [.charge [2, 3]]
    [[.title "a", .pepmass (.ok 500) .absent, .peak (.ok 100) (.ok 1)],
     [.title "b", .pepmass (.ok 600) .absent, .peak (.ok 100) (.ok 1)]]

theorem header_defaults_fails_on_current_code :
    (parse false witness).map (·.map (fun sp => sp.precs.map (·.charge)))
      = some [[none], [some 2, some 3]] := by decide

theorem header_defaults_holds_after_fix :
    (parse true witness).map (·.map (fun sp => sp.precs.map (·.charge)))
      = some [[some 2, some 3], [some 2, some 3]] := by decide

/-- no BEGIN IONS: the current code panics (`none`) -/
theorem no_begin_panics_on_current_code : parse false ([.title "a"] : List (Line Nat)) = none := by decide

#print axioms block_denotation
#print axioms header_defaults_fails_on_current_code
end Mgf
