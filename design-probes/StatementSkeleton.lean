import Mathlib.Order.Defs.LinearOrder
import Mathlib.Tactic.Ring
import Mathlib.Data.Rat.Defs
import Mathlib.Algebra.Order.Field.Rat

namespace Sage
universe u
variable {α : Type}

/-! ## C03 -/
structure Frag (α : Type) where
  pep : Nat
  mz  : α

structure Db (α : Type) where
  masses    : Array α            -- peptide i ↦ monoisotopic mass (ascending, by C08)
  fragments : Array (Frag α)     -- bucketed layout
  minValue  : Array α
  bucket    : Nat
deriving Inhabited

structure Window (α : Type) where
  fragLo : α
  fragHi : α
  preLo  : α
  preHi  : α

def inWindow [LE α] [DecidableLE α] (db : Db α) (w : Window α) (f : Frag α) : Bool :=
  decide (w.fragLo ≤ f.mz) && decide (f.mz ≤ w.fragHi) &&
  match db.masses[f.pep]? with
  | some m => decide (w.preLo ≤ m) && decide (m ≤ w.preHi)
  | none   => false

/-- the specification: a linear scan -/
def scan [LE α] [DecidableLE α] (db : Db α) (w : Window α) : List (Frag α) :=
  db.fragments.toList.filter (inWindow db w)

/-- std's `binary_search_by` contract, the only thing assumed about it -/
def BinSearchOk [LE α] (l : Array α) (x : α) (r : Nat) : Prop :=
  r ≤ l.size ∧ (∀ (i : Nat) (y : α), i < r → l[i]? = some y → y ≤ x) ∧ (∀ (i : Nat) (y : α), r ≤ i → l[i]? = some y → x ≤ y)

def SortedArr [LE α] (l : Array α) : Prop := ∀ (i j : Nat) (x y : α), i ≤ j → l[i]? = some x → l[j]? = some y → x ≤ y

opaque bssWalk [LT α] [DecidableLT α] [LE α] [DecidableLE α] (l : Array α) (lo hi : α) (rLo rHi : Nat) : Nat × Nat
opaque buildIndex [LE α] [DecidableLE α] (B : Nat) (masses : Array α) (ions : List (Frag α)) : Db α
opaque pageSearch [LT α] [DecidableLT α] [LE α] [DecidableLE α] (db : Db α) (w : Window α) : List (Frag α)
def DbInv [LE α] (db : Db α) : Prop := SortedArr db.masses ∧ SortedArr db.minValue ∧ 0 < db.bucket  -- ∧ bucket facts …

theorem bss_covers [LinearOrder α] (l : Array α) (hl : SortedArr l) (lo hi : α) (rLo rHi : Nat)
    (i : Nat) (x : α) (hx : l[i]? = some x) (h1 : lo ≤ x) (h2 : x ≤ hi) :
    (bssWalk l lo hi rLo rHi).1 ≤ i ∧ i < (bssWalk l lo hi rLo rHi).2 := sorry

theorem bss_tight [LinearOrder α] (l : Array α) (hl : SortedArr l) (lo hi : α) (rLo rHi : Nat)
    (hLo : BinSearchOk l lo rLo) (hHi : BinSearchOk (l.extract (bssWalk l lo hi rLo rHi).1 l.size) hi rHi)
    (i : Nat) (x : α) (hx : l[i]? = some x)
    (h : (bssWalk l lo hi rLo rHi).1 < i ∧ i < (bssWalk l lo hi rLo rHi).2) : lo ≤ x ∧ x ≤ hi := sorry

theorem buildIndex_inv [LinearOrder α] (B : Nat) (hB : 0 < B) (masses : Array α) (hm : SortedArr masses)
    (ions : List (Frag α)) :
    DbInv (buildIndex B masses ions) ∧ (buildIndex B masses ions).fragments.toList.Perm ions := sorry

theorem pageSearch_exact [LinearOrder α] (db : Db α) (h : DbInv db) (w : Window α) :
    (pageSearch db w).Perm (scan db w) := sorry

theorem bucket_size_irrelevant [LinearOrder α] (B B' : Nat) (hB : 0 < B) (hB' : 0 < B')
    (masses : Array α) (hm : SortedArr masses) (ions : List (Frag α)) (w : Window α) :
    ((pageSearch (buildIndex B masses ions) w).map (fun f => (f.pep, f.mz))).Perm
    ((pageSearch (buildIndex B' masses ions) w).map (fun f => (f.pep, f.mz))) := sorry

/-! ## C12 -/
/-- `true` = decoy -/
opaque spectrumQ (labels : List Bool) : List Rat × Nat

def cnt (p : Bool → Bool) (l : List Bool) : Nat := (l.filter p).length
/-- definitional q-value at position `i` -/
def qSpec (labels : List Bool) (i : Nat) : Rat :=
  ((List.range (labels.length - i)).map (fun d =>
      let pre := labels.take (i + d + 1)
      let t := cnt (· == false) pre
      if t = 0 then (1 : Rat) else min 1 (((cnt (· == true) pre : Nat) + 1 : Rat) / (t : Rat)))).foldl min 1

theorem q_eq_spec (labels : List Bool) (i : Nat) (h : i < labels.length) :
    (spectrumQ labels).1[i]? = some (qSpec labels i) := sorry
theorem q_range (labels : List Bool) (q : Rat) (h : q ∈ (spectrumQ labels).1) : 0 < q ∧ q ≤ 1 := sorry
theorem q_monotone (labels : List Bool) : (spectrumQ labels).1.Pairwise (· ≤ ·) := sorry
theorem count_eq (labels : List Bool) :
    (spectrumQ labels).2 = ((spectrumQ labels).1.filter (fun q => decide (q ≤ 1/100))).length := sorry

/-! ## C11 -/
structure CState where
  counter : Nat := 1
  handed  : List (Nat × Nat) := []     -- (task, id)
def CState.step (s : CState) (task : Nat) : CState :=
  { counter := s.counter + 1, handed := (task, s.counter) :: s.handed }
def runSchedule (sched : List Nat) : CState := sched.foldl CState.step {}

theorem ids_unique (sched : List Nat) : ((runSchedule sched).handed.map Prod.snd).Nodup := sorry
theorem ids_range (sched : List Nat) :
    ((runSchedule sched).handed.map Prod.snd).Perm ((List.range sched.length).map (· + 1)) := sorry

def chunks {β : Type} (bs : Nat) : Nat → List β → List (List β)   -- fuel = length
  | 0, _ => []
  | _, [] => []
  | f+1, l => l.take bs :: chunks bs f (l.drop bs)
def batchFiles {β γ : Type} (process : Nat → β → γ) (bs : Nat) (files : List β) : List γ :=
  ((chunks bs files.length files).zipIdx).flatMap (fun (chunk, c) =>
    (chunk.zipIdx).map (fun (f, i) => process (c * bs + i) f))
theorem batching_irrelevant {β γ : Type} (process : Nat → β → γ) (bs : Nat) (h : 0 < bs) (files : List β) :
    batchFiles process bs files = (files.zipIdx).map (fun (f, g) => process g f) := sorry

/-! ## C09 -/
structure Pep (α : Type) where
  residues : List α     -- monoisotopic residue masses
  mods     : List α
  nterm    : α          -- 0 when absent (the code's `unwrap_or_default`)
  cterm    : α
  mass     : α
opaque bSeries [Add α] [Sub α] [Neg α] (p : Pep α) : List α
opaque ySeries [Add α] [Sub α] [Neg α] (p : Pep α) : List α
def WellFormed [Add α] [Zero α] (water : α) (p : Pep α) : Prop :=
  p.residues.length = p.mods.length ∧ 0 < p.residues.length ∧
  p.mass = water + (p.residues.zipWith (· + ·) p.mods).sum + p.nterm + p.cterm

theorem series_length (p : Pep Rat) (h : WellFormed w p) :
    (bSeries p).length = p.residues.length - 1 ∧ (ySeries p).length = p.residues.length - 1 := sorry
theorem b_def (p : Pep Rat) (h : WellFormed w p) (i : Nat) (hi : i + 1 < p.residues.length) :
    (bSeries p)[i]? = some (p.nterm + ((p.residues.zipWith (· + ·) p.mods).take (i+1)).sum) := sorry
theorem complement (p : Pep Rat) (h : WellFormed w p) (i : Nat) (b y : Rat)
    (hb : (bSeries p)[i]? = some b) (hy : (ySeries p)[i]? = some y) : b + y = p.mass := sorry

/-! ## C20 -/
def slopeOf (xs ys : List Rat) : Rat :=
  let n : Rat := xs.length
  let mx := xs.sum / n; let my := ys.sum / n
  ((xs.zipWith (· * ·) ys).sum - n * mx * my) / ((xs.map (fun x => (x - mx)^2)).sum)
def interceptOf (xs ys : List Rat) : Rat :=
  let n : Rat := xs.length
  ys.sum / n - slopeOf xs ys * (xs.sum / n)
theorem ols_equivariant (xs ys : List Rat) (a b : Rat) (ha : a ≠ 0) (hl : xs.length = ys.length)
    (hv : (xs.map (fun x => (x - xs.sum / xs.length)^2)).sum ≠ 0) (x : Rat) :
    let xs' := xs.map (fun x => a * x + b)
    slopeOf xs' ys * (a * x + b) + interceptOf xs' ys = slopeOf xs ys * x + interceptOf xs ys := sorry

end Sage
