import Mathlib.Tactic.Order
import Mathlib.Order.Defs.LinearOrder

/-! Feasibility probe (design round): the two `while` loops of `binary_search_slice`
and the "widest range" covering property, for an arbitrary linear order and an
arbitrary start index (i.e. for *any* answer of `binary_search_by`). -/

variable {α : Type}

/-- left walk: `while idx > 0 && slice[idx] >= low { idx -= 1 }` -/
def walkLeft [LT α] [DecidableLT α] (l : Array α) (low : α) : Nat → Nat
  | 0 => 0
  | i+1 => match l[i+1]? with
    | some x => if x < low then i+1 else walkLeft l low i
    | none => i+1   -- out of bounds: Rust would panic; unreachable because start ≤ len-1

/-- right walk with fuel: `while idx < len && slice[idx] <= high { idx += 1 }` -/
def walkRight [LE α] [DecidableLE α] (l : Array α) (high : α) (idx : Nat) : Nat → Nat
  | 0 => idx
  | f+1 => match l[idx]? with
    | some x => if x ≤ high then walkRight l high (idx+1) f else idx
    | none => idx

def Sorted [LE α] (l : Array α) : Prop :=
  ∀ i j (hi : i < l.size) (hj : j < l.size), i ≤ j → l[i] ≤ l[j]

theorem walkLeft_le [LinearOrder α] (l : Array α) (low : α) (s : Nat) : walkLeft l low s ≤ s := by
  induction s with
  | zero => simp [walkLeft]
  | succ i ih =>
    unfold walkLeft
    split
    · split <;> omega
    · omega

theorem walkLeft_succ_some [LinearOrder α] (l : Array α) (low x : α) (i : Nat) (h : l[i+1]? = some x) :
    walkLeft l low (i+1) = if x < low then i+1 else walkLeft l low i := by
  rw [walkLeft, h]

theorem walkLeft_exit [LinearOrder α] (l : Array α) (low : α) (s : Nat) (hs : s < l.size) :
    walkLeft l low s = 0 ∨ ∃ x, l[walkLeft l low s]? = some x ∧ x < low := by
  induction s with
  | zero => left; simp [walkLeft]
  | succ i ih =>
    have h1 : l[i+1]? = some l[i+1] := by simp [hs]
    rw [walkLeft_succ_some l low _ i h1]
    split
    · right; exact ⟨_, h1, by assumption⟩
    · exact ih (by omega)

theorem left_covers [LinearOrder α] (l : Array α) (hl : Sorted l) (low : α) (s : Nat) (hs : s < l.size)
    (i : Nat) (hi : i < l.size) (h : low ≤ l[i]) : walkLeft l low s ≤ i := by
  rcases walkLeft_exit l low s hs with h0 | ⟨x, hx, hlt⟩
  · omega
  · by_contra hc
    have hw : walkLeft l low s < l.size := by
      have := walkLeft_le l low s; omega
    have hx' : l[walkLeft l low s] = x := by
      have : l[walkLeft l low s]? = some l[walkLeft l low s] := by simp [hw]
      rw [this] at hx; exact Option.some.inj hx
    have := hl i (walkLeft l low s) hi hw (by omega)
    order

theorem walkRight_exit [LinearOrder α] (l : Array α) (high : α) (idx f : Nat) (hf : idx + f ≥ l.size) :
    let r := walkRight l high idx f
    idx ≤ r ∧ (r ≥ l.size ∨ ∃ h : r < l.size, high < l[r]) := by
  induction f generalizing idx with
  | zero => simp [walkRight]; left; omega
  | succ f ih =>
    unfold walkRight
    by_cases hidx : idx < l.size
    · have : l[idx]? = some l[idx] := by simp [hidx]
      rw [this]; simp only
      split
      · have := ih (idx+1) (by omega)
        exact ⟨by omega, this.2⟩
      · exact ⟨by omega, Or.inr ⟨hidx, by order⟩⟩
    · have : l[idx]? = none := by simp; omega
      rw [this]; simp only
      exact ⟨by omega, Or.inl (by omega)⟩

theorem right_covers [LinearOrder α] (l : Array α) (hl : Sorted l) (high : α) (idx f : Nat) (hf : idx + f ≥ l.size)
    (i : Nat) (hi : i < l.size) (h : l[i] ≤ high) : i < walkRight l high idx f := by
  have ⟨_, hex⟩ := walkRight_exit l high idx f hf
  rcases hex with hge | ⟨hlt, hx⟩
  · omega
  · by_contra hc
    have := hl (walkRight l high idx f) i hlt hi (by omega)
    order

#print axioms right_covers
#print axioms left_covers
