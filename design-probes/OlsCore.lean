import Mathlib.Tactic.Ring
import Mathlib.Tactic.FieldSimp
import Mathlib.Algebra.Order.Field.Rat
import Mathlib.Algebra.BigOperators.Group.List.Basic
-- abstract version of OLS equivariance: sums are parameters
theorem ols_core (n Sx Sy Sxy Sxx a b x : ℚ) (hn : n ≠ 0) (ha : a ≠ 0)
    (hv : Sxx - Sx * Sx / n ≠ 0) :
    let mx := Sx / n; let my := Sy / n
    let slope := (Sxy - n * mx * my) / (Sxx - Sx * Sx / n)
    -- transformed sums for x' = a x + b
    let Sx' := a * Sx + n * b
    let Sxy' := a * Sxy + b * Sy
    let Sxx' := a^2 * Sxx + 2 * a * b * Sx + n * b^2
    let mx' := Sx' / n
    let slope' := (Sxy' - n * mx' * my) / (Sxx' - Sx' * Sx' / n)
    slope' * (a * x + b) + (my - slope' * mx') = slope * x + (my - slope * mx) := by
  intro mx my slope Sx' Sxy' Sxx' mx' slope'
  have h2 : Sxx' - Sx' * Sx' / n = a^2 * (Sxx - Sx * Sx / n) := by
    simp only [Sx', Sxx']; field_simp; ring
  have h3 : Sxy' - n * mx' * my = a * (Sxy - n * mx * my) := by
    simp only [Sx', Sxy', mx', mx, my]; field_simp; ring
  simp only [slope', slope, h2, h3, mx', Sx', mx]
  field_simp
  ring
