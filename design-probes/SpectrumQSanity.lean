def spectrumQ (labels : List Bool) : List Rat × Nat :=
  -- forward pass
  let fwd := (labels.foldl (fun (acc : Nat × Nat × List (Option Rat)) d =>
      let (dec, tgt, out) := acc
      let dec := if d then dec + 1 else dec
      let tgt := if d then tgt else tgt + 1
      (dec, tgt, (if tgt = 0 then none else some ((dec : Rat) / (tgt : Rat))) :: out)) (1, 0, [])).2.2
  -- fwd is reversed (last first): backward pass = foldl over it
  let (_, qs, pass) := fwd.foldl (fun (acc : Rat × List Rat × Nat) r =>
      let (qmin, out, pass) := acc
      let qmin := match r with | some x => min qmin x | none => qmin
      (qmin, qmin :: out, if qmin ≤ 1/100 then pass + 1 else pass)) (1, [], 0)
  (qs, pass)

def cnt (p : Bool → Bool) (l : List Bool) : Nat := (l.filter p).length
def qSpec (labels : List Bool) (i : Nat) : Rat :=
  ((List.range (labels.length - i)).map (fun d =>
      let pre := labels.take (i + d + 1)
      let t := cnt (· == false) pre
      if t = 0 then (1 : Rat) else min 1 (((cnt (· == true) pre : Nat) + 1 : Rat) / (t : Rat)))).foldl min 1

def allLabels : Nat → List (List Bool)
  | 0 => [[]]
  | n+1 => (allLabels n).flatMap (fun l => [false :: l, true :: l])

#eval spectrumQ [false, false, true, false, true, true]
#eval (List.range 6).map (qSpec [false, false, true, false, true, true])
#eval (List.range 11).all (fun n => (allLabels n).all (fun l => (spectrumQ l).1 == (List.range l.length).map (qSpec l)))
