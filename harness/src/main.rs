#![allow(dead_code)]
//! Correspondence harness: runs the REAL sage code (path dependencies on /repo) on
//! generated or replayed request lines and writes `request | impl-reply` lines that the
//! Lean driver (`lean/Main.lean`) then answers with the model's reply and the spec verdict.
//!
//!   harness gen  <property> <quick|thorough> <seed> <out.cases>   (+ <out.cases>.stats.json)
//!   harness exec <in.requests> <out.cases>
mod ops;
mod proto;

use proto::{Case, Rng, Tier, Toks};
use std::collections::{BTreeMap, HashSet};
use std::io::{BufRead, Write};

pub fn exec_line(request: &str) -> String {
    let request = request.to_string();
    let r = std::panic::catch_unwind(move || {
        let mut t = Toks::new(&request);
        let op = match t.tok() {
            Some(op) => op.to_string(),
            None => return "bad-request".to_string(),
        };
        match ops::exec(&op, &mut t) {
            Some(s) => s,
            None => "bad-request".to_string(),
        }
    });
    match r {
        Ok(s) => s,
        Err(_) => "panic".to_string(),
    }
}

fn exec_all(requests: &[String], serial: bool) -> Vec<String> {
    if serial || requests.len() < 32 {
        return requests.iter().map(|r| exec_line(r)).collect();
    }
    let n = std::thread::available_parallelism().map(|x| x.get()).unwrap_or(4).min(16);
    let chunk = (requests.len() + n - 1) / n;
    let mut out: Vec<Vec<String>> = Vec::new();
    std::thread::scope(|s| {
        let hs: Vec<_> = requests
            .chunks(chunk)
            .map(|c| s.spawn(move || c.iter().map(|r| exec_line(r)).collect::<Vec<_>>()))
            .collect();
        for h in hs {
            out.push(h.join().expect("worker"));
        }
    });
    out.into_iter().flatten().collect()
}

fn main() {
    // panics inside the code under test are an output class, not noise
    std::panic::set_hook(Box::new(|_| {}));
    {
        let ops = ops::all_ops();
        for (i, (a, pa)) in ops.iter().enumerate() {
            for (b, pb) in ops.iter().skip(i + 1) {
                if a == b {
                    eprintln!("op name `{a}` is registered by both {pa} and {pb}");
                    std::process::exit(3);
                }
            }
        }
    }
    let args: Vec<String> = std::env::args().collect();
    match args.get(1).map(|s| s.as_str()) {
        Some("gen") if args.len() == 6 => {
            let prop = &args[2];
            let tier = if args[3] == "thorough" { Tier::Thorough } else { Tier::Quick };
            let seed: u64 = args[4].parse().expect("seed");
            let mut rng = Rng::new(seed);
            let mut cases: Vec<Case> = Vec::new();
            // generators call the real code too (to pick database peptides etc.): a panic there must not
            // lose the cases generated so far — they are executed and compared as usual
            let gen_result = std::panic::catch_unwind(std::panic::AssertUnwindSafe(|| {
                ops::gen(prop, &mut rng, tier, &mut |c| cases.push(c))
            }));
            let generator_panicked = gen_result.is_err();
            let info = match gen_result {
                Ok(Some(i)) => i,
                Ok(None) => {
                    eprintln!("unknown property {prop}");
                    std::process::exit(2)
                }
                Err(_) => ops::Info { rule: "generator panicked inside the code under test; cases generated before the panic were run", serial: true },
            };
            let requests: Vec<String> = cases.iter().map(|c| c.request.clone()).collect();
            let replies = exec_all(&requests, info.serial);
            let mut f = std::io::BufWriter::new(std::fs::File::create(&args[5]).expect("out"));
            let mut tags: BTreeMap<String, usize> = BTreeMap::new();
            let mut distinct: HashSet<&str> = HashSet::new();
            let mut panics = 0usize;
            for (c, r) in cases.iter().zip(replies.iter()) {
                writeln!(f, "{} | {}", c.request, r).unwrap();
                for t in &c.tags {
                    *tags.entry(t.to_string()).or_default() += 1;
                }
                let op = c.request.split_whitespace().next().unwrap_or("");
                *tags.entry(format!("op:{op}")).or_default() += 1;
                if c.nontrivial {
                    distinct.insert(&c.request);
                }
                if r == "panic" {
                    panics += 1;
                }
            }
            f.flush().unwrap();
            let trunc = |s: &str| if s.len() > 400 { format!("{}…", &s[..400]) } else { s.to_string() };
            let samples: Vec<String> = cases
                .iter()
                .zip(replies.iter())
                .filter(|(c, _)| c.nontrivial)
                .step_by((cases.len() / 4).max(1))
                .take(4)
                .map(|(c, r)| trunc(&format!("{} | {}", c.request, r)))
                .collect();
            let stats = serde_json::json!({
                "evaluations": cases.len(),
                "distinct_nontrivial": distinct.len(),
                "rule": info.rule,
                "distribution": tags,
                "impl_panics": panics,
                "generator_panicked": generator_panicked,
                "samples": samples,
            });
            std::fs::write(format!("{}.stats.json", args[5]), serde_json::to_string_pretty(&stats).unwrap()).unwrap();
        }
        Some("exec") if args.len() == 4 => {
            let inp = std::io::BufReader::new(std::fs::File::open(&args[2]).expect("in"));
            let mut reqs = Vec::new();
            for line in inp.lines() {
                let line = line.unwrap();
                let l = line.trim();
                if l.is_empty() || l.starts_with('#') {
                    continue;
                }
                let req = l.split(" | ").next().unwrap().to_string();
                reqs.push(req);
            }
            let replies = exec_all(&reqs, true);
            let mut f = std::io::BufWriter::new(std::fs::File::create(&args[3]).expect("out"));
            for (q, r) in reqs.iter().zip(replies.iter()) {
                writeln!(f, "{} | {}", q, r).unwrap();
            }
        }
        _ => {
            eprintln!("usage: harness gen <prop> <tier> <seed> <out> | harness exec <in> <out>");
            std::process::exit(2);
        }
    }
}
