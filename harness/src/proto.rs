//! Line-protocol helpers shared by all ops (see lean/SageModel/Proto.lean).

/// splitmix64: the only source of randomness; seeded from VERIF_SEED.
#[derive(Clone)]
pub struct Rng(pub u64);

impl Rng {
    pub fn new(seed: u64) -> Self {
        Rng(seed ^ 0x9E37_79B9_7F4A_7C15)
    }
    pub fn next(&mut self) -> u64 {
        self.0 = self.0.wrapping_add(0x9E37_79B9_7F4A_7C15);
        let mut z = self.0;
        z = (z ^ (z >> 30)).wrapping_mul(0xBF58_476D_1CE4_E5B9);
        z = (z ^ (z >> 27)).wrapping_mul(0x94D0_49BB_1331_11EB);
        z ^ (z >> 31)
    }
    /// uniform in 0..n (n > 0)
    pub fn below(&mut self, n: usize) -> usize {
        (self.next() % (n as u64)) as usize
    }
    /// uniform in lo..=hi
    pub fn range(&mut self, lo: i64, hi: i64) -> i64 {
        lo + (self.next() % ((hi - lo + 1) as u64)) as i64
    }
    pub fn chance(&mut self, num: u32, den: u32) -> bool {
        (self.next() % den as u64) < num as u64
    }
    pub fn unit(&mut self) -> f64 {
        (self.next() >> 11) as f64 / (1u64 << 53) as f64
    }
    pub fn pick<'a, T>(&mut self, xs: &'a [T]) -> &'a T {
        &xs[self.below(xs.len())]
    }
    pub fn shuffle<T>(&mut self, xs: &mut [T]) {
        for i in (1..xs.len()).rev() {
            let j = self.below(i + 1);
            xs.swap(i, j);
        }
    }
    pub fn fork(&mut self) -> Rng {
        Rng(self.next())
    }
}

#[derive(Copy, Clone, PartialEq, Eq, Debug)]
pub enum Tier {
    Quick,
    Thorough,
}

/// token reader over a request line's arguments
pub struct Toks<'a> {
    it: std::str::SplitWhitespace<'a>,
}

impl<'a> Toks<'a> {
    pub fn new(s: &'a str) -> Self {
        Toks { it: s.split_whitespace() }
    }
    pub fn tok(&mut self) -> Option<&'a str> {
        self.it.next()
    }
    pub fn usize(&mut self) -> Option<usize> {
        self.tok()?.parse().ok()
    }
    pub fn i64(&mut self) -> Option<i64> {
        self.tok()?.parse().ok()
    }
    pub fn bool(&mut self) -> Option<bool> {
        Some(self.usize()? != 0)
    }
    pub fn f32(&mut self) -> Option<f32> {
        Some(f32::from_bits(self.tok()?.parse::<u32>().ok()?))
    }
    pub fn f64(&mut self) -> Option<f64> {
        Some(f64::from_bits(self.tok()?.parse::<u64>().ok()?))
    }
    pub fn bytes(&mut self) -> Option<Vec<u8>> {
        unhex(self.tok()?)
    }
    pub fn string(&mut self) -> Option<String> {
        String::from_utf8(self.bytes()?).ok()
    }
    pub fn opt<T>(&mut self, f: impl FnOnce(&mut Self) -> Option<T>) -> Option<Option<T>> {
        if self.usize()? == 0 {
            Some(None)
        } else {
            Some(Some(f(self)?))
        }
    }
    pub fn list<T>(&mut self, mut f: impl FnMut(&mut Self) -> Option<T>) -> Option<Vec<T>> {
        let n = self.usize()?;
        let mut v = Vec::with_capacity(n.min(1 << 20));
        for _ in 0..n {
            v.push(f(self)?);
        }
        Some(v)
    }
    pub fn done(&mut self) -> bool {
        self.it.next().is_none()
    }
}

pub fn hex(b: &[u8]) -> String {
    if b.is_empty() {
        return "-".into();
    }
    let mut s = String::with_capacity(b.len() * 2);
    for x in b {
        s.push_str(&format!("{:02x}", x));
    }
    s
}

pub fn unhex(s: &str) -> Option<Vec<u8>> {
    if s == "-" {
        return Some(vec![]);
    }
    if s.len() % 2 != 0 {
        return None;
    }
    let b = s.as_bytes();
    let v = |c: u8| -> Option<u8> {
        match c {
            b'0'..=b'9' => Some(c - b'0'),
            b'a'..=b'f' => Some(c - b'a' + 10),
            _ => None,
        }
    };
    let mut out = Vec::with_capacity(s.len() / 2);
    for i in (0..b.len()).step_by(2) {
        out.push(v(b[i])? * 16 + v(b[i + 1])?);
    }
    Some(out)
}

/// output builder
#[derive(Default)]
pub struct Out(pub String);

impl Out {
    pub fn new() -> Self {
        Out(String::new())
    }
    pub fn raw(&mut self, s: &str) -> &mut Self {
        if !self.0.is_empty() {
            self.0.push(' ');
        }
        self.0.push_str(s);
        self
    }
    pub fn n<T: std::fmt::Display>(&mut self, x: T) -> &mut Self {
        let s = x.to_string();
        self.raw(&s)
    }
    pub fn b(&mut self, x: bool) -> &mut Self {
        self.raw(if x { "1" } else { "0" })
    }
    pub fn f32(&mut self, x: f32) -> &mut Self {
        self.n(x.to_bits())
    }
    pub fn f64(&mut self, x: f64) -> &mut Self {
        self.n(x.to_bits())
    }
    pub fn bytes(&mut self, x: &[u8]) -> &mut Self {
        let h = hex(x);
        self.raw(&h)
    }
    pub fn s(&mut self, x: &str) -> &mut Self {
        self.bytes(x.as_bytes())
    }
    pub fn finish(&mut self) -> String {
        std::mem::take(&mut self.0)
    }
}

/// what a generator hands back for each case
pub struct Case {
    pub request: String,
    /// tags for the input-distribution table in the evidence file
    pub tags: Vec<&'static str>,
    /// non-trivial by the property's stated rule
    pub nontrivial: bool,
}

impl Case {
    pub fn new(request: String) -> Self {
        Case { request, tags: vec![], nontrivial: true }
    }
    pub fn tag(mut self, t: &'static str) -> Self {
        self.tags.push(t);
        self
    }
    pub fn tag_if(mut self, c: bool, t: &'static str) -> Self {
        if c {
            self.tags.push(t);
        }
        self
    }
    pub fn nontrivial(mut self, b: bool) -> Self {
        self.nontrivial = b;
        self
    }
}
