//! C16 — `MzMLReader::parse`
//!
//!   mzml <style> <filter:opt u8> <sn:opt u8> <n> event…  ->  ok <n> spectrum… | err:<class> | panic
//!   mzmlraw <filter:opt> <sn:opt> <hex bytes>           ->  same reply (only the class is judged) | hang
//!
//! events (rendered 1:1 to XML text by `render`):
//!   S <tag> <id:optstr> <ref:optstr>   `<tag id=".." spectrumRef="..">`   tag ∈ sp sc bda bin pre ion o<k>
//!   B <tag>                            `<tag id="a&bogus;b">`: malformed entity in id (spectrum) / spectrumRef (precursor)
//!   E <tag>                            `</tag>`
//!   Z <tag>                            `<tag/>`  (o<k>: a userParam)
//!   L <text hex>                       the next start tag gets `defaultArrayLength="text"` (binaryDataArray:
//!                                      `arrayLength="text" encodedLength="text"`); without an L event the renderer
//!                                      writes (mostly) the true values; the reader must ignore them
//!   C <cv 0..20> <val> <unit>          `<cvParam accession=.. value=.. unitAccession=../>`
//!                                      val: a (absent) | g (garbage) | f <f32 bits> | n <integer>;  unit: s m o a
//!   T e | T b | T d <wire hex> <inflated: 0 | 1 hex>     text: empty | not base64 | base64(wire)
//! <style>: seed for rendering choices the parser must not care about (white space, comments, attribute
//!   order, quotes, names of ignored elements, document wrapper), and the route:
//!   style % 3 == 1: written to a temp file named `RUNn` + one of `.mzML .mzml .MZML` (spelling (style/3) % 3) and
//!                   read with `sage_cloudpath::util::read_spectra` (format detection + `read_mzml`),
//!   style % 3 == 2: same through a gzip-compressed file named `.mzML.gz .mzml.gz .MZML.GZ .mzml.Gz .mzML.gzip`
//!                   (spelling (style/3) % 5; `.mzML.gzip` is read with `read_mzml` directly because format
//!                   detection does not know that suffix); both only when no level filter is set.
//! spectrum: <id hex> <level> <centroid> <tic> <start> <inj> <np> precursor… <nmz> f32… <nint> f32…
//! precursor: <mz> <int:opt> <charge:opt> <ref:optstr> <window: 0 | 1 lo hi> <mobility:opt>
//! floats are f32 bit patterns with NaN canonicalised to 0x7fc00000.
use super::Info;
use crate::proto::{Case, Out, Rng, Tier, Toks};
use sage_cloudpath::mzml::{MzMLError, MzMLReader};
use sage_core::mass::Tolerance;
use sage_core::spectrum::{RawSpectrum, Representation};
use std::io::{Read, Write};

pub const OPS: &[&str] = &["mzml", "mzmlraw", "mzmlseq"];
pub const INFO: Info = Info {
    rule: "mzml: documents of 1-5 schema-shaped <spectrum> elements built from a random description (MS level 1-3, \
           centroid/profile, TIC, 0-2 scans with start time in s/min, injection time, ion mobility in scan or \
           selected ion, 0-3 precursors with optional spectrumRef / isolation window / charge / intensity, 0-4 \
           binary arrays: m/z, intensity, noise or unknown kind, 32/64 bit, zlib or plain, 0-12 values incl. NaN/inf/ \
           subnormal/out-of-f32-range, payload lengths that are not a multiple of the word size), rendered to XML \
           with random white space, comments, attribute order, ignored wrapper elements, userParams and irrelevant \
           cvParams, parsed with every combination of level filter and S/N level; directed pairs (rich element \
           followed by a bare one and vice versa, an element whose precursor is never pushed, two precursors in one \
           spectrum) for every loop-carried local; isolation-window offsets that are exactly zero (0, 0.0, 0e0, -0, -0.0 ...: about a \
           third of all offsets, and stream `iso-window` with every combination of absent / 0 / 0.0 / -0.0 / non-zero \
           lower and upper offsets): the window must be Da(-lower, upper) bit for bit; arrays that declare no kind after one that does; exhaustive optional-field subsets \
           for two-spectrum documents (thorough); payload lengths 0..17 x dtype x compression; single-fault \
           documents (absent/unparsable value, missing accession/id/unit, bad base64, bad zlib) for every error \
           class; `chaos`: well-nested random trees with elements in wrong places; `tic-zero`: a total ion current of 0 (formerly read as a blank spectrum) on MS1/MS2/MS3 elements, as \
           first / last / random direct param or late (after a scan, a precursor, between arrays), under every \
           filter / S/N combination, and now and then in the random documents; routes: direct parse, read_spectra from a file named .mzML/.mzml/.MZML, read_spectra from a gzip file named \
           .mzML.gz/.mzml.gz/.MZML.GZ/.mzml.Gz (and read_mzml for .mzML.gzip) - all spellings the unchanged code reads; \
           ids and spectrumRefs with characters that need XML escaping (entities and numeric references); \
           array-length attributes: the renderer writes the true defaultArrayLength / arrayLength / encodedLength \
           (or omits them), stream `length-attr` writes 0, off-by-some, u64::MAX, 9999999999999999999, 2^63, 2^63-1, \
           2^64, a 26-digit number, negative and non-numeric texts on <spectrum> and/or every <binaryDataArray> of \
           documents with non-empty arrays (nothing between 2^30 and 2^62, which a pre-sizing reader might really \
           allocate): the reply must be the one without the attribute. `b64`: for every array encoding (32/64 bit x zlib/plain) and both padding lengths, base64 texts with the \
           padding stripped (all / one), 1-3 trailing characters cut, a character inserted / deleted, spaces, MIME line \
           breaks, pretty-printing white space, tab/CRLF, foreign and URL-safe characters, `=` in the middle or in \
           excess, `<binary></binary>` vs `<binary/>` vs white space only - the request states what base64 0.13 and \
           zlib make of the text (checked against the crates by the harness and against the model's b64decode by the \
           driver), accepted texts must yield the model's values; mzmlseq: sequences of 2-5 documents parsed back to back on one OS thread (direct parse, read_spectra on \
           files, on gzip files) and then each alone on a fresh thread: documents that fail inside the inflation of a \
           several-KB zlib array (cut, corrupted), in base64, on a bad entity, on a missing id, followed by healthy \
           documents whose first array is a small zlib array; mzmlraw: EVERY truncation offset of a small \
           two-spectrum document, truncations, \
           byte flips, deletions, duplications, insertions and concatenations of rendered documents. \
           Non-trivial = at least two events inside a <spectrum>; distinct by request line",
    serial: false,
};

// ------------------------------------------------------------------------------------------------ events

#[derive(Clone, Debug, PartialEq)]
enum Tag {
    Sp,
    Sc,
    Bda,
    Bin,
    Pre,
    Ion,
    Other(usize),
}

#[derive(Clone, Copy, Debug, PartialEq)]
enum Val {
    Absent,
    Garbage,
    F(u32),
    N(u64),
}

#[derive(Clone, Debug, PartialEq)]
enum Payload {
    Empty,
    Bad,
    Data(Vec<u8>, Option<Vec<u8>>),
    /// the text verbatim, what base64 makes of it, and what zlib makes of that
    Raw(String, Option<Vec<u8>>, Option<Vec<u8>>),
}

#[derive(Clone, Debug, PartialEq)]
enum Ev {
    Start(Tag, Option<String>, Option<String>),
    /// start tag whose id / spectrumRef attribute holds a malformed entity
    StartBad(Tag),
    /// text of the array-length attributes of the next start tag (defaultArrayLength / arrayLength + encodedLength)
    LenAttr(String),
    End(Tag),
    EmptyTag(Tag),
    Cv(usize, Val, char),
    Text(Payload),
}

const ZLIB: usize = 0;
const NOCOMP: usize = 1;
const F64: usize = 2;
const F32: usize = 3;
const MZ: usize = 4;
const INT: usize = 5;
const NOISE: usize = 6;
const LEVEL: usize = 7;
const PROFILE: usize = 8;
const CENTROID: usize = 9;
const TIC: usize = 10;
const SCANSTART: usize = 11;
const INJ: usize = 12;
const SELMZ: usize = 13;
const SELINT: usize = 14;
const SELCHARGE: usize = 15;
const ISOLO: usize = 16;
const ISOHI: usize = 17;
const MOB: usize = 18;
const OTHER: usize = 19;
const MISSING: usize = 20;

const ACCESSIONS: [&str; 19] = [
    "MS:1000574", "MS:1000576", "MS:1000523", "MS:1000521", "MS:1000514", "MS:1000515", "MS:1002744",
    "MS:1000511", "MS:1000128", "MS:1000127", "MS:1000285", "MS:1000016", "MS:1000927", "MS:1000744",
    "MS:1000042", "MS:1000041", "MS:1000828", "MS:1000829", "MS:1002815",
];
const OTHER_ACC: [&str; 14] = [
    "MS:1000294", "MS:1000130", "MS:1000504", "MS:1000505", "MS:1000528", "MS:1000795", "MS:1000501",
    "MS:1000827", "MS:1000133", "MS:1000045", "MS:1000516", "MS:1000522", "MS:1002312", "MS:1000040",
];
const OTHER_TAGS: [&str; 13] = [
    "scanList", "precursorList", "isolationWindow", "selectedIonList", "activation", "binaryDataArrayList",
    "scanWindowList", "scanWindow", "spectrumList", "run", "mzML", "productList", "product",
];
const W_SCANLIST: usize = 0;
const W_PRECLIST: usize = 1;
const W_ISOWIN: usize = 2;
const W_IONLIST: usize = 3;
const W_ACT: usize = 4;
const W_BDALIST: usize = 5;
const W_SCANWINLIST: usize = 6;
const W_SCANWIN: usize = 7;

fn tag_tok(t: &Tag) -> String {
    match t {
        Tag::Sp => "sp".into(),
        Tag::Sc => "sc".into(),
        Tag::Bda => "bda".into(),
        Tag::Bin => "bin".into(),
        Tag::Pre => "pre".into(),
        Tag::Ion => "ion".into(),
        Tag::Other(k) => format!("o{k}"),
    }
}

fn tag_name(t: &Tag) -> &'static str {
    match t {
        Tag::Sp => "spectrum",
        Tag::Sc => "scan",
        Tag::Bda => "binaryDataArray",
        Tag::Bin => "binary",
        Tag::Pre => "precursor",
        Tag::Ion => "selectedIon",
        Tag::Other(k) => OTHER_TAGS[k % OTHER_TAGS.len()],
    }
}

fn parse_tag(s: &str) -> Option<Tag> {
    Some(match s {
        "sp" => Tag::Sp,
        "sc" => Tag::Sc,
        "bda" => Tag::Bda,
        "bin" => Tag::Bin,
        "pre" => Tag::Pre,
        "ion" => Tag::Ion,
        _ => Tag::Other(s.strip_prefix('o')?.parse().ok()?),
    })
}

fn opt_str(o: &mut Out, s: &Option<String>) {
    match s {
        None => {
            o.n(0);
        }
        Some(s) => {
            o.n(1).s(s);
        }
    }
}

fn write_events(o: &mut Out, evs: &[Ev]) {
    o.n(evs.len());
    for e in evs {
        match e {
            Ev::Start(t, id, rf) => {
                o.raw("S").raw(&tag_tok(t));
                opt_str(o, id);
                opt_str(o, rf);
            }
            Ev::StartBad(t) => {
                o.raw("B").raw(&tag_tok(t));
            }
            Ev::LenAttr(v) => {
                o.raw("L").s(v);
            }
            Ev::End(t) => {
                o.raw("E").raw(&tag_tok(t));
            }
            Ev::EmptyTag(t) => {
                o.raw("Z").raw(&tag_tok(t));
            }
            Ev::Cv(c, v, u) => {
                o.raw("C").n(*c);
                match v {
                    Val::Absent => {
                        o.raw("a");
                    }
                    Val::Garbage => {
                        o.raw("g");
                    }
                    Val::F(b) => {
                        o.raw("f").n(*b);
                    }
                    Val::N(n) => {
                        o.raw("n").n(*n);
                    }
                }
                o.raw(&u.to_string());
            }
            Ev::Text(p) => {
                o.raw("T");
                match p {
                    Payload::Empty => {
                        o.raw("e");
                    }
                    Payload::Bad => {
                        o.raw("b");
                    }
                    Payload::Data(w, i) => {
                        o.raw("d").bytes(w);
                        match i {
                            None => {
                                o.n(0);
                            }
                            Some(b) => {
                                o.n(1).bytes(b);
                            }
                        }
                    }
                    Payload::Raw(t, d, i) => {
                        o.raw("x").s(t);
                        for x in [d, i] {
                            match x {
                                None => {
                                    o.n(0);
                                }
                                Some(b) => {
                                    o.n(1).bytes(b);
                                }
                            }
                        }
                    }
                }
            }
        }
    }
}

fn read_events(t: &mut Toks) -> Option<Vec<Ev>> {
    t.list(|t| {
        Some(match t.tok()? {
            "S" => {
                let g = parse_tag(t.tok()?)?;
                let id = t.opt(|t| t.string())?;
                let rf = t.opt(|t| t.string())?;
                Ev::Start(g, id, rf)
            }
            "B" => Ev::StartBad(parse_tag(t.tok()?)?),
            "L" => Ev::LenAttr(t.string()?),
            "E" => Ev::End(parse_tag(t.tok()?)?),
            "Z" => Ev::EmptyTag(parse_tag(t.tok()?)?),
            "C" => {
                let c = t.usize()?;
                if c > MISSING {
                    return None;
                }
                let v = match t.tok()? {
                    "a" => Val::Absent,
                    "g" => Val::Garbage,
                    "f" => Val::F(t.tok()?.parse().ok()?),
                    "n" => Val::N(t.tok()?.parse().ok()?),
                    _ => return None,
                };
                let u = t.tok()?.chars().next()?;
                if !"smoa".contains(u) {
                    return None;
                }
                Ev::Cv(c, v, u)
            }
            "T" => match t.tok()? {
                "e" => Ev::Text(Payload::Empty),
                "b" => Ev::Text(Payload::Bad),
                "d" => {
                    let w = t.bytes()?;
                    let i = t.opt(|t| t.bytes())?;
                    Ev::Text(Payload::Data(w, i))
                }
                "x" => {
                    let text = t.string()?;
                    let d = t.opt(|t| t.bytes())?;
                    let i = t.opt(|t| t.bytes())?;
                    Ev::Text(Payload::Raw(text, d, i))
                }
                _ => return None,
            },
            _ => return None,
        })
    })
}

fn request(style: u64, filter: Option<u8>, sn: Option<u8>, evs: &[Ev]) -> String {
    let mut o = Out::new();
    o.raw("mzml").n(style);
    for x in [filter, sn] {
        match x {
            None => {
                o.n(0);
            }
            Some(v) => {
                o.n(1).n(v);
            }
        }
    }
    write_events(&mut o, evs);
    o.finish()
}

// ------------------------------------------------------------------------------------------------ zlib

fn deflate(b: &[u8]) -> Vec<u8> {
    let mut e = flate2::write::ZlibEncoder::new(Vec::new(), flate2::Compression::default());
    e.write_all(b).unwrap();
    e.finish().unwrap()
}

fn inflate(b: &[u8]) -> Option<Vec<u8>> {
    let mut d = flate2::read::ZlibDecoder::new(b);
    let mut out = Vec::new();
    d.read_to_end(&mut out).ok()?;
    Some(out)
}

// ------------------------------------------------------------------------------------------------ rendering

fn fmt_val(v: &Val, r: &mut Rng) -> Option<String> {
    match v {
        Val::Absent => None,
        Val::Garbage => Some((*r.pick(&["abc", "", "1.2.3", "0x10", "--1", "1,5"])).to_string()),
        // `{:?}` always prints a fraction, an exponent, `inf` or `NaN`: parses back to the same f32, never as u8
        // the two zeros in several spellings (none of which parses as an unsigned integer either)
        Val::F(0) => Some((*r.pick(&["0.0", "0e0", "0.00", "+0.0", "0E-3"])).to_string()),
        Val::F(0x8000_0000) => Some((*r.pick(&["-0.0", "-0", "-0e0", "-0.000"])).to_string()),
        Val::F(b) => Some(format!("{:?}", f32::from_bits(*b))),
        Val::N(n) => Some(n.to_string()),
    }
}

/// XML-escape an attribute value: `& < > " '` always, other characters now and then as numeric references
fn xml_escape(v: &str, r: &mut Rng) -> String {
    let mut o = String::new();
    for c in v.chars() {
        let special = matches!(c, '&' | '<' | '>' | '"' | '\'');
        if special || r.chance(1, 12) {
            match (special, r.below(3)) {
                (true, 0) => o.push_str(match c {
                    '&' => "&amp;",
                    '<' => "&lt;",
                    '>' => "&gt;",
                    '"' => "&quot;",
                    _ => "&apos;",
                }),
                (_, 1) => o.push_str(&format!("&#{};", c as u32)),
                _ => o.push_str(&format!("&#x{:X};", c as u32)),
            }
        } else {
            o.push(c);
        }
    }
    o
}

/// (number of values, base64 length) of the first data payload between `from` and the end tag `until`
fn true_lengths(evs: &[Ev], from: usize, until: &Tag) -> (usize, usize) {
    let mut is64 = true;
    let mut zlib = false;
    for e in &evs[from + 1..] {
        match e {
            Ev::End(t) if t == until => break,
            Ev::Start(Tag::Bda, _, _) => {
                is64 = true;
                zlib = false;
            }
            Ev::Cv(c, _, _) if *c == F64 => is64 = true,
            Ev::Cv(c, _, _) if *c == F32 => is64 = false,
            Ev::Cv(c, _, _) if *c == ZLIB => zlib = true,
            Ev::Cv(c, _, _) if *c == NOCOMP => zlib = false,
            Ev::Text(Payload::Data(w, inf)) => {
                let n = match (zlib, inf) {
                    (true, Some(b)) => b.len(),
                    _ => w.len(),
                };
                return (n / if is64 { 8 } else { 4 }, (w.len() + 2) / 3 * 4);
            }
            _ => {}
        }
    }
    (0, 0)
}

fn attr_text(v: &str) -> String {
    v.replace('&', "&amp;").replace('<', "&lt;").replace('"', "&quot;").replace('\'', "&apos;")
}

/// events -> XML text. Everything drawn from `style` is something the parser must not care about.
fn render(style: u64, evs: &[Ev]) -> Vec<u8> {
    let mut r = Rng::new(style);
    let wrap = r.chance(1, 2);
    let ws = r.chance(2, 3);
    let comments = r.chance(1, 4);
    let squote = r.chance(1, 6);
    let q = if squote { '\'' } else { '"' };
    let mut s = String::new();
    let mut bin_open = 0usize; // no white space / comments while a <binary> may be open: text there is data
    let mut depth = 0usize;
    if wrap {
        if r.chance(1, 2) {
            s.push_str("<?xml version=\"1.0\" encoding=\"utf-8\"?>");
        }
        s.push_str("<mzML xmlns=\"http://psi.hupo.org/ms/mzml\" version=\"1.1.0\"><run id=\"r\"><spectrumList count=\"1\">");
        depth = 3;
    }
    let mut sep = |s: &mut String, r: &mut Rng, depth: usize, bin_open: usize| {
        if bin_open == 0 {
            if ws {
                s.push('\n');
                for _ in 0..depth.min(12) {
                    s.push_str("  ");
                }
            }
            if comments && r.chance(1, 8) {
                s.push_str("<!-- c -->");
            }
        }
    };
    let mut pending_len: Option<String> = None;
    for (ev_index, e) in evs.iter().enumerate() {
        match e {
            Ev::LenAttr(v) => pending_len = Some(v.clone()),
            Ev::Start(t, id, rf) => {
                sep(&mut s, &mut r, depth, bin_open);
                s.push('<');
                s.push_str(tag_name(t));
                if *t == Tag::Sp {
                    s.push_str(&format!(" index={q}0{q}"));
                }
                if let Some(id) = id {
                    s.push_str(&format!(" id={q}{}{q}", xml_escape(id, &mut r)));
                }
                // array-length attributes: the request's text if it gives one, else (mostly) the true values
                let given = pending_len.take();
                if *t == Tag::Bda {
                    let (n, enc) = true_lengths(evs, ev_index, &Tag::Bda);
                    match given {
                        Some(v) => {
                            let v = attr_text(&v);
                            s.push_str(&format!(" arrayLength={q}{v}{q} encodedLength={q}{v}{q}"));
                        }
                        None => {
                            if r.chance(1, 2) {
                                s.push_str(&format!(" arrayLength={q}{n}{q}"));
                            }
                            if r.chance(5, 6) {
                                s.push_str(&format!(" encodedLength={q}{enc}{q}"));
                            }
                        }
                    }
                } else if let Some(v) = given {
                    s.push_str(&format!(" defaultArrayLength={q}{}{q}", attr_text(&v)));
                } else if *t == Tag::Sp && r.chance(5, 6) {
                    let (n, _) = true_lengths(evs, ev_index, &Tag::Sp);
                    s.push_str(&format!(" defaultArrayLength={q}{n}{q}"));
                }
                if let Some(rf) = rf {
                    s.push_str(&format!(" spectrumRef={q}{}{q}", xml_escape(rf, &mut r)));
                }
                if matches!(t, Tag::Other(_)) && r.chance(1, 2) {
                    s.push_str(&format!(" count={q}1{q}"));
                }
                if r.chance(1, 5) {
                    s.push(' ');
                }
                s.push('>');
                depth += 1;
                if *t == Tag::Bin {
                    bin_open += 1;
                }
            }
            Ev::StartBad(t) => {
                sep(&mut s, &mut r, depth, bin_open);
                let bad = *r.pick(&["a&bogus;b", "x&#xZZ;", "lone & ampersand", "&#;", "&;"]);
                let attr = match t {
                    Tag::Pre => "spectrumRef",
                    _ => "id",
                };
                pending_len = None;
                s.push_str(&format!("<{} {attr}={q}{bad}{q}>", tag_name(t)));
                depth += 1;
                if *t == Tag::Bin {
                    bin_open += 1;
                }
            }
            Ev::End(t) => {
                depth = depth.saturating_sub(1);
                if *t != Tag::Bin {
                    sep(&mut s, &mut r, depth, bin_open);
                }
                if *t == Tag::Bin {
                    bin_open = bin_open.saturating_sub(1);
                }
                s.push_str("</");
                s.push_str(tag_name(t));
                s.push('>');
            }
            Ev::EmptyTag(t) => {
                sep(&mut s, &mut r, depth, bin_open);
                match t {
                    Tag::Other(k) => s.push_str(&format!(
                        "<userParam name={q}param {k}{q} type={q}xsd:string{q} value={q}ITMS + c NSI d Full ms2{q}/>"
                    )),
                    _ => s.push_str(&format!("<{}/>", tag_name(t))),
                }
            }
            Ev::Cv(c, v, u) => {
                sep(&mut s, &mut r, depth, bin_open);
                let mut attrs: Vec<String> = vec![format!("cvRef={q}MS{q}"), format!("name={q}some name{q}")];
                if *c < OTHER {
                    attrs.push(format!("accession={q}{}{q}", ACCESSIONS[*c]));
                } else if *c == OTHER {
                    attrs.push(format!("accession={q}{}{q}", r.pick(&OTHER_ACC)));
                }
                if let Some(v) = fmt_val(v, &mut r) {
                    attrs.push(format!("value={q}{v}{q}"));
                }
                match u {
                    's' => attrs.push(format!("unitAccession={q}UO:0000010{q}")),
                    'm' => attrs.push(format!("unitAccession={q}UO:0000031{q}")),
                    'o' => attrs.push(format!("unitAccession={q}UO:0000028{q}")),
                    _ => {}
                }
                if *u != 'a' && r.chance(1, 2) {
                    attrs.push(format!("unitCvRef={q}UO{q}"));
                }
                if r.chance(1, 2) {
                    r.shuffle(&mut attrs);
                }
                s.push_str("<cvParam");
                for a in &attrs {
                    s.push(' ');
                    s.push_str(a);
                }
                s.push_str(if r.chance(1, 3) { " />" } else { "/>" });
            }
            Ev::Text(p) => match p {
                Payload::Empty => {}
                Payload::Bad => s.push_str(*r.pick(&["!!!not base64!!!", "A", "AAAA=A==", "é"])),
                Payload::Data(w, _) => s.push_str(&base64::encode(w)),
                Payload::Raw(t, _, _) => s.push_str(t),
            },
        }
    }
    if wrap && bin_open == 0 {
        if ws {
            s.push('\n');
        }
        s.push_str("</spectrumList></run></mzML>");
        if ws {
            s.push('\n');
        }
    }
    s.into_bytes()
}

// ------------------------------------------------------------------------------------------------ the real parser

fn block_on<F: std::future::Future>(f: F) -> F::Output {
    // the reader only ever awaits reads from an in-memory slice, which are always ready
    let mut f = std::pin::pin!(f);
    let mut cx = std::task::Context::from_waker(std::task::Waker::noop());
    loop {
        if let std::task::Poll::Ready(v) = f.as_mut().poll(&mut cx) {
            return v;
        }
    }
}

fn err_class(e: &MzMLError) -> &'static str {
    match e {
        MzMLError::Malformed => "malformed",
        MzMLError::UnsupportedCV(_) => "unsupported",
        MzMLError::XMLError(_) => "xml",
        MzMLError::IOError(_) => "io",
        MzMLError::Utf8Error(_) => "utf8",
        MzMLError::FloatError(_) => "float",
        MzMLError::IntError(_) => "int",
        MzMLError::Base64Error(_) => "base64",
    }
}

fn f32c(o: &mut Out, x: f32) {
    o.n(if x.is_nan() { 0x7fc0_0000u32 } else { x.to_bits() });
}

fn optf(o: &mut Out, x: Option<f32>) {
    match x {
        None => {
            o.n(0);
        }
        Some(v) => {
            o.n(1);
            f32c(o, v);
        }
    }
}

fn reply_ok(spectra: &[RawSpectrum]) -> String {
    let mut o = Out::new();
    o.raw("ok").n(spectra.len());
    for s in spectra {
        o.s(&s.id).n(s.ms_level).b(s.representation == Representation::Centroid);
        f32c(&mut o, s.total_ion_current);
        f32c(&mut o, s.scan_start_time);
        f32c(&mut o, s.ion_injection_time);
        o.n(s.precursors.len());
        for p in &s.precursors {
            f32c(&mut o, p.mz);
            optf(&mut o, p.intensity);
            match p.charge {
                None => {
                    o.n(0);
                }
                Some(c) => {
                    o.n(1).n(c);
                }
            }
            opt_str(&mut o, &p.spectrum_ref);
            match p.isolation_window {
                None => {
                    o.n(0);
                }
                Some(Tolerance::Da(a, b)) => {
                    o.n(1);
                    f32c(&mut o, a);
                    f32c(&mut o, b);
                }
                Some(Tolerance::Ppm(a, b)) | Some(Tolerance::Pct(a, b)) => {
                    o.n(2);
                    f32c(&mut o, a);
                    f32c(&mut o, b);
                }
            }
            optf(&mut o, p.inverse_ion_mobility);
        }
        o.n(s.mz.len());
        for &x in &s.mz {
            f32c(&mut o, x);
        }
        o.n(s.intensity.len());
        for &x in &s.intensity {
            f32c(&mut o, x);
        }
    }
    o.finish()
}

fn parse_direct(filter: Option<u8>, sn: Option<u8>, doc: &[u8]) -> String {
    let mut rd = match filter {
        Some(l) => MzMLReader::with_file_id_and_level_filter(7, l),
        None => MzMLReader::with_file_id(7),
    };
    rd.set_signal_to_noise(sn);
    match block_on(rd.parse(doc)) {
        Ok(sp) => {
            if sp.iter().any(|s| s.file_id != 7) {
                return "bad-file-id".into();
            }
            reply_ok(&sp)
        }
        Err(e) => format!("err:{}", err_class(&e)),
    }
}

static FILE_COUNTER: std::sync::atomic::AtomicUsize = std::sync::atomic::AtomicUsize::new(0);

/// the public file route: `util::read_mzml` (tokio runtime, file reader, gzip by extension)
/// file names of the file route (style % 3 == 1) and of the gzip route (style % 3 == 2); the spelling is
/// `(style / 3) % len`. All of them are accepted by the unchanged code; `read_spectra` (format detection by
/// lower-cased suffix, then `read_mzml`) is used for every spelling except `.mzML.gzip`, which format detection
/// does not know (it panics with "Unable to get type") and which therefore goes to `read_mzml` directly.
const PLAIN_NAMES: [&str; 3] = [".mzML", ".mzml", ".MZML"];
const GZIP_NAMES: [&str; 5] = [".mzML.gz", ".mzml.gz", ".MZML.GZ", ".mzml.Gz", ".mzML.gzip"];

/// the public file route: `util::read_spectra` / `util::read_mzml` (tokio runtime, file reader, gzip by extension)
fn parse_via_file(gz: bool, style: u64, sn: Option<u8>, doc: &[u8]) -> String {
    let n = FILE_COUNTER.fetch_add(1, std::sync::atomic::Ordering::Relaxed);
    let dir = std::env::temp_dir().join(format!("verif-c16-{}", std::process::id()));
    let _ = std::fs::create_dir_all(&dir);
    let k = (style / 3) as usize;
    let suffix = if gz { GZIP_NAMES[k % GZIP_NAMES.len()] } else { PLAIN_NAMES[k % PLAIN_NAMES.len()] };
    let path = dir.join(format!("RUN{n}{suffix}"));
    let bytes = if gz {
        let mut e = flate2::write::GzEncoder::new(Vec::new(), flate2::Compression::fast());
        e.write_all(doc).unwrap();
        e.finish().unwrap()
    } else {
        doc.to_vec()
    };
    std::fs::write(&path, bytes).unwrap();
    let res = if suffix.ends_with(".gzip") {
        sage_cloudpath::util::read_mzml(path.to_str().unwrap(), 7, sn)
    } else {
        sage_cloudpath::util::read_spectra(path.to_str().unwrap(), 7, sn, Default::default(), false)
    };
    let _ = std::fs::remove_file(&path);
    match res {
        Ok(sp) => reply_ok(&sp),
        Err(sage_cloudpath::Error::MzML(e)) => format!("err:{}", err_class(&e)),
        Err(sage_cloudpath::Error::IO(_)) => "err:io".into(),
        Err(_) => "err:other".into(),
    }
}

/// one document of a request: `<style> <filter> <sn> <n> event…`, with the request's claims about base64 / zlib
/// checked against the real crates
fn read_checked_doc(t: &mut Toks) -> Option<(u64, Option<u8>, Option<u8>, Vec<Ev>)> {
    let style: u64 = t.tok()?.parse().ok()?;
    let filter = t.opt(|t| t.usize())?.map(|x| x as u8);
    let sn = t.opt(|t| t.usize())?.map(|x| x as u8);
    let evs = read_events(t)?;
    // the request states what zlib makes of each payload; do not take its word for it
    let mut prev_text = false;
    for e in &evs {
        if let Ev::Text(p) = e {
            if prev_text {
                return None; // adjacent text nodes would merge into one
            }
            if let Payload::Data(w, i) = p {
                if inflate(w) != *i {
                    return None;
                }
            }
            if let Payload::Raw(t, d, i) = p {
                // the request's claims are checked against the real crates
                if t.contains(['&', '<']) || base64::decode(t).ok() != *d {
                    return None;
                }
                if d.as_ref().and_then(|b| inflate(b)) != *i {
                    return None;
                }
            }
        }
        prev_text = matches!(e, Ev::Text(p) if *p != Payload::Empty && *p != Payload::Raw(String::new(), Some(vec![]), None));
    }
    Some((style, filter, sn, evs))
}

/// one document through the chosen route, a panic being a result like any other
fn parse_routed(route: u64, style: u64, filter: Option<u8>, sn: Option<u8>, doc: &[u8]) -> String {
    let doc = doc.to_vec();
    std::panic::catch_unwind(move || match (route, filter) {
        (1, None) => parse_via_file(false, style, sn, &doc),
        (2, None) => parse_via_file(true, style, sn, &doc),
        _ => parse_direct(filter, sn, &doc),
    })
    .unwrap_or_else(|_| "panic".into())
}

pub fn exec(op: &str, t: &mut Toks) -> Option<String> {
    match op {
        "mzml" => {
            let (style, filter, sn, evs) = read_checked_doc(t)?;
            if !t.done() {
                return None;
            }
            let doc = render(style, &evs);
            if std::env::var_os("VERIF_C16_DUMP").is_some() {
                eprintln!("{}", String::from_utf8_lossy(&doc)); // debugging aid: the rendered XML
            }
            Some(match (style % 3, filter) {
                (1, None) => parse_via_file(false, style, sn, &doc),
                (2, None) => parse_via_file(true, style, sn, &doc),
                _ => parse_direct(filter, sn, &doc),
            })
        }
        "mzmlseq" => {
            // k documents parsed back to back on ONE fresh OS thread, then each alone on its own fresh thread
            let route: u64 = t.tok()?.parse().ok()?;
            let docs = t.list(|t| read_checked_doc(t))?;
            if !t.done() {
                return None;
            }
            let rendered: Vec<(u64, Option<u8>, Option<u8>, Vec<u8>)> =
                docs.iter().map(|(style, f, sn, evs)| (*style, *f, *sn, render(*style, evs))).collect();
            let seq_docs = rendered.clone();
            let in_seq: Vec<String> = std::thread::spawn(move || {
                seq_docs.iter().map(|(style, f, sn, d)| parse_routed(route, *style, *f, *sn, d)).collect()
            })
            .join()
            .ok()?;
            let alone: Vec<String> = rendered
                .into_iter()
                .map(|(style, f, sn, d)| {
                    std::thread::spawn(move || parse_routed(route, style, f, sn, &d)).join().unwrap_or_else(|_| "panic".into())
                })
                .collect();
            let mut o = Out::new();
            o.n(in_seq.len());
            for r in in_seq.iter().chain(alone.iter()) {
                o.raw(r);
            }
            Some(o.finish())
        }
        "mzmlraw" => {
            let filter = t.opt(|t| t.usize())?.map(|x| x as u8);
            let sn = t.opt(|t| t.usize())?.map(|x| x as u8);
            let doc = t.bytes()?;
            // watchdog: the loop logs XML errors and carries on, so termination is not a given
            let (tx, rx) = std::sync::mpsc::channel();
            std::thread::spawn(move || {
                let r = std::panic::catch_unwind(|| parse_direct(filter, sn, &doc));
                let _ = tx.send(r.unwrap_or_else(|_| "panic".into()));
            });
            Some(rx.recv_timeout(std::time::Duration::from_secs(20)).unwrap_or_else(|_| "hang".into()))
        }
        _ => None,
    }
}

// ------------------------------------------------------------------------------------------------ generator

#[derive(Clone, Debug)]
struct P {
    c: usize,
    v: Val,
    u: char,
}

#[derive(Clone, Debug)]
struct Arr {
    params: Vec<P>,
    payload: Payload,
}

#[derive(Clone, Debug, Default)]
struct Prec {
    rf: Option<String>,
    iso: Vec<P>,
    ions: Vec<Vec<P>>,
    act: Vec<P>,
}

#[derive(Clone, Debug, Default)]
struct El {
    id: String,
    params: Vec<P>,
    scans: Vec<Vec<P>>,
    precs: Vec<Prec>,
    arrays: Vec<Arr>,
}

fn p(c: usize, v: Val) -> P {
    P { c, v, u: 'a' }
}

fn flag(c: usize) -> P {
    P { c, v: Val::Absent, u: 'a' }
}

/// a float-valued attribute: mostly ordinary positive numbers, sometimes integers, rarely special values
fn fval(r: &mut Rng) -> Val {
    match r.below(20) {
        0..=4 => Val::N(1 + r.below(5000) as u64),
        5 => Val::F(*r.pick(&[0x7f80_0000u32, 0x7fc0_0000, 0x0000_0001, 0x7f7f_ffff, 0xc2f6_0000, 0x3400_0000])),
        6 => Val::N(16_777_217 + r.below(1000) as u64), // above 2^24: parse must round
        _ => Val::F(((r.unit() * 2000.0 + 0.001) as f32).to_bits()),
    }
}

/// an isolation-window offset: exactly zero (as `0`, `0.0`/`0e0`/…, `-0`/`-0.0`/…) about a third of the time -
/// zero is a legitimate offset (one-sided window), not "absent"
fn iso_val(r: &mut Rng) -> Val {
    match r.below(9) {
        0 => Val::N(0),
        1 => Val::F(0),
        2 => Val::F(0x8000_0000),
        _ => fval(r),
    }
}

fn other_cv(r: &mut Rng) -> P {
    let v = match r.below(3) {
        0 => Val::Absent,
        1 => fval(r),
        _ => Val::Garbage, // never read, so never an error
    };
    P { c: OTHER, v, u: *r.pick(&['a', 'a', 'o', 's']) }
}

fn sprinkle(r: &mut Rng, ps: &mut Vec<P>, noise: u32) {
    let n = ps.len();
    for i in (0..=n).rev() {
        if r.chance(noise, 100) {
            ps.insert(i, other_cv(r));
        }
    }
}

fn rand_value_bytes(r: &mut Rng, is64: bool) -> Vec<u8> {
    if is64 {
        let x: f64 = match r.below(24) {
            0 => f64::NAN,
            1 => f64::INFINITY,
            2 => 1e300,  // -> inf as f32
            3 => 1e-300, // -> 0
            4 => -0.0,
            5 => 3.4028235677973366e38, // rounds up to inf / max boundary
            6 => 1.401298464324817e-45, // f32 min subnormal
            7 => 1.0000000596046448,    // halfway between two f32
            8 => f64::from_bits(r.next()),
            _ => r.unit() * 2000.0,
        };
        x.to_le_bytes().to_vec()
    } else {
        let x: f32 = match r.below(16) {
            0 => f32::NAN,
            1 => f32::NEG_INFINITY,
            2 => f32::from_bits(1),
            3 => 0.0,
            4 => f32::from_bits(r.next() as u32),
            _ => (r.unit() * 2000.0) as f32,
        };
        x.to_le_bytes().to_vec()
    }
}

fn mk_payload(bytes: Vec<u8>, zlib: bool) -> Payload {
    if zlib {
        let w = deflate(&bytes);
        Payload::Data(w, Some(bytes))
    } else {
        let i = inflate(&bytes);
        Payload::Data(bytes, i)
    }
}

/// kind: MZ / INT / NOISE / OTHER (an array kind the reader does not know)
fn gen_arr(r: &mut Rng, kind: usize, nvals: usize, ragged: bool) -> Arr {
    let is64 = r.chance(1, 2);
    let zlib = r.chance(1, 2);
    let mut bytes = Vec::new();
    for _ in 0..nvals {
        bytes.extend(rand_value_bytes(r, is64));
    }
    if ragged {
        let extra = 1 + r.below(if is64 { 7 } else { 3 });
        for _ in 0..extra {
            bytes.push(r.next() as u8);
        }
    }
    let mut params = vec![flag(if is64 { F64 } else { F32 }), flag(if zlib { ZLIB } else { NOCOMP }), flag(kind)];
    r.shuffle(&mut params);
    // irrelevant cvParams may only precede the array kind: an unknown accession after it un-declares the kind
    // (as coded; such documents are generated separately under the tag `unknown-after-kind`)
    let kpos = params.iter().position(|q| q.c == kind).unwrap();
    if r.chance(1, 4) {
        let at = r.below(kpos + 1);
        params.insert(at, other_cv(r));
    }
    let payload = if nvals == 0 && !ragged && r.chance(1, 2) { Payload::Empty } else { mk_payload(bytes, zlib) };
    Arr { params, payload }
}

struct Opts {
    level: u8,
    noise_cv: u32, // percent chance of irrelevant params
    rich: Option<bool>, // Some(true): every optional field present; Some(false): none
}

fn gen_id(r: &mut Rng, n: usize) -> String {
    match r.below(6) {
        4 => format!("scan={n}&file=\"a<b>\" it's"),
        5 => (*r.pick(&["&", "<>", "a&amp;b", "\"quoted\"", "'", "&#65;", "x & y < z", "&lt;"])).to_string(),
        0 => format!("scan={n}"),
        1 => format!("controllerType=0 controllerNumber=1 scan={n}"),
        2 => format!("spectrum={}", r.below(100000)),
        _ => format!("S{n}.{}-x_y:z", r.below(10)),
    }
}

fn gen_el(r: &mut Rng, n: usize, o: &Opts) -> El {
    let has = |r: &mut Rng, pct: u32| match o.rich {
        Some(b) => b,
        None => r.chance(pct, 100),
    };
    let mut e = El { id: gen_id(r, n), ..Default::default() };
    // direct params
    let mut ps = Vec::new();
    if has(r, 70) {
        ps.push(flag(if r.chance(3, 4) { CENTROID } else { PROFILE }));
    }
    if o.rich != Some(false) || r.chance(1, 2) {
        ps.push(p(LEVEL, Val::N(o.level as u64)));
    }
    if has(r, 60) {
        // zero is an ordinary value (since the repair of C16-tic-zero)
        let v = if o.rich.is_none() && r.chance(1, 8) {
            *r.pick(&[Val::N(0), Val::F(0), Val::F(0x8000_0000)])
        } else {
            Val::F(((r.unit() * 1e6 + 1.0) as f32).to_bits())
        };
        ps.push(p(TIC, v));
    }
    if o.rich.is_none() {
        r.shuffle(&mut ps);
    }
    sprinkle(r, &mut ps, o.noise_cv);
    e.params = ps;
    // scans
    let nscans = match o.rich {
        Some(true) => 1,
        Some(false) => 0,
        None => *r.pick(&[0usize, 1, 1, 1, 1, 2]),
    };
    for _ in 0..nscans {
        let mut sp = Vec::new();
        if has(r, 90) {
            sp.push(P { c: SCANSTART, v: fval(r), u: if r.chance(1, 2) { 's' } else { 'm' } });
        }
        if has(r, 50) {
            sp.push(p(INJ, fval(r)));
        }
        if has(r, 25) {
            sp.push(p(MOB, fval(r)));
        }
        if o.rich.is_none() {
            r.shuffle(&mut sp);
            if r.chance(1, 10) {
                // accessions that mean something elsewhere mean nothing here
                sp.push(p(*r.pick(&[LEVEL, TIC, SELMZ, ISOLO, MZ, ZLIB]), Val::N(3)));
            }
        }
        sprinkle(r, &mut sp, o.noise_cv);
        e.scans.push(sp);
    }
    // precursors
    let nprec = match o.rich {
        Some(true) => 1,
        Some(false) => 0,
        None => {
            if o.level >= 2 {
                *r.pick(&[0usize, 1, 1, 1, 2, 3])
            } else if r.chance(1, 10) {
                1
            } else {
                0
            }
        }
    };
    for k in 0..nprec {
        let mut pe = Prec::default();
        if has(r, 50) {
            pe.rf = Some(if r.chance(1, 4) { format!("scan={}&\"<'>", n + k) } else { format!("scan={}", n + k) });
        }
        if has(r, 60) {
            pe.iso.push(p(OTHER, fval(r)));
            if has(r, 90) {
                pe.iso.push(p(ISOLO, iso_val(r)));
            }
            if has(r, 90) {
                pe.iso.push(p(ISOHI, iso_val(r)));
            }
            if o.rich.is_none() {
                r.shuffle(&mut pe.iso);
            }
        }
        let nions = match o.rich {
            Some(_) => 1,
            None => *r.pick(&[0usize, 1, 1, 1, 1, 2]),
        };
        for _ in 0..nions {
            let mut ip = Vec::new();
            if o.rich == Some(true) || r.chance(9, 10) {
                // m/z 0 (any spelling) means "no precursor": it must not be pushed
                let v = if o.rich.is_none() && r.chance(1, 12) {
                    *r.pick(&[Val::N(0), Val::F(0), Val::F(0x8000_0000)])
                } else {
                    fval(r)
                };
                ip.push(p(SELMZ, v));
            }
            if has(r, 60) {
                ip.push(p(SELCHARGE, Val::N(*r.pick(&[0u64, 1, 2, 3, 4, 255]))));
            }
            if has(r, 40) {
                ip.push(p(SELINT, fval(r)));
            }
            if has(r, 25) {
                ip.push(p(MOB, fval(r)));
            }
            if o.rich.is_none() {
                r.shuffle(&mut ip);
            }
            sprinkle(r, &mut ip, o.noise_cv);
            pe.ions.push(ip);
        }
        if has(r, 50) {
            pe.act.push(other_cv(r));
            if o.rich.is_none() && r.chance(1, 10) {
                pe.act.push(p(ISOHI, iso_val(r)));
            }
        }
        e.precs.push(pe);
    }
    // arrays
    match o.rich {
        Some(true) => {
            let n = 1 + r.below(6);
            e.arrays.push(gen_arr(r, MZ, n, false));
            e.arrays.push(gen_arr(r, INT, n, false));
            e.arrays.push(gen_arr(r, NOISE, n, false));
        }
        Some(false) => {}
        None => {
            let n = r.below(13);
            let mut kinds: Vec<usize> = Vec::new();
            if r.chance(9, 10) {
                kinds.push(MZ);
            }
            if r.chance(9, 10) {
                kinds.push(INT);
            }
            if r.chance(1, 3) {
                kinds.push(NOISE);
            }
            if r.chance(1, 5) {
                kinds.push(OTHER);
            }
            if r.chance(1, 12) {
                kinds.push(*r.pick(&[MZ, INT, NOISE])); // a second array of the same kind: the last one wins
            }
            if r.chance(1, 3) {
                r.shuffle(&mut kinds);
            }
            for k in kinds {
                // noise arrays of a different length than the intensities, zeros in them, ragged payloads
                let len = if r.chance(1, 6) { r.below(13) } else { n };
                let ragged = r.chance(1, 10);
                e.arrays.push(gen_arr(r, k, len, ragged));
            }
        }
    }
    e
}

fn push_params(out: &mut Vec<Ev>, ps: &[P], r: &mut Rng, junk: u32) {
    for q in ps {
        if r.chance(junk, 100) {
            out.push(Ev::EmptyTag(Tag::Other(r.below(5))));
        }
        out.push(Ev::Cv(q.c, q.v.clone(), q.u));
    }
}

/// SAX order of the element, with the wrapper elements and userParams real files have (`junk` percent)
fn events_of(e: &El, r: &mut Rng, junk: u32) -> Vec<Ev> {
    let wrapped = junk > 0;
    let mut out = vec![Ev::Start(Tag::Sp, Some(e.id.clone()), None)];
    push_params(&mut out, &e.params, r, junk);
    if wrapped && !e.scans.is_empty() {
        out.push(Ev::Start(Tag::Other(W_SCANLIST), None, None));
        out.push(Ev::Cv(OTHER, Val::Absent, 'a')); // "no combination": a cvParam directly in scanList
    }
    for s in &e.scans {
        out.push(Ev::Start(Tag::Sc, None, None));
        push_params(&mut out, s, r, junk);
        if wrapped && r.chance(1, 2) {
            out.push(Ev::Start(Tag::Other(W_SCANWINLIST), None, None));
            out.push(Ev::Start(Tag::Other(W_SCANWIN), None, None));
            out.push(Ev::Cv(OTHER, Val::N(115), 'o'));
            out.push(Ev::Cv(OTHER, Val::N(930), 'o'));
            out.push(Ev::End(Tag::Other(W_SCANWIN)));
            out.push(Ev::End(Tag::Other(W_SCANWINLIST)));
        }
        out.push(Ev::End(Tag::Sc));
    }
    if wrapped && !e.scans.is_empty() {
        out.push(Ev::End(Tag::Other(W_SCANLIST)));
    }
    if wrapped && !e.precs.is_empty() {
        out.push(Ev::Start(Tag::Other(W_PRECLIST), None, None));
    }
    for pe in &e.precs {
        out.push(Ev::Start(Tag::Pre, None, pe.rf.clone()));
        if wrapped && !pe.iso.is_empty() {
            out.push(Ev::Start(Tag::Other(W_ISOWIN), None, None));
        }
        push_params(&mut out, &pe.iso, r, 0);
        if wrapped && !pe.iso.is_empty() {
            out.push(Ev::End(Tag::Other(W_ISOWIN)));
        }
        if wrapped && !pe.ions.is_empty() {
            out.push(Ev::Start(Tag::Other(W_IONLIST), None, None));
        }
        for ip in &pe.ions {
            out.push(Ev::Start(Tag::Ion, None, None));
            push_params(&mut out, ip, r, junk);
            out.push(Ev::End(Tag::Ion));
        }
        if wrapped && !pe.ions.is_empty() {
            out.push(Ev::End(Tag::Other(W_IONLIST)));
        }
        if wrapped && !pe.act.is_empty() {
            out.push(Ev::Start(Tag::Other(W_ACT), None, None));
        }
        push_params(&mut out, &pe.act, r, 0);
        if wrapped && !pe.act.is_empty() {
            out.push(Ev::End(Tag::Other(W_ACT)));
        }
        out.push(Ev::End(Tag::Pre));
    }
    if wrapped && !e.precs.is_empty() {
        out.push(Ev::End(Tag::Other(W_PRECLIST)));
    }
    if wrapped && !e.arrays.is_empty() {
        out.push(Ev::Start(Tag::Other(W_BDALIST), None, None));
    }
    for a in &e.arrays {
        out.push(Ev::Start(Tag::Bda, None, None));
        push_params(&mut out, &a.params, r, 0);
        out.push(Ev::Start(Tag::Bin, None, None));
        out.push(Ev::Text(a.payload.clone()));
        out.push(Ev::End(Tag::Bin));
        out.push(Ev::End(Tag::Bda));
    }
    if wrapped && !e.arrays.is_empty() {
        out.push(Ev::End(Tag::Other(W_BDALIST)));
    }
    out.push(Ev::End(Tag::Sp));
    out
}

fn doc_events(els: &[El], r: &mut Rng, junk: u32) -> Vec<Ev> {
    els.iter().flat_map(|e| events_of(e, r, junk)).collect()
}

fn rand_cfg(r: &mut Rng) -> (Option<u8>, Option<u8>) {
    let filter = *r.pick(&[None, None, None, Some(1u8), Some(2), Some(2), Some(3)]);
    let sn = *r.pick(&[None, None, Some(1u8), Some(2), Some(2), Some(3)]);
    (filter, sn)
}

/// style with a chosen route (0 direct, 1 file, 2 gzip file)
fn style_for(r: &mut Rng, route: u64) -> u64 {
    let s = r.next() % 1_000_000;
    s - s % 3 + route
}

fn chaos_tree(r: &mut Rng, depth: usize, out: &mut Vec<Ev>, budget: &mut usize) {
    let n = r.below(5);
    let mut last_text = false;
    for _ in 0..n {
        if *budget == 0 {
            return;
        }
        *budget -= 1;
        match r.below(10) {
            0..=3 => {
                let c = r.below(MISSING + 1);
                let c = if c == MISSING && !r.chance(1, 6) { OTHER } else { c };
                let v = match r.below(8) {
                    0 => Val::Absent,
                    1 => Val::Garbage,
                    2 => Val::N(r.below(400) as u64),
                    3 => Val::N(r.below(4) as u64),
                    _ => fval(r),
                };
                // flags without a value attribute for the accessions that never read one
                let v = if c <= NOISE || c == PROFILE || c == CENTROID { Val::Absent } else { v };
                out.push(Ev::Cv(c, v, *r.pick(&['s', 'm', 'm', 'o', 'a'])));
                last_text = false;
            }
            4 => {
                if !last_text {
                    let pl = match r.below(6) {
                        0 => Payload::Empty,
                        1 => Payload::Bad,
                        _ => {
                            let is64 = r.chance(1, 2);
                            let mut b = Vec::new();
                            for _ in 0..r.below(4) {
                                b.extend(rand_value_bytes(r, is64));
                            }
                            for _ in 0..r.below(3) {
                                b.push(r.next() as u8);
                            }
                            mk_payload(b, r.chance(1, 2))
                        }
                    };
                    last_text = pl != Payload::Empty;
                    out.push(Ev::Text(pl));
                }
            }
            5 => {
                out.push(Ev::EmptyTag(if r.chance(1, 2) { Tag::Other(r.below(9)) } else { Tag::Sc }));
                last_text = false;
            }
            _ => {
                if depth < 6 {
                    let t = match r.below(9) {
                        0 | 1 => Tag::Sp,
                        2 => Tag::Sc,
                        3 | 4 => Tag::Bda,
                        5 => Tag::Bin,
                        6 => Tag::Pre,
                        7 => Tag::Ion,
                        _ => Tag::Other(r.below(9)),
                    };
                    let id = if t == Tag::Sp && !r.chance(1, 12) { Some(format!("c{}", r.below(100))) } else { None };
                    let rf = if t == Tag::Pre && r.chance(1, 2) { Some("ref".to_string()) } else { None };
                    out.push(Ev::Start(t.clone(), id, rf));
                    chaos_tree(r, depth + 1, out, budget);
                    out.push(Ev::End(t));
                    last_text = false;
                }
            }
        }
    }
}

/// the element positions (event indices) at which a single fault can be injected
fn inject_fault(r: &mut Rng, evs: &mut Vec<Ev>) -> Option<&'static str> {
    let idx: Vec<usize> = (0..evs.len()).collect();
    let mut order = idx.clone();
    r.shuffle(&mut order);
    let kind = r.below(8);
    for i in order {
        match (kind, &evs[i]) {
            (0, Ev::Cv(c, _, u)) if *c >= LEVEL && *c < OTHER && *c != PROFILE && *c != CENTROID => {
                evs[i] = Ev::Cv(*c, Val::Absent, *u);
                return Some("fault:value-absent");
            }
            (1, Ev::Cv(c, _, u)) if *c >= LEVEL && *c < OTHER && *c != PROFILE && *c != CENTROID => {
                evs[i] = Ev::Cv(*c, Val::Garbage, *u);
                return Some("fault:value-garbage");
            }
            (2, Ev::Cv(c, _, u)) if *c == LEVEL || *c == SELCHARGE => {
                let v = if r.chance(1, 2) { Val::N(256 + r.below(1000) as u64) } else { Val::F(0x4000_0000) };
                evs[i] = Ev::Cv(*c, v, *u);
                return Some("fault:u8-out-of-range");
            }
            (3, Ev::Cv(_, v, u)) => {
                evs[i] = Ev::Cv(MISSING, v.clone(), *u);
                return Some("fault:no-accession");
            }
            (4, Ev::Cv(c, v, _)) if *c == SCANSTART => {
                evs[i] = Ev::Cv(*c, v.clone(), if r.chance(1, 2) { 'o' } else { 'a' });
                return Some("fault:unit");
            }
            (5, Ev::Text(Payload::Data(w, inf))) => {
                if r.chance(1, 2) {
                    evs[i] = Ev::Text(Payload::Bad);
                    return Some("fault:base64");
                } else if inf.is_some() && w.len() > 6 {
                    // a zlib stream cut short, or with a corrupted header
                    let mut w2 = w.clone();
                    if r.chance(1, 2) {
                        w2.truncate(w.len() / 2);
                    } else {
                        w2[0] ^= 0x55;
                    }
                    let i2 = inflate(&w2);
                    evs[i] = Ev::Text(Payload::Data(w2, i2));
                    return Some("fault:zlib");
                }
            }
            (7, Ev::Start(Tag::Sp, _, _)) => {
                evs[i] = Ev::StartBad(Tag::Sp);
                return Some("fault:bad-entity");
            }
            (7, Ev::Start(Tag::Pre, _, _)) => {
                evs[i] = Ev::StartBad(Tag::Pre);
                return Some("fault:bad-entity");
            }
            (6, Ev::Start(Tag::Sp, Some(_), _)) => {
                evs[i] = Ev::Start(Tag::Sp, None, None);
                return Some("fault:no-id");
            }
            _ => {}
        }
    }
    None
}

fn mutate_bytes(r: &mut Rng, doc: &[u8], other: &[u8]) -> (Vec<u8>, &'static str) {
    let mut d = doc.to_vec();
    if d.is_empty() {
        return (d, "raw:empty");
    }
    match r.below(8) {
        0 => {
            d.truncate(r.below(d.len()));
            (d, "raw:truncate")
        }
        1 => {
            for _ in 0..1 + r.below(4) {
                let i = r.below(d.len());
                d[i] ^= 1 << r.below(8);
            }
            (d, "raw:bitflip")
        }
        2 => {
            let a = r.below(d.len());
            let b = (a + 1 + r.below(40)).min(d.len());
            d.drain(a..b);
            (d, "raw:delete")
        }
        3 => {
            let a = r.below(d.len());
            let b = (a + 1 + r.below(60)).min(d.len());
            let seg: Vec<u8> = d[a..b].to_vec();
            let at = r.below(d.len());
            d.splice(at..at, seg);
            (d, "raw:duplicate")
        }
        4 => {
            let at = r.below(d.len());
            let junk: Vec<u8> = (0..1 + r.below(6)).map(|_| *r.pick(b"<>&\"'/=;\x00\xff \n-]!?[Aa0")).collect();
            d.splice(at..at, junk);
            (d, "raw:insert")
        }
        5 => {
            d.extend_from_slice(other);
            (d, "raw:concat")
        }
        6 => {
            // cut inside, then glue the tail of another document
            d.truncate(r.below(d.len()));
            let a = r.below(other.len().max(1));
            d.extend_from_slice(&other[a.min(other.len())..]);
            (d, "raw:splice")
        }
        _ => {
            let i = r.below(d.len());
            d[i] = *r.pick(b"<>&\"'/=");
            (d, "raw:metachar")
        }
    }
}

/// array-length attribute texts a reader must not trust. Nothing between ~2^30 and 2^62: a reader that did
/// pre-size a buffer from such a value might really get the memory (or be killed by the allocator, taking the
/// harness with it); from 2^63 on `Vec::with_capacity` fails with a catchable capacity-overflow panic.
const HOSTILE_LENGTHS: [&str; 20] = [
    "0", "1", "2", "7", "1000", "65536", "18446744073709551615", "9999999999999999999", "9223372036854775808",
    "9223372036854775807", "18446744073709551616", "99999999999999999999999999", "-1", "-9223372036854775808",
    "abc", "", "1e3", " 5", "0x10", "3.0",
];

/// put a length-attribute text in front of the `<spectrum>` / `<binaryDataArray>` start tags
fn with_len_attrs(evs: &[Ev], r: &mut Rng, sp_pct: u32, bda_pct: u32, only: Option<&str>) -> Vec<Ev> {
    let mut out = Vec::with_capacity(evs.len() + 8);
    for e in evs {
        let pct = match e {
            Ev::Start(Tag::Sp, _, _) => sp_pct,
            Ev::Start(Tag::Bda, _, _) => bda_pct,
            _ => 0,
        };
        if pct > 0 && r.chance(pct, 100) {
            let v = match only {
                Some(v) => v.to_string(),
                None => (*r.pick(&HOSTILE_LENGTHS)).to_string(),
            };
            out.push(Ev::LenAttr(v));
        }
        out.push(e.clone());
    }
    out
}

/// a `<binary>` text given verbatim, with what the base64 crate and zlib make of it
fn raw_payload(text: String) -> Payload {
    let d = base64::decode(&text).ok();
    let i = d.as_ref().and_then(|b| inflate(b));
    Payload::Raw(text, d, i)
}

const B64_KINDS: [&str; 17] = [
    "b64:no-padding", "b64:one-pad-less", "b64:cut-1", "b64:cut-2", "b64:cut-3", "b64:unpadded-cut-1", "b64:insert",
    "b64:delete", "b64:space", "b64:mime-line-breaks", "b64:pretty-printed", "b64:foreign-char", "b64:trailing-newline",
    "b64:url-safe", "b64:pad-in-middle", "b64:extra-pad", "b64:tab-crlf",
];

/// corruptions of a correctly padded base64 text that real files and truncations produce
fn mutate_b64(r: &mut Rng, text: &str, kind: usize) -> String {
    let mut t: Vec<char> = text.chars().collect();
    let unpadded: String = text.trim_end_matches('=').to_string();
    let mid = if t.len() > 2 { 1 + r.below(t.len() - 2) } else { 0 };
    match kind {
        0 => unpadded,
        1 => {
            t.pop();
            t.into_iter().collect()
        }
        2 | 3 | 4 => {
            for _ in 0..(kind - 1).min(t.len()) {
                t.pop();
            }
            t.into_iter().collect()
        }
        5 => {
            let mut u: Vec<char> = unpadded.chars().collect();
            u.pop();
            u.into_iter().collect()
        }
        6 => {
            t.insert(mid, *r.pick(&['A', 'z', '0', '+', '/']));
            t.into_iter().collect()
        }
        7 => {
            if !t.is_empty() {
                t.remove(mid.min(t.len() - 1));
            }
            t.into_iter().collect()
        }
        8 => {
            t.insert(mid, ' ');
            t.into_iter().collect()
        }
        9 => {
            let mut o = String::new();
            for (i, c) in t.iter().enumerate() {
                if i > 0 && i % 8 == 0 {
                    o.push('\n');
                }
                o.push(*c);
            }
            if t.len() <= 8 {
                o.push('\n');
            }
            o
        }
        10 => format!("\n          {text}\n        "),
        11 => {
            if !t.is_empty() {
                let k = mid.min(t.len() - 1);
                t[k] = *r.pick(&['*', '-', '_', '.', '!', '\u{e9}']);
            }
            t.into_iter().collect()
        }
        12 => format!("{text}\n"),
        13 => {
            let u = text.replace('+', "-").replace('/', "_");
            if u == text {
                format!("-{}", &text[1.min(text.len())..])
            } else {
                u
            }
        }
        14 => {
            t.insert(mid, '=');
            t.into_iter().collect()
        }
        15 => format!("{text}="),
        _ => {
            t.insert(mid, '\t');
            let mut o: String = t.into_iter().collect();
            o.push_str("\r\n");
            o
        }
    }
}

fn nontrivial(evs: &[Ev]) -> bool {
    evs.len() >= 4
}

pub fn gen(rng: &mut Rng, tier: Tier, emit: &mut dyn FnMut(Case)) {
    let quick = tier == Tier::Quick;
    let scale = if quick { 1 } else { 20 };

    // --- A: random schema-shaped documents, all configurations and routes
    for i in 0..400 * scale {
        let nsp = 1 + rng.below(5);
        let noise_cv = *rng.pick(&[0u32, 10, 30]);
        let els: Vec<El> = (0..nsp)
            .map(|n| {
                let level = *rng.pick(&[1u8, 2, 2, 2, 3]);
                gen_el(rng, n, &Opts { level, noise_cv, rich: None })
            })
            .collect();
        let junk = *rng.pick(&[0u32, 15, 15]);
        let evs = doc_events(&els, rng, junk);
        let (mut filter, sn) = rand_cfg(rng);
        let route = if i % 8 == 6 { 1 } else if i % 8 == 7 { 2 } else { 0 };
        if route != 0 {
            filter = None;
        }
        let style = style_for(rng, route);
        emit(Case::new(request(style, filter, sn, &evs))
            .tag("wellformed")
            .tag_if(route == 1, "route:file")
            .tag_if(route == 2, "route:gzip-file")
            .tag_if(filter.is_some(), "level-filter")
            .tag_if(sn.is_some(), "signal-to-noise")
            .tag_if(nsp >= 2, "multi-spectrum")
            .nontrivial(nontrivial(&evs)));
    }

    // --- B: directed: a rich element followed by a bare one (and back), for every loop-carried local
    for rep in 0..(if quick { 6 } else { 60 }) {
        for &(l1, l2) in &[(2u8, 2u8), (1, 2), (2, 3), (3, 2), (2, 1)] {
            let rich = gen_el(rng, 1, &Opts { level: l1, noise_cv: 0, rich: Some(true) });
            let mut bare = gen_el(rng, 2, &Opts { level: l2, noise_cv: 0, rich: Some(false) });
            bare.params = vec![p(LEVEL, Val::N(l2 as u64))];
            // the bare element still has a precursor and an intensity array, so that leaked values would show
            let mut bp = Prec::default();
            bp.ions.push(vec![p(SELMZ, fval(rng))]);
            bare.precs.push(bp.clone());
            let nb = 1 + rng.below(4);
            bare.arrays.push(gen_arr(rng, INT, nb, false));
            // an element whose precursor is never pushed (no m/z) but carries everything else
            let mut ghost = rich.clone();
            ghost.id = "ghost".into();
            for pe in ghost.precs.iter_mut() {
                for ip in pe.ions.iter_mut() {
                    ip.retain(|q| q.c != SELMZ);
                }
            }
            // two precursors in ONE spectrum: the second declares nothing but its m/z
            let mut two = rich.clone();
            two.id = "two".into();
            two.precs.push(bp.clone());
            // ... and one whose first precursor is never pushed
            let mut two_ghost = ghost.clone();
            two_ghost.id = "two-ghost".into();
            two_ghost.precs.push(bp);
            let docs: Vec<(Vec<&El>, &'static str)> = vec![
                (vec![&two], "pair:two-precursors"),
                (vec![&two_ghost, &bare], "pair:two-precursors"),
                (vec![&rich, &bare], "pair:rich-bare"),
                (vec![&bare, &rich, &bare], "pair:bare-rich-bare"),
                (vec![&ghost, &bare], "pair:unpushed-precursor-bare"),
                (vec![&rich, &ghost, &bare, &rich], "pair:mixed"),
            ];
            for (d, tag) in docs {
                let els: Vec<El> = d.into_iter().cloned().collect();
                let evs = doc_events(&els, rng, if rep % 2 == 0 { 0 } else { 15 });
                for &filter in &[None, Some(l2)] {
                    for &sn in &[None, Some(l1), Some(l2)] {
                        let style = style_for(rng, 0);
                        emit(Case::new(request(style, filter, sn, &evs)).tag("directed-pair").tag(tag));
                    }
                }
            }
        }
    }

    // --- B2 (thorough): exhaustive optional-field subsets for two-spectrum documents
    if !quick {
        let mk = |bits: u32, id: &str, rng: &mut Rng| -> El {
            let mut e = El { id: id.into(), ..Default::default() };
            e.params.push(p(LEVEL, Val::N(2)));
            let mut sc = vec![P { c: SCANSTART, v: Val::N(60), u: 's' }];
            if bits & 1 != 0 {
                sc.push(p(INJ, Val::N(25)));
            }
            if bits & 2 != 0 {
                sc.push(p(MOB, Val::F(0x3f8a_0000)));
            }
            e.scans.push(sc);
            let mut pe = Prec::default();
            if bits & 4 != 0 {
                pe.rf = Some("scan=1".into());
            }
            if bits & 8 != 0 {
                pe.iso = vec![p(ISOLO, Val::F(0x3fc0_0000)), p(ISOHI, Val::F(0x3f40_0000))];
            }
            let mut ip = vec![];
            if bits & 16 != 0 {
                ip.push(p(SELMZ, Val::N(500)));
            }
            if bits & 32 != 0 {
                ip.push(p(SELCHARGE, Val::N(3)));
                ip.push(p(SELINT, Val::N(1000)));
            }
            pe.ions.push(ip);
            e.precs.push(pe);
            e.arrays.push(gen_arr(rng, INT, 2, false));
            if bits & 64 != 0 {
                e.arrays.push(gen_arr(rng, NOISE, 2, false));
            }
            e
        };
        for b1 in 0..128u32 {
            for b2 in 0..128u32 {
                let els = vec![mk(b1, "a", rng), mk(b2, "b", rng)];
                let evs = doc_events(&els, rng, 0);
                emit(Case::new(request(style_for(rng, 0), None, Some(2), &evs)).tag("exhaustive-optional-fields"));
            }
        }
    }

    // --- B3: isolation-window offsets that are exactly zero: `Da(-lo, hi)` must come back with the encoded zeros
    //          (lower 0 gives -0.0), never as "no window"; every combination of {absent, 0, 0.0, -0.0, non-zero}
    {
        let choices: [Option<Val>; 5] =
            [None, Some(Val::N(0)), Some(Val::F(0)), Some(Val::F(0x8000_0000)), Some(Val::F(0x3fc0_0000))];
        for (i, lo) in choices.iter().enumerate() {
            for (j, hi) in choices.iter().enumerate() {
                for variant in 0..(if quick { 2 } else { 8 }) {
                    let mut e = El { id: format!("iso{i}{j}"), ..Default::default() };
                    e.params.push(p(LEVEL, Val::N(2)));
                    let mut pe = Prec::default();
                    if let Some(v) = lo {
                        pe.iso.push(p(ISOLO, *v));
                    }
                    if let Some(v) = hi {
                        // the upper offset sometimes in the activation block, after the selected ion
                        if variant % 2 == 1 {
                            pe.act.push(p(ISOHI, *v));
                        } else {
                            pe.iso.push(p(ISOHI, *v));
                        }
                    }
                    pe.ions.push(vec![p(SELMZ, fval(rng)), p(SELCHARGE, Val::N(2))]);
                    e.precs.push(pe);
                    // a second precursor with an ordinary window, and a following spectrum without one
                    let mut pe2 = Prec::default();
                    pe2.iso = vec![p(ISOLO, Val::F(0x3f80_0000)), p(ISOHI, Val::F(0x4000_0000))];
                    pe2.ions.push(vec![p(SELMZ, fval(rng))]);
                    if variant >= 1 {
                        e.precs.push(pe2);
                    }
                    let mut bare = El { id: "next".into(), ..Default::default() };
                    bare.params.push(p(LEVEL, Val::N(2)));
                    let mut bp = Prec::default();
                    bp.ions.push(vec![p(SELMZ, fval(rng))]);
                    bare.precs.push(bp);
                    let evs = doc_events(&[e, bare], rng, if variant % 2 == 0 { 0 } else { 15 });
                    let zero = |v: &Option<Val>| matches!(v, Some(Val::N(0)) | Some(Val::F(0)) | Some(Val::F(0x8000_0000)));
                    emit(Case::new(request(style_for(rng, 0), None, None, &evs))
                        .tag("iso-window")
                        .tag_if(zero(lo) && hi.is_some(), "iso-window:lower-zero")
                        .tag_if(zero(hi) && lo.is_some(), "iso-window:upper-zero")
                        .tag_if(zero(lo) && zero(hi), "iso-window:both-zero"));
                }
            }
        }
    }

    // --- C: payload lengths around the word size (the repaired 64-bit panic lives here)
    for len in 0..=17usize {
        for &is64 in &[false, true] {
            for &zlib in &[false, true] {
                let bytes: Vec<u8> = (0..len).map(|_| rng.next() as u8).collect();
                let arr = Arr {
                    params: vec![flag(MZ), flag(if is64 { F64 } else { F32 }), flag(if zlib { ZLIB } else { NOCOMP })],
                    payload: mk_payload(bytes, zlib),
                };
                let mut e = El { id: format!("len{len}"), ..Default::default() };
                e.params.push(p(LEVEL, Val::N(2)));
                e.arrays.push(arr);
                let evs = doc_events(&[e], rng, 0);
                emit(Case::new(request(style_for(rng, 0), None, None, &evs))
                    .tag("payload-length")
                    .tag_if(len % if is64 { 8 } else { 4 } != 0, "payload-ragged"));
            }
        }
    }

    // --- C2: an unknown accession after the array kind un-declares it (as coded; outside the schema-shaped class)
    for _ in 0..10 * scale {
        let mut e = gen_el(rng, 0, &Opts { level: 2, noise_cv: 0, rich: Some(true) });
        for a in e.arrays.iter_mut() {
            if rng.chance(1, 2) {
                a.params.push(other_cv(rng));
            }
        }
        let evs = doc_events(&[e], rng, 0);
        emit(Case::new(request(style_for(rng, 0), None, None, &evs)).tag("unknown-after-kind"));
    }

    // --- C3: an array that declares no kind after one that does: it must be ignored, not stored under the old kind
    for _ in 0..10 * scale {
        let mut e = gen_el(rng, 0, &Opts { level: 2, noise_cv: 0, rich: Some(true) });
        let mut extra = Vec::new();
        for a in e.arrays.iter() {
            let nv = 1 + rng.below(3);
            let mut b = gen_arr(rng, MZ, nv, false);
            b.params.retain(|q| q.c != MZ);
            extra.push((a.clone(), b));
        }
        e.arrays = extra.into_iter().flat_map(|(a, b)| vec![a, b]).collect();
        // also: a declared array with an empty payload followed by an undeclared one with data
        let mut empty = gen_arr(rng, INT, 0, false);
        empty.payload = Payload::Empty;
        let mut b = gen_arr(rng, MZ, 2, false);
        b.params.retain(|q| q.c != MZ);
        e.arrays.push(empty);
        e.arrays.push(b);
        let evs = doc_events(&[e], rng, 0);
        emit(Case::new(request(style_for(rng, 0), None, None, &evs)).tag("undeclared-kind"));
    }

    // --- C4: hostile array-length attributes (defaultArrayLength / arrayLength / encodedLength): they must be ignored
    for (i, v) in HOSTILE_LENGTHS.iter().enumerate() {
        for variant in 0..(if quick { 3 } else { 12 }) {
            let lv = *rng.pick(&[1u8, 2, 2]);
            let mut els = vec![gen_el(rng, 0, &Opts { level: lv, noise_cv: 0, rich: Some(true) })];
            if variant % 3 == 2 {
                els.push(gen_el(rng, 1, &Opts { level: 2, noise_cv: 10, rich: None }));
            }
            let evs = doc_events(&els, rng, if variant % 2 == 0 { 0 } else { 15 });
            // variant 0: on <spectrum> only; 1: on every <binaryDataArray> only; 2: everywhere
            let (sp, bda) = match variant % 3 {
                0 => (100, 0),
                1 => (0, 100),
                _ => (100, 100),
            };
            let evs = with_len_attrs(&evs, rng, sp, bda, Some(v));
            let (filter, sn) = if variant % 3 == 2 { rand_cfg(rng) } else { (None, None) };
            let route = if i % 5 == 4 && filter.is_none() { 1 + (variant as u64 % 2) } else { 0 };
            emit(Case::new(request(style_for(rng, route), filter, sn, &evs))
                .tag("length-attr")
                .tag_if(v.len() >= 19, "length-attr:huge")
                .tag_if(v.starts_with('-'), "length-attr:negative")
                .tag_if(v.parse::<u64>().is_err() && !v.starts_with('-') && v.len() < 19, "length-attr:non-numeric"));
        }
    }
    for _ in 0..20 * scale {
        // random mixtures, also in documents with faults elsewhere
        let els: Vec<El> = (0..1 + rng.below(3))
            .map(|n| {
                let level = *rng.pick(&[1u8, 2, 2]);
                gen_el(rng, n, &Opts { level, noise_cv: 10, rich: None })
            })
            .collect();
        let evs = doc_events(&els, rng, 15);
        let evs = with_len_attrs(&evs, rng, 60, 60, None);
        let (filter, sn) = rand_cfg(rng);
        emit(Case::new(request(style_for(rng, 0), filter, sn, &evs)).tag("length-attr").tag("length-attr:mixed"));
    }

    // --- C5: base64 texts that are not the canonical padded encoding (lost padding, cut, line breaks, foreign
    //         characters), for every array encoding; the values must be the model's, the outcome never a panic
    for &is64 in &[false, true] {
        for &zlib in &[false, true] {
            for pad in 1..=2usize {
                // bytes whose base64 text ends in `pad` padding characters
                let want = if pad == 2 { 1 } else { 2 };
                let mut bytes = Vec::new();
                let mut wire = Vec::new();
                for attempt in 0..400 {
                    bytes.clear();
                    let n = 1 + (attempt % 4);
                    for _ in 0..n {
                        bytes.extend(rand_value_bytes(rng, is64));
                    }
                    wire = if zlib { deflate(&bytes) } else { bytes.clone() };
                    if wire.len() % 3 == want {
                        break;
                    }
                }
                if wire.len() % 3 != want {
                    continue;
                }
                let text = base64::encode(&wire);
                for (kind, tag) in B64_KINDS.iter().enumerate() {
                    for rep in 0..(if quick { 1 } else { 8 }) {
                        let t2 = mutate_b64(rng, &text, kind);
                        if t2.contains(['&', '<']) {
                            continue;
                        }
                        let mk = |k: usize, payload: Payload| Arr {
                            params: vec![flag(k), flag(if is64 { F64 } else { F32 }), flag(if zlib { ZLIB } else { NOCOMP })],
                            payload,
                        };
                        let mut a = El { id: "a".into(), ..Default::default() };
                        a.params.push(p(LEVEL, Val::N(2)));
                        a.arrays.push(mk(MZ, raw_payload(t2)));
                        a.arrays.push(mk(INT, mk_payload(bytes.clone(), zlib)));
                        let mut b = gen_el(rng, 1, &Opts { level: 2, noise_cv: 0, rich: Some(false) });
                        b.params = vec![p(LEVEL, Val::N(2))];
                        b.arrays.push(mk(INT, raw_payload(text.clone())));
                        let evs = doc_events(&[a, b], rng, if rep % 2 == 0 { 0 } else { 15 });
                        emit(Case::new(request(style_for(rng, 0), None, None, &evs)).tag("b64").tag(tag));
                    }
                }
            }
            // `<binary></binary>` vs `<binary/>` vs white space only
            for variant in 0..3 {
                let mut evs = vec![Ev::Start(Tag::Sp, Some("e".into()), None), Ev::Cv(LEVEL, Val::N(2), 'a')];
                evs.push(Ev::Start(Tag::Bda, None, None));
                evs.push(Ev::Cv(MZ, Val::Absent, 'a'));
                evs.push(Ev::Cv(if is64 { F64 } else { F32 }, Val::Absent, 'a'));
                evs.push(Ev::Cv(if zlib { ZLIB } else { NOCOMP }, Val::Absent, 'a'));
                match variant {
                    0 => {
                        evs.push(Ev::Start(Tag::Bin, None, None));
                        evs.push(Ev::Text(Payload::Empty));
                        evs.push(Ev::End(Tag::Bin));
                    }
                    1 => evs.push(Ev::EmptyTag(Tag::Bin)),
                    _ => {
                        evs.push(Ev::Start(Tag::Bin, None, None));
                        evs.push(Ev::Text(raw_payload("\n      ".into())));
                        evs.push(Ev::End(Tag::Bin));
                    }
                }
                evs.push(Ev::End(Tag::Bda));
                evs.push(Ev::End(Tag::Sp));
                emit(Case::new(request(style_for(rng, 0), None, None, &evs))
                    .tag("b64")
                    .tag(["b64:empty-element-pair", "b64:empty-element-tag", "b64:white-space-only"][variant]));
            }
        }
    }

    // --- D: TIC = 0 (finding C16-tic-zero, repaired): the element is read as encoded, wherever the param stands
    for i in 0..(if quick { 72 } else { 1440 }) {
        let nsp = 1 + rng.below(3);
        let at = rng.below(nsp);
        let level = [1u8, 2, 3][i % 3];
        let other = [2u8, 3, 1][i % 3];
        let noise_cv = if i % 2 == 0 { 0 } else { 10 };
        let mut els: Vec<El> = (0..nsp)
            .map(|n| {
                let lv = if n == at { level } else { *rng.pick(&[1u8, 2, 2, 3]) };
                gen_el(rng, n, &Opts { level: lv, noise_cv, rich: None })
            })
            .collect();
        let zero = *rng.pick(&[Val::N(0), Val::F(0), Val::F(0x8000_0000)]);
        els[at].params.retain(|q| q.c != TIC);
        let mode = (i / 3) % 4;
        let pos = match mode {
            0 => 0,
            1 => els[at].params.len(),
            _ => rng.below(els[at].params.len() + 1),
        };
        if mode != 3 {
            els[at].params.insert(pos, p(TIC, zero));
        }
        let mut evs = doc_events(&els, rng, if i % 2 == 0 { 0 } else { 15 });
        let mut late = false;
        if mode == 3 {
            // out of schema order: the param comes after a scan, a precursor or between the arrays of its spectrum
            let mut seen = 0usize;
            let mut inside = false;
            let mut cand = Vec::new();
            for (k, e) in evs.iter().enumerate() {
                match e {
                    Ev::Start(Tag::Sp, _, _) => {
                        inside = seen == at;
                        seen += 1;
                    }
                    Ev::End(Tag::Sp) => inside = false,
                    Ev::End(Tag::Bda) | Ev::End(Tag::Pre) | Ev::End(Tag::Sc) if inside => cand.push(k + 1),
                    _ => {}
                }
            }
            if cand.is_empty() {
                let k = evs.iter().position(|e| matches!(e, Ev::Start(Tag::Sp, _, _))).unwrap();
                // (first spectrum: still a legal place, right after the start tag)
                evs.insert(k + 1, Ev::Cv(TIC, zero, 'a'));
            } else {
                let k = *rng.pick(&cand);
                evs.insert(k, Ev::Cv(TIC, zero, 'a'));
                late = true;
            }
        }
        let (filter, sn) = match (i / 12) % 6 {
            0 => (None, None),
            1 => (Some(level), None),
            2 => (None, Some(level)),
            3 => (Some(level), Some(level)),
            4 => (Some(other), None),
            _ => (None, Some(other)),
        };
        emit(Case::new(request(style_for(rng, 0), filter, sn, &evs))
            .tag("tic-zero")
            .tag_if(late, "tic-zero:late")
            .tag_if(filter.is_some(), "tic-zero:level-filter")
            .tag_if(sn.is_some(), "tic-zero:signal-to-noise")
            .tag(["tic-zero:ms1", "tic-zero:ms2", "tic-zero:ms3"][i % 3]));
    }

    // --- E: single-fault documents: every error class
    for _ in 0..150 * scale {
        let nsp = 1 + rng.below(3);
        let els: Vec<El> = (0..nsp)
            .map(|n| {
                let level = *rng.pick(&[1u8, 2, 2]);
                gen_el(rng, n, &Opts { level, noise_cv: 10, rich: None })
            })
            .collect();
        let mut evs = doc_events(&els, rng, 10);
        let tag = inject_fault(rng, &mut evs);
        let (filter, sn) = rand_cfg(rng);
        if let Some(tag) = tag {
            emit(Case::new(request(style_for(rng, 0), filter, sn, &evs)).tag("single-fault").tag(tag));
        }
    }

    // --- F: chaos: well-nested trees with elements in the wrong places
    for _ in 0..300 * scale {
        let mut evs = Vec::new();
        let mut budget = 60usize;
        for _ in 0..1 + rng.below(3) {
            chaos_tree(rng, 0, &mut evs, &mut budget);
        }
        // never two adjacent text nodes (they would merge)
        let mut clean: Vec<Ev> = Vec::new();
        for e in evs {
            if let (Some(Ev::Text(a)), Ev::Text(_)) = (clean.last(), &e) {
                if *a != Payload::Empty {
                    continue;
                }
            }
            clean.push(e);
        }
        let (filter, sn) = rand_cfg(rng);
        // style with wrap = off is not guaranteed; the wrapper elements are inert in every state
        let nt = clean.len() >= 4;
        emit(Case::new(request(style_for(rng, 0), filter, sn, &clean)).tag("chaos").nontrivial(nt));
    }

    // --- H: byte-level mutations of rendered documents
    for _ in 0..300 * scale {
        let mk = |rng: &mut Rng| {
            let nsp = 1 + rng.below(3);
            let els: Vec<El> =
                (0..nsp).map(|n| gen_el(rng, n, &Opts { level: 2, noise_cv: 10, rich: None })).collect();
            let evs = doc_events(&els, rng, 15);
            render(rng.next() % 1000, &evs)
        };
        let a = mk(rng);
        let b = mk(rng);
        let (d, tag) = mutate_bytes(rng, &a, &b);
        let (filter, sn) = rand_cfg(rng);
        let mut o = Out::new();
        o.raw("mzmlraw");
        for x in [filter, sn] {
            match x {
                None => {
                    o.n(0);
                }
                Some(v) => {
                    o.n(1).n(v);
                }
            }
        }
        o.bytes(&d);
        emit(Case::new(o.finish()).tag("raw-mutation").tag(tag));
    }
    // --- S: sequences of documents on one thread: a document's result must not depend on the documents parsed
    //         (or half-parsed) before it
    {
        let doc_tokens = |style: u64, sn: Option<u8>, evs: &[Ev]| -> String {
            request(style, None, sn, evs).strip_prefix("mzml ").unwrap().to_string()
        };
        // a spectrum whose big zlib array breaks AFTER the inflater has produced output
        let zfail = |rng: &mut Rng, raw_len: usize| -> Vec<Ev> {
            let is64 = rng.chance(1, 2);
            let nvals = raw_len / if is64 { 8 } else { 4 };
            let mut bytes = Vec::new();
            // a palette of values: compresses well, so that a few KB of zlib text inflate to tens of KB - the reader's
            // inflater hands over its output in 4 KB pieces, only complete pieces survive a failure
            let palette: Vec<f64> = (0..40).map(|_| 400.0 + (rng.unit() * 2000.0).round() / 10.0).collect();
            for _ in 0..nvals {
                let v = *rng.pick(&palette);
                if is64 {
                    bytes.extend(v.to_le_bytes());
                } else {
                    bytes.extend((v as f32).to_le_bytes());
                }
            }
            let good = deflate(&bytes);
            let mut wire = good.clone();
            for _ in 0..50 {
                wire = good.clone();
                match rng.below(3) {
                    0 => wire.truncate(good.len() * 6 / 10 + rng.below(good.len() / 4)),
                    1 => {
                        let at = good.len() * 6 / 10 + rng.below(good.len() / 4);
                        wire[at] ^= 0xff;
                        wire[at + 1] ^= 0x55;
                    }
                    _ => {
                        let at = good.len() * 3 / 4;
                        for b in wire[at..at + 16].iter_mut() {
                            *b = 0xff;
                        }
                    }
                }
                if inflate(&wire).is_none() {
                    break;
                }
            }
            let arr = Arr {
                params: vec![flag(*rng.pick(&[MZ, INT])), flag(if is64 { F64 } else { F32 }), flag(ZLIB)],
                payload: Payload::Data(wire.clone(), inflate(&wire)),
            };
            let mut e = El { id: "damaged".into(), ..Default::default() };
            e.params.push(p(LEVEL, Val::N(2)));
            if rng.chance(1, 2) {
                e.arrays.push(gen_arr(rng, INT, 3, false));
            }
            e.arrays.push(arr);
            doc_events(&[e], rng, 0)
        };
        // a healthy document whose FIRST array is a small zlib array
        let healthy = |rng: &mut Rng| -> Vec<Ev> {
            let mut e = El { id: "healthy".into(), ..Default::default() };
            e.params.push(p(LEVEL, Val::N(2)));
            let is64 = rng.chance(1, 2);
            let vals = [100.25f64, 200.5, 300.75];
            let bytes: Vec<u8> = if is64 {
                vals.iter().flat_map(|x| x.to_le_bytes()).collect()
            } else {
                vals.iter().flat_map(|x| (*x as f32).to_le_bytes()).collect()
            };
            e.arrays.push(Arr {
                params: vec![flag(MZ), flag(if is64 { F64 } else { F32 }), flag(ZLIB)],
                payload: mk_payload(bytes, true),
            });
            e.arrays.push(gen_arr(rng, INT, 3, false));
            let mut els = vec![e];
            if rng.chance(1, 2) {
                els.push(gen_el(rng, 1, &Opts { level: 2, noise_cv: 0, rich: Some(true) }));
            }
            let junk = if rng.chance(1, 2) { 0 } else { 15 };
            doc_events(&els, rng, junk)
        };
        let other_fail = |rng: &mut Rng, which: usize| -> Vec<Ev> {
            let mut evs = healthy(rng);
            match which {
                0 => {
                    // base64 failure inside a zlib-declared array
                    if let Some(k) = evs.iter().position(|e| matches!(e, Ev::Text(_))) {
                        evs[k] = Ev::Text(Payload::Bad);
                    }
                }
                1 => {
                    let k = evs.iter().rposition(|e| matches!(e, Ev::Start(Tag::Sp, _, _))).unwrap();
                    evs[k] = Ev::StartBad(Tag::Sp);
                }
                _ => {
                    let k = evs.iter().rposition(|e| matches!(e, Ev::Start(Tag::Sp, _, _))).unwrap();
                    evs[k] = Ev::Start(Tag::Sp, None, None);
                }
            }
            evs
        };
        let reps = if quick { 1 } else { 12 };
        for rep in 0..reps {
            for pattern in 0..8usize {
                for route in 0..3u64 {
                    // raw size 80-130 KB: the inflater works through a 32 KB window, a failure inside the first window leaves
                    // nothing behind; only later failures come after output has been handed over
                    let nvals = 80_000 + rng.below(if quick { 20_000 } else { 50_000 });
                    let docs: Vec<Vec<Ev>> = match pattern {
                        0 => vec![zfail(rng, nvals), healthy(rng)],
                        1 => vec![healthy(rng), zfail(rng, nvals), healthy(rng)],
                        2 => vec![zfail(rng, nvals), zfail(rng, nvals * 2 / 3), healthy(rng), healthy(rng)],
                        3 => vec![other_fail(rng, 0), healthy(rng)],
                        4 => vec![other_fail(rng, 1), healthy(rng)],
                        5 => vec![zfail(rng, nvals), other_fail(rng, 2), healthy(rng)],
                        6 => vec![healthy(rng), healthy(rng)],
                        _ => vec![healthy(rng), zfail(rng, nvals), other_fail(rng, 0), zfail(rng, nvals), healthy(rng)],
                    };
                    let sn = if rep % 2 == 1 { Some(2u8) } else { None };
                    let mut o = Out::new();
                    o.raw("mzmlseq").n(route).n(docs.len());
                    for d in &docs {
                        let t = doc_tokens(style_for(rng, route), sn, d);
                        o.raw(&t);
                    }
                    emit(Case::new(o.finish())
                        .tag("sequence")
                        .tag(["seq:route-direct", "seq:route-file", "seq:route-gzip-file"][route as usize])
                        .tag([
                            "seq:zlib-fail,healthy", "seq:healthy,zlib-fail,healthy", "seq:zlib-fail x2,healthy x2",
                            "seq:base64-fail,healthy", "seq:xml-fail,healthy", "seq:zlib-fail,malformed,healthy",
                            "seq:healthy x2", "seq:mixed-5",
                        ][pattern]));
                }
            }
        }
    }

    // --- H2: EVERY truncation offset of a small two-spectrum document (padded 32-bit, zlib 64-bit, unpadded-length
    //          payloads): a document cut inside a base64 text hands the decoder a text of any length mod 4
    {
        let f32s = |xs: &[f32]| -> Vec<u8> { xs.iter().flat_map(|x| x.to_le_bytes()).collect() };
        let f64s = |xs: &[f64]| -> Vec<u8> { xs.iter().flat_map(|x| x.to_le_bytes()).collect() };
        let bda = |kind: &str, dtype: &str, comp: &str, wire: &[u8]| -> String {
            format!(
                "<binaryDataArray encodedLength=\"{}\"><cvParam accession=\"{kind}\"/><cvParam accession=\"{dtype}\"/>\
                 <cvParam accession=\"{comp}\"/><binary>{}</binary></binaryDataArray>",
                (wire.len() + 2) / 3 * 4,
                base64::encode(wire)
            )
        };
        let doc = format!(
            "<mzML><run><spectrumList><spectrum id=\"a\" defaultArrayLength=\"2\"><cvParam accession=\"MS:1000511\" value=\"2\"/>\
             <binaryDataArrayList>{}{}</binaryDataArrayList></spectrum><spectrum id=\"b\"><cvParam accession=\"MS:1000511\" \
             value=\"1\"/><binaryDataArrayList>{}{}</binaryDataArrayList></spectrum></spectrumList></run></mzML>",
            bda("MS:1000514", "MS:1000521", "MS:1000576", &f32s(&[100.5, 200.25])),
            bda("MS:1000515", "MS:1000523", "MS:1000574", &deflate(&f64s(&[8.0, 10.0]))),
            bda("MS:1000514", "MS:1000523", "MS:1000576", &f64s(&[300.125])),
            bda("MS:1000515", "MS:1000521", "MS:1000574", &deflate(&f32s(&[1.0, 2.0, 3.0]))),
        );
        let d = doc.as_bytes();
        for cut in 0..=d.len() {
            let mut o = Out::new();
            o.raw("mzmlraw").n(0).n(0).bytes(&d[..cut]);
            emit(Case::new(o.finish()).tag("raw-mutation").tag("raw:truncate-exhaustive").nontrivial(cut > 40));
        }
    }
}
