//! C18 — TMT reporter-ion quantification (`sage_core::tmt`, `spectrum::select_most_intense_peak`)
//!
//!   tmt <plex> ppmLo ppmHi level [n spectrum…]  ->  [n row…]            rows sorted as text; quantify runs in rayon
//!       pools of 1, 2 and 16 threads: the pool-1 rows if all agree, else `threaddep <threads> <rows>`
//!   tmtpool [k threads…] <plex> ppmLo ppmHi level [n spectrum…]  ->  k × [n row…]   one row set per pool size
//!       plex     = t6 | t10 | t11 | t16 | t18 | u [n f32…]
//!       spectrum = level id(hex) file_id inj(f32) [n (0 | 1 ref(hex))…] [n (mass(f32) intensity(f32))…]
//!       row      = key(hex) file_id inj(f32) [n f32…]
//!   selpeak <p|c|d> lo hi center (0 | 1 offset) [n (mass intensity)…]  ->  0 | 1 mass intensity
//!   tmtproc <plex> level rawLevel deisotope maxPeaks (0 | 1 charge) [n (mz(f32) intensity(f32))…]  ->  [n row…]
//!       the runner's pipeline on one RAW spectrum: min_deisotope_mz as in runner.rs (source-text tie),
//!       SpectrumProcessor::new(maxPeaks, deisotope, min_deisotope_mz.unwrap_or(0.0)).process(raw), tmt::quantify
//!   tmtrun <plex> level sn deisotope maxPeaks batch [nfiles [n rspec…]…]  ->  [n row…]
//!       rspec = level id(hex) inj(f32) [n (mz(f32) (0|1 charge) (0|1 ref(hex)))…] [n (mz(f32) int(f32))…] [m noise(f32)…]
//!       THE REAL RUNNER: the spectra are written as mzML files into a private temp dir, a real
//!       `sage_cli::runner::Runner` is built with quant.tmt = plex, tmt_settings = {level, sn}, deisotope,
//!       max_peaks, and `Runner::batch_files` is called; the reply is `SageResults::quant`
//!       (read_processed_spectra: sn, min_deisotope_mz, SpectrumProcessor, mzML reader, process;
//!        complete_features: tmt::quantify with the runner's tolerance)
//!   tmtguard <plex> level  ->  (0 | 1 min_deisotope_mz) [n upper-edge(f32)…]
//!   tmtconsts  ->  for t6,t10,t11,t16,t18: [n f32…]; PROTON; and, read from the text of
//!                  sage-cli/src/runner.rs: ppmLo ppmHi (quantify call) c1 c2 (min_deisotope_mz factor) level form(last|max)
use super::Info;
use crate::proto::{Case, Out, Rng, Tier, Toks};
use sage_core::mass::{Tolerance, NEUTRON, PROTON};
use sage_core::spectrum::{
    select_most_intense_peak, Peak, Precursor, ProcessedSpectrum, RawSpectrum, Representation, SpectrumProcessor,
};
use sage_core::tmt::{quantify, Isobaric};

pub const OPS: &[&str] = &["tmt", "selpeak", "tmtconsts", "tmtguard", "tmtproc", "tmtrun", "tmtpool"];
pub const INFO: Info = Info {
    rule: "tmt: plex in {6,10,11,16,18,user-defined (0-6 masses, sorted or not, some 6 mDa apart, some with \
           overlapping windows)} x quant level (mostly 2/3, also 0/1/4) x 0-6 spectra of mixed levels (ids, file ids, \
           0-2 precursors with/without spectrum_ref) whose peaks are placed per channel: 0/1/2/3 peaks inside the \
           +-20 ppm window, peaks exactly on / 1-3 ulp around the f32 window edge (inside the spec's guard band), \
           peaks 10-60 ulp inside / outside the edge (outside the guard band), neighbouring-channel peaks 6 mDa \
           away, intensity ties (small value set), duplicate masses, noise peaks elsewhere; peaks sorted by mass \
           (ProcessedSpectrum invariant); directed: one peak per channel for every plex x level 2/3, peaks exactly \
           on / one ulp outside both edges of all 18 channels, all 64 subsets of 6 positions around 127N/127C x 3 \
           intensity orders, odd intensities (negative, -0, NaN, inf: spec na). non-trivial = some spectrum at the quant level has a channel with a peak \
           in its window AND a peak outside every window. selpeak: sorted peak lists over few distinct masses / \
           intensities (ties, zeros, negatives) x Ppm/Pct/Da windows whose edges coincide with peak masses, with \
           and without offset; exhaustive small scope in the thorough tier. tmtproc (raw spectrum -> runner's min_deisotope_mz -> \
           SpectrumProcessor::process -> quantify): every built-in plex x {descending, ascending, equal reporter \
           intensities} x precursor charge {none, 2} x {own channels, all 18 positions}, plus random cases: built-in and \
           user plexes (neutron ladders, shuffled), reporter peaks within +-15 ppm, second peaks in a window, peaks \
           24-44 ppm outside, neighbours one neutron/z (z 1-2) above/below reporters at 0.25-4x the intensity, peaks in \
           the 1.2 Th right above the heaviest channel, fragment isotope clusters (z 1-3) above the region; no peak \
           within 17-23 ppm of a channel (spec exact); quant/raw level (2,2) mostly, (3,3), mismatches; deisotope on 5/6; \
           max_peaks >= number of peaks, except a 10% small-max_peaks stream (spec na); wherever the deisotoper does not \
           run (raw level 3, or deisotoping off) 3/4 of the raw m/z arrays are NOT ascending: descending, two ascending \
           segments concatenated, random permutation, duplicated m/z permuted (also directed: every plex x 4 orders x \
           {MS3 quant, MS2 quant without deisotoping}; same in tmtrun for MS3 spectra and MS2 spectra without deisotoping). tmtpool (quantify inside explicit rayon pools, mostly [1,2,3,4,16]): lists of 2-300 spectra (quick: 60 lists \
           incl. 2 x 300, 128, 64 ...) of five shapes — full-reporter spectra then spectra with all channels empty, the \
           reverse, alternating full / partial / empty, blocks full-partial-empty, random kinds — at the quant level, \
           half of the lists interleaved with (full) other-level spectra; every spectrum has its own intensities so a \
           value leaked from another spectrum of the same rayon job is visible; `tmt` itself runs in pools 1/2/16 and \
           tmtrun in pools 1/3. tmtrun (THE REAL Runner::batch_files over mzML files written \
           to a temp dir): every built-in plex x 3 intensity patterns at MS2 with deisotoping; a directed file with MS3 \
           before its MS2, MS3 scans sharing / lacking / mis-referencing an MS2, a zero-m/z precursor, escaped ids, an MS2 \
           without reporter peaks, at level 2/3 x sn on/off, and as two files x batch 1/2; random: 1-2 files of 0-3 \
           cycles (MS1?, MS2, 0-3 MS3; shuffled 1/3), id styles (controllerType…scan=N, scan=N, N, index=N, XML-special \
           characters), quant level 2/3 (1/4 rarely), sn 2/5 with noise arrays on half the spectra (sometimes shorter), \
           deisotope 5/6, batch 1-3, max_peaks >= largest spectrum except a small-max_peaks stream (spec na). \
           tmtconsts: one case (tables, plex \
           slices, runner.rs constants). tmtguard: every built-in plex x level 0-4, plus user-defined plexes (1-8 \
           masses): ascending, shuffled except for the last element, and fully shuffled (the heaviest mass anywhere).",
    serial: false,
};

// ------------------------------------------------------------------------------------------ data

#[derive(Clone)]
enum Plex {
    T6,
    T10,
    T11,
    T16,
    T18,
    User(Vec<f32>),
}

impl Plex {
    fn real(&self) -> Isobaric {
        match self {
            Plex::T6 => Isobaric::Tmt6,
            Plex::T10 => Isobaric::Tmt10,
            Plex::T11 => Isobaric::Tmt11,
            Plex::T16 => Isobaric::Tmt16,
            Plex::T18 => Isobaric::Tmt18,
            Plex::User(v) => Isobaric::User(v.clone()),
        }
    }
    fn write(&self, o: &mut Out) {
        match self {
            Plex::T6 => o.raw("t6"),
            Plex::T10 => o.raw("t10"),
            Plex::T11 => o.raw("t11"),
            Plex::T16 => o.raw("t16"),
            Plex::T18 => o.raw("t18"),
            Plex::User(v) => {
                o.raw("u").n(v.len());
                for &x in v {
                    o.f32(x);
                }
                o
            }
        };
    }
    fn read(t: &mut Toks) -> Option<Plex> {
        Some(match t.tok()? {
            "t6" => Plex::T6,
            "t10" => Plex::T10,
            "t11" => Plex::T11,
            "t16" => Plex::T16,
            "t18" => Plex::T18,
            "u" => Plex::User(t.list(|t| t.f32())?),
            _ => return None,
        })
    }
}

#[derive(Clone)]
struct Spec {
    level: u8,
    id: String,
    file_id: usize,
    inj: f32,
    precursors: Vec<Option<String>>,
    peaks: Vec<(f32, f32)>, // (mass, intensity)
}

fn write_spec(o: &mut Out, s: &Spec) {
    o.n(s.level).s(&s.id).n(s.file_id).f32(s.inj).n(s.precursors.len());
    for p in &s.precursors {
        match p {
            None => o.n(0),
            Some(r) => o.n(1).s(r),
        };
    }
    o.n(s.peaks.len());
    for &(m, i) in &s.peaks {
        o.f32(m).f32(i);
    }
}

fn read_spec(t: &mut Toks) -> Option<Spec> {
    let level = t.usize()?;
    if level > 255 {
        return None;
    }
    let id = t.string()?;
    let file_id = t.usize()?;
    let inj = t.f32()?;
    let precursors = t.list(|t| t.opt(|t| t.string()))?;
    let peaks = t.list(|t| Some((t.f32()?, t.f32()?)))?;
    Some(Spec { level: level as u8, id, file_id, inj, precursors, peaks })
}

fn tmt_request(plex: &Plex, ppm: (f32, f32), level: u8, specs: &[Spec]) -> String {
    let mut o = Out::new();
    o.raw("tmt");
    plex.write(&mut o);
    o.f32(ppm.0).f32(ppm.1).n(level).n(specs.len());
    for s in specs {
        write_spec(&mut o, s);
    }
    o.finish()
}

// ------------------------------------------------------------------------------------------ exec

/// explicit rayon pools (cached): whether two spectra are handled by the same rayon job depends on the pool size
fn pool(threads: usize) -> std::sync::Arc<rayon::ThreadPool> {
    use std::collections::HashMap;
    use std::sync::{Arc, Mutex, OnceLock};
    static POOLS: OnceLock<Mutex<HashMap<usize, Arc<rayon::ThreadPool>>>> = OnceLock::new();
    let m = POOLS.get_or_init(|| Mutex::new(HashMap::new()));
    let mut g = m.lock().unwrap_or_else(|e| e.into_inner());
    g.entry(threads)
        .or_insert_with(|| Arc::new(rayon::ThreadPoolBuilder::new().num_threads(threads.max(1)).build().expect("pool")))
        .clone()
}

struct TmtReq {
    plex: Plex,
    lo: f32,
    hi: f32,
    level: u8,
    spectra: Vec<ProcessedSpectrum<Peak>>,
}

fn read_tmt_req(t: &mut Toks) -> Option<TmtReq> {
    let plex = Plex::read(t)?;
    let lo = t.f32()?;
    let hi = t.f32()?;
    let level = t.usize()?;
    if level > 255 {
        return None;
    }
    let specs = t.list(read_spec)?;
    if !t.done() {
        return None;
    }
    let spectra: Vec<ProcessedSpectrum<Peak>> = specs
        .iter()
        .map(|s| ProcessedSpectrum {
            level: s.level,
            id: s.id.clone(),
            file_id: s.file_id,
            scan_start_time: 0.0,
            ion_injection_time: s.inj,
            precursors: s
                .precursors
                .iter()
                .map(|r| Precursor { spectrum_ref: r.clone(), ..Default::default() })
                .collect(),
            peaks: s.peaks.iter().map(|&(mass, intensity)| Peak { mass, intensity }).collect(),
            total_ion_current: 0.0,
        })
        .collect();
    Some(TmtReq { plex, lo, hi, level: level as u8, spectra })
}

fn quantify_in(threads: usize, r: &TmtReq) -> String {
    let iso = r.plex.real();
    let rows = pool(threads).install(|| quantify(&r.spectra, &iso, Tolerance::Ppm(r.lo, r.hi), r.level));
    render_rows(&rows)
}

/// `tmt`: `quantify` in pools of 1, 2 and 16 threads; the pool-1 rows when all agree,
/// `threaddep <threads> <rows>` (first differing set) otherwise
fn exec_tmt(t: &mut Toks) -> Option<String> {
    let r = read_tmt_req(t)?;
    let base = quantify_in(1, &r);
    for threads in [2usize, 16] {
        let other = quantify_in(threads, &r);
        if other != base {
            return Some(format!("threaddep {threads} {other}"));
        }
    }
    Some(base)
}

/// `tmtpool [k threads…] <tmt arguments>`: one row set per listed pool size
fn exec_pool(t: &mut Toks) -> Option<String> {
    let pools = t.list(|t| t.usize())?;
    if pools.is_empty() || pools.len() > 8 || pools.iter().any(|&p| p == 0 || p > 64) {
        return None;
    }
    let r = read_tmt_req(t)?;
    let sets: Vec<String> = pools.iter().map(|&p| quantify_in(p, &r)).collect();
    Some(sets.join(" "))
}

fn render_rows(rows: &[sage_core::tmt::TmtQuant]) -> String {
    let mut lines: Vec<String> = rows
        .iter()
        .map(|r| {
            let mut o = Out::new();
            o.s(&r.spec_id).n(r.file_id).f32(r.ion_injection_time).n(r.peaks.len());
            for &x in &r.peaks {
                o.f32(x);
            }
            o.finish()
        })
        .collect();
    // the property does not fix the order of the rows
    lines.sort();
    let mut o = Out::new();
    o.n(lines.len());
    for l in &lines {
        o.raw(l);
    }
    o.finish()
}

fn exec_selpeak(t: &mut Toks) -> Option<String> {
    let kind = t.tok()?.to_string();
    let lo = t.f32()?;
    let hi = t.f32()?;
    let center = t.f32()?;
    let offset = t.opt(|t| t.f32())?;
    let peaks: Vec<Peak> = t.list(|t| Some(Peak { mass: t.f32()?, intensity: t.f32()? }))?;
    if !t.done() {
        return None;
    }
    let tol = match kind.as_str() {
        "p" => Tolerance::Ppm(lo, hi),
        "c" => Tolerance::Pct(lo, hi),
        "d" => Tolerance::Da(lo, hi),
        _ => return None,
    };
    let mut o = Out::new();
    match select_most_intense_peak(&peaks, center, tol, offset) {
        None => o.n(0),
        Some(p) => o.n(1).f32(p.mass).f32(p.intensity),
    };
    Some(o.finish())
}

/// parse the f32 literal at the start of `s` (Rust syntax: optional sign, digits, `.`, exponent, `_`)
fn lit(s: &str) -> Option<f32> {
    let s = s.trim();
    let end = s
        .char_indices()
        .find(|&(i, c)| !(c.is_ascii_digit() || c == '.' || c == '_' || c == 'e' || c == 'E' || ((c == '-' || c == '+') && (i == 0 || s[..i].ends_with(['e', 'E'])))))
        .map(|(i, _)| i)
        .unwrap_or(s.len());
    s[..end].replace('_', "").parse::<f32>().ok()
}

/// (ppm of the quantify call, (c1, c2, level, form)) — form: false = `.last()`, true = `.iter().copied().reduce(f32::max)`
type RunnerConsts = (Option<(f32, f32)>, Option<(f32, f32, usize, bool)>);

/// the two places of sage-cli (not linkable from here) that the property talks about, read from the
/// source text (whitespace-insensitive): the tolerance handed to `tmt::quantify` and the
/// `min_deisotope_mz` expression `match level { <L> => masses.last().map(|x| x * (<c1> + <c2>)), _ => None }`
fn runner_consts() -> Option<&'static RunnerConsts> {
    static CACHE: std::sync::OnceLock<Option<RunnerConsts>> = std::sync::OnceLock::new();
    CACHE
        .get_or_init(|| {
            let repo = std::env::var("VERIF_REPO").unwrap_or_else(|_| "/repo".to_string());
            let src = std::fs::read_to_string(format!("{repo}/crates/sage-cli/src/runner.rs")).ok()?;
            // drop `//` comments, then all whitespace
            let flat: String = src
                .lines()
                .map(|l| l.find("//").map(|i| &l[..i]).unwrap_or(l))
                .collect::<String>()
                .chars()
                .filter(|c| !c.is_whitespace())
                .collect();
            // quantify(&msn_spectra, isobaric, Tolerance::Ppm(-20.0, 20.0), level)
            let ppm = (|| {
                let i = flat.find("tmt::quantify(")?;
                let rest = &flat[i..];
                let j = rest.find("Tolerance::Ppm(")? + "Tolerance::Ppm(".len();
                let rest = &rest[j..];
                let k = rest.find(')')?;
                let mut it = rest[..k].split(',');
                Some((lit(it.next()?)?, lit(it.next()?)?))
            })();
            let guard = (|| {
                // the expression before fix e4ac756 (`.last()`) or after it (`reduce(f32::max)`); anything else
                // is reported as "not found" (reply `0`), which the driver flags as bad:constants
                let key_last = ".reporter_masses().last().map(|x|x*(";
                let key_max = ".reporter_masses().iter().copied().reduce(f32::max).map(|x|x*(";
                let (i, key, is_max) = match (flat.find(key_max), flat.find(key_last)) {
                    (Some(i), None) => (i, key_max, true),
                    (None, Some(i)) => (i, key_last, false),
                    _ => return None,
                };
                let rest = &flat[i + key.len()..];
                let k = rest.find(')')?;
                let mut it = rest[..k].split('+');
                let c1 = lit(it.next()?)?;
                let c2 = lit(it.next()?)?;
                if it.next().is_some() {
                    return None;
                }
                // the match arm in front of it: `<level>=>i.reporter_masses()`
                let head = &flat[..i];
                let arrow = head.rfind("=>")?;
                let digits: String =
                    head[..arrow].chars().rev().take_while(|c| c.is_ascii_digit()).collect::<String>().chars().rev().collect();
                let level: usize = digits.parse().ok()?;
                Some((c1, c2, level, is_max))
            })();
            Some((ppm, guard))
        })
        .as_ref()
}

fn exec_consts(t: &mut Toks) -> Option<String> {
    if !t.done() {
        return None;
    }
    let mut o = Out::new();
    for p in [Isobaric::Tmt6, Isobaric::Tmt10, Isobaric::Tmt11, Isobaric::Tmt16, Isobaric::Tmt18] {
        let m = p.reporter_masses();
        o.n(m.len());
        for &x in m {
            o.f32(x);
        }
    }
    o.f32(PROTON);
    let (ppm, guard) = runner_consts()?;
    match ppm {
        Some((lo, hi)) => o.n(1).f32(*lo).f32(*hi),
        None => o.n(0),
    };
    match guard {
        Some((c1, c2, level, is_max)) => o.n(1).f32(*c1).f32(*c2).n(*level).raw(if *is_max { "max" } else { "last" }),
        None => o.n(0),
    };
    Some(o.finish())
}

/// `tmtguard <plex> level`: the `min_deisotope_mz` expression of runner.rs re-evaluated on the REAL
/// `reporter_masses()` with the constants and the level read from the source, and the upper window edges
/// `Tolerance::Ppm(lo, hi).bounds(label).1` (m/z space) of every channel
fn exec_guard(t: &mut Toks) -> Option<String> {
    let plex = Plex::read(t)?;
    let level = t.usize()?;
    if !t.done() {
        return None;
    }
    let (ppm, guard) = runner_consts()?;
    let (lo, hi) = (*ppm)?;
    let (c1, c2, glevel, is_max) = (*guard)?;
    let iso = plex.real();
    let masses = iso.reporter_masses();
    let heaviest = if is_max { masses.iter().copied().reduce(f32::max) } else { masses.last().copied() };
    let min_deisotope_mz = if level == glevel { heaviest.map(|x| x * (c1 + c2)) } else { None };
    let mut o = Out::new();
    match min_deisotope_mz {
        None => o.n(0),
        Some(m) => o.n(1).f32(m),
    };
    o.n(masses.len());
    for &l in masses {
        o.f32(Tolerance::Ppm(lo, hi).bounds(l).1);
    }
    Some(o.finish())
}

// ------------------------------------------------------------------------------------------ tmtrun (real Runner)

#[derive(Clone)]
struct RPrec {
    mz: f32,
    charge: Option<u8>,
    sref: Option<String>,
}

#[derive(Clone)]
struct RSpec {
    level: u8,
    id: String,
    inj: f32,
    precs: Vec<RPrec>,
    peaks: Vec<(f32, f32)>,
    noise: Vec<f32>,
}

fn write_rspec(o: &mut Out, s: &RSpec) {
    o.n(s.level).s(&s.id).f32(s.inj).n(s.precs.len());
    for p in &s.precs {
        o.f32(p.mz);
        match p.charge {
            None => o.n(0),
            Some(z) => o.n(1).n(z),
        };
        match &p.sref {
            None => o.n(0),
            Some(r) => o.n(1).s(r),
        };
    }
    o.n(s.peaks.len());
    for &(m, i) in &s.peaks {
        o.f32(m).f32(i);
    }
    o.n(s.noise.len());
    for &x in &s.noise {
        o.f32(x);
    }
}

fn read_rspec(t: &mut Toks) -> Option<RSpec> {
    let level = t.usize()?;
    if level == 0 || level > 9 {
        return None;
    }
    let id = t.string()?;
    let inj = t.f32()?;
    let precs = t.list(|t| {
        let mz = t.f32()?;
        let charge = t.opt(|t| t.usize())?.map(|z| z as u8);
        let sref = t.opt(|t| t.string())?;
        Some(RPrec { mz, charge, sref })
    })?;
    let peaks = t.list(|t| Some((t.f32()?, t.f32()?)))?;
    let noise = t.list(|t| t.f32())?;
    Some(RSpec { level: level as u8, id, inj, precs, peaks, noise })
}

fn run_request(plex: &Plex, level: usize, sn: bool, deiso: bool, max_peaks: usize, batch: usize, files: &[Vec<RSpec>]) -> String {
    let mut o = Out::new();
    o.raw("tmtrun");
    plex.write(&mut o);
    o.n(level).b(sn).b(deiso).n(max_peaks).n(batch).n(files.len());
    for f in files {
        o.n(f.len());
        for s in f {
            write_rspec(&mut o, s);
        }
    }
    o.finish()
}

fn xml_attr(v: &str) -> String {
    let mut s = String::new();
    for c in v.chars() {
        match c {
            '&' => s.push_str("&amp;"),
            '<' => s.push_str("&lt;"),
            '>' => s.push_str("&gt;"),
            '"' => s.push_str("&quot;"),
            '\'' => s.push_str("&apos;"),
            c => s.push(c),
        }
    }
    s
}

fn b64_f32(xs: &[f32]) -> String {
    let mut b = Vec::with_capacity(xs.len() * 4);
    for x in xs {
        b.extend_from_slice(&x.to_le_bytes());
    }
    base64::encode(b)
}

/// a minimal mzML document: 32-bit uncompressed arrays (bit-exact), centroid, every number printed with
/// Rust's shortest round-trip formatting
fn mzml_text(specs: &[RSpec]) -> String {
    let mut x = String::from("<?xml version=\"1.0\" encoding=\"utf-8\"?>\n<mzML><run id=\"r\"><spectrumList count=\"0\">\n");
    for (i, s) in specs.iter().enumerate() {
        x.push_str(&format!("<spectrum index=\"{}\" id=\"{}\" defaultArrayLength=\"{}\">\n", i, xml_attr(&s.id), s.peaks.len()));
        x.push_str(&format!("<cvParam cvRef=\"MS\" accession=\"MS:1000511\" name=\"ms level\" value=\"{}\"/>\n", s.level));
        x.push_str("<cvParam cvRef=\"MS\" accession=\"MS:1000127\" name=\"centroid spectrum\" value=\"\"/>\n");
        x.push_str("<scanList count=\"1\"><scan>");
        x.push_str("<cvParam cvRef=\"MS\" accession=\"MS:1000016\" name=\"scan start time\" value=\"1.5\" unitAccession=\"UO:0000031\"/>");
        x.push_str(&format!("<cvParam cvRef=\"MS\" accession=\"MS:1000927\" name=\"ion injection time\" value=\"{}\"/>", s.inj));
        x.push_str("</scan></scanList>\n");
        if !s.precs.is_empty() {
            x.push_str(&format!("<precursorList count=\"{}\">", s.precs.len()));
            for p in &s.precs {
                match &p.sref {
                    Some(r) => x.push_str(&format!("<precursor spectrumRef=\"{}\">", xml_attr(r))),
                    None => x.push_str("<precursor>"),
                }
                x.push_str("<selectedIonList count=\"1\"><selectedIon>");
                x.push_str(&format!("<cvParam cvRef=\"MS\" accession=\"MS:1000744\" name=\"selected ion m/z\" value=\"{}\"/>", p.mz));
                if let Some(z) = p.charge {
                    x.push_str(&format!("<cvParam cvRef=\"MS\" accession=\"MS:1000041\" name=\"charge state\" value=\"{}\"/>", z));
                }
                x.push_str("</selectedIon></selectedIonList></precursor>");
            }
            x.push_str("</precursorList>\n");
        }
        x.push_str("<binaryDataArrayList count=\"3\">\n");
        let arr = |x: &mut String, acc: &str, data: &[f32]| {
            x.push_str("<binaryDataArray encodedLength=\"0\"><cvParam cvRef=\"MS\" accession=\"MS:1000521\" name=\"32-bit float\"/>");
            x.push_str("<cvParam cvRef=\"MS\" accession=\"MS:1000576\" name=\"no compression\"/>");
            x.push_str(&format!("<cvParam cvRef=\"MS\" accession=\"{}\" name=\"array\"/>", acc));
            x.push_str(&format!("<binary>{}</binary></binaryDataArray>\n", b64_f32(data)));
        };
        let mz: Vec<f32> = s.peaks.iter().map(|p| p.0).collect();
        let it: Vec<f32> = s.peaks.iter().map(|p| p.1).collect();
        arr(&mut x, "MS:1000514", &mz);
        arr(&mut x, "MS:1000515", &it);
        if !s.noise.is_empty() {
            arr(&mut x, "MS:1002744", &s.noise);
        }
        x.push_str("</binaryDataArrayList>\n</spectrum>\n");
    }
    x.push_str("</spectrumList></run></mzML>\n");
    x
}

struct TempDir(std::path::PathBuf);
impl TempDir {
    fn new() -> Self {
        static N: std::sync::atomic::AtomicUsize = std::sync::atomic::AtomicUsize::new(0);
        let n = N.fetch_add(1, std::sync::atomic::Ordering::Relaxed);
        let t = std::time::SystemTime::now().duration_since(std::time::UNIX_EPOCH).map(|d| d.as_nanos()).unwrap_or(0);
        let p = std::env::temp_dir().join(format!("sage-verif-c18-{}-{}-{}", std::process::id(), n, t));
        std::fs::create_dir_all(&p).expect("temp dir");
        TempDir(p)
    }
}
impl Drop for TempDir {
    fn drop(&mut self) {
        let _ = std::fs::remove_dir_all(&self.0);
    }
}

fn exec_run(t: &mut Toks) -> Option<String> {
    use sage_cli::input::{QuantSettings, Search, TmtSettings};
    use sage_cli::runner::Runner;
    use sage_core::database::{Builder, EnzymeBuilder};
    use sage_core::scoring::{ScoreType, Scorer};
    let plex = Plex::read(t)?;
    let level = t.usize()?;
    if level > 255 {
        return None;
    }
    let sn = t.bool()?;
    let deiso = t.bool()?;
    let max_peaks = t.usize()?;
    let batch = t.usize()?;
    let files = t.list(|t| t.list(read_rspec))?;
    if !t.done() || batch == 0 || files.len() > 8 {
        return None;
    }
    let dir = TempDir::new();
    let fasta_path = dir.0.join("db.fasta");
    std::fs::write(&fasta_path, ">sp|P1|ONE\nMKPEPTIDEKAAAAGGGGRLLLLVVVVK\n").ok()?;
    let mut paths = Vec::new();
    for (fi, f) in files.iter().enumerate() {
        let p = dir.0.join(format!("file{fi}.mzML"));
        std::fs::write(&p, mzml_text(f)).ok()?;
        paths.push(p.to_string_lossy().to_string());
    }
    let mut dbp = Builder { fasta: Some(fasta_path.to_string_lossy().to_string()), ..Default::default() }.make_parameters();
    dbp.enzyme = EnzymeBuilder { min_len: Some(5), max_len: Some(30), ..Default::default() };
    dbp.peptide_min_mass = 300.0;
    dbp.peptide_max_mass = 6000.0;
    let search = Search {
        version: "verif".into(),
        database: dbp,
        quant: QuantSettings {
            tmt: Some(plex.real()),
            tmt_settings: TmtSettings { level: level as u8, sn },
            lfq: false,
            lfq_settings: Default::default(),
        },
        precursor_tol: Tolerance::Ppm(-20.0, 20.0),
        fragment_tol: Tolerance::Ppm(-10.0, 10.0),
        precursor_charge: (2, 4),
        override_precursor_charge: false,
        isotope_errors: (0, 0),
        deisotope: deiso,
        chimera: false,
        wide_window: false,
        // no spectrum is searched: this op is about the quantification path only
        min_peaks: usize::MAX,
        max_peaks,
        max_fragment_charge: None,
        min_matched_peaks: 4,
        report_psms: 1,
        predict_rt: false,
        mzml_paths: paths,
        output_paths: Vec::new(),
        bruker_config: Default::default(),
        output_directory: sage_cloudpath::CloudPath::Local(dir.0.clone()),
        write_pin: false,
        annotate_matches: false,
        score_type: ScoreType::SageHyperScore,
    };
    let runner = Runner::new(search, 1).ok()?;
    let p = &runner.parameters;
    let sc = Scorer {
        db: &runner.database,
        precursor_tol: p.precursor_tol,
        fragment_tol: p.fragment_tol,
        min_matched_peaks: p.min_matched_peaks,
        min_isotope_err: p.isotope_errors.0,
        max_isotope_err: p.isotope_errors.1,
        min_precursor_charge: p.precursor_charge.0,
        max_precursor_charge: p.precursor_charge.1,
        override_precursor_charge: p.override_precursor_charge,
        max_fragment_charge: p.max_fragment_charge,
        chimera: p.chimera,
        report_psms: p.report_psms,
        wide_window: p.wide_window,
        annotate_matches: p.annotate_matches,
        score_type: p.score_type,
    };
    // the whole runner path inside explicit rayon pools of 1 and 3 threads
    let base = render_rows(&pool(1).install(|| runner.batch_files(&sc, batch)).quant);
    let other = render_rows(&pool(3).install(|| runner.batch_files(&sc, batch)).quant);
    if other != base {
        return Some(format!("threaddep 3 {other}"));
    }
    Some(base)
}

/// `tmtproc`: raw spectrum -> (runner's min_deisotope_mz) -> SpectrumProcessor::process -> tmt::quantify
fn exec_proc(t: &mut Toks) -> Option<String> {
    let plex = Plex::read(t)?;
    let level = t.usize()?;
    let raw_level = t.usize()?;
    if level > 255 || raw_level > 255 {
        return None;
    }
    let deiso = t.bool()?;
    let max_peaks = t.usize()?;
    let charge = t.opt(|t| t.usize())?.map(|z| z as u8);
    let peaks = t.list(|t| Some((t.f32()?, t.f32()?)))?;
    if !t.done() {
        return None;
    }
    let (ppm, guard) = runner_consts()?;
    let (lo, hi) = (*ppm)?;
    let (c1, c2, glevel, is_max) = (*guard)?;
    let iso = plex.real();
    // runner.rs read_processed_spectra, in the form found in the source
    let min_deisotope_mz = if level == glevel {
        let masses = iso.reporter_masses();
        let heaviest = if is_max { masses.iter().copied().reduce(f32::max) } else { masses.last().copied() };
        heaviest.map(|x| x * (c1 + c2))
    } else {
        None
    };
    let sp = SpectrumProcessor::new(max_peaks, deiso, min_deisotope_mz.unwrap_or(0.0));
    let mut raw = RawSpectrum::default_with_file_id(0);
    raw.ms_level = raw_level as u8;
    raw.id = "s".into();
    raw.representation = Representation::Centroid;
    raw.precursors = vec![Precursor { mz: 600.0, charge, spectrum_ref: Some("p".into()), ..Default::default() }];
    raw.mz = peaks.iter().map(|p| p.0).collect();
    raw.intensity = peaks.iter().map(|p| p.1).collect();
    let processed = sp.process(raw);
    // runner.rs complete_features
    let rows = quantify(&[processed], &iso, Tolerance::Ppm(lo, hi), level as u8);
    Some(render_rows(&rows))
}

pub fn exec(op: &str, t: &mut Toks) -> Option<String> {
    match op {
        "tmtproc" => exec_proc(t),
        "tmtpool" => exec_pool(t),
        "tmtrun" => exec_run(t),
        "tmt" => exec_tmt(t),
        "selpeak" => exec_selpeak(t),
        "tmtconsts" => exec_consts(t),
        "tmtguard" => exec_guard(t),
        _ => None,
    }
}

// ------------------------------------------------------------------------------------------ gen

fn next_up(x: f32, k: i32) -> f32 {
    // k ulps up (k<0: down) for positive finite x
    f32::from_bits((x.to_bits() as i64 + k as i64) as u32)
}

const INTENSITIES: [f32; 8] = [0.0, 1.0, 1.0, 5.5, 100.0, 100.0, 12345.678, 3.0e7];

fn rand_intensity(rng: &mut Rng) -> f32 {
    if rng.chance(2, 3) {
        *rng.pick(&INTENSITIES)
    } else {
        (rng.unit() * 1.0e5) as f32
    }
}

fn rand_id(rng: &mut Rng) -> String {
    match rng.below(4) {
        0 => format!("scan={}", rng.below(50)),
        1 => format!("controllerType=0 controllerNumber=1 scan={}", rng.below(5000)),
        2 => String::new(),
        _ => format!("s{}", rng.below(5)),
    }
}

fn builtin(p: &Plex) -> Vec<f32> {
    p.real().reporter_masses().to_vec()
}

fn rand_plex(rng: &mut Rng) -> Plex {
    match rng.below(9) {
        0 => Plex::T6,
        1 => Plex::T10,
        2 => Plex::T11,
        3 => Plex::T16,
        4 | 5 => Plex::T18,
        _ => {
            let n = rng.below(7);
            let mut v: Vec<f32> = Vec::new();
            while v.len() < n {
                let base = match rng.below(4) {
                    0 => 100.0 + rng.unit() * 100.0,
                    1 => 50.0 + rng.unit() * 1500.0,
                    2 => 126.0 + rng.below(10) as f64 * 1.003,
                    _ => 113.0 + rng.unit() * 8.0,
                } as f32;
                v.push(base);
                if v.len() < n && rng.chance(1, 3) {
                    // neighbour 6 mDa above, or so close that the windows overlap
                    let d = if rng.chance(1, 2) { 0.00632 } else { base * 15.0e-6 };
                    v.push(base + d);
                }
            }
            match rng.below(3) {
                0 => v.sort_by(|a, b| a.total_cmp(b)),
                1 => rng.shuffle(&mut v),
                _ => {}
            }
            Plex::User(v)
        }
    }
}

/// the window edges in mass space exactly as sage computes them (used only to AIM peaks at the edges)
fn edges(label: f32, ppm: (f32, f32)) -> (f32, f32) {
    let (lo, hi) = Tolerance::Ppm(ppm.0, ppm.1).bounds(label);
    (lo + -PROTON, hi + -PROTON)
}

struct Built {
    spec: Spec,
    in_window: bool,
    outside: bool,
    edge: bool,
    near: bool,
    ties: bool,
    multi: bool,
}

fn build_spectrum(rng: &mut Rng, labels: &[f32], ppm: (f32, f32), level: u8, big: bool) -> Built {
    let mut peaks: Vec<(f32, f32)> = Vec::new();
    let (mut edge, mut near, mut ties, mut multi) = (false, false, false, false);
    // also aim at channels of the 18-plex that the chosen plex does NOT contain (must be ignored)
    let mut aims: Vec<f32> = labels.to_vec();
    if rng.chance(1, 2) {
        aims.extend(builtin(&Plex::T18));
    }
    for &label in &aims {
        if !(label.is_finite() && label > 2.0) {
            continue;
        }
        let (lo, hi) = edges(label, ppm);
        if !(lo < hi) {
            continue;
        }
        match rng.below(10) {
            0 | 1 => {} // empty window
            2 | 3 => {
                // one peak somewhere inside
                let f = rng.unit() as f32;
                peaks.push((lo + (hi - lo) * f, rand_intensity(rng)));
            }
            4 | 5 => {
                // several peaks inside, often tied
                let k = 2 + rng.below(3);
                let tie = rng.chance(1, 2);
                let it = rand_intensity(rng);
                for _ in 0..k {
                    let f = rng.unit() as f32;
                    peaks.push((lo + (hi - lo) * f, if tie { it } else { rand_intensity(rng) }));
                }
                multi = true;
                ties |= tie;
            }
            6 => {
                // exactly on / a few ulp around an edge (inside the spec's guard band)
                let e = if rng.chance(1, 2) { lo } else { hi };
                let k = rng.range(-3, 3) as i32;
                peaks.push((next_up(e, k), rand_intensity(rng)));
                if rng.chance(1, 2) {
                    peaks.push((next_up(e, -k), rand_intensity(rng)));
                }
                edge = true;
            }
            7 | 8 => {
                // near an edge but outside the guard band: 10-60 ulp inside or outside
                let k = rng.range(10, 60) as i32;
                let (e, sgn) = if rng.chance(1, 2) { (lo, 1) } else { (hi, -1) };
                let inside = rng.chance(1, 2);
                peaks.push((next_up(e, if inside { sgn * k } else { -sgn * k }), rand_intensity(rng)));
                if rng.chance(1, 2) {
                    // and a competitor on the other side of the same edge
                    peaks.push((next_up(e, if inside { -sgn * k } else { sgn * k }), rand_intensity(rng)));
                }
                near = true;
            }
            _ => {
                // a peak 6 mDa above / below (where a neighbouring channel would sit)
                let d = if rng.chance(1, 2) { 0.00632f32 } else { -0.00632f32 };
                peaks.push((label + d - PROTON, rand_intensity(rng)));
                peaks.push((label - PROTON, rand_intensity(rng)));
            }
        }
    }
    // noise
    let noise = if big { rng.below(200) } else { rng.below(6) };
    for _ in 0..noise {
        let mz = match rng.below(3) {
            0 => 100.0 + rng.unit() * 40.0,
            1 => 125.0 + rng.unit() * 11.0,
            _ => 140.0 + rng.unit() * 1500.0,
        } as f32;
        peaks.push((mz - PROTON, rand_intensity(rng)));
    }
    // duplicate masses
    if !peaks.is_empty() && rng.chance(1, 4) {
        let (m, _) = *rng.pick(&peaks);
        peaks.push((m, rand_intensity(rng)));
        ties = true;
    }
    if rng.chance(1, 3) {
        rng.shuffle(&mut peaks);
    }
    peaks.sort_by(|a, b| a.0.total_cmp(&b.0)); // stable: equal masses keep their relative order
    let in_any = |m: f32| {
        labels.iter().any(|&l| {
            let (lo, hi) = edges(l, ppm);
            m >= lo && m <= hi
        })
    };
    let in_window = peaks.iter().any(|p| in_any(p.0));
    let outside = peaks.iter().any(|p| !in_any(p.0));
    let nprec = rng.below(3);
    let precursors = (0..nprec)
        .map(|_| if rng.chance(3, 4) { Some(rand_id(rng)) } else { None })
        .collect();
    let lvl = if rng.chance(3, 5) { level } else { *rng.pick(&[1u8, 2, 3, 3, 2, 0, 4]) };
    Built {
        spec: Spec {
            level: lvl,
            id: rand_id(rng),
            file_id: rng.below(4),
            inj: (rng.unit() * 200.0) as f32,
            precursors,
            peaks,
        },
        in_window,
        outside,
        edge,
        near,
        ties,
        multi,
    }
}

/// user-defined plexes whose last mass is not the largest violated `reporter_region_protected` before fix
/// e4ac756 (corpus/C18/fixed-user-unsorted.req); they are generated now
const GEN_UNSORTED_USER_GUARD: bool = true;

fn guard_request(plex: &Plex, level: usize) -> String {
    let mut o = Out::new();
    o.raw("tmtguard");
    plex.write(&mut o);
    o.n(level);
    o.finish()
}

fn sel_request(kind: &str, lo: f32, hi: f32, center: f32, offset: Option<f32>, peaks: &[(f32, f32)]) -> String {
    let mut o = Out::new();
    o.raw("selpeak").raw(kind).f32(lo).f32(hi).f32(center);
    match offset {
        None => o.n(0),
        Some(x) => o.n(1).f32(x),
    };
    o.n(peaks.len());
    for &(m, i) in peaks {
        o.f32(m).f32(i);
    }
    o.finish()
}

// ------------------------------------------------------------------------------------------ tmtproc gen

fn proc_request(plex: &Plex, level: usize, raw_level: usize, deiso: bool, max_peaks: usize, charge: Option<u8>, peaks: &[(f32, f32)]) -> String {
    let mut o = Out::new();
    o.raw("tmtproc");
    plex.write(&mut o);
    o.n(level).n(raw_level).b(deiso).n(max_peaks);
    match charge {
        None => o.n(0),
        Some(z) => o.n(1).n(z),
    };
    o.n(peaks.len());
    for &(m, i) in peaks {
        o.f32(m).f32(i);
    }
    o.finish()
}

/// keep a raw peak only if, for every channel, it is clearly inside (<= 17 ppm) or clearly outside (>= 23 ppm)
/// the +-20 ppm window, so that the m/z-space definition decides it exactly (no guard-band peaks in this op)
fn clear_of_edges(mz: f32, labels: &[f32]) -> bool {
    mz.is_finite()
        && mz > 1.5
        && labels.iter().all(|&l| {
            let off = ((mz as f64) / (l as f64) - 1.0).abs() * 1.0e6;
            off <= 17.0 || off >= 23.0
        })
}

/// sort by m/z, strictly ascending (no duplicate m/z: `sort_unstable_by` key ties cannot arise)
fn finish_raw(mut peaks: Vec<(f32, f32)>, labels: &[f32]) -> Vec<(f32, f32)> {
    peaks.retain(|p| clear_of_edges(p.0, labels));
    peaks.sort_by(|a, b| a.0.total_cmp(&b.0));
    peaks.dedup_by(|a, b| a.0 == b.0);
    peaks
}

/// raw m/z arrays that are NOT ascending (the processor must sort; `find_reporter_ions` binary-searches):
/// 0 = ascending (as is), 1 = descending, 2 = two ascending segments concatenated (upper segment first),
/// 3 = random permutation, 4 = duplicates of some peaks (same m/z, other intensity) then shuffled
fn disorder(rng: &mut Rng, kind: usize, mut peaks: Vec<(f32, f32)>) -> Vec<(f32, f32)> {
    match kind {
        1 => peaks.reverse(),
        2 => {
            if peaks.len() >= 2 {
                let k = 1 + rng.below(peaks.len() - 1);
                peaks.rotate_left(k);
            }
        }
        3 => rng.shuffle(&mut peaks),
        4 => {
            let n = peaks.len();
            for _ in 0..(1 + n / 4) {
                if n > 0 {
                    let (m, i) = peaks[rng.below(n)];
                    peaks.push((m, i * *rng.pick(&[0.5f32, 1.0, 2.0])));
                }
            }
            rng.shuffle(&mut peaks);
        }
        _ => {}
    }
    peaks
}

fn disorder_tag(kind: usize) -> &'static str {
    match kind {
        1 => "raw-mz:descending",
        2 => "raw-mz:two-segments",
        3 => "raw-mz:permuted",
        4 => "raw-mz:duplicates-permuted",
        _ => "raw-mz:ascending",
    }
}

/// intensities of the reporter peaks by channel index
fn pattern_intensity(pattern: usize, i: usize, n: usize, rng: &mut Rng) -> f32 {
    match pattern {
        0 => (100 * (n - i)) as f32,          // descending: each channel less intense than its -1 neutron partner
        1 => (100 * (i + 1)) as f32,          // ascending
        2 => 500.0,                           // all equal
        _ => *rng.pick(&[50.0f32, 100.0, 100.0, 200.0, 400.0, 1234.5]),
    }
}

fn rand_user_proc(rng: &mut Rng) -> Plex {
    let mut v: Vec<f32> = Vec::new();
    match rng.below(3) {
        0 => {
            // a neutron ladder (every mass is the +1 isotope position of another one)
            let base = 100.0 + rng.unit() * 300.0;
            let z = 1 + rng.below(2);
            for k in 0..(2 + rng.below(4)) {
                v.push((base + k as f64 * (NEUTRON as f64) / z as f64) as f32);
            }
        }
        1 => {
            for _ in 0..(1 + rng.below(5)) {
                v.push((100.0 + rng.unit() * 60.0) as f32);
            }
        }
        _ => {
            let b = builtin(&Plex::T18);
            for _ in 0..(1 + rng.below(6)) {
                v.push(*rng.pick(&b));
            }
            v.sort_by(|a, b| a.total_cmp(b));
            v.dedup();
        }
    }
    if rng.chance(2, 3) {
        rng.shuffle(&mut v);
    }
    Plex::User(v)
}

/// reporter-region content of one raw spectrum (m/z space): reporter peaks, second peaks in a window, peaks just
/// outside, neutron/z neighbours, the stretch right above the heaviest channel, fragment isotope clusters
fn rand_raw_peaks(rng: &mut Rng, labels: &[f32], user: bool, pattern: usize, all18: &[f32]) -> Vec<(f32, f32)> {
    let mut aims: Vec<f32> = labels.to_vec();
    if !user && rng.chance(1, 2) {
        aims = all18.to_vec();
    }
    let n = aims.len();
    let mut peaks: Vec<(f32, f32)> = Vec::new();
    let mut reporters: Vec<(f32, f32)> = Vec::new();
    for (i, &l) in aims.iter().enumerate() {
        if rng.chance(1, 8) {
            continue;
        }
        let off = (rng.unit() * 30.0 - 15.0) * 1.0e-6;
        let mz = (l as f64 * (1.0 + off)) as f32;
        let it = pattern_intensity(pattern, i, n, rng);
        reporters.push((mz, it));
        peaks.push((mz, it));
        if rng.chance(1, 6) {
            // a second peak in the same window
            let off2 = (rng.unit() * 32.0 - 16.0) * 1.0e-6;
            peaks.push(((l as f64 * (1.0 + off2)) as f32, it * *rng.pick(&[0.5f32, 1.0, 2.0])));
        }
        if rng.chance(1, 6) {
            // just outside the window
            let off3 = (24.0 + rng.unit() * 20.0) * 1.0e-6 * if rng.chance(1, 2) { 1.0 } else { -1.0 };
            peaks.push(((l as f64 * (1.0 + off3)) as f32, it * *rng.pick(&[0.5f32, 1.0, 3.0])));
        }
    }
    // neighbours one neutron/z above / below reporter peaks, smaller / equal / larger
    for &(mz, it) in &reporters {
        if rng.chance(1, 3) {
            let z = 1 + rng.below(2);
            let sgn = if rng.chance(1, 2) { 1.0 } else { -1.0 };
            let jitter = (rng.unit() * 8.0 - 4.0) * 1.0e-6;
            let m2 = ((mz as f64 + sgn * (NEUTRON as f64) / z as f64) * (1.0 + jitter)) as f32;
            peaks.push((m2, it * *rng.pick(&[0.25f32, 0.5, 1.0, 2.0, 4.0])));
        }
    }
    // the stretch right above the heaviest channel (first m/z that are NOT exempt)
    if let Some(mx) = labels.iter().copied().reduce(f32::max) {
        for _ in 0..rng.below(4) {
            peaks.push(((mx as f64 * (1.0 + 23.0e-6) + rng.unit() * 1.2) as f32, rand_intensity(rng)));
        }
    }
    // peptide-fragment isotope clusters above the reporter region
    for _ in 0..rng.below(5) {
        let base = 180.0 + rng.unit() * 1200.0;
        let z = 1 + rng.below(3);
        let mut it = 100.0 + rng.unit() * 5000.0;
        for k in 0..(2 + rng.below(3)) {
            peaks.push(((base + k as f64 * (NEUTRON as f64) / z as f64) as f32, it as f32));
            it *= 0.3 + rng.unit() * 0.6;
        }
    }
    finish_raw(peaks, labels)
}

fn gen_proc(rng: &mut Rng, quick: bool, emit: &mut dyn FnMut(Case)) {
    let all18 = builtin(&Plex::T18);
    // ---- directed: every built-in plex x {descending, ascending, equal} x precursor charge {none, 2} x
    //      {only the plex's channels, all 18 positions}: one peak exactly on every channel
    for plex in [Plex::T6, Plex::T10, Plex::T11, Plex::T16, Plex::T18] {
        let labels = builtin(&plex);
        for pattern in 0..3 {
            for charge in [None, Some(2u8)] {
                for all_positions in [false, true] {
                    let pos: &[f32] = if all_positions { &all18 } else { &labels };
                    let n = pos.len();
                    let peaks: Vec<(f32, f32)> =
                        pos.iter().enumerate().map(|(i, &l)| (l, pattern_intensity(pattern, i, n, rng))).collect();
                    let peaks = finish_raw(peaks, &labels);
                    emit(Case::new(proc_request(&plex, 2, 2, true, 150, charge, &peaks))
                        .tag("proc:directed-one-peak-per-channel")
                        .tag(match pattern {
                            0 => "proc:descending",
                            1 => "proc:ascending",
                            _ => "proc:equal",
                        }));
                }
            }
        }
    }
    // ---- directed: MS3-level quantification of an MS3 spectrum (no deisotoping there) and MS2-level quantification
    //      with deisotoping off, one peak per channel, raw m/z array in each of the non-ascending orders
    for plex in [Plex::T6, Plex::T10, Plex::T11, Plex::T16, Plex::T18] {
        let labels = builtin(&plex);
        for dis in 1..=4usize {
            for (level, deiso) in [(3usize, true), (2, false)] {
                let n = labels.len();
                let base: Vec<(f32, f32)> = finish_raw(
                    labels.iter().enumerate().map(|(i, &l)| (l, pattern_intensity(1, i, n, rng))).chain([(300.25f32, 50.0f32), (90.5, 7.0)]).collect(),
                    &labels,
                );
                let peaks = disorder(rng, dis, base);
                emit(Case::new(proc_request(&plex, level, level, deiso, 150, Some(2), &peaks))
                    .tag("proc:directed-unsorted-raw")
                    .tag(disorder_tag(dis)));
            }
        }
    }
    // ---- random
    let n_cases = if quick { 700 } else { 25000 };
    for _ in 0..n_cases {
        let plex = if rng.chance(1, 4) {
            rand_user_proc(rng)
        } else {
            match rng.below(6) {
                0 => Plex::T6,
                1 => Plex::T10,
                2 => Plex::T11,
                3 => Plex::T16,
                _ => Plex::T18,
            }
        };
        let user = matches!(plex, Plex::User(_));
        let labels = builtin(&plex);
        let pattern = rng.below(4);
        let peaks = rand_raw_peaks(rng, &labels, user, pattern, &all18);
        let (level, raw_level) = match rng.below(16) {
            0 => (3, 2),
            1 => (2, 3),
            2 => (1, 2),
            3..=6 => (3, 3),
            _ => (2, 2),
        };
        let deiso = rng.chance(5, 6);
        // the deisotoper (MS2, deisotoping on) presupposes ascending m/z; everywhere else the order of the raw
        // array must not matter
        let dis = if raw_level == 2 && deiso { 0 } else if rng.chance(3, 4) { 1 + rng.below(4) } else { 0 };
        let peaks = disorder(rng, dis, peaks);
        let np = peaks.len();
        let charge = match rng.below(5) {
            0 => None,
            z => Some(z as u8),
        };
        let small = np >= 2 && rng.chance(1, 10);
        let max_peaks = if small { 1 + rng.below(np - 1) } else { np + rng.below(60) };
        let in_windows = peaks.iter().filter(|p| labels.iter().any(|&l| (((p.0 as f64) / (l as f64)) - 1.0).abs() <= 20.0e-6)).count();
        emit(Case::new(proc_request(&plex, level, raw_level, deiso, max_peaks, charge, &peaks))
            .tag(if user { "proc:user" } else { "proc:builtin" })
            .tag(match pattern {
                0 => "proc:descending",
                1 => "proc:ascending",
                2 => "proc:equal",
                _ => "proc:random-intensities",
            })
            .tag_if(deiso, "proc:deisotope-on")
            .tag_if(small, "proc:small-max-peaks")
            .tag_if(level != raw_level, "proc:level-mismatch")
            .tag_if(level == 3 && raw_level == 3, "proc:ms3")
            .tag(disorder_tag(dis))
            .nontrivial(level == 2 && raw_level == 2 && deiso && !small && in_windows >= 2 && in_windows < np));
    }
}

// ------------------------------------------------------------------------------------------ tmtrun gen

fn scan_id(rng: &mut Rng, n: usize) -> String {
    match rng.below(6) {
        0 => format!("controllerType=0 controllerNumber=1 scan={n}"),
        1 => format!("scan={n}"),
        2 => format!("{n}"),
        3 => format!("index={n}"),
        4 => format!("a&b<c>\"q'{n}"),
        _ => format!("merged={n} frame=1 scanStart=2 scanEnd=3"),
    }
}

fn rand_inj(rng: &mut Rng) -> f32 {
    rng.below(30000) as f32 / 128.0 + 0.25
}

fn rand_noise(rng: &mut Rng, n: usize) -> Vec<f32> {
    let len = match rng.below(6) {
        0 => n.saturating_sub(2),
        _ => n,
    };
    let flat = rng.chance(1, 3);
    let c = *rng.pick(&[0.5f32, 2.0, 4.0, 10.0]);
    (0..len).map(|_| if flat { c } else { (0.5 + rng.unit() * 40.0) as f32 }).collect()
}

fn gen_run(rng: &mut Rng, quick: bool, emit: &mut dyn FnMut(Case)) {
    let all18 = builtin(&Plex::T18);
    let one_per_channel = |pattern: usize, rng: &mut Rng, labels: &[f32]| -> Vec<(f32, f32)> {
        let n = all18.len();
        finish_raw(all18.iter().enumerate().map(|(i, &l)| (l, pattern_intensity(pattern, i, n, rng))).collect(), labels)
    };
    // ---- directed: every built-in plex through the real runner, MS2 quantification, deisotoping on, one peak on each
    //      of the 18 positions (descending: each is a less intense +1 neutron partner of the channel two below)
    for plex in [Plex::T6, Plex::T10, Plex::T11, Plex::T16, Plex::T18] {
        let labels = builtin(&plex);
        for pattern in 0..3 {
            let peaks = one_per_channel(pattern, rng, &labels);
            let ms2 = RSpec {
                level: 2,
                id: "controllerType=0 controllerNumber=1 scan=2".into(),
                inj: 11.5,
                precs: vec![RPrec { mz: 612.25, charge: Some(if pattern == 1 { 3 } else { 2 }), sref: Some("scan=1".into()) }],
                peaks,
                noise: vec![],
            };
            emit(Case::new(run_request(&plex, 2, false, true, 150, 1, &[vec![ms2]]))
                .tag("run:directed-ms2-one-peak-per-channel"));
        }
    }
    // ---- directed: MS3 keyed by the FIRST precursor's reference; same / different / missing / absent references;
    //      MS3 before its MS2; MS2 without MS3; precursor with selected-ion m/z 0 (not pushed by the reader);
    //      spectrum without any reporter peak (still a row, all zeros)
    {
        let labels = builtin(&Plex::T16);
        let pk = |rng: &mut Rng, pattern: usize| one_per_channel(pattern, rng, &labels);
        let prec = |mz: f32, r: Option<&str>| RPrec { mz, charge: Some(2), sref: r.map(|x| x.to_string()) };
        let f0 = vec![
            RSpec { level: 3, id: "scan=5".into(), inj: 1.0, precs: vec![prec(500.5, Some("scan=4")), prec(300.25, Some("scan=1"))], peaks: pk(rng, 0), noise: vec![] },
            RSpec { level: 1, id: "scan=1".into(), inj: 2.0, precs: vec![], peaks: vec![(400.0, 9.0), (401.0, 3.0)], noise: vec![] },
            RSpec { level: 2, id: "scan=4".into(), inj: 3.0, precs: vec![prec(500.5, Some("scan=1"))], peaks: pk(rng, 1), noise: vec![] },
            RSpec { level: 3, id: "scan=6".into(), inj: 4.0, precs: vec![prec(500.5, Some("scan=4"))], peaks: pk(rng, 1), noise: vec![] },
            RSpec { level: 3, id: "scan=7".into(), inj: 5.0, precs: vec![prec(500.5, Some("scan=999"))], peaks: pk(rng, 2), noise: vec![] },
            RSpec { level: 3, id: "scan=8".into(), inj: 6.0, precs: vec![prec(500.5, None)], peaks: pk(rng, 0), noise: vec![] },
            RSpec { level: 3, id: "scan=9".into(), inj: 7.0, precs: vec![], peaks: pk(rng, 0), noise: vec![] },
            RSpec { level: 3, id: "scan=10".into(), inj: 8.0, precs: vec![prec(0.0, Some("dropped")), prec(450.5, Some("a&b<c>\"q'"))], peaks: pk(rng, 0), noise: vec![] },
            RSpec { level: 2, id: "scan=11".into(), inj: 9.0, precs: vec![prec(700.5, Some("scan=1"))], peaks: vec![(300.125, 50.0), (301.1284, 20.0), (755.5, 70.0)], noise: vec![] },
            RSpec { level: 3, id: "scan=12".into(), inj: 10.0, precs: vec![prec(700.5, Some("scan=11"))], peaks: vec![(300.125, 50.0), (755.5, 70.0)], noise: vec![] },
        ];
        for level in [2usize, 3] {
            for sn in [false, true] {
                emit(Case::new(run_request(&Plex::T16, level, sn, true, 150, 1, &[f0.clone()])).tag("run:directed-ms3-references"));
            }
        }
        // two files, batch sizes 1 and 2: file ids
        let f1: Vec<RSpec> = f0.iter().rev().cloned().collect();
        for batch in [1usize, 2] {
            emit(Case::new(run_request(&Plex::T16, 3, false, true, 150, batch, &[f0.clone(), f1.clone()])).tag("run:directed-two-files"));
        }
    }
    // ---- directed: raw m/z arrays that are not ascending, through the real runner: an MS2 and four MS3 scans (one per
    //      disorder kind: descending, two segments, permuted, duplicates) for every built-in plex, quantified at MS3
    //      with deisotoping on (MS3 spectra are never deisotoped) and at MS2 with deisotoping off
    for plex in [Plex::T6, Plex::T10, Plex::T11, Plex::T16, Plex::T18] {
        let labels = builtin(&plex);
        let n = labels.len();
        let base = |rng: &mut Rng, pattern: usize| -> Vec<(f32, f32)> {
            finish_raw(
                labels.iter().enumerate().map(|(i, &l)| (l, pattern_intensity(pattern, i, n, rng))).chain([(300.25f32, 50.0f32), (90.5, 7.0), (755.5, 9.0)]).collect(),
                &labels,
            )
        };
        for (level, deiso) in [(3usize, true), (2, false)] {
            let mut specs = Vec::new();
            for dis in 1..=4usize {
                let b = base(rng, dis % 3);
                specs.push(RSpec {
                    level: level as u8,
                    id: format!("scan={}", 10 + dis),
                    inj: dis as f32 + 0.5,
                    precs: vec![RPrec { mz: 600.5, charge: Some(2), sref: Some(format!("scan={}", dis)) }],
                    peaks: disorder(rng, dis, b),
                    noise: vec![],
                });
            }
            emit(Case::new(run_request(&plex, level, false, deiso, 150, 1, &[specs])).tag("run:directed-unsorted-raw").tag("run:unsorted-raw-mz"));
        }
    }
    // ---- random
    let n_cases = if quick { 220 } else { 4000 };
    for _ in 0..n_cases {
        let plex = if rng.chance(1, 4) {
            rand_user_proc(rng)
        } else {
            match rng.below(6) {
                0 => Plex::T6,
                1 => Plex::T10,
                2 => Plex::T11,
                3 => Plex::T16,
                _ => Plex::T18,
            }
        };
        let user = matches!(plex, Plex::User(_));
        let labels = builtin(&plex);
        let level: usize = match rng.below(20) {
            0 => 1,
            1 => 4,
            2..=11 => 2,
            _ => 3,
        };
        let sn = rng.chance(2, 5);
        let deiso = rng.chance(5, 6);
        let nfiles = 1 + rng.below(2);
        let batch = 1 + rng.below(3);
        let mut files: Vec<Vec<RSpec>> = Vec::new();
        let mut max_n = 0usize;
        let (mut has_noise, mut shared_ref, mut missing_ref, mut no_ref, mut at_level) = (false, false, false, false, 0usize);
        let unsorted = std::cell::Cell::new(false);
        for _ in 0..nfiles {
            let mut specs: Vec<RSpec> = Vec::new();
            let mut scan = 1usize;
            let mut ms2_ids: Vec<String> = Vec::new();
            for _ in 0..rng.below(4) {
                // one cycle: MS1?, MS2, 0-3 MS3
                let ms1_id = scan_id(rng, scan);
                scan += 1;
                if rng.chance(1, 2) {
                    specs.push(RSpec { level: 1, id: ms1_id.clone(), inj: rand_inj(rng), precs: vec![], peaks: vec![(400.25, 10.0), (500.5, 20.0)], noise: vec![] });
                }
                let ms2_id = scan_id(rng, scan);
                scan += 1;
                ms2_ids.push(ms2_id.clone());
                let mk = |rng: &mut Rng, level: u8, id: String, precs: Vec<RPrec>| {
                    let pattern = rng.below(4);
                    let peaks = rand_raw_peaks(rng, &labels, user, pattern, &all18);
                    let dis = if level == 2 && deiso { 0 } else if rng.chance(2, 3) { 1 + rng.below(4) } else { 0 };
                    if dis != 0 {
                        unsorted.set(true);
                    }
                    let peaks = disorder(rng, dis, peaks);
                    let noise = if rng.chance(1, 2) { rand_noise(rng, peaks.len()) } else { vec![] };
                    RSpec { level, id, inj: rand_inj(rng), precs, peaks, noise }
                };
                let z = |rng: &mut Rng| match rng.below(4) {
                    0 => None,
                    k => Some(1 + k as u8),
                };
                let p2 = RPrec { mz: (400.0 + rng.unit() * 800.0) as f32, charge: z(rng), sref: if rng.chance(3, 4) { Some(ms1_id.clone()) } else { None } };
                specs.push(mk(rng, 2, ms2_id.clone(), vec![p2]));
                for _ in 0..rng.below(4) {
                    let id = scan_id(rng, scan);
                    scan += 1;
                    let mut precs = Vec::new();
                    match rng.below(8) {
                        0 => {
                            no_ref = true; // no precursor at all
                        }
                        1 => {
                            no_ref = true; // precursor without spectrumRef
                            precs.push(RPrec { mz: 500.5, charge: z(rng), sref: None });
                        }
                        2 => {
                            missing_ref = true; // reference to a scan that is not in the file
                            precs.push(RPrec { mz: 500.5, charge: z(rng), sref: Some(scan_id(rng, 9000 + scan)) });
                        }
                        3 => {
                            // a precursor with m/z 0 in front: the reader does not push it
                            precs.push(RPrec { mz: 0.0, charge: None, sref: Some("zero".into()) });
                            precs.push(RPrec { mz: 500.5, charge: z(rng), sref: Some(ms2_id.clone()) });
                        }
                        4 => {
                            // an earlier MS2 (shared by several MS3)
                            shared_ref = true;
                            precs.push(RPrec { mz: 500.5, charge: z(rng), sref: Some(rng.pick(&ms2_ids).clone()) });
                            precs.push(RPrec { mz: 300.25, charge: z(rng), sref: Some(ms1_id.clone()) });
                        }
                        _ => {
                            precs.push(RPrec { mz: (400.0 + rng.unit() * 800.0) as f32, charge: z(rng), sref: Some(ms2_id.clone()) });
                            if rng.chance(1, 3) {
                                precs.push(RPrec { mz: 350.5, charge: z(rng), sref: Some(ms1_id.clone()) });
                            }
                        }
                    }
                    specs.push(mk(rng, 3, id, precs));
                }
            }
            // MS3 before its MS2, arbitrary interleaving
            if rng.chance(1, 3) {
                rng.shuffle(&mut specs);
            }
            for s in &specs {
                max_n = max_n.max(s.peaks.len());
                has_noise |= !s.noise.is_empty() && s.level as usize == level;
                at_level += (s.level as usize == level && level != 1) as usize;
            }
            files.push(specs);
        }
        let small = max_n >= 2 && rng.chance(1, 12);
        let max_peaks = if small { 1 + rng.below(max_n - 1) } else { max_n + rng.below(40) };
        emit(Case::new(run_request(&plex, level, sn, deiso, max_peaks, batch, &files))
            .tag(if user { "run:user" } else { "run:builtin" })
            .tag(match level {
                2 => "run:level2",
                3 => "run:level3",
                _ => "run:level-other",
            })
            .tag_if(sn && has_noise, "run:sn-applied")
            .tag_if(sn && !has_noise, "run:sn-without-noise")
            .tag_if(deiso, "run:deisotope-on")
            .tag_if(shared_ref, "run:shared-ms2-reference")
            .tag_if(missing_ref, "run:reference-to-absent-scan")
            .tag_if(no_ref, "run:ms3-without-reference")
            .tag_if(nfiles > 1, "run:two-files")
            .tag_if(small, "run:small-max-peaks")
            .tag_if(unsorted.get(), "run:unsorted-raw-mz")
            .nontrivial(at_level >= 1 && !small));
    }
}

// ------------------------------------------------------------------------------------------ tmtpool gen

fn pool_request(pools: &[usize], plex: &Plex, level: u8, specs: &[Spec]) -> String {
    let mut o = Out::new();
    o.raw("tmtpool").n(pools.len());
    for &p in pools {
        o.n(p);
    }
    let rest = tmt_request(plex, (-20.0, 20.0), level, specs);
    o.raw(rest.strip_prefix("tmt ").unwrap_or(&rest));
    o.finish()
}

/// state leaking between spectra handled by the same rayon job: long lists in which spectra with a peak on every
/// channel are followed by spectra with some / all channels empty (and the reverse), at the quant level and
/// interleaved with other-level spectra; every spectrum has its own intensities, so a leaked value is visible
fn gen_pool(rng: &mut Rng, quick: bool, emit: &mut dyn FnMut(Case)) {
    let sizes: Vec<usize> = if quick {
        let mut v = vec![2, 2, 3, 3, 4, 5, 8, 8, 8, 9, 12, 16, 16, 24, 32, 32, 48, 64, 64, 128, 300, 300];
        for _ in 0..38 {
            v.push(2 + rng.below(30));
        }
        v
    } else {
        let mut v = Vec::new();
        for _ in 0..1500 {
            v.push(match rng.below(10) {
                0 => 100 + rng.below(201),
                1 | 2 => 33 + rng.below(96),
                _ => 2 + rng.below(31),
            });
        }
        v.extend([256, 300, 300, 300]);
        v
    };
    for (ci, &n) in sizes.iter().enumerate() {
        let plex = if rng.chance(1, 5) {
            rand_user_proc(rng)
        } else {
            match rng.below(6) {
                0 => Plex::T6,
                1 => Plex::T10,
                2 => Plex::T11,
                3 => Plex::T16,
                _ => Plex::T18,
            }
        };
        let labels = builtin(&plex);
        let level: u8 = if rng.chance(3, 5) { 2 } else { 3 };
        let shape = ci % 5; // 0 full→empty, 1 empty→full, 2 alternating, 3 full→partial→empty blocks, 4 random
        let with_other = rng.chance(1, 2);
        let mut specs: Vec<Spec> = Vec::with_capacity(n);
        let (mut n_full, mut n_hole) = (0usize, 0usize);
        for i in 0..n {
            let other_level = with_other && rng.chance(1, 3);
            // 0 = full, 1 = partial, 2 = empty (only peaks outside every window), 3 = no peaks at all
            let kind = if other_level {
                0
            } else {
                match shape {
                    0 => if i < n / 2 { 0 } else { 2 + (i % 2) },
                    1 => if i < n / 2 { 2 + (i % 2) } else { 0 },
                    2 => if i % 2 == 0 { 0 } else { 1 + (i / 2) % 3 },
                    3 => match (3 * i) / n.max(1) {
                        0 => 0,
                        1 => 1,
                        _ => 2,
                    },
                    _ => rng.below(4),
                }
            };
            let base_int = (10 * (i + 1)) as f32;
            let mut peaks: Vec<(f32, f32)> = Vec::new();
            for (c, &l) in labels.iter().enumerate() {
                let present = match kind {
                    0 => true,
                    1 => rng.chance(1, 2),
                    _ => false,
                };
                if present && l.is_finite() && l > 2.0 {
                    peaks.push((l - PROTON, base_int + c as f32 * 0.5 + 0.25));
                }
            }
            if kind != 3 {
                peaks.push((90.5 - PROTON, 7.0));
                peaks.push((755.5 - PROTON, base_int));
            }
            peaks.sort_by(|a, b| a.0.total_cmp(&b.0));
            let lvl = if other_level { if level == 2 { 3 } else { 2 } } else { level };
            if !other_level {
                if kind == 0 {
                    n_full += 1;
                } else {
                    n_hole += 1;
                }
            }
            specs.push(Spec {
                level: lvl,
                id: format!("s{i}"),
                file_id: i % 3,
                inj: (i as f32) * 0.5 + 1.0,
                precursors: vec![Some(format!("p{i}"))],
                peaks,
            });
        }
        let pools: Vec<usize> = match rng.below(6) {
            0 => vec![1],
            1 => vec![2, 1],
            _ => vec![1, 2, 3, 4, 16],
        };
        emit(Case::new(pool_request(&pools, &plex, level, &specs))
            .tag(match shape {
                0 => "pool:full-then-empty",
                1 => "pool:empty-then-full",
                2 => "pool:alternating",
                3 => "pool:full-partial-empty-blocks",
                _ => "pool:random-kinds",
            })
            .tag_if(with_other, "pool:other-level-interleaved")
            .tag_if(n >= 8, "pool:n>=8")
            .tag_if(n >= 100, "pool:n>=100")
            .nontrivial(n_full >= 1 && n_hole >= 1));
    }
}

pub fn gen(rng: &mut Rng, tier: Tier, emit: &mut dyn FnMut(Case)) {
    let quick = tier == Tier::Quick;
    gen_proc(rng, quick, emit);
    gen_run(rng, quick, emit);
    gen_pool(rng, quick, emit);
    emit(Case::new("tmtconsts".to_string()).tag("consts"));

    // ---------------------------------------------------------------- tmtguard
    for plex in [Plex::T6, Plex::T10, Plex::T11, Plex::T16, Plex::T18] {
        for level in 0..=4usize {
            emit(Case::new(guard_request(&plex, level)).tag("guard:builtin").nontrivial(level == 2));
        }
    }
    for _ in 0..(if quick { 200 } else { 5000 }) {
        let n = 1 + rng.below(8);
        let mut v: Vec<f32> = (0..n)
            .map(|_| match rng.below(3) {
                0 => 100.0 + rng.unit() * 100.0,
                1 => 1.0 + rng.unit() * 3000.0,
                _ => 126.0 + rng.below(10) as f64 * 1.003 + rng.below(2) as f64 * 0.00632,
            } as f32)
            .collect();
        v.sort_by(|a, b| a.total_cmp(b));
        let sorted = rng.chance(1, 2);
        if !sorted {
            let k = v.len() - 1;
            rng.shuffle(&mut v[..k]);
        }
        let mut last_is_max = true;
        if GEN_UNSORTED_USER_GUARD && rng.chance(1, 3) {
            rng.shuffle(&mut v);
            let mx = v.iter().copied().fold(f32::MIN, f32::max);
            last_is_max = *v.last().unwrap() == mx;
        }
        let level = if rng.chance(3, 4) { 2 } else { rng.below(5) };
        emit(Case::new(guard_request(&Plex::User(v), level))
            .tag("guard:user")
            .tag_if(!sorted && last_is_max, "guard:user-unsorted-last-is-max")
            .tag_if(!last_is_max, "guard:user-heaviest-not-last")
            .nontrivial(level == 2 && n >= 2));
    }

    // ---------------------------------------------------------------- tmt: random structured cases
    let n = if quick { 1500 } else { 60000 };
    for k in 0..n {
        let plex = rand_plex(rng);
        let labels = builtin(&plex);
        let ppm = match rng.below(10) {
            0 => (-10.0, 10.0),
            1 => (-20.0, 10.0),
            2 => (-5.0, 30.0),
            _ => (-20.0, 20.0),
        };
        let level: u8 = match rng.below(12) {
            0 => 1,
            1 => 0,
            2 => 4,
            3..=7 => 2,
            _ => 3,
        };
        let nspec = rng.below(7);
        let big = !quick && k % 50 == 0;
        let built: Vec<Built> = (0..nspec).map(|_| build_spectrum(rng, &labels, ppm, level, big)).collect();
        let specs: Vec<Spec> = built.iter().map(|b| b.spec.clone()).collect();
        let at_level: Vec<&Built> = built.iter().filter(|b| b.spec.level == level).collect();
        let nontrivial = level != 1 && at_level.iter().any(|b| b.in_window && b.outside);
        let user = matches!(plex, Plex::User(_));
        emit(Case::new(tmt_request(&plex, ppm, level, &specs))
            .tag(if user { "plex:user" } else { "plex:builtin" })
            .tag(match level {
                1 => "level:1",
                2 => "level:2",
                3 => "level:3",
                _ => "level:other",
            })
            .tag_if(ppm != (-20.0, 20.0), "ppm:other")
            .tag_if(nspec == 0, "no-spectra")
            .tag_if(built.iter().any(|b| b.spec.level != level), "other-level-spectra")
            .tag_if(at_level.iter().any(|b| b.edge), "peak-in-guard-band")
            .tag_if(at_level.iter().any(|b| b.near), "peak-near-edge")
            .tag_if(at_level.iter().any(|b| b.ties), "intensity-ties")
            .tag_if(at_level.iter().any(|b| b.multi), "several-peaks-in-window")
            .tag_if(level >= 3 && at_level.iter().any(|b| b.spec.precursors.is_empty()), "ms3-no-precursor")
            .tag_if(
                level >= 3 && at_level.iter().any(|b| matches!(b.spec.precursors.first(), Some(None))),
                "ms3-no-spectrum-ref",
            )
            .nontrivial(nontrivial));
    }

    // ---------------------------------------------------------------- tmt: directed
    // every builtin plex x level 2/3: one spectrum with exactly one peak at every channel's exact m/z,
    // intensities = channel number, plus the 18-plex channels the plex lacks
    for plex in [Plex::T6, Plex::T10, Plex::T11, Plex::T16, Plex::T18] {
        for level in [2u8, 3] {
            let all = builtin(&Plex::T18);
            let mut peaks: Vec<(f32, f32)> = all.iter().enumerate().map(|(i, &l)| (l - PROTON, (i + 1) as f32)).collect();
            peaks.sort_by(|a, b| a.0.total_cmp(&b.0));
            let s = Spec {
                level,
                id: "scan=7".into(),
                file_id: 1,
                inj: 12.5,
                precursors: vec![Some("scan=3".into()), Some("scan=4".into())],
                peaks,
            };
            emit(Case::new(tmt_request(&plex, (-20.0, 20.0), level, &[s])).tag("directed:one-peak-per-channel"));
        }
    }
    // every channel of the 18-plex: peaks exactly on both f32 window edges and one ulp outside them
    // (inside the spec's guard band: the model must agree bit for bit; tests the inclusive comparisons)
    for (ci, &label) in builtin(&Plex::T18).iter().enumerate() {
        let (lo, hi) = edges(label, (-20.0, 20.0));
        for variant in 0..4 {
            let peaks: Vec<(f32, f32)> = match variant {
                0 => vec![(next_up(lo, -1), 9.0), (lo, 5.0), (hi, 4.0), (next_up(hi, 1), 8.0)],
                1 => vec![(next_up(lo, -1), 9.0), (hi, 4.0)],
                2 => vec![(lo, 5.0), (next_up(hi, 1), 8.0)],
                _ => vec![(next_up(lo, -1), 9.0), (next_up(hi, 1), 8.0)],
            };
            let s = Spec { level: 2, id: format!("c{ci}"), file_id: 0, inj: 1.0, precursors: vec![], peaks };
            emit(Case::new(tmt_request(&Plex::T18, (-20.0, 20.0), 2, &[s])).tag("directed:on-edge").tag("peak-in-guard-band"));
        }
    }
    // one channel (127N of the 11-plex, neighbour 127C 6 mDa above), all subsets of 6 positions outside the
    // guard band: 20 ulp outside/inside each edge, the centre, and the neighbour's centre; 3 intensity orders
    {
        let l = builtin(&Plex::T11);
        let (lo, hi) = edges(l[1], (-20.0, 20.0));
        let pos = [next_up(lo, -20), next_up(lo, 20), l[1] - PROTON, next_up(hi, -20), next_up(hi, 20), l[2] - PROTON];
        for mask in 0u32..64 {
            for order in 0..3 {
                let peaks: Vec<(f32, f32)> = (0..6)
                    .filter(|i| (mask >> i) & 1 == 1)
                    .map(|i| {
                        let it = match order {
                            0 => (i + 1) as f32,
                            1 => (6 - i) as f32,
                            _ => 3.0,
                        };
                        (pos[i], it)
                    })
                    .collect();
                let s = Spec { level: 2, id: "x".into(), file_id: 2, inj: 3.0, precursors: vec![], peaks };
                emit(Case::new(tmt_request(&Plex::T11, (-20.0, 20.0), 2, &[s]))
                    .tag("directed:edge-subsets")
                    .tag("peak-near-edge")
                    .nontrivial(mask & 0b001110 != 0 && mask & 0b110001 != 0));
            }
        }
    }
    // spectra without any reporter peak (peaks only outside every window / no peaks at all) still give a row of zeros;
    // and a user-defined plex that lists a built-in table must behave like the built-in plex
    for level in [2u8, 3] {
        let none_in = Spec {
            level,
            id: "no-reporters".into(),
            file_id: 3,
            inj: 4.5,
            precursors: vec![Some("parent".into()), Some("other".into())],
            peaks: vec![(120.5 - PROTON, 10.0), (300.25 - PROTON, 99.0), (755.5 - PROTON, 5.0)],
        };
        let empty = Spec { level, id: "empty".into(), file_id: 3, inj: 5.5, precursors: vec![Some("parent2".into())], peaks: vec![] };
        for plex in [Plex::T6, Plex::T18, Plex::User(builtin(&Plex::T16))] {
            emit(Case::new(tmt_request(&plex, (-20.0, 20.0), level, &[none_in.clone(), empty.clone()]))
                .tag("directed:no-reporter-peaks")
                .nontrivial(false));
        }
    }
    for plex in [Plex::T6, Plex::T10, Plex::T11, Plex::T16, Plex::T18] {
        let all = builtin(&Plex::T18);
        let mut peaks: Vec<(f32, f32)> = all.iter().enumerate().map(|(i, &l)| (l - PROTON, (i + 1) as f32)).collect();
        peaks.sort_by(|a, b| a.0.total_cmp(&b.0));
        let s = Spec { level: 2, id: "scan=7".into(), file_id: 1, inj: 12.5, precursors: vec![], peaks };
        emit(Case::new(tmt_request(&Plex::User(builtin(&plex)), (-20.0, 20.0), 2, &[s])).tag("directed:user-copy-of-builtin"));
    }
    // negative / NaN intensities (outside the property's domain: the spec answers `na`, the model must agree)
    for &bad in &[-1.0f32, -0.0, f32::NAN, f32::INFINITY] {
        let l = builtin(&Plex::T6);
        let peaks = vec![(l[0] - PROTON, bad), (l[1] - PROTON, 7.0), (next_up(l[1] - PROTON, 5), bad)];
        let s = Spec { level: 2, id: "a".into(), file_id: 0, inj: 1.0, precursors: vec![], peaks };
        emit(Case::new(tmt_request(&Plex::T6, (-20.0, 20.0), 2, &[s])).tag("directed:odd-intensity").nontrivial(false));
    }

    // ---------------------------------------------------------------- selpeak
    let masses: [f32; 6] = [99.0, 100.0, 100.0, 101.0, 102.0, 104.0];
    let ints: [f32; 5] = [0.0, 1.0, 2.0, 2.0, -1.0];
    let nsel = if quick { 1500 } else { 40000 };
    for _ in 0..nsel {
        let n = rng.below(9);
        let mut peaks: Vec<(f32, f32)> = (0..n).map(|_| (*rng.pick(&masses), *rng.pick(&ints))).collect();
        peaks.sort_by(|a, b| a.0.total_cmp(&b.0));
        let (kind, lo, hi) = match rng.below(3) {
            0 => ("d", -(rng.below(3) as f32), rng.below(3) as f32),
            1 => ("c", -(rng.below(3) as f32), rng.below(3) as f32),
            _ => ("p", -10000.0 * rng.below(3) as f32, 10000.0 * rng.below(3) as f32),
        };
        let center = 98.0 + rng.below(8) as f32;
        let offset = match rng.below(3) {
            0 => None,
            1 => Some(-1.0),
            _ => Some(1.0),
        };
        let w = {
            let (a, b) = match kind {
                "d" => Tolerance::Da(lo, hi),
                "c" => Tolerance::Pct(lo, hi),
                _ => Tolerance::Ppm(lo, hi),
            }
            .bounds(center);
            (a + offset.unwrap_or(0.0), b + offset.unwrap_or(0.0))
        };
        let inside = peaks.iter().filter(|p| p.0 >= w.0 && p.0 <= w.1).count();
        emit(Case::new(sel_request(kind, lo, hi, center, offset, &peaks))
            .tag("selpeak:random")
            .tag_if(inside == 0, "selpeak:empty-window")
            .tag_if(inside >= 2, "selpeak:several-in-window")
            .nontrivial(inside >= 1 && inside < peaks.len()));
    }
    // exhaustive small scope: all sorted mass lists of length <= L over 4 keys x intensities {0,1,2} x Da windows
    let len_max = if quick { 3 } else { 5 };
    let keys: [f32; 4] = [10.0, 11.0, 12.0, 13.0];
    let ivals: [f32; 3] = [0.0, 1.0, 2.0];
    for len in 0..=len_max {
        let total = 12usize.pow(len as u32);
        for code in 0..total {
            let mut c = code;
            let mut peaks = Vec::new();
            for _ in 0..len {
                let d = c % 12;
                c /= 12;
                peaks.push((keys[d / 3], ivals[d % 3]));
            }
            if !peaks.windows(2).all(|w| w[0].0 <= w[1].0) {
                continue;
            }
            for &(center, lo, hi) in &[(11.0f32, 0.0f32, 0.0f32), (11.0, 0.0, 1.0), (12.0, -2.0, 0.0), (11.5, -0.25, 0.25), (9.0, -5.0, 5.0)] {
                emit(Case::new(sel_request("d", lo, hi, center, None, &peaks)).tag("selpeak:exhaustive").nontrivial(len >= 2));
            }
        }
    }
}
