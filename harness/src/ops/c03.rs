//! C03 — fragment index: `binary_search_slice`, `Parameters::build_from_peptides`,
//! `IndexedDatabase::query`, `IndexedQuery::page_search`
//!
//!   bss   [n f32…] lo hi                                              -> L R
//!   page  sortmode kinds minIon [nB B…] [npep (mass seqhex)…] [nq query…]  -> db-export + results | panic
//!   dbinv (same request format; used with nq = 0 and larger databases)
//!
//!   pageseq (same request format; all queries share preMass / preTol / fragTol): ONE `IndexedQuery` per B
//!         (`db.query(..)` once), then `page_search(fragMz, charge)` for every query IN REQUEST ORDER through that
//!         same object; per lookup the reply carries the window, the result through the shared object and the
//!         result of the same lookup through a FRESH `db.query(..)`:  fragLo fragHi preLo preHi [cnt pairs] [cnt pairs]
//!
//!   query     = ptk plo phi  ftk flo fhi  preMass fragMz charge      (kind 0 = ppm, 1 = Da, 2 = Pct)
//!   db-export = [npep mass…] [nion (pep mz)…]  then per B: [nfrag (pep mz)…] [nmin minv…]  then per query:
//!               fragLo fragHi preLo preHi [cnt (pep mz)…]            (pairs sorted by (pep, mz bits))
//!
//! sortmode >= 2 is FASTA mode: `sortmode = 2 + 4*opts`, the (mass, seq) entries are PROTEINS (mass ignored)
//! and the peptides come from the REAL `Parameters::digest` (= the first half of `Parameters::build`:
//! enzyme digestion, static/variable modifications, decoy generation, `reorder_peptides`), followed by
//! `build_from_peptides` for each B exactly as `Parameters::build` does. opts bits: 0 decoys, 1 variable M+15.9949,
//! 2 variable S/T+79.9663, 3 static C+57.0215, 4-5 missed cleavages, 6 max_variable_mods = 2 (else 1),
//! 7 min_len 3 (else 5), 8 variable peptide-N-term +42.0106.
//!
//! The index is the REAL one: synthetic `Peptide` values (all fields public) are sorted by mass
//! (sortmode 0: stable `total_cmp` sort in the harness; 1: `Parameters::reorder_peptides`), then
//! `Parameters { bucket_size: B, .. }.build_from_peptides(..)` — `Parameters` is constructed directly so
//! that `B` is not rounded to a power of two. `masses`, `frags`, `minv` are the public fields
//! `peptides[..].monoisotopic`, `fragments`, `min_value`. `ions` is the flat ion list in generation order,
//! recomputed here through the public `IonSeries` with the builder's ion filter.
//! The windows are `Tolerance::bounds` of the real code (fragment tolerance scaled by the charge as in
//! `page_search`).
use super::Info;
use crate::proto::{Case, Out, Rng, Tier, Toks};
use sage_core::database::{binary_search_slice, EnzymeBuilder, IndexedDatabase, Parameters};
use sage_core::enzyme::Position;
use sage_core::fasta::Fasta;
use sage_core::modification::{validate_mods, validate_var_mods};
use std::collections::HashMap;
use sage_core::ion_series::{IonSeries, Kind};
use sage_core::mass::{monoisotopic, Tolerance, H2O};
use sage_core::peptide::Peptide;
use std::sync::Arc;

pub const OPS: &[&str] = &["bss", "page", "dbinv", "pageseq"];
pub const INFO: Info = Info {
    rule: "bss: ALL sorted arrays up to length 5 (thorough 7) over 4 (5) keys x all bounds on the half-step grid \
           (incl. lo > hi), plus random sorted arrays up to 300 (thorough: every 40th up to 3000) elements on a coarse grid (runs of equal keys) \
           with bounds on / between / outside the keys. page: synthetic databases of 0..12 (thorough 0..25, every 11th 0..60) peptides \
           drawn from a small pool of sequences (same sequence => identical b-ion m/z in several peptides) with masses \
           on a 0.5 Da grid (duplicate peptide masses) or the true mass; ion kinds and min_ion_index varied; each \
           database is built with 2-4 bucket sizes from {1,2,3,4,7,8,16,32,64,128,1024,8192, n-1, n, n+1} (last bucket \
           partial / exactly full / B > #fragments) and queried with ~20 queries: precursor window everything / empty / \
           inverted / partial around a stored mass / edge exactly equal to a stored peptide mass; fragment window \
           around a stored fragment, edge exactly equal to a bucket's min_value, everything, empty; ppm, Da (and Pct \
           precursor) tolerances; charge 1..4. About one query in four uses an OFFSET tolerance on the precursor and/or fragment side, ppm and Da: \
           both bounds positive, both negative, lo > hi (same and mixed sign), zero width at an offset; the centre is placed so \
           that a stored value is inside the window, exactly at the centre (outside the window, inside its mirror image) or on the \
           mirrored side. FASTA mode (quick 60+10, thorough 500+60 cases, digests with more than 8000 fragments skipped): 1-4 (6) generated proteins (K/R-rich, shared segments, palindromes, \
           isobaric anagram peptides) through the REAL Parameters::digest with random decoys / variable M, S/T, N-term / static C \
           / missed cleavages 0-2 / max_variable_mods 1-2, then build_from_peptides per B and the same queries. \
           pageseq (quick 160+15, thorough 2500+200 cases): ONE IndexedQuery per index (bucket sizes from {1,2,4,8} with >= 3 pages, \
           sometimes another size), then 3-8 (3-14) peaks (stored fragment m/z, m/z divided by 2 or 3, near misses) x charges 1..=zmax looked \
           up through that same object in scorer order (ascending peaks x charges: masses not monotone), descending, shuffled, or with \
           repeated lookups; every answer is compared with the same lookup through a fresh query object and with the linear scan; \
           non-trivial = a non-empty answer to a lookup made after a lookup of strictly higher mass on an index with >= 3 pages. \
           dbinv: larger databases (up to 300 / 800 peptides, at most ~200 buckets), layout only. \
           non-trivial = (bss) the window contains at least one and excludes at least one element; (page) some \
           query returns at least one but not all stored fragments; (dbinv) at least two buckets.",
    serial: false,
};

// ------------------------------------------------------------------------------------------- requests

#[derive(Clone, Copy)]
struct Query {
    pre_tol: Tolerance,
    frag_tol: Tolerance,
    pre_mass: f32,
    frag_mz: f32,
    charge: u8,
}

#[derive(Clone)]
struct Desc {
    sortmode: usize,
    kinds: usize,
    min_ion: usize,
    peps: Vec<(f32, Vec<u8>)>,
}

fn put_tol(o: &mut Out, t: &Tolerance) {
    match t {
        Tolerance::Ppm(lo, hi) => o.n(0).f32(*lo).f32(*hi),
        Tolerance::Da(lo, hi) => o.n(1).f32(*lo).f32(*hi),
        Tolerance::Pct(lo, hi) => o.n(2).f32(*lo).f32(*hi),
    };
}

fn get_tol(t: &mut Toks) -> Option<Tolerance> {
    let k = t.usize()?;
    let lo = t.f32()?;
    let hi = t.f32()?;
    match k {
        0 => Some(Tolerance::Ppm(lo, hi)),
        1 => Some(Tolerance::Da(lo, hi)),
        2 => Some(Tolerance::Pct(lo, hi)),
        _ => None,
    }
}

fn request(op: &str, d: &Desc, bs: &[usize], qs: &[Query]) -> String {
    let mut o = Out::new();
    o.raw(op).n(d.sortmode).n(d.kinds).n(d.min_ion);
    o.n(bs.len());
    for b in bs {
        o.n(*b);
    }
    o.n(d.peps.len());
    for (m, s) in &d.peps {
        o.f32(*m).bytes(s);
    }
    o.n(qs.len());
    for q in qs {
        put_tol(&mut o, &q.pre_tol);
        put_tol(&mut o, &q.frag_tol);
        o.f32(q.pre_mass).f32(q.frag_mz).n(q.charge);
    }
    o.finish()
}

fn bss_request(xs: &[f32], lo: f32, hi: f32) -> String {
    let mut o = Out::new();
    o.raw("bss").n(xs.len());
    for x in xs {
        o.f32(*x);
    }
    o.f32(lo).f32(hi);
    o.finish()
}

// ------------------------------------------------------------------------------------------- real code

const KINDS: [Kind; 6] = [Kind::A, Kind::B, Kind::C, Kind::X, Kind::Y, Kind::Z];

fn kinds_of(mask: usize) -> Vec<Kind> {
    KINDS.iter().enumerate().filter(|(i, _)| mask >> i & 1 == 1).map(|(_, k)| *k).collect()
}

fn fasta_of(d: &Desc) -> Fasta {
    let mut text = String::new();
    for (i, (_, s)) in d.peps.iter().enumerate() {
        text.push_str(&format!(">sp|P{:04}|PROT{}\n{}\n", i, i, String::from_utf8_lossy(s)));
    }
    Fasta::parse(text, "rev_", fasta_opts(d) & 1 == 1)
}

fn fasta_opts(d: &Desc) -> usize {
    (d.sortmode - 2) / 4
}

fn peptides_of(d: &Desc) -> Vec<Peptide> {
    if d.sortmode >= 2 {
        // the real digest: enzyme, modifications, decoys, reorder_peptides
        return params(d, 1).digest(&fasta_of(d));
    }
    let mut peps: Vec<Peptide> = d
        .peps
        .iter()
        .map(|(m, s)| Peptide {
            decoy: false,
            sequence: Arc::from(s.clone().into_boxed_slice()),
            modifications: vec![0.0; s.len()],
            nterm: None,
            cterm: None,
            monoisotopic: *m,
            missed_cleavages: 0,
            semi_enzymatic: false,
            position: Position::Internal,
            proteins: vec![Arc::from("P")],
        })
        .collect();
    if d.sortmode == 1 {
        Parameters::reorder_peptides(&mut peps);
    } else {
        peps.sort_by(|a, b| a.monoisotopic.total_cmp(&b.monoisotopic));
    }
    peps
}

fn params(d: &Desc, b: usize) -> Parameters {
    if d.sortmode >= 2 {
        let o = fasta_opts(d);
        let mut stat: HashMap<String, f32> = HashMap::new();
        let mut var: HashMap<String, Vec<f32>> = HashMap::new();
        if o >> 1 & 1 == 1 {
            var.insert("M".into(), vec![15.9949]);
        }
        if o >> 2 & 1 == 1 {
            var.insert("S".into(), vec![79.9663]);
            var.insert("T".into(), vec![79.9663]);
        }
        if o >> 3 & 1 == 1 {
            stat.insert("C".into(), 57.0215);
        }
        if o >> 8 & 1 == 1 {
            var.insert("^".into(), vec![42.0106]);
        }
        return Parameters {
            bucket_size: b,
            enzyme: EnzymeBuilder {
                missed_cleavages: Some((o >> 4 & 3).min(2) as u8),
                min_len: Some(if o >> 7 & 1 == 1 { 3 } else { 5 }),
                max_len: Some(30),
                cleave_at: Some("KR".into()),
                restrict: Some('P'),
                c_terminal: Some(true),
                semi_enzymatic: Some(false),
            },
            peptide_min_mass: 200.0,
            peptide_max_mass: 6000.0,
            ion_kinds: kinds_of(d.kinds),
            min_ion_index: d.min_ion,
            static_mods: validate_mods(Some(stat)),
            variable_mods: validate_var_mods(Some(var)),
            max_variable_mods: if o >> 6 & 1 == 1 { 2 } else { 1 },
            decoy_tag: "rev_".into(),
            generate_decoys: o & 1 == 1,
            fasta: String::new(),
            prefilter_chunk_size: 0,
            prefilter: false,
            prefilter_low_memory: false,
        };
    }
    Parameters {
        bucket_size: b,
        enzyme: EnzymeBuilder::default(),
        peptide_min_mass: 0.0,
        peptide_max_mass: 1.0e9,
        ion_kinds: kinds_of(d.kinds),
        min_ion_index: d.min_ion,
        static_mods: Default::default(),
        variable_mods: Default::default(),
        max_variable_mods: 0,
        decoy_tag: "rev_".into(),
        generate_decoys: false,
        fasta: String::new(),
        prefilter_chunk_size: 0,
        prefilter: false,
        prefilter_low_memory: false,
    }
}

fn build(d: &Desc, peps: &[Peptide], b: usize) -> IndexedDatabase {
    params(d, b).build_from_peptides(peps.to_vec())
}

/// the flat ion list, in generation order (the builder's closure, through the public `IonSeries`)
fn ions_of(d: &Desc, peps: &[Peptide]) -> Vec<(u32, f32)> {
    let kinds = kinds_of(d.kinds);
    let mut v = Vec::new();
    for (idx, p) in peps.iter().enumerate() {
        for kind in &kinds {
            for (ion_idx, ion) in IonSeries::new(p, *kind).enumerate() {
                let keep = match ion.kind {
                    Kind::A | Kind::B | Kind::C => (ion_idx + 1) > d.min_ion,
                    Kind::X | Kind::Y | Kind::Z => p.sequence.len().saturating_sub(1) - ion_idx > d.min_ion,
                };
                if keep {
                    v.push((idx as u32, ion.monoisotopic_mass));
                }
            }
        }
    }
    v
}

fn search(db: &IndexedDatabase, q: &Query) -> Vec<(u32, u32)> {
    let mut r: Vec<(u32, u32)> = db
        .query(q.pre_mass, q.pre_tol, q.frag_tol)
        .page_search(q.frag_mz, q.charge)
        .map(|f| (f.peptide_index.0, f.fragment_mz.to_bits()))
        .collect();
    r.sort();
    r
}

fn windows(q: &Query) -> (f32, f32, f32, f32) {
    let c = q.charge as f32;
    let tol = match q.frag_tol {
        Tolerance::Ppm(lo, hi) => Tolerance::Ppm(lo / c, hi / c),
        t => t,
    };
    let (flo, fhi) = tol.bounds(q.frag_mz * c);
    let (plo, phi) = q.pre_tol.bounds(q.pre_mass);
    (flo, fhi, plo, phi)
}

fn parse(t: &mut Toks) -> Option<(Desc, Vec<usize>, Vec<Query>)> {
    let sortmode = t.usize()?;
    let kinds = t.usize()?;
    let min_ion = t.usize()?;
    let bs = t.list(|t| t.usize())?;
    let peps = t.list(|t| {
        let m = t.f32()?;
        let s = t.bytes()?;
        Some((m, s))
    })?;
    let qs = t.list(|t| {
        let pre_tol = get_tol(t)?;
        let frag_tol = get_tol(t)?;
        let pre_mass = t.f32()?;
        let frag_mz = t.f32()?;
        let charge = t.usize()? as u8;
        Some(Query { pre_tol, frag_tol, pre_mass, frag_mz, charge })
    })?;
    if !t.done() || peps.iter().any(|(_, s)| s.is_empty()) {
        return None;
    }
    Some((Desc { sortmode, kinds, min_ion, peps }, bs, qs))
}

pub fn exec(op: &str, t: &mut Toks) -> Option<String> {
    match op {
        "bss" => {
            let xs = t.list(|t| t.f32())?;
            let lo = t.f32()?;
            let hi = t.f32()?;
            let (l, r) = binary_search_slice(&xs, |a: &f32, b| a.total_cmp(b), lo, hi);
            let mut o = Out::new();
            o.n(l).n(r);
            Some(o.finish())
        }
        "page" | "dbinv" => {
            let (d, bs, qs) = parse(t)?;
            let peps = peptides_of(&d);
            let mut o = Out::new();
            o.n(peps.len());
            for p in &peps {
                o.f32(p.monoisotopic);
            }
            let ions = ions_of(&d, &peps);
            o.n(ions.len());
            for (p, m) in &ions {
                o.n(*p).f32(*m);
            }
            for b in &bs {
                let db = build(&d, &peps, *b);
                o.n(db.fragments.len());
                for f in &db.fragments {
                    o.n(f.peptide_index.0).f32(f.fragment_mz);
                }
                o.n(db.min_value.len());
                for m in &db.min_value {
                    o.f32(*m);
                }
                for q in &qs {
                    let r = search(&db, q);
                    let (flo, fhi, plo, phi) = windows(q);
                    o.f32(flo).f32(fhi).f32(plo).f32(phi);
                    o.n(r.len());
                    for (p, m) in r {
                        o.n(p).n(m);
                    }
                }
            }
            Some(o.finish())
        }
        "pageseq" => {
            let (d, bs, qs) = parse(t)?;
            let q0 = *qs.first()?;
            let same = |a: &Tolerance, b: &Tolerance| a == b;
            if qs.iter().any(|q| {
                q.pre_mass.to_bits() != q0.pre_mass.to_bits() || !same(&q.pre_tol, &q0.pre_tol) || !same(&q.frag_tol, &q0.frag_tol)
            }) {
                return None;
            }
            let peps = peptides_of(&d);
            let mut o = Out::new();
            o.n(peps.len());
            for p in &peps {
                o.f32(p.monoisotopic);
            }
            let ions = ions_of(&d, &peps);
            o.n(ions.len());
            for (p, m) in &ions {
                o.n(*p).f32(*m);
            }
            for b in &bs {
                let db = build(&d, &peps, *b);
                o.n(db.fragments.len());
                for f in &db.fragments {
                    o.n(f.peptide_index.0).f32(f.fragment_mz);
                }
                o.n(db.min_value.len());
                for m in &db.min_value {
                    o.f32(*m);
                }
                // ONE query object for the whole sequence
                let iq = db.query(q0.pre_mass, q0.pre_tol, q0.frag_tol);
                for q in &qs {
                    let mut r: Vec<(u32, u32)> = iq
                        .page_search(q.frag_mz, q.charge)
                        .map(|f| (f.peptide_index.0, f.fragment_mz.to_bits()))
                        .collect();
                    r.sort();
                    let fresh = search(&db, q);
                    let (flo, fhi, plo, phi) = windows(q);
                    o.f32(flo).f32(fhi).f32(plo).f32(phi);
                    o.n(r.len());
                    for (p, m) in r {
                        o.n(p).n(m);
                    }
                    o.n(fresh.len());
                    for (p, m) in fresh {
                        o.n(p).n(m);
                    }
                }
            }
            Some(o.finish())
        }
        _ => None,
    }
}

// ------------------------------------------------------------------------------------------- generator

const POOL: [&[u8]; 12] = [
    b"G", b"AG", b"GAS", b"PEPK", b"GASPV", b"TIDEK", b"PEPTIDE", b"AAAAAAK", b"GASPVTCL", b"LLNDEQMWK",
    b"PEPTIDEK", b"VTCLGASPK",
];
const B_CHOICES: [usize; 12] = [1, 2, 3, 4, 7, 8, 16, 32, 64, 128, 1024, 8192];

fn true_mass(s: &[u8]) -> f32 {
    s.iter().map(|r| monoisotopic(*r)).sum::<f32>() + H2O
}

fn gen_desc(rng: &mut Rng, max_pep: usize) -> Desc {
    let npep = match rng.below(12) {
        0 => 0,
        1 => 1,
        2 => 2,
        _ => rng.below(max_pep + 1),
    };
    let kinds = *rng.pick(&[0b010010usize, 0b010010, 0b010010, 0b000010, 0b010000, 0b100100, 0b001001, 0b111111]);
    let min_ion = *rng.pick(&[0usize, 0, 1, 2, 2]);
    let sortmode = rng.below(2);
    let npool = 1 + rng.below(POOL.len());
    let pool_start = if rng.chance(1, 4) { 0 } else { 3 + rng.below(POOL.len() - 3) };
    let style = rng.below(3); // 0: grid masses, 1: true masses, 2: mixed
    let grid_span = 1 + rng.below(8);
    let base = *rng.pick(&[300.0f32, 500.0, 800.0, 1200.0]);
    let mut peps = Vec::new();
    for _ in 0..npep {
        let s = POOL[(pool_start + rng.below(npool)) % POOL.len()].to_vec();
        let grid = base + 0.5 * rng.below(grid_span) as f32;
        let m = match style {
            0 => grid,
            1 => true_mass(&s),
            _ => {
                if rng.chance(1, 2) {
                    grid
                } else {
                    true_mass(&s)
                }
            }
        };
        peps.push((m, s));
    }
    Desc { sortmode, kinds, min_ion, peps }
}

const AA_WEIGHTED: &[u8] = b"KKKRRRMMSSTTCPAAGGLLVVEEDDFIQNWYH";

/// a small FASTA: proteins over a K/R-rich alphabet (short tryptic peptides), with M/S/T/C for the
/// modifications, shared segments between proteins (shared peptides) and palindromic segments (a reversed
/// decoy equal to its target); `None` if the real digest rejects it (no peptide at all panics in sage)
fn gen_fasta_desc(rng: &mut Rng, max_prot: usize, max_len: usize) -> Option<Desc> {
    let nprot = 1 + rng.below(max_prot);
    let mut prots: Vec<Vec<u8>> = Vec::new();
    for _ in 0..nprot {
        let len = 8 + rng.below(max_len - 7);
        let mut s: Vec<u8> = Vec::new();
        while s.len() < len {
            match rng.below(10) {
                0 if !prots.is_empty() => {
                    // copy a segment of an earlier protein
                    let p = &prots[rng.below(prots.len())];
                    let a = rng.below(p.len());
                    let b = (a + 3 + rng.below(12)).min(p.len());
                    s.extend_from_slice(&p[a..b]);
                }
                1 => {
                    // palindrome between two cleavage sites: XYZ..ZYX K
                    let h: Vec<u8> = (0..2 + rng.below(4)).map(|_| *rng.pick(b"AGLVSTMEC")).collect();
                    s.extend_from_slice(&h);
                    s.extend(h.iter().rev());
                    s.push(*rng.pick(b"KR"));
                }
                2 => {
                    // isobaric neighbours: same composition, different order
                    s.extend_from_slice(*rng.pick(&[&b"GAMSK"[..], b"AGMSK", b"MSGAK", b"SMAGR", b"TMLR", b"MTLR"]));
                }
                _ => s.push(*rng.pick(AA_WEIGHTED)),
            }
        }
        prots.push(s);
    }
    let opts = rng.below(512);
    let d = Desc {
        sortmode: 2 + 4 * opts,
        kinds: *rng.pick(&[0b010010usize, 0b010010, 0b010010, 0b100100, 0b111111]),
        min_ion: *rng.pick(&[0usize, 1, 2, 2]),
        peps: prots.into_iter().map(|s| (0.0f32, s)).collect(),
    };
    let dd = d.clone();
    // keep the case line bounded: at most ~8000 stored fragments — larger digests are skipped
    match std::panic::catch_unwind(move || {
        let p = peptides_of(&dd);
        (p.len(), ions_of(&dd, &p).len())
    }) {
        Ok((n, nfrag)) if n > 0 && nfrag <= 8000 => Some(d),
        _ => None,
    }
}

fn fasta_case(op: &'static str, rng: &mut Rng, d: &Desc, n_q: usize, max_pages: usize) -> Case {
    let peps = peptides_of(d);
    let nfrag = ions_of(d, &peps).len();
    let bs: Vec<usize> = pick_bs(rng, nfrag).into_iter().map(|b| b.max(nfrag / max_pages)).collect();
    let dbs: Vec<IndexedDatabase> = bs.iter().map(|b| build(d, &peps, *b)).collect();
    let mut qt = QTags { tags: vec![] };
    let qs: Vec<Query> = (0..n_q).map(|_| gen_query(rng, &dbs, &mut qt)).collect();
    let nontrivial = if n_q == 0 {
        bs.iter().any(|b| nfrag > *b)
    } else {
        qs.iter().any(|q| {
            let r = search(&dbs[0], q).len();
            r > 0 && r < nfrag
        })
    };
    let masses: Vec<u32> = peps.iter().map(|p| p.monoisotopic.to_bits()).collect();
    let mut dm = masses.clone();
    dm.dedup();
    let o = fasta_opts(d);
    let mut c = Case::new(request(op, d, &bs, &qs))
        .tag("db:fasta")
        .tag_if(o & 1 == 1, "db:fasta-decoys")
        .tag_if(peps.iter().any(|p| p.decoy), "db:fasta-has-decoy-peptides")
        .tag_if(peps.iter().any(|p| p.modifications.iter().any(|m| *m != 0.0) || p.nterm.is_some()), "db:fasta-modified-peptides")
        .tag_if(dm.len() < masses.len(), "db:duplicate-peptide-masses")
        .tag_if(bs.iter().any(|b| nfrag % b != 0), "db:last-bucket-partial")
        .tag_if(bs.iter().any(|b| *b > nfrag), "db:B>fragments")
        .tag_if(nontrivial && n_q > 0, "page:some-query-partial")
        .nontrivial(nontrivial);
    qt.tags.sort();
    qt.tags.dedup();
    for t in qt.tags {
        c = c.tag(t);
    }
    c
}

fn pick_bs(rng: &mut Rng, nfrag: usize) -> Vec<usize> {
    let mut bs = Vec::new();
    let k = 2 + rng.below(3);
    while bs.len() < k {
        let b = match rng.below(5) {
            0 if nfrag > 1 => nfrag - 1,
            1 if nfrag > 0 => nfrag,
            2 => nfrag + 1,
            3 => 1 + rng.below(6),
            _ => *rng.pick(&B_CHOICES),
        };
        if !bs.contains(&b) {
            bs.push(b);
        }
    }
    bs
}

fn width(rng: &mut Rng) -> f32 {
    *rng.pick(&[0.0f32, 0.001, 0.01, 0.05, 0.25, 0.5, 0.75, 1.0, 2.5, 10.0, 100.0])
}

fn ppm_width(rng: &mut Rng) -> f32 {
    *rng.pick(&[0.0f32, 1.0, 5.0, 10.0, 20.0, 50.0, 500.0, 2000.0, 20000.0])
}

fn neg(x: f32) -> f32 {
    // never produce -0.0 (outside the model: the code mixes total_cmp and >=)
    if x == 0.0 {
        0.0
    } else {
        -x
    }
}

/// (tolerance, tag) whose window has `edge` exactly as its lower / upper end when centred on `edge`
fn edge_tol(rng: &mut Rng) -> Tolerance {
    let ppm = rng.chance(1, 2);
    let w = if ppm { ppm_width(rng) } else { width(rng) };
    let (lo, hi) = match rng.below(3) {
        0 => (0.0, w),
        1 => (neg(w), 0.0),
        _ => (0.0, 0.0),
    };
    if ppm {
        Tolerance::Ppm(lo, hi)
    } else {
        Tolerance::Da(lo, hi)
    }
}

fn sym_tol(rng: &mut Rng, allow_pct: bool) -> Tolerance {
    match rng.below(if allow_pct { 5 } else { 4 }) {
        0 | 1 => {
            let w = ppm_width(rng);
            Tolerance::Ppm(neg(w), w)
        }
        2 | 3 => {
            let w = width(rng);
            let w2 = width(rng);
            Tolerance::Da(neg(w), w2)
        }
        _ => {
            let w = *rng.pick(&[0.0f32, 0.01, 0.1, 1.0, 50.0]);
            Tolerance::Pct(neg(w), w)
        }
    }
}

struct QTags {
    tags: Vec<&'static str>,
}

/// a mass carried by at least two (adjacent, the list is sorted) peptides
fn dup_mass(masses: &[f32]) -> Option<f32> {
    masses.windows(2).find(|w| w[0] == w[1]).map(|w| w[0])
}

/// `pageseq`: one query object, a sequence of lookups in scorer order (ascending peaks x charges 1..=zmax, whose
/// masses are NOT monotone), descending, shuffled, or with repeated lookups
fn seq_case(rng: &mut Rng, d: &Desc, quick: bool) -> Option<Case> {
    let peps = peptides_of(d);
    let nfrag = ions_of(d, &peps).len();
    if nfrag < 6 {
        return None;
    }
    // multi-page indices: bucket sizes 1, 2, 4, 8 with at least 3 pages, sometimes another size
    let mut bs: Vec<usize> = [1usize, 2, 4, 8].iter().copied().filter(|b| nfrag >= 3 * b).collect();
    rng.shuffle(&mut bs);
    bs.truncate(1 + rng.below(3));
    if rng.chance(1, 3) {
        let extra = *rng.pick(&[3usize, 5, 7, 16, nfrag.max(1), 8192]);
        if !bs.contains(&extra) {
            bs.push(extra);
        }
    }
    let dbs: Vec<IndexedDatabase> = bs.iter().map(|b| build(d, &peps, *b)).collect();
    let db = &dbs[0];
    let masses: Vec<f32> = db.peptides.iter().map(|p| p.monoisotopic).collect();
    let (pre_mass, pre_tol) = match rng.below(6) {
        0 | 1 | 2 => (1000.0, Tolerance::Da(-1.0e6, 1.0e6)),
        3 if dup_mass(&masses).is_some() => (dup_mass(&masses).unwrap(), Tolerance::Da(neg(width(rng)), 0.0)),
        4 => (*rng.pick(&masses) - 300.0, *rng.pick(&[Tolerance::Da(100.0, 900.0), Tolerance::Ppm(100000.0, 900000.0)])),
        _ => (*rng.pick(&masses), Tolerance::Da(neg(*rng.pick(&[0.5f32, 2.5, 100.0])), *rng.pick(&[0.5f32, 2.5, 100.0]))),
    };
    let frag_tol = if rng.chance(1, 6) {
        // offset fragment window (does not contain the looked-up mass)
        *rng.pick(&[Tolerance::Da(0.25, 1.0), Tolerance::Da(-1.0, -0.25), Tolerance::Ppm(200.0, 2000.0), Tolerance::Ppm(-2000.0, -200.0), Tolerance::Da(0.5, 0.5)])
    } else if rng.chance(1, 2) {
        let w = *rng.pick(&[5.0f32, 10.0, 20.0, 50.0, 500.0]);
        Tolerance::Ppm(neg(w), w)
    } else {
        let w = *rng.pick(&[0.005f32, 0.02, 0.1, 0.5, 1.0]);
        Tolerance::Da(neg(w), w)
    };
    // peaks: stored fragment m/z (hit at charge 1), stored m/z divided by a charge (hit at that charge), some noise
    let npeak = 3 + rng.below(if quick { 6 } else { 12 });
    let mut peaks: Vec<f32> = (0..npeak)
        .map(|_| {
            let f = rng.pick(&db.fragments).fragment_mz;
            match rng.below(5) {
                0 => f / 2.0,
                1 => f / 3.0,
                2 => f + *rng.pick(&[0.001f32, -0.001, 0.3]),
                _ => f,
            }
        })
        .collect();
    peaks.sort_by(|a, b| a.total_cmp(b));
    let zmax = 2 + rng.below(3) as u8;
    let mut looks: Vec<(f32, u8)> = Vec::new();
    for p in &peaks {
        for z in 1..=zmax {
            looks.push((*p, z));
        }
    }
    let order = rng.below(4);
    let order_tag = match order {
        0 => "seq:scorer-order(ascending-peaks-x-charges)",
        1 => {
            looks.reverse();
            "seq:descending"
        }
        2 => {
            rng.shuffle(&mut looks);
            "seq:shuffled"
        }
        _ => {
            // repeats: every lookup once more after the whole pass, plus an immediate repeat of the highest one
            let again: Vec<(f32, u8)> = looks.iter().copied().take(6).collect();
            if let Some(last) = looks.last().copied() {
                looks.push(last);
            }
            looks.extend(again);
            "seq:scorer-order+repeats"
        }
    };
    let qs: Vec<Query> = looks
        .iter()
        .map(|(mz, z)| Query { pre_tol, frag_tol, pre_mass, frag_mz: *mz, charge: *z })
        .collect();
    // non-trivial: a non-empty answer to a lookup made AFTER a lookup of a strictly higher mass, on >= 3 pages
    let mut hi_seen = f32::NEG_INFINITY;
    let mut nontrivial = false;
    for q in &qs {
        let m = q.frag_mz * q.charge as f32;
        if m < hi_seen && !search(db, q).is_empty() {
            nontrivial = true;
        }
        hi_seen = hi_seen.max(m);
    }
    let multi = bs.iter().any(|b| (nfrag + b - 1) / b >= 3);
    Some(
        Case::new(request("pageseq", d, &bs, &qs))
            .tag(order_tag)
            .tag_if(d.sortmode >= 2, "db:fasta")
            .tag_if(multi, "seq:index-has>=3-pages")
            .tag_if(nontrivial, "seq:hit-after-higher-mass-lookup")
            .tag_if(matches!(frag_tol, Tolerance::Ppm(..)), "tol:frag-ppm")
            .tag_if(matches!(frag_tol, Tolerance::Da(..)), "tol:frag-da")
            .nontrivial(nontrivial && multi),
    )
}

/// an OFFSET tolerance (the window does not straddle its centre, is inverted, or has zero width) and a centre
/// placed relative to the stored value `x`: inside the true window, exactly at the centre (outside an offset
/// window, but inside its mirror image [c-|lo|, c+|hi|]), or on the mirrored side
fn offset_query(rng: &mut Rng, x: f32) -> (f32, Tolerance, &'static str) {
    let ppm = rng.chance(1, 2);
    let a = if ppm { *rng.pick(&[200.0f32, 2000.0, 50000.0]) } else { *rng.pick(&[0.25f32, 1.0, 100.0]) };
    let w = if ppm { *rng.pick(&[100.0f32, 1500.0, 100000.0]) } else { *rng.pick(&[0.5f32, 0.75, 800.0]) };
    let (lo, hi, tag) = match rng.below(7) {
        0 | 1 => (a, a + w, "both-positive"),
        2 | 3 => (neg(a + w), neg(a), "both-negative"),
        4 => (a + w, a, "lo>hi-same-sign"),
        5 => (a, neg(a), "lo>hi-mixed-sign"),
        _ => {
            if rng.chance(1, 2) {
                (a, a, "zero-width-offset")
            } else {
                (neg(a), neg(a), "zero-width-offset")
            }
        }
    };
    // offset (in Da or ppm) of the point of the window we aim at the stored value
    let aim = match rng.below(5) {
        0 => lo,
        1 => hi,
        2 => 0.0,                 // stored value AT the centre
        3 => neg((lo + hi) / 2.0), // stored value on the mirrored side
        _ => (lo + hi) / 2.0,
    };
    let center = if ppm { x / (1.0 + aim / 1.0e6) } else { x - aim };
    let center = if center == 0.0 { 0.0 } else { center };
    let tol = if ppm { Tolerance::Ppm(lo, hi) } else { Tolerance::Da(lo, hi) };
    let full = match (ppm, tag) {
        (true, "both-positive") => "offset:ppm-both-positive",
        (true, "both-negative") => "offset:ppm-both-negative",
        (true, "lo>hi-same-sign") => "offset:ppm-lo>hi",
        (true, "lo>hi-mixed-sign") => "offset:ppm-lo>hi",
        (true, _) => "offset:ppm-zero-width",
        (false, "both-positive") => "offset:da-both-positive",
        (false, "both-negative") => "offset:da-both-negative",
        (false, "lo>hi-same-sign") => "offset:da-lo>hi",
        (false, "lo>hi-mixed-sign") => "offset:da-lo>hi",
        (false, _) => "offset:da-zero-width",
    };
    (center, tol, full)
}

fn gen_query(rng: &mut Rng, dbs: &[IndexedDatabase], tags: &mut QTags) -> Query {
    let db = &dbs[rng.below(dbs.len())];
    let masses: Vec<f32> = db.peptides.iter().map(|p| p.monoisotopic).collect();
    let charge = 1 + rng.below(4) as u8;
    // ---- precursor side
    let everything = Tolerance::Da(-1.0e6, 1.0e6);
    let (pre_mass, pre_tol) = match rng.below(13) {
        10 | 11 | 12 if !masses.is_empty() => {
            let x = *rng.pick(&masses);
            let (c, t, tag) = offset_query(rng, x);
            tags.tags.push("pre:offset-tolerance");
            tags.tags.push(tag);
            (c, t)
        }
        0 => {
            tags.tags.push("pre:everything");
            (1000.0, everything)
        }
        1 => {
            tags.tags.push("pre:empty-outside");
            (*rng.pick(&[1.0f32, 50000.0]), Tolerance::Ppm(-10.0, 10.0))
        }
        2 => {
            tags.tags.push("pre:inverted");
            (masses.first().copied().unwrap_or(500.0), Tolerance::Da(1.0, -1.0))
        }
        3 if dup_mass(&masses).is_some() => {
            // upper (or lower) edge of the precursor window exactly on a mass shared by >= 2 peptides
            tags.tags.push("pre:edge-equals-duplicated-mass");
            let m = dup_mass(&masses).unwrap();
            let ppm = rng.chance(1, 2);
            let w = if ppm { ppm_width(rng) } else { width(rng) };
            let (lo, hi) = match rng.below(4) {
                0 | 1 => (neg(w), 0.0), // hi edge == duplicated mass
                2 => (0.0, 0.0),
                _ => (0.0, w),
            };
            (m, if ppm { Tolerance::Ppm(lo, hi) } else { Tolerance::Da(lo, hi) })
        }
        3 | 4 | 5 if !masses.is_empty() => {
            tags.tags.push("pre:edge-equals-stored-mass");
            (*rng.pick(&masses), edge_tol(rng))
        }
        6 if !masses.is_empty() => {
            tags.tags.push("pre:between");
            let m = *rng.pick(&masses);
            (m + *rng.pick(&[0.25f32, -0.25, 0.001, -0.001]), sym_tol(rng, true))
        }
        _ => {
            tags.tags.push("pre:around-stored-mass");
            (masses.get(rng.below(masses.len().max(1))).copied().unwrap_or(500.0), sym_tol(rng, true))
        }
    };
    // ---- fragment side
    let c = charge as f32;
    let (frag_mz, frag_tol) = match rng.below(13) {
        10 | 11 | 12 if !db.fragments.is_empty() => {
            let x = if rng.chance(1, 3) && !db.min_value.is_empty() { *rng.pick(&db.min_value) } else { rng.pick(&db.fragments).fragment_mz };
            let (m, t, tag) = offset_query(rng, x);
            tags.tags.push("frag:offset-tolerance");
            tags.tags.push(tag);
            (m / c, t)
        }
        0 => {
            tags.tags.push("frag:everything");
            (500.0, Tolerance::Da(-1.0e5, 1.0e5))
        }
        1 => {
            tags.tags.push("frag:empty");
            (*rng.pick(&[0.5f32, 90000.0]), Tolerance::Ppm(-10.0, 10.0))
        }
        2 | 3 | 4 | 5 if !db.min_value.is_empty() => {
            // window edge exactly equal to a bucket's min_value (charge 1: mass = mz exactly; otherwise mz = mv / c)
            tags.tags.push("frag:edge-equals-min_value");
            let mv = *rng.pick(&db.min_value);
            (mv / c, edge_tol(rng))
        }
        6 if !db.fragments.is_empty() => {
            tags.tags.push("frag:edge-equals-stored-fragment");
            let f = rng.pick(&db.fragments).fragment_mz;
            (f / c, edge_tol(rng))
        }
        _ => {
            tags.tags.push("frag:around-stored-fragment");
            let f = if db.fragments.is_empty() { 300.0 } else { rng.pick(&db.fragments).fragment_mz };
            (f / c, sym_tol(rng, false))
        }
    };
    Query { pre_tol, frag_tol, pre_mass, frag_mz, charge }
}

fn sorted_arrays(keys: &[f32], maxlen: usize, emit: &mut dyn FnMut(&[f32])) {
    fn rec(keys: &[f32], from: usize, cur: &mut Vec<f32>, left: usize, emit: &mut dyn FnMut(&[f32])) {
        emit(cur);
        if left == 0 {
            return;
        }
        for k in from..keys.len() {
            cur.push(keys[k]);
            rec(keys, k, cur, left - 1, emit);
            cur.pop();
        }
    }
    rec(keys, 0, &mut Vec::new(), maxlen, emit);
}

fn bss_case(xs: &[f32], lo: f32, hi: f32, tag: &'static str) -> Case {
    let inside = xs.iter().filter(|x| **x >= lo && **x <= hi).count();
    Case::new(bss_request(xs, lo, hi))
        .tag(tag)
        .tag_if(xs.is_empty(), "bss:empty-slice")
        .tag_if(lo > hi, "bss:inverted-bounds")
        .tag_if(inside == 0, "bss:window-empty")
        .tag_if(inside == xs.len() && !xs.is_empty(), "bss:window-everything")
        .tag_if(xs.iter().any(|x| *x == lo || *x == hi), "bss:bound-equals-key")
        .nontrivial(inside > 0 && inside < xs.len())
}

pub fn gen(rng: &mut Rng, tier: Tier, emit: &mut dyn FnMut(Case)) {
    let quick = tier == Tier::Quick;
    // ---------------- bss: exhaustive small scope
    let (nkeys, maxlen) = if quick { (4, 5) } else { (5, 7) };
    let keys: Vec<f32> = (1..=nkeys).map(|k| k as f32).collect();
    let bounds: Vec<f32> = (1..=2 * nkeys + 1).map(|k| k as f32 * 0.5).collect();
    let mut arrays: Vec<Vec<f32>> = Vec::new();
    sorted_arrays(&keys, maxlen, &mut |a| arrays.push(a.to_vec()));
    for a in &arrays {
        for &lo in &bounds {
            for &hi in &bounds {
                emit(bss_case(a, lo, hi, "bss:exhaustive"));
            }
        }
    }
    // ---------------- bss: random, long runs of equal keys
    let n_rand = if quick { 1500 } else { 60000 };
    for i in 0..n_rand {
        let max_n = if !quick && i % 40 == 0 { 3000 } else { 300 };
        let n = match rng.below(8) {
            0 => rng.below(4),
            _ => rng.below(max_n + 1),
        };
        let span = 1 + rng.below(20);
        let base = *rng.pick(&[0.0f32, 100.0, 1000.0]);
        let mut xs: Vec<f32> = (0..n).map(|_| base + 0.5 * rng.below(span) as f32).collect();
        xs.sort_by(|a, b| a.total_cmp(b));
        let pickb = |rng: &mut Rng| -> f32 {
            match rng.below(4) {
                0 if !xs.is_empty() => *rng.pick(&xs),
                1 => base + 0.5 * rng.below(span + 1) as f32 + 0.25,
                2 => base - 1.0 + (span as f32 + 2.0) * rng.below(2) as f32,
                _ => base + 0.5 * rng.range(-2, span as i64 + 2) as f32,
            }
        };
        let a = pickb(rng);
        let b = pickb(rng);
        let (lo, hi) = if rng.chance(9, 10) { (a.min(b), a.max(b)) } else { (a.max(b), a.min(b)) };
        let lo = if lo == 0.0 { 0.0 } else { lo };
        let hi = if hi == 0.0 { 0.0 } else { hi };
        emit(bss_case(&xs, lo, hi, "bss:random"));
    }

    // ---------------- page: database families x queries
    let (n_db, n_q) = if quick { (260, 20) } else { (6600, 30) };
    for i in 0..n_db {
        let max_pep = if quick { 12 } else if i % 11 == 0 { 60 } else { 25 };
        let d = gen_desc(rng, max_pep);
        let peps = peptides_of(&d);
        let nfrag = ions_of(&d, &peps).len();
        let bs = pick_bs(rng, nfrag);
        let dbs: Vec<IndexedDatabase> = bs.iter().map(|b| build(&d, &peps, *b)).collect();
        let mut qt = QTags { tags: vec![] };
        let nq = if i % 7 == 0 { 3 } else { n_q };
        let qs: Vec<Query> = (0..nq).map(|_| gen_query(rng, &dbs, &mut qt)).collect();
        let mut nontrivial = false;
        for q in &qs {
            let r = search(&dbs[0], q).len();
            if r > 0 && r < nfrag {
                nontrivial = true;
            }
        }
        let masses: Vec<u32> = peps.iter().map(|p| p.monoisotopic.to_bits()).collect();
        let mut dm = masses.clone();
        dm.dedup();
        let mut c = Case::new(request("page", &d, &bs, &qs))
            .tag_if(peps.is_empty(), "db:no-peptides")
            .tag_if(peps.len() == 1, "db:one-peptide")
            .tag_if(nfrag == 0, "db:no-fragments")
            .tag_if(dm.len() < masses.len(), "db:duplicate-peptide-masses")
            .tag_if(bs.iter().any(|b| nfrag % b != 0), "db:last-bucket-partial")
            .tag_if(bs.iter().any(|b| *b > nfrag), "db:B>fragments")
            .tag_if(bs.iter().any(|b| *b == 1), "db:B=1")
            .tag_if(qs.iter().any(|q| matches!(q.frag_tol, Tolerance::Ppm(..))), "tol:frag-ppm")
            .tag_if(qs.iter().any(|q| matches!(q.frag_tol, Tolerance::Da(..))), "tol:frag-da")
            .tag_if(qs.iter().any(|q| q.charge > 1), "charge>1")
            .tag_if(nontrivial, "page:some-query-partial")
            .nontrivial(nontrivial);
        qt.tags.sort();
        qt.tags.dedup();
        for t in qt.tags {
            c = c.tag(t);
        }
        emit(c);
    }
    // ---------------- page / dbinv on FASTA-built databases (real digest: mods, decoys, reorder_peptides)
    let (n_fa, n_fa_inv, max_prot, max_plen) = if quick { (60, 10, 4, 50) } else { (500, 60, 6, 80) };
    for i in 0..(n_fa + n_fa_inv) {
        if let Some(d) = gen_fasta_desc(rng, max_prot, max_plen) {
            if i < n_fa {
                emit(fasta_case("page", rng, &d, if quick { 12 } else { 20 }, 400));
            } else {
                emit(fasta_case("dbinv", rng, &d, 0, 200));
            }
        }
    }
    // ---------------- pageseq: sequences of lookups through ONE query object
    let (n_seq, n_seq_fasta) = if quick { (160, 15) } else { (2500, 200) };
    let mut made = 0;
    let mut tries = 0;
    while made < n_seq && tries < 20 * n_seq {
        tries += 1;
        let d = gen_desc(rng, if quick { 12 } else { 25 });
        if let Some(c) = seq_case(rng, &d, quick) {
            emit(c);
            made += 1;
        }
    }
    for _ in 0..n_seq_fasta {
        if let Some(d) = gen_fasta_desc(rng, if quick { 3 } else { 5 }, if quick { 40 } else { 60 }) {
            if let Some(c) = seq_case(rng, &d, quick) {
                emit(c);
            }
        }
    }
    // directed: rejected configurations (panic is the expected output class)
    {
        let d = Desc { sortmode: 0, kinds: 0b010010, min_ion: 0, peps: vec![(500.0, b"PEPTIDE".to_vec())] };
        emit(Case::new(request("page", &d, &[0], &[])).tag("reject:B=0").nontrivial(false));
        let q = Query {
            pre_tol: Tolerance::Da(-1.0, 1.0),
            frag_tol: Tolerance::Pct(-1.0, 1.0),
            pre_mass: 500.0,
            frag_mz: 200.0,
            charge: 1,
        };
        emit(Case::new(request("page", &d, &[4], &[q])).tag("reject:pct-fragment-tolerance").nontrivial(false));
    }
    // ---------------- dbinv: larger layouts, no queries
    let (n_inv, max_pep_inv) = if quick { (40, 300) } else { (150, 800) };
    for _ in 0..n_inv {
        let d = gen_desc(rng, max_pep_inv);
        let peps = peptides_of(&d);
        let nfrag = ions_of(&d, &peps).len();
        // keep the number of buckets of a large layout below ~200 (small B on large layouts is quadratic in the driver)
        let bs: Vec<usize> = pick_bs(rng, nfrag).into_iter().map(|b| b.max(nfrag / 200)).collect();
        emit(Case::new(request("dbinv", &d, &bs, &[]))
            .tag_if(bs.iter().any(|b| nfrag % b != 0), "db:last-bucket-partial")
            .tag_if(bs.iter().any(|b| *b > nfrag), "db:B>fragments")
            .nontrivial(bs.iter().any(|b| nfrag > *b)));
    }
}
