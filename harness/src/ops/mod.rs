//! One module per property. Each provides
//!   `gen(rng, tier, emit)`  – the case generator (request lines + distribution tags)
//!   `exec(op, toks)`        – parse a request line and run the REAL code, returning the reply
//!   `INFO`                  – generator rule text for the evidence file
use crate::proto::{Case, Rng, Tier, Toks};

pub struct Info {
    pub rule: &'static str,
    /// run cases one at a time (ops that manage their own thread pools)
    pub serial: bool,
}

pub mod util;

macro_rules! properties {
    ($($id:literal => $m:ident),* $(,)?) => {
        $(pub mod $m;)*
        pub fn gen(prop: &str, rng: &mut Rng, tier: Tier, emit: &mut dyn FnMut(Case)) -> Option<Info> {
            match prop {
                $($id => { $m::gen(rng, tier, emit); Some($m::INFO) })*
                _ => None,
            }
        }
        pub fn exec(op: &str, t: &mut Toks) -> Option<String> {
            $( if $m::OPS.contains(&op) { return $m::exec(op, t); } )*
            None
        }
    };
}

properties! {
    "C12" => c12,
}
