//! One module per property. Each provides
//!   `gen(rng, tier, emit)`  – the case generator (request lines + distribution tags)
//!   `exec(op, toks)`        – parse a request line and run the REAL code, returning the reply
//!   `INFO`                  – generator rule text for the evidence file
use crate::proto::{Case, Rng, Tier, Toks};

pub struct Info {
    pub rule: &'static str,
    /// run cases one at a time (ops that manage their own thread pools)
    pub serial: bool,
}

pub mod util;

macro_rules! properties {
    ($($id:literal => $m:ident),* $(,)?) => {
        $(pub mod $m;)*
        pub fn gen(prop: &str, rng: &mut Rng, tier: Tier, emit: &mut dyn FnMut(Case)) -> Option<Info> {
            match prop {
                $($id => { $m::gen(rng, tier, emit); Some($m::INFO) })*
                _ => None,
            }
        }
        /// every op name with its owning property (op names must be globally unique)
        pub fn all_ops() -> Vec<(&'static str, &'static str)> {
            let mut v = Vec::new();
            $( for op in $m::OPS { v.push((*op, $id)); } )*
            v
        }
        pub fn exec(op: &str, t: &mut Toks) -> Option<String> {
            $( if $m::OPS.contains(&op) { return $m::exec(op, t); } )*
            None
        }
    };
}

properties! {
    "C01" => c01,
    "C02" => c02,
    "C03" => c03,
    "C04" => c04,
    "C05" => c05,
    "C06" => c06,
    "C07" => c07,
    "C08" => c08,
    "C09" => c09,
    "C10" => c10,
    "C11" => c11,
    "C12" => c12,
    "C13" => c13,
    "C14" => c14,
    "C15" => c15,
    "C16" => c16,
    "C17" => c17,
    "C18" => c18,
    "C19" => c19,
    "C20" => c20,
}
