//! C13 — `fdr::picked_peptide`, `fdr::picked_protein`, `fdr::picked_precursor`
//!
//! DB    := gd(0/1) tag(hex) npep { decoy(0/1) seq(hex) nmod { pos f32 } nterm(opt f32) cterm(opt f32) nprot { name(hex) } }
//! FEATS := nfeat { peptide_idx score(f32) }
//!
//!   pickpep  DB FEATS  ->  passing nfeat { q(f32) }  ntab { score(f32) pep(f32) }  nord { psm-index }      | panic
//!   pickprot DB FEATS  ->  (same)
//!       `ntab…` = the implementation's PEP (Estimator::posterior_error as f32) for every row score: the fitted
//!       estimator is a float pipeline and crosses to the model as data.
//!       `nord…` = iteration order of the competition hash map (one representative PSM index per key); informational
//!       since /repo 1f05eb8 (the sort key is total, the driver no longer uses it).
//!   pickprec n { kind(0 combined/1 charged) peptide_idx charge decoy(0/1) score(f64) }
//!                      ->  passing n { q(f32) }  nord { entry-index }
//!   permpep / permprot DB FEATS nperm { index }   -> passingA n { qA } passingB n { qB }   (B = permuted supply order,
//!                                                     reported back in the original PSM order)
//!   permprec n {…} nperm { index }                -> passingA n { qA } passingB n { qB }
//!   bigpick seed n mix gd pm  -> npsm { passing_pep passing_prot { q_pep }*npsm { q_prot }*npsm } x 3 supply orders
//!       a LARGE table (n entities / target-decoy pairs) that both sides generate from `seed` with the integer
//!       formulas of `big_table` (splitmix64; scores are integers / 32768, exact in f32), so the request stays short
//!       and the driver knows every PSM. Orders: as generated, best-first, shuffled; each order runs in a rayon pool
//!       of a different size (pm rotates 16/4/1). q-values are reported in generation order.
//!   bigprec seed n            -> n { passing { q }*n } x 3 insertion orders
use super::Info;
use crate::proto::{Case, Out, Rng, Tier, Toks};
use fnv::FnvHashMap;
use sage_core::database::{Builder, EnzymeBuilder, IndexedDatabase, PeptideIx};
use sage_core::enzyme::Position;
use sage_core::fasta::Fasta;
use sage_core::fdr::{picked_peptide, picked_precursor, picked_protein, Competition};
use sage_core::lfq::{Peak, PrecursorId};
use sage_core::peptide::Peptide;
use sage_core::scoring::Feature;
use std::sync::Arc;

pub const OPS: &[&str] = &["pickpep", "pickprot", "pickprec", "permpep", "permprot", "permprec", "bigpick", "bigprec"];
pub const INFO: Info = Info {
    rule: "databases: (a) built by Parameters::build from random tiny FASTAs (2-6 proteins assembled from a pool of \
           tryptic peptides so that peptides are shared between proteins; internal decoys, or FASTA-supplied rev_ \
           entries with generate_decoys=false; optional variable M-oxidation, static C / N-terminal mods), then \
           written into the request and rebuilt with Parameters::build_from_peptides; (b) synthetic peptide tables \
           (modified forms, terminal mods, shared protein groups, up to 420 targets). With FASTA-supplied decoys some TARGET \
           entries list decoy-tagged accessions as well (tag at the start or in the middle, sorted lists; from the real \
           builder via tagged FASTA proteins sharing forward peptides, in the synthetic / directed / large tables by \
           construction); decoy entries never list untagged proteins (the builder cannot produce that). PSM lists: 0-80 PSMs (big: up \
           to ~1600), peptides hit many times, target and decoy of a pair both hit, score modes distinct / small grid \
           (ties) / all equal / single class / well separated (passing count > 0). Directed: exactly 99/100/101/150/200 \
           confident targets (q lands on / next to 0.01), a decoy among 250/400 confident targets (decoy row with \
           q <= 0.01), target and its decoy hit with the same score, extreme scores (f32::MIN, +-inf, subnormal), \
           non-canonical tables (duplicate peptide string: the index lookup panics on both sides). Precursor level: \
           0-80 peaks (big: up to 800), Combined/Charged ids, f64 scores that collapse to f32 ties, directed \
           (d+1)/t = 0.05 with t in 19..61. NaN-PEP inputs (single decoy / single target / all scores equal: every q must be 1.0). Directed tie blocks at all three levels (several targets and decoys of different keys at one score). \
           Every pick* case, ties included, is followed by perm* cases (reversed and random supply order, \
           implementation against itself). LARGE tables (bigpick: 20 000 entities with 18 000 target winners in quick; 22 000-50 000 entities / pairs, FASTA-style \
           and internal decoys in thorough; bigprec: 17 000-100 000 MS1 peaks), generated from a seed by integer formulas \
           on both sides, each run in three supply orders (as generated, best-first, shuffled) and three rayon pool \
           sizes (16/4/1), implementation against itself + range / same-entity / antitone / count in O(n log n). \
           non-trivial = at least 2 entities with at least one target and one decoy; distinct by request",
    serial: false,
};

// ------------------------------------------------------------------------------------------ data

#[derive(Clone, Debug)]
struct PepSpec {
    decoy: bool,
    seq: Vec<u8>,
    mods: Vec<(usize, f32)>,
    nterm: Option<f32>,
    cterm: Option<f32>,
    prots: Vec<String>,
}

#[derive(Clone, Debug)]
struct DbSpec {
    gd: bool,
    tag: String,
    peps: Vec<PepSpec>,
}

fn put_db(o: &mut Out, db: &DbSpec) {
    o.b(db.gd).s(&db.tag).n(db.peps.len());
    for p in &db.peps {
        o.b(p.decoy).bytes(&p.seq).n(p.mods.len());
        for &(i, m) in &p.mods {
            o.n(i).f32(m);
        }
        for t in [p.nterm, p.cterm] {
            match t {
                None => {
                    o.n(0);
                }
                Some(x) => {
                    o.n(1).f32(x);
                }
            }
        }
        o.n(p.prots.len());
        for s in &p.prots {
            o.s(s);
        }
    }
}

fn get_db(t: &mut Toks) -> Option<DbSpec> {
    let gd = t.bool()?;
    let tag = t.string()?;
    let peps = t.list(|t| {
        let decoy = t.bool()?;
        let seq = t.bytes()?;
        let mods = t.list(|t| Some((t.usize()?, t.f32()?)))?;
        let nterm = t.opt(|t| t.f32())?;
        let cterm = t.opt(|t| t.f32())?;
        let prots = t.list(|t| t.string())?;
        if mods.iter().any(|&(i, _)| i >= seq.len()) {
            return None;
        }
        Some(PepSpec { decoy, seq, mods, nterm, cterm, prots })
    })?;
    Some(DbSpec { gd, tag, peps })
}

fn put_feats(o: &mut Out, feats: &[(usize, f32)]) {
    o.n(feats.len());
    for &(i, s) in feats {
        o.n(i).f32(s);
    }
}

fn get_feats(t: &mut Toks, npep: usize) -> Option<Vec<(usize, f32)>> {
    let v = t.list(|t| Some((t.usize()?, t.f32()?)))?;
    if v.iter().any(|&(i, _)| i >= npep) {
        return None;
    }
    Some(v)
}

/// the database goes through the public constructor `Parameters::build_from_peptides`
fn build_db(spec: &DbSpec) -> IndexedDatabase {
    let peptides: Vec<Peptide> = spec
        .peps
        .iter()
        .map(|p| {
            let mut modifications = vec![0.0f32; p.seq.len()];
            for &(i, m) in &p.mods {
                modifications[i] = m;
            }
            Peptide {
                decoy: p.decoy,
                sequence: Arc::from(p.seq.clone().into_boxed_slice()),
                modifications,
                nterm: p.nterm,
                cterm: p.cterm,
                monoisotopic: 0.0,
                missed_cleavages: 0,
                semi_enzymatic: false,
                position: Position::Internal,
                proteins: p.prots.iter().map(|s| Arc::from(s.as_str())).collect(),
            }
        })
        .collect();
    let params = Builder {
        fasta: Some(String::new()),
        generate_decoys: Some(spec.gd),
        decoy_tag: Some(spec.tag.clone()),
        bucket_size: Some(8),
        ..Default::default()
    }
    .make_parameters();
    params.build_from_peptides(peptides)
}

fn spec_of_db(db: &IndexedDatabase) -> DbSpec {
    DbSpec {
        gd: db.generate_decoys,
        tag: db.decoy_tag.clone(),
        peps: db
            .peptides
            .iter()
            .map(|p| PepSpec {
                decoy: p.decoy,
                seq: p.sequence.to_vec(),
                mods: p
                    .modifications
                    .iter()
                    .enumerate()
                    .filter(|(_, m)| m.to_bits() != 0)
                    .map(|(i, m)| (i, *m))
                    .collect(),
                nterm: p.nterm,
                cterm: p.cterm,
                prots: p.proteins.iter().map(|s| s.to_string()).collect(),
            })
            .collect(),
    }
}

/// PSMs as a search with `report_psms = 3` would hand them over. Everything except `peptide_idx` and
/// `discriminant_score` is filled with REALISTIC-LOOKING JUNK derived from the position and content of the PSM
/// (so a replayed request gives the same features): consecutive PSMs form spectra of 1-3 candidates, `rank` is
/// the position by score inside the spectrum (so the same peptide is rank 1 in one spectrum and rank 2/3 in
/// another, and some peptides are only ever seen at rank >= 2), `label` follows the database, and psm_id,
/// spec_id, file_id, charge, masses, retention times, hyperscore, spectrum_q, posterior_error and the STALE
/// peptide_q / protein_q (1.0, 0.5 and out-of-range values: a PSM that is not written back breaks `range`,
/// `same_entity` or `antitone`) vary.
/// None of these may influence picked_peptide / picked_protein.
fn features(feats: &[(usize, f32)], spec: &DbSpec) -> Vec<Feature> {
    fn junk(n: usize, i: usize, s: f32, salt: u64) -> u64 {
        let mut z = (n as u64).wrapping_mul(0x9E37_79B9_7F4A_7C15) ^ ((i as u64) << 32) ^ (s.to_bits() as u64);
        z = z.wrapping_add(salt.wrapping_mul(0xD1B5_4A32_D192_ED03));
        z = (z ^ (z >> 30)).wrapping_mul(0xBF58_476D_1CE4_E5B9);
        z = (z ^ (z >> 27)).wrapping_mul(0x94D0_49BB_1331_11EB);
        z ^ (z >> 31)
    }
    const STALE: [f32; 8] = [2.0, 1.0, 0.0, 0.5, -1.0, f32::NAN, 1.0, f32::INFINITY];
    let mut out: Vec<Feature> = Vec::with_capacity(feats.len());
    let mut start = 0usize;
    let mut scan = 0usize;
    while start < feats.len() {
        let size = (1 + junk(start, feats[start].0, feats[start].1, 1) % 3) as usize;
        let end = (start + size).min(feats.len());
        // rank by score within the spectrum (ties: earlier candidate first)
        let mut order: Vec<usize> = (start..end).collect();
        order.sort_by(|&a, &b| feats[b].1.total_cmp(&feats[a].1).then(a.cmp(&b)));
        for n in start..end {
            let (i, s) = feats[n];
            let j = |salt: u64| junk(n, i, s, salt);
            let mut f = super::util::blank_feature();
            f.peptide_idx = PeptideIx(i as u32);
            f.discriminant_score = s;
            f.rank = 1 + order.iter().position(|&k| k == n).unwrap() as u32;
            f.label = if spec.peps.get(i).map(|p| p.decoy).unwrap_or(false) { -1 } else { 1 };
            f.psm_id = (j(2) % 1_000_000) as usize;
            f.spec_id = format!("controllerType=0 controllerNumber=1 scan={}", 1000 + scan);
            f.file_id = (j(3) % 4) as usize;
            f.charge = 1 + (j(4) % 5) as u8;
            f.peptide_len = spec.peps.get(i).map(|p| p.seq.len()).unwrap_or(0);
            f.expmass = 500.0 + (j(5) % 300_000) as f32 / 100.0;
            f.calcmass = f.expmass + ((j(6) % 200) as f32 - 100.0) * 1e-4;
            f.rt = (j(7) % 9000) as f32 / 100.0;
            f.aligned_rt = f.rt / 90.0;
            f.hyperscore = (j(8) % 9000) as f64 / 100.0 - 5.0;
            f.delta_next = (j(9) % 100) as f64 / 10.0;
            f.matched_peaks = (j(10) % 40) as u32;
            f.poisson = -((j(11) % 300) as f64) / 10.0;
            f.posterior_error = -((j(12) % 800) as f32) / 100.0;
            f.spectrum_q = [0.5f32, 0.0001, 1.0, 0.0, f32::NAN][(j(13) % 5) as usize];
            f.peptide_q = STALE[(j(14) % 8) as usize];
            f.protein_q = STALE[(j(15) % 8) as usize];
            f.ms2_intensity = (j(16) % 100_000) as f32;
            out.push(f);
        }
        start = end;
        scan += 1;
    }
    out
}

// ------------------------------------------------------------------------------------------ exec

#[derive(Copy, Clone, PartialEq)]
enum Level {
    Peptide,
    Protein,
}

/// Data the model cannot compute: the PEP of every row score (float pipeline: `Builder::build` is public,
/// `Competition::fit_kde` is not, so the few lines that feed it are repeated here; the model recomputes the
/// competition itself and rejects a table that lacks one of its row scores) and the iteration order of the
/// competition map (same key type, same hasher, same insertion sequence as the function under test).
fn aux(level: Level, db: &IndexedDatabase, feats: &[Feature], o: &mut Out) {
    fn finish<K: Eq + std::hash::Hash, Ix: Default + Send>(
        map: &FnvHashMap<K, Competition<Ix>>,
        first: &FnvHashMap<K, usize>,
        o: &mut Out,
    ) {
        let (scores, decoys): (Vec<f64>, Vec<bool>) = map
            .values()
            .map(|c| (c.forward.max(c.reverse) as f64, c.reverse >= c.forward))
            .unzip();
        let est = sage_core::ml::kde::Builder::default().build(&scores, &decoys);
        let mut tab: Vec<(u32, u32)> = Vec::new();
        for c in map.values() {
            for (ix, s) in [(&c.foward_ix, c.forward), (&c.reverse_ix, c.reverse)] {
                if ix.is_some() && !tab.iter().any(|&(b, _)| b == s.to_bits()) {
                    tab.push((s.to_bits(), (est.posterior_error(s as f64) as f32).to_bits()));
                }
            }
        }
        o.n(tab.len());
        for (s, p) in tab {
            o.n(s).n(p);
        }
        o.n(map.len());
        for k in map.keys() {
            o.n(first[k]);
        }
    }
    match level {
        Level::Peptide => {
            let mut map: FnvHashMap<String, Competition<PeptideIx>> = FnvHashMap::default();
            let mut first: FnvHashMap<String, usize> = FnvHashMap::default();
            for (n, feat) in feats.iter().enumerate() {
                let peptide = &db[feat.peptide_idx];
                let key = match db.generate_decoys && peptide.decoy {
                    true => peptide.reverse().to_string(),
                    false => peptide.to_string(),
                };
                first.entry(key.clone()).or_insert(n);
                let entry = map.entry(key).or_default();
                match peptide.decoy {
                    true => {
                        entry.reverse = entry.reverse.max(feat.discriminant_score);
                        entry.reverse_ix = Some(feat.peptide_idx);
                    }
                    false => {
                        entry.forward = entry.forward.max(feat.discriminant_score);
                        entry.foward_ix = Some(feat.peptide_idx);
                    }
                }
            }
            finish(&map, &first, o);
        }
        Level::Protein => {
            let mut map: FnvHashMap<_, Competition<String>> = FnvHashMap::default();
            let mut first: FnvHashMap<_, usize> = FnvHashMap::default();
            for (n, feat) in feats.iter().enumerate() {
                let decoy = db[feat.peptide_idx].decoy;
                first.entry(&db[feat.peptide_idx].proteins).or_insert(n);
                let entry = map.entry(&db[feat.peptide_idx].proteins).or_default();
                let proteins = db[feat.peptide_idx].proteins(&db.decoy_tag, db.generate_decoys);
                match decoy {
                    true => {
                        entry.reverse = entry.reverse.max(feat.discriminant_score);
                        entry.reverse_ix = Some(proteins);
                    }
                    false => {
                        entry.forward = entry.forward.max(feat.discriminant_score);
                        entry.foward_ix = Some(proteins);
                    }
                }
            }
            finish(&map, &first, o);
        }
    }
}

fn run_level(level: Level, db: &IndexedDatabase, feats: &mut [Feature]) -> (usize, Vec<f32>) {
    match level {
        Level::Peptide => {
            let p = picked_peptide(db, feats);
            (p, feats.iter().map(|f| f.peptide_q).collect())
        }
        Level::Protein => {
            let p = picked_protein(db, feats);
            (p, feats.iter().map(|f| f.protein_q).collect())
        }
    }
}

fn put_result(o: &mut Out, passing: usize, qs: &[f32]) {
    o.n(passing).n(qs.len());
    for &q in qs {
        o.f32(q);
    }
}

fn get_perm(t: &mut Toks, n: usize) -> Option<Vec<usize>> {
    let perm = t.list(|t| t.usize())?;
    let mut seen = vec![false; n];
    if perm.len() != n {
        return None;
    }
    for &i in &perm {
        if i >= n || seen[i] {
            return None;
        }
        seen[i] = true;
    }
    Some(perm)
}

#[derive(Clone, Copy)]
struct PeakSpec {
    charged: bool,
    ix: u32,
    charge: u8,
    decoy: bool,
    score: f64,
}

impl PeakSpec {
    fn key(&self) -> (PrecursorId, bool) {
        let id = if self.charged {
            PrecursorId::Charged((PeptideIx(self.ix), self.charge))
        } else {
            PrecursorId::Combined(PeptideIx(self.ix))
        };
        (id, self.decoy)
    }
}

fn get_peaks(t: &mut Toks) -> Option<Vec<PeakSpec>> {
    let v = t.list(|t| {
        Some(PeakSpec {
            charged: t.bool()?,
            ix: t.usize()? as u32,
            charge: t.usize()? as u8,
            decoy: t.bool()?,
            score: t.f64()?,
        })
    })?;
    // keys are map keys: a request with a repeated key is not a set of peaks
    for i in 0..v.len() {
        for j in 0..i {
            if v[i].key() == v[j].key() {
                return None;
            }
        }
    }
    Some(v)
}

fn put_peaks(o: &mut Out, v: &[PeakSpec]) {
    o.n(v.len());
    for p in v {
        o.b(p.charged).n(p.ix).n(p.charge).b(p.decoy).f64(p.score);
    }
}

/// returns passing, q per entry (request order), hash iteration order (entry indices)
fn run_prec(v: &[PeakSpec], order: &[usize]) -> (usize, Vec<f32>, Vec<usize>) {
    let mut peaks: FnvHashMap<(PrecursorId, bool), (Peak, Vec<f64>)> = FnvHashMap::default();
    for &i in order {
        let p = &v[i];
        peaks.insert(
            p.key(),
            (
                // everything but `score` is junk that must not matter (rt doubles as the entry id here);
                // the stale q_value is out of range, so a peak that is not written back is a `range` violation
                Peak {
                    rt: i,
                    spectral_angle: ((i * 37 + p.ix as usize) % 100) as f64 / 100.0,
                    score: p.score,
                    q_value: [2.0f32, 0.0, -1.0, f32::NAN][(i + p.charge as usize) % 4],
                },
                vec![i as f64; (i % 4) + (p.decoy as usize)],
            ),
        );
    }
    let passing = picked_precursor(&mut peaks);
    let qs = v.iter().map(|p| peaks[&p.key()].0.q_value).collect();
    let ord = peaks.values().map(|(pk, _)| pk.rt).collect();
    (passing, qs, ord)
}

thread_local! {
    /// Small inputs run inside a one-thread rayon pool owned by the calling harness thread: the code under test
    /// issues thousands of tiny parallel reductions per call (`Kde::pdf`), and injecting each of them into the
    /// global pool from outside costs a futex round trip. Inputs with many rows use the global pool.
    static SMALL_POOL: rayon::ThreadPool = rayon::ThreadPoolBuilder::new().num_threads(1).build().expect("pool");
}

pub fn exec(op: &str, t: &mut Toks) -> Option<String> {
    let rest: Vec<&str> = std::iter::from_fn(|| t.tok()).collect();
    let line = rest.join(" ");
    if rest.len() < 6000 && !op.starts_with("big") {
        SMALL_POOL.with(|p| p.install(|| exec_inner(op, &mut Toks::new(&line))))
    } else {
        exec_inner(op, &mut Toks::new(&line))
    }
}

fn exec_inner(op: &str, t: &mut Toks) -> Option<String> {
    let mut o = Out::new();
    match op {
        "bigpick" => return exec_bigpick(t),
        "bigprec" => return exec_bigprec(t),
        "pickpep" | "pickprot" | "permpep" | "permprot" => {
            let level = if op.ends_with("pep") { Level::Peptide } else { Level::Protein };
            let spec = get_db(t)?;
            let fs = get_feats(t, spec.peps.len())?;
            let db = build_db(&spec);
            let mut feats = features(&fs, &spec);
            if op.starts_with("pick") {
                if !t.done() {
                    return None;
                }
                let (passing, qs) = run_level(level, &db, &mut feats);
                put_result(&mut o, passing, &qs);
                aux(level, &db, &feats, &mut o);
            } else {
                let perm = get_perm(t, fs.len())?;
                if !t.done() {
                    return None;
                }
                let (pa, qa) = run_level(level, &db, &mut feats);
                let permuted: Vec<(usize, f32)> = perm.iter().map(|&i| fs[i]).collect();
                let mut feats_b = features(&permuted, &spec);
                let (pb, qb_perm) = run_level(level, &db, &mut feats_b);
                let mut qb = vec![0.0f32; fs.len()];
                for (k, &i) in perm.iter().enumerate() {
                    qb[i] = qb_perm[k];
                }
                put_result(&mut o, pa, &qa);
                put_result(&mut o, pb, &qb);
            }
        }
        "pickprec" => {
            let v = get_peaks(t)?;
            if !t.done() {
                return None;
            }
            let id: Vec<usize> = (0..v.len()).collect();
            let (passing, qs, ord) = run_prec(&v, &id);
            put_result(&mut o, passing, &qs);
            o.n(ord.len());
            for i in ord {
                o.n(i);
            }
        }
        "permprec" => {
            let v = get_peaks(t)?;
            let perm = get_perm(t, v.len())?;
            if !t.done() {
                return None;
            }
            let id: Vec<usize> = (0..v.len()).collect();
            let (pa, qa, _) = run_prec(&v, &id);
            let (pb, qb, _) = run_prec(&v, &perm);
            put_result(&mut o, pa, &qa);
            put_result(&mut o, pb, &qb);
        }
        _ => return None,
    }
    Some(o.finish())
}


// ------------------------------------------------------------------------------------------ large tables

fn mix64(mut z: u64) -> u64 {
    z = (z ^ (z >> 30)).wrapping_mul(0xBF58_476D_1CE4_E5B9);
    z = (z ^ (z >> 27)).wrapping_mul(0x94D0_49BB_1331_11EB);
    z ^ (z >> 31)
}

/// hash of (seed, index, salt): the ONLY source of the large tables; mirrored in lean/SageModel/Drv/C13.lean
fn hsh(seed: u64, i: u64, salt: u64) -> u64 {
    mix64(
        seed.wrapping_add((i + 1).wrapping_mul(0x9E37_79B9_7F4A_7C15))
            .wrapping_add(salt.wrapping_mul(0xD1B5_4A32_D192_ED03)),
    )
}

/// sum of the four 16-bit chunks: bell-shaped in 0..=262140
fn bell(x: u64) -> i64 {
    ((x & 0xFFFF) + ((x >> 16) & 0xFFFF) + ((x >> 32) & 0xFFFF) + ((x >> 48) & 0xFFFF)) as i64
}

const CONF_SHIFT: i64 = 6 * 32768;

fn big_score(m: i64) -> f32 {
    // |m - 131070| < 2^24: the cast and the division by a power of two are exact
    (m - 131070) as f32 / 32768.0
}

/// unique sequences without G / L inside, so that no reversed decoy equals a target
fn big_seq(n: usize) -> Vec<u8> {
    const AA: &[u8] = b"ACDEFHIMNPQSTVWY";
    let mut s = vec![b'A'];
    let mut k = n;
    for _ in 0..4 {
        s.push(AA[k % 16]);
        k /= 16;
    }
    s.extend_from_slice(b"GLK");
    s
}

struct BigPsm {
    pep: usize,
    m: i64,
}

/// (peptide table, PSMs in generation order)
fn big_table(seed: u64, n: usize, mixk: u64, gd: bool) -> (DbSpec, Vec<BigPsm>) {
    let conf_cut = if mixk == 0 { 4 } else { 7 };
    let null_cut = if mixk == 0 { 7 } else { 9 };
    let group = |i: usize| if i > 0 && hsh(seed, i as u64, 3) & 3 == 0 { i - 1 } else { i };
    let mut peps = Vec::new();
    let mut psms = Vec::new();
    let mut extra = |psms: &mut Vec<BigPsm>, pep: usize, i: usize, m: i64| {
        if hsh(seed, i as u64, 4) & 7 == 0 {
            psms.push(BigPsm { pep, m: m - 1 - (hsh(seed, i as u64, 5) % 40000) as i64 });
        }
    };
    for i in 0..n {
        let c = hsh(seed, i as u64, 1) % 10;
        let seq = big_seq(i);
        if !gd {
            // FASTA-style decoys: every entity its own key
            let decoy = c >= null_cut;
            let m = bell(hsh(seed, i as u64, 2)) + if c < conf_cut { CONF_SHIFT } else { 0 };
            let g = group(i);
            // one target group in 256 also lists a decoy-tagged accession (few enough to keep their q-values below the
            // threshold, so that the passing count has to include them) (a function of the group, so that the
            // group string is still determined by (g, decoy flag): the Lean mirror's entity ids are unchanged)
            let prots = if decoy {
                vec![format!("rev_Q{g}")]
            } else {
                match hsh(seed, g as u64, 9) % 512 {
                    0 => vec![format!("Q{g}"), format!("rev_Q{g}")],
                    1 => vec![format!("Q{g}"), format!("sp|rev_Q{g}|X")],
                    _ => vec![format!("Q{g}")],
                }
            };
            peps.push(PepSpec { decoy, seq, mods: vec![], nterm: None, cterm: None, prots });
            psms.push(BigPsm { pep: i, m });
            extra(&mut psms, i, i, m);
        } else {
            // internal decoys: pair i = target 2i and its reversed decoy 2i+1 under one key
            let name = format!("Q{}", group(i));
            let n1 = seq.len() - 1;
            let mut rs = seq.clone();
            rs[1..n1].reverse();
            peps.push(PepSpec { decoy: false, seq, mods: vec![], nterm: None, cterm: None, prots: vec![name.clone()] });
            peps.push(PepSpec { decoy: true, seq: rs, mods: vec![], nterm: None, cterm: None, prots: vec![name] });
            let conf = c < conf_cut + 2;
            if hsh(seed, i as u64, 7) % 10 != 0 {
                let m = bell(hsh(seed, i as u64, 2)) + if conf { CONF_SHIFT } else { 0 };
                psms.push(BigPsm { pep: 2 * i, m });
                extra(&mut psms, 2 * i, i, m);
            }
            if hsh(seed, i as u64, 6) % 10 < 6 {
                psms.push(BigPsm { pep: 2 * i + 1, m: bell(hsh(seed, i as u64, 8)) });
            }
        }
    }
    (DbSpec { gd, tag: "rev_".into(), peps }, psms)
}

fn big_orders(seed: u64, ms: &[i64]) -> [Vec<usize>; 3] {
    let n = ms.len();
    let id: Vec<usize> = (0..n).collect();
    let mut best: Vec<usize> = id.clone();
    best.sort_by(|&a, &b| ms[b].cmp(&ms[a]));
    let mut sh = id.clone();
    Rng::new(seed ^ 0xABCD_EF01).shuffle(&mut sh);
    [id, best, sh]
}

fn in_pool<R: Send>(threads: usize, f: impl FnOnce() -> R + Send) -> R {
    if threads >= 16 {
        f()
    } else {
        rayon::ThreadPoolBuilder::new().num_threads(threads).build().expect("pool").install(f)
    }
}

fn exec_bigpick(t: &mut Toks) -> Option<String> {
    let seed = t.tok()?.parse::<u64>().ok()?;
    let n = t.usize()?;
    let mixk = t.usize()? as u64;
    let gd = t.bool()?;
    let pm = t.usize()?;
    if !t.done() || n > 70000 {
        return None;
    }
    let (spec, psms) = big_table(seed, n, mixk, gd);
    let db = build_db(&spec);
    let ms: Vec<i64> = psms.iter().map(|p| p.m).collect();
    let orders = big_orders(seed, &ms);
    let pools = [16usize, 4, 1];
    let mut o = Out::new();
    o.n(psms.len());
    for (k, ord) in orders.iter().enumerate() {
        let fs: Vec<(usize, f32)> = ord.iter().map(|&i| (psms[i].pep, big_score(psms[i].m))).collect();
        let mut feats = features(&fs, &spec);
        let threads = pools[(k + pm) % 3];
        let (pp, pq) = in_pool(threads, || {
            let a = picked_peptide(&db, &mut feats);
            let b = picked_protein(&db, &mut feats);
            (a, b)
        });
        let mut qpep = vec![0f32; psms.len()];
        let mut qprot = vec![0f32; psms.len()];
        for (pos, &i) in ord.iter().enumerate() {
            qpep[i] = feats[pos].peptide_q;
            qprot[i] = feats[pos].protein_q;
        }
        o.n(pp).n(pq);
        for q in qpep {
            o.f32(q);
        }
        for q in qprot {
            o.f32(q);
        }
    }
    Some(o.finish())
}

fn big_peaks(seed: u64, n: usize) -> Vec<PeakSpec> {
    (0..n)
        .map(|i| {
            let h = hsh(seed, i as u64, 1);
            let charged = h & 1 == 1;
            let decoy = hsh(seed, i as u64, 2) % 10 < 3;
            let m = bell(hsh(seed, i as u64, 3)) + if decoy { 0 } else { 40000 };
            PeakSpec {
                charged,
                ix: i as u32,
                charge: if charged { 1 + ((h >> 1) % 4) as u8 } else { 0 },
                decoy,
                // exact in f64 and in f32 (m < 2^19)
                score: m as f64 / 262144.0,
            }
        })
        .collect()
}

fn exec_bigprec(t: &mut Toks) -> Option<String> {
    let seed = t.tok()?.parse::<u64>().ok()?;
    let n = t.usize()?;
    if !t.done() || n > 200000 {
        return None;
    }
    let v = big_peaks(seed, n);
    let ms: Vec<i64> = v.iter().map(|p| (p.score * 262144.0) as i64).collect();
    let orders = big_orders(seed, &ms);
    let mut o = Out::new();
    o.n(n);
    for ord in orders.iter() {
        let (passing, qs, _) = run_prec(&v, ord);
        o.n(passing);
        for q in qs {
            o.f32(q);
        }
    }
    Some(o.finish())
}

// ------------------------------------------------------------------------------------------ generator

const POOL: &[&str] = &[
    "AAGLLK", "MSDEGR", "PEPTLDEK", "GGWYR", "LLMMNQK", "SAMPLER", "VVVIK", "TTESTK", "DLQNR", "FYWHK", "CCDEEFR",
    "ANKLE", "QQGSSTK", "ILVMAR", "HHPPGK", "EDCBAK",
];

/// a database produced by the real builder from a tiny FASTA
fn real_db(rng: &mut Rng) -> DbSpec {
    let gd = rng.chance(2, 3);
    let nprot = 2 + rng.below(5);
    let mut fasta = String::new();
    let mut rev = String::new();
    for p in 0..nprot {
        let npep = 1 + rng.below(5);
        let mut seq = String::new();
        for _ in 0..npep {
            seq.push_str(*rng.pick(POOL));
        }
        // a tail that is not a full tryptic peptide of the pool
        if rng.chance(1, 3) {
            seq.push_str("GASPV");
        }
        fasta.push_str(&format!(">sp|P{p:03}|X some text\n{seq}\n"));
        if !gd {
            let r: String = seq.chars().rev().collect();
            rev.push_str(&format!(">rev_sp|P{p:03}|X\n{r}\n"));
        }
    }
    let mut chunk_b = String::new();
    if !gd && rng.chance(1, 2) {
        // decoy-tagged proteins (tag at the start / in the middle of the accession) that share forward
        // peptides with the targets, in a SECOND FASTA chunk: the chunked (prefilter) build digests each chunk
        // on its own and merges with reorder_peptides, which turns each shared peptide into one target entry
        // whose sorted protein list names both kinds (inside a single chunk the decoy copy is dropped instead)
        for k in 0..1 + rng.below(2) {
            let mut seq = String::new();
            for _ in 0..1 + rng.below(3) {
                seq.push_str(*rng.pick(POOL));
            }
            if rng.chance(1, 2) {
                chunk_b.push_str(&format!(">rev_sp|S{k:03}|X\n{seq}\n"));
            } else {
                chunk_b.push_str(&format!(">tr|rev_S{k:03}|X\n{seq}\n"));
            }
        }
    }
    let mut vm = std::collections::HashMap::new();
    if rng.chance(1, 3) {
        vm.insert("M".to_string(), vec![15.9949f32]);
    }
    let mut sm = std::collections::HashMap::new();
    if rng.chance(1, 4) {
        sm.insert("C".to_string(), 57.0215f32);
    }
    if rng.chance(1, 6) {
        sm.insert("^".to_string(), 229.16f32);
    }
    let params = Builder {
        fasta: Some(String::new()),
        generate_decoys: Some(gd),
        decoy_tag: Some("rev_".into()),
        bucket_size: Some(8),
        peptide_min_mass: Some(50.0),
        enzyme: Some(EnzymeBuilder {
            missed_cleavages: Some(rng.below(2) as u8),
            min_len: Some(4),
            ..Default::default()
        }),
        variable_mods: Some(vm),
        static_mods: Some(sm),
        ..Default::default()
    }
    .make_parameters();
    let db = if chunk_b.is_empty() {
        fasta.push_str(&rev);
        params.build(Fasta::parse(fasta, "rev_", gd))
    } else {
        chunk_b.push_str(&rev);
        let mut all = params.digest(&Fasta::parse(fasta, "rev_", gd));
        all.extend(params.digest(&Fasta::parse(chunk_b, "rev_", gd)));
        sage_core::database::Parameters::reorder_peptides(&mut all);
        params.build_from_peptides(all)
    };
    spec_of_db(&db)
}

fn synth_seq(n: usize) -> Vec<u8> {
    // distinct, non-palindromic sequences; reverse() keeps first and last residue
    const AA: &[u8] = b"ACDEFGHILMNPQSTVWY";
    let mut s = vec![b'A'];
    let mut k = n;
    for _ in 0..4 {
        s.push(AA[k % AA.len()]);
        k /= AA.len();
    }
    s.extend_from_slice(b"GLK");
    s
}

/// a synthetic table: `nt` targets, each with an internal decoy (gd) or a FASTA-style decoy (!gd)
fn synth_db(rng: &mut Rng, nt: usize, groups: usize, with_mods: bool) -> DbSpec {
    let gd = rng.chance(2, 3);
    let mut peps = Vec::new();
    for i in 0..nt {
        let seq = synth_seq(i);
        let np = 1 + if rng.chance(1, 4) { rng.below(2) } else { 0 };
        let mut prots: Vec<String> = (0..np).map(|_| format!("P{}", rng.below(groups.max(1)))).collect();
        prots.sort();
        prots.dedup();
        let mut mods = Vec::new();
        let (mut nterm, mut cterm) = (None, None);
        if with_mods {
            if rng.chance(1, 3) {
                mods.push((1 + rng.below(seq.len() - 2), *rng.pick(&[15.9949f32, 79.9663, -17.0265])));
            }
            if rng.chance(1, 5) {
                nterm = Some(42.0106);
            }
            if rng.chance(1, 8) {
                cterm = Some(-0.984);
            }
        }
        // FASTA-supplied decoys: a peptide shared between an untagged and a decoy-tagged protein is ONE TARGET
        // entry listing both (group_digests / reorder_peptides: `decoy &= ..`, proteins sorted and deduplicated),
        // tag at the start or in the middle of the accession. A decoy entry never lists an untagged protein.
        let mut tprots = prots.clone();
        if !gd && rng.chance(1, 4) {
            let k = rng.below(groups.max(1));
            tprots.push(if rng.chance(1, 2) { format!("rev_P{k}") } else { format!("sp|rev_P{k}|X") });
            if rng.chance(1, 4) {
                tprots.push(format!("rev_P{}", rng.below(groups.max(1))));
            }
            tprots.sort();
            tprots.dedup();
        }
        let t = PepSpec { decoy: false, seq: seq.clone(), mods: mods.clone(), nterm, cterm, prots: tprots };
        // what Peptide::reverse does
        let n = seq.len() - 1;
        let mut rs = seq.clone();
        rs[1..n].reverse();
        let rmods = mods.iter().map(|&(i, m)| (if i >= 1 && i < n { n - i } else { i }, m)).collect();
        let dprots = if gd { prots.clone() } else { prots.iter().map(|p| format!("rev_{p}")).collect() };
        let d = PepSpec { decoy: true, seq: rs, mods: rmods, nterm, cterm, prots: dprots };
        peps.push(t);
        if !rng.chance(1, 10) {
            peps.push(d);
        }
        // the same sequence in a second modification form (another peptide, another key, same proteins)
        if with_mods && rng.chance(1, 6) {
            peps.push(PepSpec { decoy: false, seq, mods: vec![(2, 0.984)], nterm: None, cterm: None, prots });
        }
    }
    rng.shuffle(&mut peps);
    DbSpec { gd, tag: "rev_".into(), peps }
}

fn f32_grid(rng: &mut Rng) -> f32 {
    (rng.below(9) as f32) * 0.5 - 1.0
}

fn distinct_scores(rng: &mut Rng, n: usize, lo: f64, hi: f64) -> Vec<f32> {
    let mut seen = std::collections::HashSet::new();
    let mut v = Vec::with_capacity(n);
    while v.len() < n {
        let x = (lo + rng.unit() * (hi - lo)) as f32;
        if x != 0.0 && seen.insert(x.to_bits()) {
            v.push(x);
        }
    }
    v
}

#[derive(Copy, Clone, PartialEq, Debug)]
enum Mode {
    Distinct,
    Grid,
    AllEqual,
    Separated,
    OnlyTargets,
    OnlyDecoys,
}

fn gen_feats_raw(rng: &mut Rng, db: &DbSpec, n: usize, mode: Mode) -> Vec<(usize, f32)> {
    let np = db.peps.len();
    if np == 0 {
        return vec![];
    }
    let allowed: Vec<usize> = (0..np)
        .filter(|&i| match mode {
            Mode::OnlyTargets => !db.peps[i].decoy,
            Mode::OnlyDecoys => db.peps[i].decoy,
            _ => true,
        })
        .collect();
    if allowed.is_empty() {
        return vec![];
    }
    // a few favourite peptides are hit many times
    let hot: Vec<usize> = (0..3).map(|_| *rng.pick(&allowed)).collect();
    let ds = distinct_scores(rng, n, -4.0, 9.0);
    (0..n)
        .map(|k| {
            let i = if rng.chance(1, 3) { *rng.pick(&hot) } else { *rng.pick(&allowed) };
            let s = match mode {
                Mode::Distinct | Mode::OnlyTargets | Mode::OnlyDecoys => ds[k],
                Mode::Grid => f32_grid(rng),
                Mode::AllEqual => 1.25,
                Mode::Separated => {
                    if db.peps[i].decoy {
                        (ds[k] - 9.0) * 0.1
                    } else {
                        12.0 + ds[k] * 0.1
                    }
                }
            };
            (i, s)
        })
        .collect()
}

/// PSM list; in the mixed modes both classes are made to win at least three keys each with different
/// scores where the table allows it (a class with fewer than two distinct winning scores has zero variance
/// and the estimator returns NaN for every score: that situation has its own stream, `nan-pep`)
fn gen_feats(rng: &mut Rng, db: &DbSpec, n: usize, mode: Mode) -> Vec<(usize, f32)> {
    let mut feats = gen_feats_raw(rng, db, n, mode);
    if !matches!(mode, Mode::Distinct | Mode::Grid | Mode::Separated) || n < 4 {
        return feats;
    }
    let extra = distinct_scores(rng, 6, 9.5, 11.5);
    let mut k = 0;
    for want_decoy in [false, true] {
        let cands: Vec<usize> = (0..db.peps.len()).filter(|&i| db.peps[i].decoy == want_decoy).collect();
        for _ in 0..3 {
            if cands.is_empty() {
                break;
            }
            let i = *rng.pick(&cands);
            // high scores so that the entity wins its key
            let s = if mode == Mode::Separated && want_decoy { extra[k] - 12.0 } else { extra[k] };
            feats.push((i, s));
            k += 1;
        }
    }
    rng.shuffle(&mut feats);
    feats
}

fn rows_stat(db: &DbSpec, feats: &[(usize, f32)]) -> (usize, bool, bool) {
    let mut ents: Vec<usize> = feats.iter().map(|f| f.0).collect();
    ents.sort();
    ents.dedup();
    let t = ents.iter().any(|&i| !db.peps[i].decoy);
    let d = ents.iter().any(|&i| db.peps[i].decoy);
    (ents.len(), t, d)
}

fn has_ties(feats: &[(usize, f32)]) -> bool {
    let mut s: Vec<u32> = feats.iter().map(|f| f.1.to_bits()).collect();
    s.sort();
    s.windows(2).any(|w| w[0] == w[1])
}

fn emit_pick(
    rng: &mut Rng,
    emit: &mut dyn FnMut(Case),
    db: &DbSpec,
    feats: &[(usize, f32)],
    tags: &[&'static str],
    nperm: usize,
) {
    let (ne, t, d) = rows_stat(db, feats);
    let nt = ne >= 2 && t && d;
    let ties = has_ties(feats);
    for (op, pop) in [("pickpep", "permpep"), ("pickprot", "permprot")] {
        let mut o = Out::new();
        o.raw(op);
        put_db(&mut o, db);
        put_feats(&mut o, feats);
        let mut c = Case::new(o.finish())
            .nontrivial(nt)
            .tag_if(feats.is_empty(), "no-psms")
            .tag_if(ties, "score-ties")
            .tag_if(t && !d, "targets-only")
            .tag_if(d && !t, "decoys-only")
            .tag_if(db.gd, "internal-decoys")
            .tag_if(!db.gd, "fasta-decoys");
        for tg in tags {
            c = c.tag(tg);
        }
        emit(c);
        // metamorphic stream, ties included (since /repo 1f05eb8 equal scores are ordered by a total key)
        if feats.len() >= 2 {
            for k in 0..nperm {
                let mut perm: Vec<usize> = (0..feats.len()).collect();
                if k == 0 {
                    perm.reverse();
                } else {
                    rng.shuffle(&mut perm);
                }
                let mut o = Out::new();
                o.raw(pop);
                put_db(&mut o, db);
                put_feats(&mut o, feats);
                o.n(perm.len());
                for i in perm {
                    o.n(i);
                }
                emit(Case::new(o.finish()).nontrivial(nt).tag("permutation").tag_if(k == 0, "reversed").tag_if(ties, "permutation-with-ties"));
            }
        }
    }
}

fn emit_prec(rng: &mut Rng, emit: &mut dyn FnMut(Case), v: &[PeakSpec], tags: &[&'static str], nperm: usize) {
    let t = v.iter().any(|p| !p.decoy);
    let d = v.iter().any(|p| p.decoy);
    let mut s: Vec<u32> = v.iter().map(|p| (p.score as f32).to_bits()).collect();
    s.sort();
    let ties = s.windows(2).any(|w| w[0] == w[1]);
    let mut o = Out::new();
    o.raw("pickprec");
    put_peaks(&mut o, v);
    let mut c = Case::new(o.finish())
        .nontrivial(v.len() >= 2 && t && d)
        .tag_if(v.is_empty(), "no-peaks")
        .tag_if(ties, "score-ties")
        .tag_if(t && !d, "targets-only")
        .tag_if(d && !t, "decoys-only");
    for tg in tags {
        c = c.tag(tg);
    }
    emit(c);
    if v.len() >= 2 {
        for k in 0..nperm {
            let mut perm: Vec<usize> = (0..v.len()).collect();
            if k == 0 {
                perm.reverse();
            } else {
                rng.shuffle(&mut perm);
            }
            let mut o = Out::new();
            o.raw("permprec");
            put_peaks(&mut o, v);
            o.n(perm.len());
            for i in perm {
                o.n(i);
            }
            emit(Case::new(o.finish()).nontrivial(t && d).tag("permutation").tag_if(k == 0, "reversed").tag_if(ties, "permutation-with-ties"));
        }
    }
}

fn gen_peaks(rng: &mut Rng, n: usize, mode: Mode) -> Vec<PeakSpec> {
    let mut v: Vec<PeakSpec> = Vec::new();
    let mut seen = std::collections::HashSet::new();
    let ds = distinct_scores(rng, n, 0.0, 1.0);
    let mut k = 0;
    while v.len() < n {
        let charged = rng.chance(1, 2);
        let ix = rng.below(n.max(2)) as u32;
        let charge = if charged { 1 + rng.below(4) as u8 } else { 0 };
        let decoy = match mode {
            Mode::OnlyTargets => false,
            Mode::OnlyDecoys => true,
            Mode::Separated => rng.chance(1, 8),
            _ => rng.chance(1, 3),
        };
        if !seen.insert((charged, ix, charge, decoy)) {
            continue;
        }
        let score = match mode {
            Mode::Grid => rng.below(6) as f64 * 0.125,
            Mode::AllEqual => 0.5,
            Mode::Separated => {
                if decoy {
                    ds[k] as f64 * 0.3
                } else {
                    0.5 + ds[k] as f64 * 0.5
                }
            }
            // f64 scores that differ only below f32 precision collapse to ties after `as f32`
            _ => {
                if rng.chance(1, 10) {
                    0.75 + rng.unit() * 1e-12
                } else {
                    ds[k] as f64 + rng.unit() * 1e-9
                }
            }
        };
        k += 1;
        v.push(PeakSpec { charged, ix, charge, decoy, score });
    }
    v
}

pub fn gen(rng: &mut Rng, tier: Tier, emit: &mut dyn FnMut(Case)) {
    let quick = tier == Tier::Quick;
    // single-class / all-equal inputs make every PEP NaN (q = 1 everywhere): keep them, but as a minority
    let modes = [
        Mode::Distinct, Mode::Distinct, Mode::Distinct, Mode::Distinct, Mode::Grid, Mode::Grid, Mode::Separated,
        Mode::Separated, Mode::Separated, Mode::AllEqual, Mode::OnlyTargets, Mode::OnlyDecoys,
    ];

    // edge cases: empty database rows are impossible (a PSM needs a peptide); no PSMs, one PSM, one pair
    {
        let db = synth_db(rng, 2, 2, false);
        emit_pick(rng, emit, &db, &[], &["edge"], 0);
        emit_pick(rng, emit, &db, &[(0, 1.0)], &["edge"], 0);
        let pair: Vec<usize> = (0..db.peps.len()).filter(|&i| db.peps[i].seq[1..] == db.peps[0].seq[1..] || true).take(2).collect();
        let f: Vec<(usize, f32)> = pair.iter().enumerate().map(|(k, &i)| (i, 1.0 + k as f32)).collect();
        emit_pick(rng, emit, &db, &f, &["edge"], 1);
        emit_prec(rng, emit, &[], &["edge"], 0);
    }

    // (a) real databases
    let n_real = if quick { 60 } else { 1500 };
    for _ in 0..n_real {
        let db = real_db(rng);
        for _ in 0..2 {
            let n = rng.below(if quick { 60 } else { 120 });
            let mode = *rng.pick(&modes);
            let feats = gen_feats(rng, &db, n, mode);
            emit_pick(rng, emit, &db, &feats, &["real-db"], if quick { 2 } else { 3 });
        }
    }
    // (b) synthetic tables
    let n_syn = if quick { 80 } else { 2500 };
    for _ in 0..n_syn {
        let nt = 1 + rng.below(12);
        let groups = 1 + rng.below(5);
        let with_mods = rng.chance(1, 2);
        let db = synth_db(rng, nt, groups, with_mods);
        let n = rng.below(if quick { 80 } else { 160 });
        let mode = *rng.pick(&modes);
        let feats = gen_feats(rng, &db, n, mode);
        emit_pick(rng, emit, &db, &feats, &["synthetic-db"], if quick { 2 } else { 3 });
    }
    // (c) big well-separated inputs: passing counts > 0, threshold crossings
    let n_big = if quick { 6 } else { 60 };
    for _ in 0..n_big {
        let nt = 120 + rng.below(if quick { 200 } else { 300 });
        let db = synth_db(rng, nt, nt, false);
        let n = nt * 2 + rng.below(nt * 2);
        let mode = if rng.chance(3, 4) { Mode::Separated } else { Mode::Distinct };
        let feats = gen_feats(rng, &db, n, mode);
        emit_pick(rng, emit, &db, &feats, &["big"], 1);
    }
    // (d) directed: exactly T confident targets far above D weak decoys: q = (1 + sum pep)/T lands on / next to 0.01
    for &t in &[99usize, 100, 101, 150, 200] {
        for &d in &[2usize, 5] {
            let mut peps = Vec::new();
            for i in 0..t + d {
                let seq = synth_seq(i);
                peps.push(PepSpec {
                    decoy: i >= t,
                    seq,
                    mods: vec![],
                    nterm: None,
                    cterm: None,
                    // two of the confident target groups also list a decoy-tagged accession (tag at the start / in the
                    // middle): they stay target groups, pass the threshold with the others and must be counted
                    prots: if i < t && (i == 3 || i == 10) {
                        vec![format!("Q{i}"), if i == 10 { format!("rev_Z{i}") } else { format!("sp|rev_Z{i}|X") }]
                    } else {
                        vec![format!("{}Q{}", if i >= t { "rev_" } else { "" }, i)]
                    },
                });
            }
            let db = DbSpec { gd: false, tag: "rev_".into(), peps };
            let hi = distinct_scores(rng, t, 20.0, 30.0);
            let lo = distinct_scores(rng, d, -30.0, -20.0);
            let mut feats: Vec<(usize, f32)> = (0..t).map(|i| (i, hi[i])).collect();
            feats.extend((0..d).map(|i| (t + i, lo[i])));
            rng.shuffle(&mut feats);
            emit_pick(rng, emit, &db, &feats, &["threshold-boundary"], 1);
        }
    }

    // (e) a decoy scoring in the middle of many confident targets: a decoy row with q <= 0.01 (must not be counted)
    for &t in &[250usize, 400] {
        let mut peps = Vec::new();
        for i in 0..t + 4 {
            peps.push(PepSpec {
                decoy: i >= t,
                seq: synth_seq(i),
                mods: vec![],
                nterm: None,
                cterm: None,
                // two of the confident target groups also list a decoy-tagged accession (tag at the start / in the
                    // middle): they stay target groups, pass the threshold with the others and must be counted
                    prots: if i < t && (i == 3 || i == 10) {
                        vec![format!("Q{i}"), if i == 10 { format!("rev_Z{i}") } else { format!("sp|rev_Z{i}|X") }]
                    } else {
                        vec![format!("{}Q{}", if i >= t { "rev_" } else { "" }, i)]
                    },
            });
        }
        let db = DbSpec { gd: false, tag: "rev_".into(), peps };
        let hi = distinct_scores(rng, t + 1, 20.0, 30.0);
        let lo = distinct_scores(rng, 3, -30.0, -20.0);
        let mut feats: Vec<(usize, f32)> = (0..t + 1).map(|i| (i, hi[i])).collect();
        feats.extend((0..3).map(|i| (t + 1 + i, lo[i])));
        rng.shuffle(&mut feats);
        emit_pick(rng, emit, &db, &feats, &["confident-decoy"], 1);
    }
    // (f) target and decoy of one key hit with the SAME score (forward == reverse inside one entry), other keys distinct
    for _ in 0..(if quick { 10 } else { 200 }) {
        let nt = 3 + rng.below(6);
        let mut db = synth_db(rng, nt, 3, false);
        db.gd = true;
        for p in db.peps.iter_mut() {
            if p.decoy {
                p.prots = p.prots.iter().map(|s| s.trim_start_matches("rev_").to_string()).collect();
            }
        }
        let ds = distinct_scores(rng, db.peps.len(), -3.0, 8.0);
        // score by sequence content so that a target and its reversed decoy get the same score
        let mut feats: Vec<(usize, f32)> = Vec::new();
        for (i, p) in db.peps.iter().enumerate() {
            let mut sorted = p.seq.clone();
            sorted.sort();
            let k = db.peps.iter().position(|q| { let mut s2 = q.seq.clone(); s2.sort(); s2 == sorted }).unwrap();
            feats.push((i, ds[k]));
        }
        rng.shuffle(&mut feats);
        emit_pick(rng, emit, &db, &feats, &["pair-same-score"], 0);
    }
    // (g) extreme scores: f32::MIN (the competition's starting value), -inf, +inf, subnormal, -0.0 is avoided
    for _ in 0..(if quick { 6 } else { 60 }) {
        let db = synth_db(rng, 4, 2, false);
        let ext = [f32::MIN, f32::NEG_INFINITY, f32::MAX, f32::INFINITY, 1e-45, -1e-45, 1.0, -1.0];
        let n = 2 + rng.below(8);
        let feats: Vec<(usize, f32)> = (0..n).map(|_| (rng.below(db.peps.len()), *rng.pick(&ext))).collect();
        let mut o = Out::new();
        o.raw(if rng.chance(1, 2) { "pickpep" } else { "pickprot" });
        put_db(&mut o, &db);
        put_feats(&mut o, &feats);
        emit(Case::new(o.finish()).tag("extreme-scores").nontrivial(false));
    }
    // (h) non-canonical tables (outside the property's quantifier): the same peptide string twice as a target.
    //     `scores[&ix]` then panics for the index that lost its row; the model reproduces that.
    for _ in 0..(if quick { 6 } else { 40 }) {
        let mut db = synth_db(rng, 3, 2, false);
        let dup = db.peps.iter().find(|p| !p.decoy).unwrap().clone();
        db.peps.push(dup);
        let n = 2 + rng.below(10);
        let mut feats = gen_feats(rng, &db, n, Mode::Distinct);
        let first = db.peps.iter().position(|p| !p.decoy).unwrap();
        feats.push((first, 2.5));
        feats.push((db.peps.len() - 1, 3.5));
        rng.shuffle(&mut feats);
        let mut o = Out::new();
        o.raw("pickpep");
        put_db(&mut o, &db);
        put_feats(&mut o, &feats);
        emit(Case::new(o.finish()).tag("noncanonical-db").nontrivial(false));
    }

    // (i) directed tie blocks (the shape of the repaired order-dependence defect): several targets and decoys of
    //     DIFFERENT keys at one score, embedded between distinct higher and lower scores; many supply orders
    for _ in 0..(if quick { 40 } else { 1500 }) {
        let nt = 4 + rng.below(8);
        let groups = 1 + rng.below(4);
        // internal decoys (target and decoy share a key) or FASTA-style decoys (every peptide its own key)
        let db = synth_db(rng, nt, groups, false);
        let np = db.peps.len();
        let ds = distinct_scores(rng, np, -2.0, 6.0);
        let tie_a = 1.0f32;
        let tie_b = 2.5f32;
        let feats: Vec<(usize, f32)> = (0..np)
            .map(|i| {
                let r = rng.below(10);
                (i, if r < 5 { tie_a } else if r < 7 { tie_b } else { ds[i] })
            })
            .collect();
        emit_pick(rng, emit, &db, &feats, &["tie-block"], if quick { 3 } else { 5 });
    }
    for _ in 0..(if quick { 60 } else { 3000 }) {
        // precursor: 3-12 peaks, at most three distinct scores, both id kinds, same peptide index under both flags
        let n = 3 + rng.below(10);
        let mut v: Vec<PeakSpec> = Vec::new();
        let mut seen = std::collections::HashSet::new();
        while v.len() < n {
            let charged = rng.chance(1, 2);
            let ix = rng.below(6) as u32;
            let charge = if charged { 1 + rng.below(3) as u8 } else { 0 };
            let decoy = rng.chance(2, 5);
            if !seen.insert((charged, ix, charge, decoy)) {
                continue;
            }
            let score = *rng.pick(&[0.5f64, 0.5, 0.5, 0.25, 0.75]);
            v.push(PeakSpec { charged, ix, charge, decoy, score });
        }
        emit_prec(rng, emit, &v, &["tie-block"], if quick { 3 } else { 5 });
    }

    // (j) NaN posterior errors (C14's known finding: a class with zero score variance gives bandwidth 0):
    //     a single decoy among targets, a single target among decoys, one class only, all scores equal.
    //     Theorem nan_all: every q = 1.0, passing = 0.
    for k in 0..(if quick { 12 } else { 200 }) {
        let nt = 3 + rng.below(6);
        let db = synth_db(rng, nt, 3, false);
        let tg: Vec<usize> = (0..db.peps.len()).filter(|&i| !db.peps[i].decoy).collect();
        let dc: Vec<usize> = (0..db.peps.len()).filter(|&i| db.peps[i].decoy).collect();
        if dc.is_empty() {
            continue;
        }
        let ds = distinct_scores(rng, tg.len() + dc.len(), -2.0, 8.0);
        let feats: Vec<(usize, f32)> = match k % 3 {
            0 => tg.iter().enumerate().map(|(j, &i)| (i, ds[j])).chain(std::iter::once((dc[0], 0.5))).collect(),
            1 => dc.iter().enumerate().map(|(j, &i)| (i, ds[j])).chain(std::iter::once((tg[0], 0.5))).collect(),
            _ => tg.iter().chain(dc.iter()).map(|&i| (i, 2.0)).collect(),
        };
        emit_pick(rng, emit, &db, &feats, &["nan-pep"], 1);
    }

    // (k) LARGE tables (>= 16384 winners of one class), the same PSM set in three supply orders and three pool
    //     sizes: implementation against itself + the cheap invariants (the Lean model is not run at this size)
    {
        let s0 = rng.next() % 1_000_000;
        let big: Vec<(usize, u64, bool, usize)> = if quick {
            vec![(20000, 1, false, 0)]
        } else {
            vec![
                (50000, 0, false, 0),
                (22000, 1, false, 1),
                (40000, 1, false, 2),
                (24000, 0, true, 0),
                (36000, 1, true, 1),
                (30000, 0, false, 2),
            ]
        };
        for (k, (n, mixk, gd, pm)) in big.into_iter().enumerate() {
            let mut o = Out::new();
            o.raw("bigpick").n(s0 + k as u64).n(n).n(mixk).b(gd).n(pm);
            emit(Case::new(o.finish()).tag("large-table").tag("permutation").tag_if(gd, "internal-decoys").tag_if(!gd, "fasta-decoys"));
        }
        for (k, n) in (if quick { vec![20000usize] } else { vec![17000, 40000, 100000] }).into_iter().enumerate() {
            let mut o = Out::new();
            o.raw("bigprec").n(s0 + 100 + k as u64).n(n);
            emit(Case::new(o.finish()).tag("large-table").tag("permutation"));
        }
        // a small one through the same code path (control)
        let mut o = Out::new();
        o.raw("bigpick").n(s0 + 50).n(600).n(0).b(false).n(0);
        emit(Case::new(o.finish()).tag("large-table-control"));
    }

    // precursor level
    let n_prec = if quick { 300 } else { 20000 };
    for _ in 0..n_prec {
        let n = rng.below(if quick { 40 } else { 80 });
        let mode = *rng.pick(&modes);
        let v = gen_peaks(rng, n, mode);
        emit_prec(rng, emit, &v, &["random"], if quick { 2 } else { 3 });
    }
    for _ in 0..(if quick { 4 } else { 40 }) {
        let n = 200 + rng.below(600);
        let v = gen_peaks(rng, n, Mode::Separated);
        emit_prec(rng, emit, &v, &["big"], 1);
    }
    // directed: (d+1)/t = 0.05 exactly and its neighbours
    for &t in &[19usize, 20, 21, 39, 40, 41, 59, 60, 61] {
        for d in 0..3usize {
            let mut v = Vec::new();
            let st = distinct_scores(rng, t, 0.6, 1.0);
            let sd = distinct_scores(rng, d + 1, 0.0, 0.3);
            for i in 0..t {
                v.push(PeakSpec { charged: true, ix: i as u32, charge: 2, decoy: false, score: st[i] as f64 });
            }
            for i in 0..d {
                // d decoys scoring above all targets, one trailing decoy below
                v.push(PeakSpec { charged: true, ix: i as u32, charge: 2, decoy: true, score: 2.0 + sd[i] as f64 });
            }
            v.push(PeakSpec { charged: false, ix: 0, charge: 0, decoy: true, score: sd[d] as f64 });
            rng.shuffle(&mut v);
            emit_prec(rng, emit, &v, &["threshold-boundary"], 1);
        }
    }
}
