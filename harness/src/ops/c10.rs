//! C10 — `SpectrumProcessor::process` and `spectrum::deisotope`
//!   process max deiso u32(minmz) level centroid charge? [n (u32 mz, u32 int)…] -> [k (u32 mass, u32 int)…] u32(tic) | panic
//!   deiso   maxz u32(ppm) u32(minmz) [n (u32 mz, u32 int)…]                    -> [n (u32 mz, u32 int, z?, env?)…]
//! (`x?` is `0` or `1 x`; floats are bit patterns.)
use super::Info;
use crate::proto::{Case, Out, Rng, Tier, Toks};
use sage_core::mass::NEUTRON;
use sage_core::spectrum::{deisotope, Precursor, RawSpectrum, Representation, SpectrumProcessor};

pub const OPS: &[&str] = &["process", "deiso"];
pub const INFO: Info = Info {
    rule: "process: (a) every intensity vector over {1,2,3} of length <= L (quick 4, thorough 7) on a fixed m/z grid x every \
           max_peaks 0..=L+1, deisotope off (ties everywhere); (b) random spectra, n in 0..60 (sometimes up to 400 / 2000), \
           intensities from a small set (ties) or continuous, duplicate m/z, shuffled or ascending m/z, max_peaks in \
           {0,1,2,n-1,n,n+1,150,...}, level in {1,2,3}, profile flag, precursor charge none/0..6; (c) isotope-cluster spectra \
           (clusters of 2-6 peaks at charge 1-4, spacing NEUTRON/z with ppm jitter at 0, +-5, +-9.9, +-10.1, +-20 ppm, decreasing / \
           equal / increasing intensities, overlapping clusters, noise peaks) with deisotope on/off and min_deisotope_mz \
           0 / below / on a cluster member / inside / above the cluster; (d) directed: empty, one peak, index-0 parent (the \
           `j == 0` break), equal-key entries with different charge (unstable-sort tie).  deiso: the cluster spectra of (c) \
           with max_charge in 0..6, ppm in {0,5,10,20}, the same min_mz placements, plus a few unsorted arrays. \
           non-trivial = at least 2 peaks (process) / at least one cluster (deiso); distinct by request line",
    serial: false,
};

#[derive(Clone)]
struct Spec {
    k: usize,
    deiso: bool,
    min_mz: f32,
    level: u8,
    centroid: bool,
    charge: Option<u8>,
    peaks: Vec<(f32, f32)>,
}

fn req_process(s: &Spec) -> String {
    let mut o = Out::new();
    o.raw("process").n(s.k).b(s.deiso).f32(s.min_mz).n(s.level).b(s.centroid);
    match s.charge {
        None => {
            o.n(0);
        }
        Some(z) => {
            o.n(1).n(z);
        }
    }
    o.n(s.peaks.len());
    for &(m, i) in &s.peaks {
        o.f32(m).f32(i);
    }
    o.finish()
}

fn req_deiso(maxz: u8, ppm: f32, min_mz: f32, peaks: &[(f32, f32)]) -> String {
    let mut o = Out::new();
    o.raw("deiso").n(maxz).f32(ppm).f32(min_mz).n(peaks.len());
    for &(m, i) in peaks {
        o.f32(m).f32(i);
    }
    o.finish()
}

const JITTER_PPM: &[f32] = &[0.0, 0.0, 0.0, 2.0, -2.0, 5.0, -5.0, 9.9, -9.9, 10.1, -10.1, 20.0, -20.0];
const SMALL_INT: &[f32] = &[0.0, 1.0, 1.0, 2.0, 2.0, 3.0, 5.0, 10.0, 100.0];

/// a spectrum made of isotope clusters + noise, ascending m/z; returns (peaks, m/z of cluster members)
fn cluster_spectrum(rng: &mut Rng, big: bool) -> (Vec<(f32, f32)>, Vec<f32>) {
    let mut peaks: Vec<(f32, f32)> = Vec::new();
    let mut members = Vec::new();
    let nclusters = 1 + rng.below(if big { 12 } else { 3 });
    let mut base = 100.0f32 + (rng.below(4000) as f32) * 0.1;
    for _ in 0..nclusters {
        let z = 1 + rng.below(4) as u32;
        let len = 2 + rng.below(5);
        let iso = NEUTRON / z as f32;
        let shape = rng.below(7);
        let mut int = if rng.chance(1, 2) { *rng.pick(&[10.0f32, 100.0, 1000.0]) } else { 1.0 + (rng.unit() as f32) * 1000.0 };
        let mut mz = base;
        for m in 0..len {
            if m > 0 {
                // spacing relative to the previous member, off by a chosen number of ppm of the new m/z
                let ideal = mz + iso;
                mz = ideal + ideal * *rng.pick(JITTER_PPM) / 1_000_000.0;
            }
            peaks.push((mz, int));
            members.push(mz);
            int = match shape {
                0..=3 => int * 0.5,                        // decreasing
                4 => int,                                  // equal (never an isotope: needs strictly less)
                5 => int * 1.5,                            // increasing
                _ => if rng.chance(1, 2) { int * 0.5 } else { int * 2.0 },
            };
        }
        // next cluster: overlapping (inside this one), adjacent, or far
        base = match rng.below(4) {
            0 => base + iso * 0.5,
            1 => base + NEUTRON / (1 + rng.below(3)) as f32,
            _ => base + 3.0 + (rng.below(3000) as f32) * 0.1,
        };
    }
    let noise = rng.below(if big { 60 } else { 6 });
    for _ in 0..noise {
        let mz = 60.0 + (rng.unit() as f32) * 1500.0;
        let int = if rng.chance(1, 2) { *rng.pick(SMALL_INT) } else { (rng.unit() as f32) * 500.0 };
        peaks.push((mz, int));
    }
    if rng.chance(1, 6) && !peaks.is_empty() {
        // duplicate m/z
        let p = *rng.pick(&peaks);
        peaks.push((p.0, *rng.pick(SMALL_INT)));
    }
    peaks.sort_by(|a, b| a.0.total_cmp(&b.0));
    (peaks, members)
}

fn pick_min_mz(rng: &mut Rng, peaks: &[(f32, f32)], members: &[f32]) -> (f32, &'static str) {
    let lo = peaks.first().map(|p| p.0).unwrap_or(100.0);
    let hi = peaks.last().map(|p| p.0).unwrap_or(100.0);
    match rng.below(9) {
        0 | 1 => (0.0, "minmz-zero"),
        2 => (lo - 1.0, "minmz-below"),
        3 | 4 if !members.is_empty() => (*rng.pick(members), "minmz-on-member"),
        5 if !members.is_empty() => {
            let m = *rng.pick(members);
            (f32::from_bits(m.to_bits() + 1), "minmz-just-above-member")
        }
        6 => (hi + 1.0, "minmz-above"),
        _ => (lo + (hi - lo) * (rng.unit() as f32), "minmz-inside"),
    }
}

fn random_peaks(rng: &mut Rng, n: usize) -> Vec<(f32, f32)> {
    let ties = rng.chance(1, 2);
    let grid = rng.chance(1, 3);
    let mut v: Vec<(f32, f32)> = (0..n)
        .map(|_| {
            let mz = if grid { 100.0 + rng.below(12) as f32 * 50.0 } else { 50.0 + (rng.unit() as f32) * 1950.0 };
            let int = if ties { *rng.pick(SMALL_INT) } else { (rng.unit() as f32) * 10000.0 };
            (mz, int)
        })
        .collect();
    if !rng.chance(1, 4) {
        v.sort_by(|a, b| a.0.total_cmp(&b.0));
    }
    v
}

fn pick_k(rng: &mut Rng, n: usize) -> usize {
    match rng.below(9) {
        0 => 0,
        1 => 1,
        2 => 2,
        3 => n.saturating_sub(1),
        4 => n,
        5 => n + 1,
        6 => 150,
        7 => n / 2,
        _ => rng.below(n + 2),
    }
}

fn emit_process(emit: &mut dyn FnMut(Case), s: &Spec, tag: &'static str, extra: Option<&'static str>) {
    let n = s.peaks.len();
    let mut ints: Vec<u32> = s.peaks.iter().map(|p| p.1.to_bits()).collect();
    ints.sort();
    let has_ties = ints.windows(2).any(|w| w[0] == w[1]);
    let mut c = Case::new(req_process(s))
        .tag(tag)
        .tag_if(n == 0, "empty")
        .tag_if(n == 1, "one-peak")
        .tag_if(has_ties, "intensity-ties")
        .tag_if(s.k == 0, "k=0")
        .tag_if(n < s.k, "n<k")
        .tag_if(n == s.k, "n=k")
        .tag_if(n > s.k, "n>k")
        .tag_if(s.level == 2 && s.deiso, "ms2-deisotope")
        .tag_if(s.level == 2 && !s.deiso, "ms2-plain")
        .tag_if(s.level != 2, "ms1-or-ms3")
        .tag_if(!s.centroid, "profile")
        .tag_if(s.charge.is_none(), "charge-none")
        .nontrivial(n >= 2);
    if let Some(e) = extra {
        c = c.tag(e);
    }
    emit(c);
}

pub fn gen(rng: &mut Rng, tier: Tier, emit: &mut dyn FnMut(Case)) {
    let quick = tier == Tier::Quick;
    let base = Spec { k: 0, deiso: false, min_mz: 0.0, level: 2, centroid: true, charge: Some(2), peaks: vec![] };

    // (d) directed
    for &deiso in &[false, true] {
        for &level in &[1u8, 2] {
            for k in 0..3 {
                // empty, one peak
                emit_process(emit, &Spec { k, deiso, level, ..base.clone() }, "directed", None);
                emit_process(emit, &Spec { k, deiso, level, peaks: vec![(500.0, 7.0)], ..base.clone() }, "directed", None);
            }
        }
    }
    // profile data: MS2 panics, MS1 does not
    for &level in &[1u8, 2, 3] {
        emit_process(emit, &Spec { k: 5, level, centroid: false, peaks: vec![(300.0, 1.0), (400.0, 2.0)], ..base.clone() }, "directed", None);
    }
    // index-0 parent: the `j == 0` break means peak 0 is only ever examined for i <= 1
    {
        let iso = NEUTRON;
        let p = vec![(500.0f32, 100.0f32), (500.0 + iso, 50.0), (500.0 + 2.0 * iso, 25.0)];
        for k in [0usize, 1, 2, 3, 10] {
            emit_process(emit, &Spec { k, deiso: true, peaks: p.clone(), ..base.clone() }, "directed", Some("index0-parent"));
        }
        emit(Case::new(req_deiso(2, 10.0, 0.0, &p)).tag("directed").tag("index0-parent"));
        // unstable-sort tie: A (idx 0, int 15, never merged into), A' (idx 1, 10 + 5 merged, z = 2), B isotope of A'
        let iso2 = NEUTRON / 2.0;
        let t = vec![(500.0f32, 15.0f32), (500.0, 10.0), (500.0 + iso2, 5.0)];
        for k in [1usize, 2, 3] {
            emit_process(emit, &Spec { k, deiso: true, charge: Some(2), peaks: t.clone(), ..base.clone() }, "directed", Some("unstable-tie"));
        }
        emit(Case::new(req_deiso(2, 10.0, 0.0, &t)).tag("directed").tag("unstable-tie"));
    }

    // tolerance / intensity boundaries of the isotope test, charge 1..3, through both ops
    for z in 1..=3u32 {
        for &basemz in &[200.0f32, 500.0, 1200.0] {
            let iso = NEUTRON / z as f32;
            let hi = basemz + iso;
            let tol = 10.0f32 * hi / 1_000_000.0;
            for &off in &[0.0f32, 1.0, -1.0] {
                for ulps in [-2i32, -1, 0, 1, 2] {
                    let target = hi + off * tol;
                    let mz2 = f32::from_bits((target.to_bits() as i32 + ulps) as u32);
                    for &(i1, i2) in &[(100.0f32, 50.0f32), (100.0, 100.0), (100.0, f32::from_bits(100.0f32.to_bits() - 1)), (50.0, 100.0)] {
                        let p = vec![(basemz - 50.0, 1.0), (basemz, i1), (mz2, i2)];
                        emit(Case::new(req_deiso(3, 10.0, 0.0, &p)).tag("directed").tag("tolerance-boundary"));
                        if ulps == 0 {
                            emit_process(emit, &Spec { k: 2, deiso: true, charge: Some(3), peaks: p, ..base.clone() }, "directed", Some("tolerance-boundary"));
                        }
                    }
                }
            }
        }
    }

    // (a) small scope, ties everywhere
    let l_max = if quick { 4 } else { 7 };
    for len in 0..=l_max {
        let total = 3usize.pow(len as u32);
        for code in 0..total {
            let mut c = code;
            let peaks: Vec<(f32, f32)> = (0..len)
                .map(|i| {
                    let v = (c % 3) as f32 + 1.0;
                    c /= 3;
                    // m/z grid with one duplicated position so that (intensity, mass) ties occur too
                    let mz = [100.0f32, 200.0, 200.0, 300.0, 150.0, 400.0, 120.0][i];
                    (mz, v)
                })
                .collect();
            for k in 0..=(len + 1) {
                emit_process(emit, &Spec { k, peaks: peaks.clone(), ..base.clone() }, "small-scope", None);
            }
        }
    }

    // (b) random spectra
    let nrand = if quick { 700 } else { 100000 };
    for _ in 0..nrand {
        let n = match rng.below(20) {
            0 => 0,
            1 => 1,
            2 => 61 + rng.below(if quick { 340 } else { 1940 }),
            _ => rng.below(61),
        };
        let peaks = random_peaks(rng, n);
        let k = pick_k(rng, n);
        let level = *rng.pick(&[2u8, 2, 2, 2, 1, 3]);
        let deiso = rng.chance(1, 3);
        let charge = if rng.chance(1, 4) { None } else { Some(rng.below(7) as u8) };
        let centroid = !rng.chance(1, 25);
        let min_mz = *rng.pick(&[0.0f32, 150.0, 500.0, 3000.0]);
        emit_process(emit, &Spec { k, deiso, min_mz, level, centroid, charge, peaks }, "random", None);
    }

    // (c) isotope clusters, through both ops
    let nclu = if quick { 900 } else { 200000 };
    for it in 0..nclu {
        let big = it % 10 == 0;
        let (mut peaks, members) = cluster_spectrum(rng, big);
        let (min_mz, mtag) = pick_min_mz(rng, &peaks, &members);
        let unsorted = rng.chance(1, 20);
        if unsorted {
            rng.shuffle(&mut peaks);
        }
        let n = peaks.len();
        if it % 2 == 0 {
            let k = pick_k(rng, n);
            let deiso = !rng.chance(1, 5);
            let charge = if rng.chance(1, 4) { None } else { Some(rng.below(6) as u8) };
            let level = if rng.chance(1, 10) { 1 } else { 2 };
            emit_process(
                emit,
                &Spec { k, deiso, min_mz, level, centroid: true, charge, peaks },
                "clusters",
                Some(if unsorted { "unsorted-mz" } else { mtag }),
            );
        } else {
            let maxz = *rng.pick(&[0u8, 1, 2, 2, 3, 3, 3, 4, 4, 6]);
            let ppm = *rng.pick(&[10.0f32, 10.0, 10.0, 10.0, 10.0, 5.0, 20.0, 0.0]);
            emit(
                Case::new(req_deiso(maxz, ppm, min_mz, &peaks))
                    .tag("clusters")
                    .tag(if unsorted { "unsorted-mz" } else { mtag })
                    .tag_if(maxz == 0, "maxz=0")
                    .nontrivial(maxz > 0),
            );
        }
    }
}

pub fn exec(op: &str, t: &mut Toks) -> Option<String> {
    match op {
        "process" => {
            let k = t.usize()?;
            let deiso = t.bool()?;
            let min_mz = t.f32()?;
            let level = t.usize()? as u8;
            let centroid = t.bool()?;
            let charge = t.opt(|t| t.usize())?.map(|z| z as u8);
            let peaks = t.list(|t| Some((t.f32()?, t.f32()?)))?;
            if !t.done() {
                return None;
            }
            let mut raw = RawSpectrum::default_with_file_id(0);
            raw.ms_level = level;
            raw.id = "s".into();
            raw.representation = if centroid { Representation::Centroid } else { Representation::Profile };
            raw.precursors = vec![Precursor { mz: 600.0, charge, ..Default::default() }];
            raw.mz = peaks.iter().map(|p| p.0).collect();
            raw.intensity = peaks.iter().map(|p| p.1).collect();
            let sp = SpectrumProcessor::new(k, deiso, min_mz);
            let out = sp.process(raw);
            let mut o = Out::new();
            o.n(out.peaks.len());
            for p in &out.peaks {
                o.f32(p.mass).f32(p.intensity);
            }
            o.f32(out.total_ion_current);
            Some(o.finish())
        }
        "deiso" => {
            let maxz = t.usize()? as u8;
            let ppm = t.f32()?;
            let min_mz = t.f32()?;
            let peaks = t.list(|t| Some((t.f32()?, t.f32()?)))?;
            if !t.done() {
                return None;
            }
            let mz: Vec<f32> = peaks.iter().map(|p| p.0).collect();
            let int: Vec<f32> = peaks.iter().map(|p| p.1).collect();
            let d = deisotope(&mz, &int, maxz, ppm, min_mz);
            let mut o = Out::new();
            o.n(d.len());
            for p in &d {
                o.f32(p.mz).f32(p.intensity);
                match p.charge {
                    None => {
                        o.n(0);
                    }
                    Some(z) => {
                        o.n(1).n(z);
                    }
                }
                match p.envelope {
                    None => {
                        o.n(0);
                    }
                    Some(e) => {
                        o.n(1).n(e);
                    }
                }
            }
            Some(o.finish())
        }
        _ => None,
    }
}
