//! C10 — `SpectrumProcessor::process` and `spectrum::deisotope`
//!   process max deiso u32(minmz) level centroid charge? [n (u32 mz, u32 int)…] -> [k (u32 mass, u32 int)…] u32(tic) | panic
//!   deiso   maxz u32(ppm) u32(minmz) [n (u32 mz, u32 int)…]                    -> [n (u32 mz, u32 int, z?, env?)…]
//!   procfull max deiso u32(minmz) <raw> -> level h:id file_id u32(sst) u32(iit) [np precursor…] [k (mass int)…] u32(tic) | panic
//!   procims  max deiso u32(minmz) <raw> -> level h:id file_id u32(sst) u32(iit) [np precursor…] [k (mass int mob)…] u32(tic) | panic
//!     <raw>      = file_id level h:id centroid u32(sst) u32(iit) u32(raw_tic) [np precursor…] [n (mz int)…] mob?
//!     precursor  = u32(mz) int? charge? ref? win? iim?     win = kind(0 ppm, 1 pct, 2 da) u32 u32     mob? = 0 | 1 [m u32…]
//! (`x?` is `0` or `1 x`; floats are bit patterns.)
use super::Info;
use crate::proto::{Case, Out, Rng, Tier, Toks};
use sage_core::mass::{Tolerance, NEUTRON};
use sage_core::spectrum::{deisotope, Precursor, RawSpectrum, Representation, SpectrumProcessor};

pub const OPS: &[&str] = &["process", "deiso", "procfull", "procims"];
pub const INFO: Info = Info {
    rule: "process: (a) every intensity vector over {1,2,3} of length <= L (quick 4, thorough 7) on a fixed m/z grid x every \
           max_peaks 0..=L+1, deisotope off (ties everywhere); (b) random spectra, n in 0..60 (sometimes up to 400 / 2000), \
           intensities from a small set (ties) or continuous, duplicate m/z, shuffled or ascending m/z, max_peaks in \
           {0,1,2,n-1,n,n+1,150,...}, level in {1,2,3}, profile flag, precursor charge none/0..6; (c) isotope-cluster spectra \
           (clusters of 2-6 peaks at charge 1-4, spacing NEUTRON/z with ppm jitter at 0, +-5, +-9.9, +-10.1, +-20 ppm, decreasing / \
           equal / increasing intensities, overlapping clusters, noise peaks) with deisotope on/off and min_deisotope_mz \
           0 / below / on a cluster member / inside / above the cluster; (d) directed: empty, one peak, index-0 parent (the \
           `j == 0` break), equal-key entries with different charge (unstable-sort tie).  deiso: the cluster spectra of (c) \
           with max_charge in 0..6, ppm in {0,5,10,20}, the same min_mz placements, plus a few unsorted arrays. \
           (e) directed single-line-change cases: exact equality in both `<=` tests (ppm 0, representable x + NEUTRON/z), \
           tie-break of the deisotope sort, charge-loop bound x precursor charge none/0..5 x max_charge 0..5 x ppm 5/10, heap \
           shapes n = k+1..k+3 for k 1..8; (f) non-finite stream (quick too): NaN (canonical quiet), +-inf, -0.0, negative, \
           subnormal, MAX in m/z and/or intensity, min_mz, ppm, through procfull / deiso / procims; (g) process_with_mobility: \
           mobility array same / shorter / longer / missing, wrong level.  procfull carries every RawSpectrum field (id, file_id, \
           times, parser TIC, 0-3 precursors with intensity / charge / spectrum_ref / isolation window / ion mobility) and the \
           reply every ProcessedSpectrum field. \
           non-trivial = at least 2 peaks (process) / at least one cluster (deiso); distinct by request line",
    serial: false,
};

#[derive(Clone)]
struct Spec {
    k: usize,
    deiso: bool,
    min_mz: f32,
    level: u8,
    centroid: bool,
    charge: Option<u8>,
    peaks: Vec<(f32, f32)>,
    /// seed of the pass-through fields (id, file_id, times, raw TIC, extra precursors, precursor details)
    meta: u64,
    /// `RawSpectrum::mobility`
    mobility: Option<Vec<f32>>,
}

fn opt_f32(o: &mut Out, x: Option<f32>) {
    match x {
        None => {
            o.n(0);
        }
        Some(v) => {
            o.n(1).f32(v);
        }
    }
}

/// the `<raw>` part of a `procfull` / `procims` request; pass-through fields derived from `s.meta`
fn raw_tokens(o: &mut Out, s: &Spec) {
    let mut r = Rng::new(s.meta);
    let file_id = r.below(1000);
    let id: String = match r.below(4) {
        0 => String::new(),
        1 => "controllerType=0 controllerNumber=1 scan=4711".into(),
        _ => format!("scan={}", r.below(100000)),
    };
    // distinct values so that swapped fields are seen
    let sst = 1.0 + (r.below(9000) as f32) * 0.01;
    let iit = 100.5 + (r.below(900) as f32) * 0.25;
    let raw_tic = *r.pick(&[0.0f32, 12345.0, -1.0]);
    o.n(file_id).n(s.level).s(&id).b(s.centroid).f32(sst).f32(iit).f32(raw_tic);
    // precursors: the first one carries `s.charge`; none at all is possible when the charge is absent
    let np = if s.charge.is_none() && r.chance(1, 2) { 0 } else { 1 + r.below(3) };
    o.n(np);
    for ix in 0..np {
        let charge: Option<u8> = if ix == 0 { s.charge } else { Some(1 + ((s.charge.unwrap_or(3) as usize + ix) % 5) as u8) };
        o.f32(400.0 + (r.below(6000) as f32) * 0.1);
        opt_f32(o, if r.chance(1, 2) { Some((r.below(100000) as f32) * 1.5) } else { None });
        match charge {
            None => {
                o.n(0);
            }
            Some(z) => {
                o.n(1).n(z);
            }
        }
        if r.chance(1, 2) {
            o.n(1).s(&format!("scan={}", r.below(5000)));
        } else {
            o.n(0);
        }
        if r.chance(1, 2) {
            o.n(1).n(r.below(3)).f32(-(r.below(30) as f32) * 0.5).f32((r.below(30) as f32) * 0.5 + 0.25);
        } else {
            o.n(0);
        }
        opt_f32(o, if r.chance(1, 3) { Some(0.6 + (r.below(100) as f32) * 0.01) } else { None });
    }
    o.n(s.peaks.len());
    for &(m, i) in &s.peaks {
        o.f32(m).f32(i);
    }
    match &s.mobility {
        None => {
            o.n(0);
        }
        Some(m) => {
            o.n(1).n(m.len());
            for &x in m {
                o.f32(x);
            }
        }
    }
}

fn req_full(op: &str, s: &Spec) -> String {
    let mut o = Out::new();
    o.raw(op).n(s.k).b(s.deiso).f32(s.min_mz);
    raw_tokens(&mut o, s);
    o.finish()
}

fn req_process(s: &Spec) -> String {
    let mut o = Out::new();
    o.raw("process").n(s.k).b(s.deiso).f32(s.min_mz).n(s.level).b(s.centroid);
    match s.charge {
        None => {
            o.n(0);
        }
        Some(z) => {
            o.n(1).n(z);
        }
    }
    o.n(s.peaks.len());
    for &(m, i) in &s.peaks {
        o.f32(m).f32(i);
    }
    o.finish()
}

fn req_deiso(maxz: u8, ppm: f32, min_mz: f32, peaks: &[(f32, f32)]) -> String {
    let mut o = Out::new();
    o.raw("deiso").n(maxz).f32(ppm).f32(min_mz).n(peaks.len());
    for &(m, i) in peaks {
        o.f32(m).f32(i);
    }
    o.finish()
}

const JITTER_PPM: &[f32] = &[0.0, 0.0, 0.0, 2.0, -2.0, 5.0, -5.0, 9.9, -9.9, 10.1, -10.1, 20.0, -20.0];
const SMALL_INT: &[f32] = &[0.0, 1.0, 1.0, 2.0, 2.0, 3.0, 5.0, 10.0, 100.0];

/// a spectrum made of isotope clusters + noise, ascending m/z; returns (peaks, m/z of cluster members)
fn cluster_spectrum(rng: &mut Rng, big: bool) -> (Vec<(f32, f32)>, Vec<f32>) {
    let mut peaks: Vec<(f32, f32)> = Vec::new();
    let mut members = Vec::new();
    let nclusters = 1 + rng.below(if big { 12 } else { 3 });
    let mut base = 100.0f32 + (rng.below(4000) as f32) * 0.1;
    for _ in 0..nclusters {
        let z = 1 + rng.below(4) as u32;
        let len = 2 + rng.below(5);
        let iso = NEUTRON / z as f32;
        let shape = rng.below(7);
        let mut int = if rng.chance(1, 2) { *rng.pick(&[10.0f32, 100.0, 1000.0]) } else { 1.0 + (rng.unit() as f32) * 1000.0 };
        let mut mz = base;
        for m in 0..len {
            if m > 0 {
                // spacing relative to the previous member, off by a chosen number of ppm of the new m/z
                let ideal = mz + iso;
                mz = ideal + ideal * *rng.pick(JITTER_PPM) / 1_000_000.0;
            }
            peaks.push((mz, int));
            members.push(mz);
            int = match shape {
                0..=3 => int * 0.5,                        // decreasing
                4 => int,                                  // equal (never an isotope: needs strictly less)
                5 => int * 1.5,                            // increasing
                _ => if rng.chance(1, 2) { int * 0.5 } else { int * 2.0 },
            };
        }
        // next cluster: overlapping (inside this one), adjacent, or far
        base = match rng.below(4) {
            0 => base + iso * 0.5,
            1 => base + NEUTRON / (1 + rng.below(3)) as f32,
            _ => base + 3.0 + (rng.below(3000) as f32) * 0.1,
        };
    }
    let noise = rng.below(if big { 60 } else { 6 });
    for _ in 0..noise {
        let mz = 60.0 + (rng.unit() as f32) * 1500.0;
        let int = if rng.chance(1, 2) { *rng.pick(SMALL_INT) } else { (rng.unit() as f32) * 500.0 };
        peaks.push((mz, int));
    }
    if rng.chance(1, 6) && !peaks.is_empty() {
        // duplicate m/z
        let p = *rng.pick(&peaks);
        peaks.push((p.0, *rng.pick(SMALL_INT)));
    }
    peaks.sort_by(|a, b| a.0.total_cmp(&b.0));
    (peaks, members)
}

fn pick_min_mz(rng: &mut Rng, peaks: &[(f32, f32)], members: &[f32]) -> (f32, &'static str) {
    let lo = peaks.first().map(|p| p.0).unwrap_or(100.0);
    let hi = peaks.last().map(|p| p.0).unwrap_or(100.0);
    match rng.below(9) {
        0 | 1 => (0.0, "minmz-zero"),
        2 => (lo - 1.0, "minmz-below"),
        3 | 4 if !members.is_empty() => (*rng.pick(members), "minmz-on-member"),
        5 if !members.is_empty() => {
            let m = *rng.pick(members);
            (f32::from_bits(m.to_bits() + 1), "minmz-just-above-member")
        }
        6 => (hi + 1.0, "minmz-above"),
        _ => (lo + (hi - lo) * (rng.unit() as f32), "minmz-inside"),
    }
}

fn random_peaks(rng: &mut Rng, n: usize) -> Vec<(f32, f32)> {
    let ties = rng.chance(1, 2);
    let grid = rng.chance(1, 3);
    let mut v: Vec<(f32, f32)> = (0..n)
        .map(|_| {
            let mz = if grid { 100.0 + rng.below(12) as f32 * 50.0 } else { 50.0 + (rng.unit() as f32) * 1950.0 };
            let int = if ties { *rng.pick(SMALL_INT) } else { (rng.unit() as f32) * 10000.0 };
            (mz, int)
        })
        .collect();
    if !rng.chance(1, 4) {
        v.sort_by(|a, b| a.0.total_cmp(&b.0));
    }
    v
}

fn pick_k(rng: &mut Rng, n: usize) -> usize {
    match rng.below(9) {
        0 => 0,
        1 => 1,
        2 => 2,
        3 => n.saturating_sub(1),
        4 => n,
        5 => n + 1,
        6 => 150,
        7 => n / 2,
        _ => rng.below(n + 2),
    }
}

fn emit_process(emit: &mut dyn FnMut(Case), s: &Spec, tag: &'static str, extra: Option<&'static str>) {
    let n = s.peaks.len();
    let mut ints: Vec<u32> = s.peaks.iter().map(|p| p.1.to_bits()).collect();
    ints.sort();
    let has_ties = ints.windows(2).any(|w| w[0] == w[1]);
    let req = if tag == "small-scope" { req_process(s) } else { req_full("procfull", s) };
    let mut c = Case::new(req)
        .tag(tag)
        .tag_if(n == 0, "empty")
        .tag_if(n == 1, "one-peak")
        .tag_if(has_ties, "intensity-ties")
        .tag_if(s.k == 0, "k=0")
        .tag_if(n < s.k, "n<k")
        .tag_if(n == s.k, "n=k")
        .tag_if(n > s.k, "n>k")
        .tag_if(s.level == 2 && s.deiso, "ms2-deisotope")
        .tag_if(s.level == 2 && !s.deiso, "ms2-plain")
        .tag_if(s.level != 2, "ms1-or-ms3")
        .tag_if(!s.centroid, "profile")
        .tag_if(s.charge.is_none(), "charge-none")
        .nontrivial(n >= 2);
    if let Some(e) = extra {
        c = c.tag(e);
    }
    emit(c);
}

pub fn gen(rng: &mut Rng, tier: Tier, emit: &mut dyn FnMut(Case)) {
    let quick = tier == Tier::Quick;
    let base = Spec { k: 0, deiso: false, min_mz: 0.0, level: 2, centroid: true, charge: Some(2), peaks: vec![], meta: 0, mobility: None };

    // (d) directed
    for &deiso in &[false, true] {
        for &level in &[1u8, 2] {
            for k in 0..3 {
                // empty, one peak
                emit_process(emit, &Spec { k, deiso, level, ..base.clone() }, "directed", None);
                emit_process(emit, &Spec { k, deiso, level, peaks: vec![(500.0, 7.0)], ..base.clone() }, "directed", None);
            }
        }
    }
    // profile data: MS2 panics, MS1 does not
    for &level in &[1u8, 2, 3] {
        emit_process(emit, &Spec { k: 5, level, centroid: false, peaks: vec![(300.0, 1.0), (400.0, 2.0)], ..base.clone() }, "directed", None);
    }
    // index-0 parent: the `j == 0` break means peak 0 is only ever examined for i <= 1
    {
        let iso = NEUTRON;
        let p = vec![(500.0f32, 100.0f32), (500.0 + iso, 50.0), (500.0 + 2.0 * iso, 25.0)];
        for k in [0usize, 1, 2, 3, 10] {
            emit_process(emit, &Spec { k, deiso: true, peaks: p.clone(), ..base.clone() }, "directed", Some("index0-parent"));
        }
        emit(Case::new(req_deiso(2, 10.0, 0.0, &p)).tag("directed").tag("index0-parent"));
        // unstable-sort tie: A (idx 0, int 15, never merged into), A' (idx 1, 10 + 5 merged, z = 2), B isotope of A'
        let iso2 = NEUTRON / 2.0;
        let t = vec![(500.0f32, 15.0f32), (500.0, 10.0), (500.0 + iso2, 5.0)];
        for k in [1usize, 2, 3] {
            emit_process(emit, &Spec { k, deiso: true, charge: Some(2), peaks: t.clone(), ..base.clone() }, "directed", Some("unstable-tie"));
        }
        emit(Case::new(req_deiso(2, 10.0, 0.0, &t)).tag("directed").tag("unstable-tie"));
    }

    // tolerance / intensity boundaries of the isotope test, charge 1..3, through both ops
    for z in 1..=3u32 {
        for &basemz in &[200.0f32, 500.0, 1200.0] {
            let iso = NEUTRON / z as f32;
            let hi = basemz + iso;
            let tol = 10.0f32 * hi / 1_000_000.0;
            for &off in &[0.0f32, 1.0, -1.0] {
                for ulps in [-2i32, -1, 0, 1, 2] {
                    let target = hi + off * tol;
                    let mz2 = f32::from_bits((target.to_bits() as i32 + ulps) as u32);
                    for &(i1, i2) in &[(100.0f32, 50.0f32), (100.0, 100.0), (100.0, f32::from_bits(100.0f32.to_bits() - 1)), (50.0, 100.0)] {
                        let p = vec![(basemz - 50.0, 1.0), (basemz, i1), (mz2, i2)];
                        emit(Case::new(req_deiso(3, 10.0, 0.0, &p)).tag("directed").tag("tolerance-boundary"));
                        if ulps == 0 {
                            emit_process(emit, &Spec { k: 2, deiso: true, charge: Some(3), peaks: p, ..base.clone() }, "directed", Some("tolerance-boundary"));
                        }
                    }
                }
            }
        }
    }

    // (a) small scope, ties everywhere
    let l_max = if quick { 4 } else { 7 };
    for len in 0..=l_max {
        let total = 3usize.pow(len as u32);
        for code in 0..total {
            let mut c = code;
            let peaks: Vec<(f32, f32)> = (0..len)
                .map(|i| {
                    let v = (c % 3) as f32 + 1.0;
                    c /= 3;
                    // m/z grid with one duplicated position so that (intensity, mass) ties occur too
                    let mz = [100.0f32, 200.0, 200.0, 300.0, 150.0, 400.0, 120.0][i];
                    (mz, v)
                })
                .collect();
            for k in 0..=(len + 1) {
                emit_process(emit, &Spec { k, peaks: peaks.clone(), ..base.clone() }, "small-scope", None);
            }
        }
    }

    // (b) random spectra
    let nrand = if quick { 700 } else { 100000 };
    for _ in 0..nrand {
        let n = match rng.below(20) {
            0 => 0,
            1 => 1,
            2 => 61 + rng.below(if quick { 340 } else { 1940 }),
            _ => rng.below(61),
        };
        let peaks = random_peaks(rng, n);
        let k = pick_k(rng, n);
        let level = *rng.pick(&[2u8, 2, 2, 2, 1, 3]);
        let deiso = rng.chance(1, 3);
        let charge = if rng.chance(1, 4) { None } else { Some(rng.below(7) as u8) };
        let centroid = !rng.chance(1, 25);
        let min_mz = *rng.pick(&[0.0f32, 150.0, 500.0, 3000.0]);
        emit_process(emit, &Spec { k, deiso, min_mz, level, centroid, charge, peaks, meta: rng.next(), mobility: None }, "random", None);
    }

    // (c) isotope clusters, through both ops
    let nclu = if quick { 900 } else { 200000 };
    for it in 0..nclu {
        let big = it % 10 == 0;
        let (mut peaks, members) = cluster_spectrum(rng, big);
        let (min_mz, mtag) = pick_min_mz(rng, &peaks, &members);
        let unsorted = rng.chance(1, 20);
        if unsorted {
            rng.shuffle(&mut peaks);
        }
        let n = peaks.len();
        if it % 2 == 0 {
            let k = pick_k(rng, n);
            let deiso = !rng.chance(1, 5);
            let charge = if rng.chance(1, 4) { None } else { Some(rng.below(6) as u8) };
            let level = if rng.chance(1, 10) { 1 } else { 2 };
            emit_process(
                emit,
                &Spec { k, deiso, min_mz, level, centroid: true, charge, peaks, meta: rng.next(), mobility: None },
                "clusters",
                Some(if unsorted { "unsorted-mz" } else { mtag }),
            );
        } else {
            let maxz = *rng.pick(&[0u8, 1, 2, 2, 3, 3, 3, 4, 4, 6]);
            let ppm = *rng.pick(&[10.0f32, 10.0, 10.0, 10.0, 10.0, 5.0, 20.0, 0.0]);
            emit(
                Case::new(req_deiso(maxz, ppm, min_mz, &peaks))
                    .tag("clusters")
                    .tag(if unsorted { "unsorted-mz" } else { mtag })
                    .tag_if(maxz == 0, "maxz=0")
                    .nontrivial(maxz > 0),
            );
        }
    }
    // (e) directed cases aimed at single-line changes of the code (see the mutant list in the report)
    {
        // exact equality in both `<=` tests of `deisotope`: 1.0 + NEUTRON is exact in f32, so delta == NEUTRON/1 and,
        // with ppm = 0, |delta - iso| == tol == 0 and delta == NEUTRON + tol
        let p = vec![(0.5f32, 1.0f32), (1.0, 100.0), (1.0 + NEUTRON, 50.0)];
        debug_assert!(p[2].0 - p[1].0 == NEUTRON);
        for maxz in [1u8, 2, 3] {
            emit(Case::new(req_deiso(maxz, 0.0, 0.0, &p)).tag("directed").tag("exact-tolerance-equality"));
        }
        // more exact-equality pairs: x + NEUTRON/z is representable and the difference is exact
        for &(x, z) in &[(1.5f32, 1u32), (2.0, 1), (2.5, 1), (0.5, 2), (0.25, 2), (0.75, 2)] {
            let iso = NEUTRON / z as f32;
            let q = vec![(x * 0.5, 1.0f32), (x, 100.0), (x + iso, 50.0)];
            if q[2].0 - q[1].0 == iso {
                for maxz in [1u8, 2, 3] {
                    emit(Case::new(req_deiso(maxz, 0.0, 0.0, &q)).tag("directed").tag("exact-tolerance-equality"));
                }
                // chain of two so that the parent is not index 0 only
                let q2 = vec![(x * 0.25, 1.0f32), (x * 0.5, 2.0), (x, 100.0), (x + iso, 50.0)];
                emit(Case::new(req_deiso(2, 0.0, 0.0, &q2)).tag("directed").tag("exact-tolerance-equality"));
            }
        }
        // min_mz exactly on the parent / the isotope
        emit(Case::new(req_deiso(1, 0.0, 1.0, &p)).tag("directed").tag("exact-tolerance-equality"));
        emit(Case::new(req_deiso(1, 0.0, f32::from_bits(1.0f32.to_bits() + 1), &p)).tag("directed").tag("exact-tolerance-equality"));
        // tie-break of the deisotope branch's sort: equal intensities, distinct m/z, no isotopes; cut at every k
        let t: Vec<(f32, f32)> = vec![(700.0, 5.0), (300.0, 5.0), (500.0, 5.0), (100.0, 9.0), (900.0, 5.0), (200.0, 1.0)];
        let mut ts = t.clone();
        ts.sort_by(|a, b| a.0.total_cmp(&b.0));
        for k in 0..=7usize {
            emit_process(emit, &Spec { k, deiso: true, peaks: ts.clone(), ..base.clone() }, "directed", Some("deiso-tiebreak"));
            emit_process(emit, &Spec { k, deiso: false, peaks: t.clone(), ..base.clone() }, "directed", Some("plain-tiebreak"));
        }
        // charge loop bound / default charge 3 / first-vs-last precursor: one clean cluster per charge 1..=4
        for z in 1..=4u32 {
            let iso = NEUTRON / z as f32;
            let c: Vec<(f32, f32)> = vec![(300.0, 3.0), (600.0, 100.0), (600.0 + iso, 60.0), (600.0 + 2.0 * iso, 30.0), (900.0, 2.0)];
            for maxz in 0..=5u8 {
                emit(Case::new(req_deiso(maxz, 10.0, 0.0, &c)).tag("directed").tag("charge-bound"));
                emit(Case::new(req_deiso(maxz, 5.0, 0.0, &c)).tag("directed").tag("charge-bound"));
            }
            for charge in [None, Some(0u8), Some(1), Some(2), Some(3), Some(4), Some(5)] {
                for meta in 0..3u64 {
                    emit_process(emit, &Spec { k: 10, deiso: true, charge, peaks: c.clone(), meta, ..base.clone() }, "directed", Some("charge-bound"));
                }
            }
        }
        // heap shapes: n just above k for k = 1..=8 (every sift depth), descending / ascending / organ-pipe intensities
        for k in 1..=8usize {
            for extra in 1..=3usize {
                let n = k + extra;
                for shape in 0..3 {
                    let peaks: Vec<(f32, f32)> = (0..n)
                        .map(|i| {
                            let v = match shape {
                                0 => (n - i) as f32,
                                1 => (i + 1) as f32,
                                _ => (if i % 2 == 0 { i } else { n - i }) as f32 + 0.5,
                            };
                            (100.0 + 10.0 * i as f32, v)
                        })
                        .collect();
                    emit_process(emit, &Spec { k, peaks, ..base.clone() }, "directed", Some("heap-shapes"));
                }
            }
        }
    }

    // (f) non-finite / non-positive values as the parsers may deliver them (NaN, +-inf, -0.0, negative, subnormal, MAX)
    //     flavour A: canonical quiet NaN (0x7fc00000) and +inf next to ordinary values (no -inf: every NaN in play has
    //     the same payload, so the result does not depend on which operand x86 propagates);
    //     flavour B: +-inf, negative, -0.0, subnormal, MAX without NaN inputs (the only NaN is the hardware default);
    //     intensities never get -inf / -MAX, so no `inf + -inf` can enter an OUTPUT value: x86 would produce the
    //     negative default NaN, which `total_cmp` orders first, and Lean cannot observe the sign of a NaN
    //     (`Float32.toBits` canonicalises) - the model is faithful up to NaN sign/payload only
    let nhost = if quick { 500 } else { 40000 };
    for it in 0..nhost {
        let flavour_a = it % 2 == 0;
        let specials: &[u32] = if flavour_a {
            &[0x7fc0_0000, 0x7fc0_0000, 0x7f80_0000, 0x0000_0000, 0x7f7f_ffff]
        } else {
            &[0x7f80_0000, 0xff80_0000, 0x8000_0000, 0x0000_0000, 0xc2c8_0000, 0xbf80_0000, 0x0000_0001, 0x7f7f_ffff, 0xff7f_ffff]
        };
        let n = 1 + rng.below(if it % 25 == 0 { 120 } else { 14 });
        let (mut peaks, members) = if rng.chance(1, 2) { cluster_spectrum(rng, false) } else { (random_peaks(rng, n), vec![]) };
        let int_specials: &[u32] = if flavour_a {
            specials
        } else {
            &[0x7f80_0000, 0x8000_0000, 0x0000_0000, 0xc2c8_0000, 0xbf80_0000, 0x0000_0001, 0x7f7f_ffff]
        };
        let where_ = rng.below(3); // 0: m/z, 1: intensity, 2: both
        let hits = 1 + rng.below(3);
        for _ in 0..hits {
            if peaks.is_empty() {
                break;
            }
            let ix = rng.below(peaks.len());
            let v = f32::from_bits(*rng.pick(specials));
            if where_ != 1 {
                peaks[ix].0 = v;
            }
            if where_ != 0 {
                let w = f32::from_bits(*rng.pick(int_specials));
                peaks[ix].1 = w;
            }
        }
        if rng.chance(1, 2) {
            peaks.sort_by(|a, b| a.0.total_cmp(&b.0));
        }
        let n = peaks.len();
        let min_mz = if rng.chance(1, 4) { f32::from_bits(*rng.pick(specials)) } else { pick_min_mz(rng, &peaks, &members).0 };
        match it % 5 {
            0 | 1 => {
                let k = pick_k(rng, n);
                let deiso = rng.chance(1, 2);
                let charge = if rng.chance(1, 4) { None } else { Some(rng.below(5) as u8) };
                let level = if rng.chance(1, 6) { 1 } else { 2 };
                emit_process(
                    emit,
                    &Spec { k, deiso, min_mz, level, centroid: true, charge, peaks, meta: rng.next(), mobility: None },
                    "non-finite",
                    Some(if flavour_a { "nan-inf" } else { "neg-inf-zero" }),
                );
            }
            2 | 3 => {
                let maxz = *rng.pick(&[1u8, 2, 3, 4]);
                let ppm = if rng.chance(1, 8) { f32::from_bits(*rng.pick(specials)) } else { 10.0 };
                emit(
                    Case::new(req_deiso(maxz, ppm, min_mz, &peaks))
                        .tag("non-finite")
                        .tag(if flavour_a { "nan-inf" } else { "neg-inf-zero" }),
                );
            }
            _ => {
                let mob: Vec<f32> = (0..n).map(|_| if rng.chance(1, 5) { f32::from_bits(*rng.pick(specials)) } else { 0.5 + rng.unit() as f32 }).collect();
                let s = Spec { k: 5, deiso: false, min_mz, level: 1, centroid: true, charge: None, peaks, meta: rng.next(), mobility: Some(mob) };
                emit(Case::new(req_full("procims", &s)).tag("non-finite").tag("ims"));
            }
        }
    }

    // (g) `process_with_mobility`: MS1 with a mobility array of the same / shorter / longer length; wrong level and a
    //     missing mobility array are the two asserted preconditions (panic)
    let nims = if quick { 150 } else { 5000 };
    for _ in 0..nims {
        let n = rng.below(30);
        let peaks = random_peaks(rng, n);
        let mlen = match rng.below(6) {
            0 => n.saturating_sub(1 + rng.below(3)),
            1 => n + 1 + rng.below(3),
            _ => n,
        };
        let mobility = if rng.chance(1, 12) { None } else { Some((0..mlen).map(|_| 0.5 + (rng.below(1000) as f32) * 0.001).collect::<Vec<f32>>()) };
        let level = if rng.chance(1, 12) { 2 } else { 1 };
        let s = Spec { k: rng.below(5), deiso: rng.chance(1, 2), min_mz: 0.0, level, centroid: !rng.chance(1, 10), charge: None, peaks, meta: rng.next(), mobility };
        let pre = level != 1 || s.mobility.is_none();
        emit(
            Case::new(req_full("procims", &s))
                .tag("ims")
                .tag_if(pre, "ims-precondition")
                .tag_if(mlen != n, "ims-length-mismatch")
                .nontrivial(n >= 2 && !pre),
        );
    }
}

fn parse_opt_f32(t: &mut Toks) -> Option<Option<f32>> {
    t.opt(|t| t.f32())
}

/// parse `<raw>` into a RawSpectrum
fn parse_raw(t: &mut Toks) -> Option<RawSpectrum> {
    let file_id = t.usize()?;
    let level = t.usize()? as u8;
    let id = t.string()?;
    let centroid = t.bool()?;
    let sst = t.f32()?;
    let iit = t.f32()?;
    let raw_tic = t.f32()?;
    let precursors = t.list(|t| {
        let mz = t.f32()?;
        let intensity = parse_opt_f32(t)?;
        let charge = t.opt(|t| t.usize())?.map(|z| z as u8);
        let spectrum_ref = t.opt(|t| t.string())?;
        let isolation_window = t.opt(|t| {
            let k = t.usize()?;
            let lo = t.f32()?;
            let hi = t.f32()?;
            Some(match k {
                0 => Tolerance::Ppm(lo, hi),
                1 => Tolerance::Pct(lo, hi),
                _ => Tolerance::Da(lo, hi),
            })
        })?;
        let inverse_ion_mobility = parse_opt_f32(t)?;
        Some(Precursor { mz, intensity, charge, spectrum_ref, isolation_window, inverse_ion_mobility })
    })?;
    let peaks = t.list(|t| Some((t.f32()?, t.f32()?)))?;
    let mobility = t.opt(|t| t.list(|t| t.f32()))?;
    let mut raw = RawSpectrum::default_with_file_id(file_id);
    raw.ms_level = level;
    raw.id = id;
    raw.representation = if centroid { Representation::Centroid } else { Representation::Profile };
    raw.scan_start_time = sst;
    raw.ion_injection_time = iit;
    raw.total_ion_current = raw_tic;
    raw.precursors = precursors;
    raw.mz = peaks.iter().map(|p| p.0).collect();
    raw.intensity = peaks.iter().map(|p| p.1).collect();
    raw.mobility = mobility;
    Some(raw)
}

fn out_meta(o: &mut Out, level: u8, id: &str, file_id: usize, sst: f32, iit: f32, precursors: &[Precursor]) {
    o.n(level).s(id).n(file_id).f32(sst).f32(iit).n(precursors.len());
    for p in precursors {
        o.f32(p.mz);
        opt_f32(o, p.intensity);
        match p.charge {
            None => {
                o.n(0);
            }
            Some(z) => {
                o.n(1).n(z);
            }
        }
        match &p.spectrum_ref {
            None => {
                o.n(0);
            }
            Some(r) => {
                o.n(1).s(r);
            }
        }
        match p.isolation_window {
            None => {
                o.n(0);
            }
            Some(Tolerance::Ppm(lo, hi)) => {
                o.n(1).n(0).f32(lo).f32(hi);
            }
            Some(Tolerance::Pct(lo, hi)) => {
                o.n(1).n(1).f32(lo).f32(hi);
            }
            Some(Tolerance::Da(lo, hi)) => {
                o.n(1).n(2).f32(lo).f32(hi);
            }
        }
        opt_f32(o, p.inverse_ion_mobility);
    }
}

pub fn exec(op: &str, t: &mut Toks) -> Option<String> {
    match op {
        "procfull" | "procims" => {
            let k = t.usize()?;
            let deiso = t.bool()?;
            let min_mz = t.f32()?;
            let raw = parse_raw(t)?;
            if !t.done() {
                return None;
            }
            let sp = SpectrumProcessor::new(k, deiso, min_mz);
            let mut o = Out::new();
            if op == "procfull" {
                let out = sp.process(raw);
                out_meta(&mut o, out.level, &out.id, out.file_id, out.scan_start_time, out.ion_injection_time, &out.precursors);
                o.n(out.peaks.len());
                for p in &out.peaks {
                    o.f32(p.mass).f32(p.intensity);
                }
                o.f32(out.total_ion_current);
            } else {
                let out = sp.process_with_mobility(raw);
                out_meta(&mut o, out.level, &out.id, out.file_id, out.scan_start_time, out.ion_injection_time, &out.precursors);
                o.n(out.peaks.len());
                for p in &out.peaks {
                    o.f32(p.mass).f32(p.intensity).f32(p.mobility);
                }
                o.f32(out.total_ion_current);
            }
            Some(o.finish())
        }
        "process" => {
            let k = t.usize()?;
            let deiso = t.bool()?;
            let min_mz = t.f32()?;
            let level = t.usize()? as u8;
            let centroid = t.bool()?;
            let charge = t.opt(|t| t.usize())?.map(|z| z as u8);
            let peaks = t.list(|t| Some((t.f32()?, t.f32()?)))?;
            if !t.done() {
                return None;
            }
            let mut raw = RawSpectrum::default_with_file_id(0);
            raw.ms_level = level;
            raw.id = "s".into();
            raw.representation = if centroid { Representation::Centroid } else { Representation::Profile };
            raw.precursors = vec![Precursor { mz: 600.0, charge, ..Default::default() }];
            raw.mz = peaks.iter().map(|p| p.0).collect();
            raw.intensity = peaks.iter().map(|p| p.1).collect();
            let sp = SpectrumProcessor::new(k, deiso, min_mz);
            let out = sp.process(raw);
            let mut o = Out::new();
            o.n(out.peaks.len());
            for p in &out.peaks {
                o.f32(p.mass).f32(p.intensity);
            }
            o.f32(out.total_ion_current);
            Some(o.finish())
        }
        "deiso" => {
            let maxz = t.usize()? as u8;
            let ppm = t.f32()?;
            let min_mz = t.f32()?;
            let peaks = t.list(|t| Some((t.f32()?, t.f32()?)))?;
            if !t.done() {
                return None;
            }
            let mz: Vec<f32> = peaks.iter().map(|p| p.0).collect();
            let int: Vec<f32> = peaks.iter().map(|p| p.1).collect();
            let d = deisotope(&mz, &int, maxz, ppm, min_mz);
            let mut o = Out::new();
            o.n(d.len());
            for p in &d {
                o.f32(p.mz).f32(p.intensity);
                match p.charge {
                    None => {
                        o.n(0);
                    }
                    Some(z) => {
                        o.n(1).n(z);
                    }
                }
                match p.envelope {
                    None => {
                        o.n(0);
                    }
                    Some(e) => {
                        o.n(1).n(e);
                    }
                }
            }
            Some(o.finish())
        }
        _ => None,
    }
}
