//! C15 — LDA rescoring: `Gauss::solve`, `LinearDiscriminantAnalysis::train/score`, `score_psms`
//! and the heuristic fallback of `Runner::spectrum_fdr`.
//!
//!   gauss n m A[n*n f64] B[n*m f64]                         ->  0 | 1 X[n*m f64]
//!   lda n p F[n*p f64] decoy[n 0/1] perm[n]                  ->  W W'   with W = 0 | 1 p w[p f64]
//!        W  = train(F, decoy) read back through `score(identity)`,
//!        W' = the same for the rows (and labels) taken in the order `perm`
//!   scorepsms n (21 fields)*n                                ->  fitted n (score:f32 ln1p:f32 pe:f64 l1..l8:f64)*n
//!        fields: label(1/-1) rank charge hyperscore:f64 delta_next:f64 delta_best:f64 delta_mass:f32
//!                isotope_error:f32 average_ppm:f32 poisson:f64 matched_intensity_pct:f32 matched_peaks
//!                longest_b longest_y peptide_len missed_cleavages aligned_rt:f32 ims:f32
//!                delta_rt_model:f32 delta_ims_model:f32 longest_y_pct:f32
//!        runs `score_psms(.., Ppm(-10,10))`; when it returns None the harness applies the fallback
//!        expression of `Runner::spectrum_fdr` (sage-cli is a binary crate: the expression is
//!        re-stated here and its presence in runner.rs is asserted on the source text);
//!        `ln1p` = `(-poisson as f32).ln_1p()` as computed by Rust, passed to the model as data; `pe` = the
//!        KDE mass-error posterior (feature 5) and `l1..l8` = the f64 `ln_1p` of hyperscore, delta_next,
//!        delta_best, -poisson, matched_intensity_pct, longest_b, longest_y, peptide_len: data for the model's
//!        reconstruction of the 20-column feature matrix (everything else of score_psms is modelled).
//!   ldabig n p F[n*p f64] decoy[n 0/1] perm[n] k t1..tk           ->  W_t1 .. W_tk W'
//!        W_t = train(F, decoy) run inside an explicit rayon pool of t threads; W' = the rows taken in the
//!        order `perm`, in the pool of t1 threads (large tables: 1,100 .. 40,000 rows)
//!   scorepsmst t n (21 fields)*n                               ->  as scorepsms, run inside a rayon pool of t threads
//!   fdrrun decoys(0/1) predict_rt(0/1) fasta:hex mgf:hex                           ->  n (label poisson:f64 longest_y_pct:f32 disc:f32 ln1p:f32 spectrum_q:f32)*n
//!        THE REAL `Runner::run` (the only public route to the private `Runner::spectrum_fdr` and its heuristic
//!        fallback): FASTA + MGF are written to a private temp dir, a `sage_cli::runner::Runner` is built in-process
//!        and run with 1 thread; `results.sage.tsv` is read back (ryu round-trips every float) and the rows are
//!        returned sorted by (scannr, rank, peptide). `ln1p` = `(-poisson as f32).ln_1p()` by Rust's std (data for
//!        the model). With decoys = 0 the database is target-only: one class empty, the LDA cannot be fitted and
//!        every PSM gets the fallback score.
//! All floats are bit patterns; every NaN is canonicalised to the quiet NaN 0x7ff8000000000000.
use super::Info;
use crate::proto::{Case, Out, Rng, Tier, Toks};
use sage_core::mass::Tolerance;
use sage_core::ml::gauss::Gauss;
use sage_core::ml::linear_discriminant::{score_psms, LinearDiscriminantAnalysis};
use sage_core::ml::matrix::Matrix;

pub const OPS: &[&str] = &["gauss", "lda", "scorepsms", "ldabig", "scorepsmst", "fdrrun", "scorepsmstol"];
pub const INFO: Info = Info {
    rule: "gauss: n<=6 (quick) / 10 (thorough) systems with A = random SPD (G'G + dI), nearly singular PSD \
           (G'G, rank r<n, float-rounded), exactly singular PSD (small integers), diagonal / zero rows, \
           ill-scaled (D A D with D = diag(10^k), k in -6..9, and the repaired witness [[1e9,-1e9],[-1e9,1e9]],[1,2]), \
           ill-conditioned Hilbert-like, right-hand sides wider and narrower than A ((3,5),(4,2),(2,6),(5,1),(1,4),(6,3),(3,7)), \
           left_solved-tolerance cases [[s,st],[st,st^2]] with t = 2^-16..2^-27; B random, m in 1..3 or m = n; non-trivial = A non-zero and n >= 2. \
           lda: n<=30 (quick) / 200 (thorough) rows, p<=5 (quick) / 8 features drawn as class mean + noise + a common offset, \
           variants: well-conditioned, constant column, class-wise constant column, collinear columns, column scales 10^k, \
           single-row class, one class empty, duplicated rows, -0.0 entries, \
           large-offset (well-conditioned after centring; one or two columns offset by 1e3 / 1e6 / 1e9 with unit spread, or a column 1 + 1e-6*value; 20..60 rows, shuffled); row order: identity, random permutations, and ALL \
           permutations for n <= 4 (quick) / 6 (thorough); non-trivial = both classes present and p >= 2. \
           large-table (ops ldabig / scorepsmst): 1,100 / 2,049+1,500 / 5,000 / 40,000 rows x 2..4 features on the grid 2^-8, sorted by a feature / by label / shuffled, class shift 0.02 sd (weak) or ~1 sd, \
           train run inside explicit rayon pools of 1, 4 (quick) / 1, 2, 4, 16 threads plus a random row permutation; score_psms on 1,100 / 3,549 PSMs sorted by hyperscore in pools of 4 / 16 threads. \
           fdrrun: THE REAL Runner::run on tiny target-only searches (LDA not fitted => heuristic fallback of Runner::spectrum_fdr): 2..5 families of isobaric peptides \
           (permutations of one composition, 1..5 members) with full / half / 3..5-peak b,y ladders plus noise, so that poisson ranges from about -0.3 to below -10; every 5th case with decoys; a single-PSM search; predict_rt alternates. Searches WITH decoys and both classes reported: 3..7 target spectra (y-only / b+y / short y ladders) plus 1 (fit fails: zero-variance decoy class) or 2..3 (fit may succeed) spectra built from DECOY sequences with b ions only, each with predict_rt = true and false: \
           poisson order and score order disagree around the decoy. \
           scorepsmstol: fittable sets of 30..70 PSMs under precursor tolerances ppm (-10,10) (-50,50) (-5,20) (-500,500) (-1,1) and da (-0.005,0.005) (-0.5,0.5) (-500,100) (-3.5,1.5) (-0.25,0.75); fdrrun decoy searches repeated under a random one of da (-0.5,0.5) / (-0.005,0.005) / (-500,100), ppm (-5,50). \
           scorepsms: 1..80 (quick) / 400 PSM feature records with realistic ranges (finite poisson <= 0), large and small sets, \
           constant charge/rank columns, ion mobility present or all zero, two decoys only; a default-on family `nonfinite-feature-guarded` (fittable sets of 40..70 records in which 1..3 records carry poisson in {-inf,+inf,NaN,2.5,1.0} or \
           delta_rt_model / delta_ims_model in {+inf,-inf,negative,>1}: the guards of the feature transform must replace them, fit expected); variants that must fall back: one class empty, \
           NaN/inf in one field, ln_1p argument below -1, all records identical, single decoy (KDE bandwidth 0); non-trivial = both classes present. \
           Default-on small streams of the known-finding families (exactly singular PSD x 1e9/1e12;  overall mean orthogonal to the class-mean \
           difference; all features of order 1e-9) of two regression families of the repaired pivot rule (non-singular SPD integer matrices x 1e5..1e9 on which the regulariser-made \
           entry used to become the pivot; block-diagonal SPD on which the solver used to fail) and of one observation family (forced fallback with poisson = -inf)",
    serial: false,
};

const QNAN: u64 = 0x7ff8_0000_0000_0000;
const QNAN32: u32 = 0x7fc0_0000;

fn put64(o: &mut Out, x: f64) {
    if x.is_nan() {
        o.n(QNAN);
    } else {
        o.f64(x);
    }
}
fn put32(o: &mut Out, x: f32) {
    if x.is_nan() {
        o.n(QNAN32);
    } else {
        o.f32(x);
    }
}

// ------------------------------------------------------------------------------------------ exec

fn exec_gauss(t: &mut Toks) -> Option<String> {
    let n = t.usize()?;
    let m = t.usize()?;
    if n > 64 || m > 64 {
        return None;
    }
    let mut a = Vec::with_capacity(n * n);
    for _ in 0..n * n {
        a.push(t.f64()?);
    }
    let mut b = Vec::with_capacity(n * m);
    for _ in 0..n * m {
        b.push(t.f64()?);
    }
    if !t.done() {
        return None;
    }
    let left = Matrix::new(a, n, n);
    let right = Matrix::new(b, n, m);
    let mut o = Out::new();
    match Gauss::solve(left, right) {
        None => {
            o.n(0);
        }
        Some(x) => {
            if x.rows != n || x.cols != m {
                return Some("err:shape".into());
            }
            o.n(1);
            for v in x.take() {
                put64(&mut o, v);
            }
        }
    }
    Some(o.finish())
}

fn train_dir(o: &mut Out, feats: &[f64], n: usize, p: usize, decoy: &[bool]) {
    let f = Matrix::new(feats.to_vec(), n, p);
    match LinearDiscriminantAnalysis::train(&f, decoy) {
        None => {
            o.n(0);
        }
        Some(lda) => {
            // the eigenvector is private: score the p unit vectors one at a time (a 1 x p matrix
            // with a single 1.0 gives 0.0 + 0*w_0 + .. + 1*w_i + .., exact for finite w; a
            // non-finite entry anywhere makes every read NaN, which is reported as such)
            let all = lda.score(&Matrix::identity(p));
            let nonfinite = all.iter().any(|x| !x.is_finite());
            o.n(1).n(p);
            for v in all {
                if nonfinite {
                    o.n(QNAN);
                } else {
                    put64(o, v);
                }
            }
        }
    }
}

fn exec_lda(t: &mut Toks) -> Option<String> {
    let n = t.usize()?;
    let p = t.usize()?;
    if n > 4096 || p > 64 {
        return None;
    }
    let mut f = Vec::with_capacity(n * p);
    for _ in 0..n * p {
        f.push(t.f64()?);
    }
    let mut decoy = Vec::with_capacity(n);
    for _ in 0..n {
        decoy.push(t.bool()?);
    }
    let mut perm = Vec::with_capacity(n);
    for _ in 0..n {
        let k = t.usize()?;
        if k >= n {
            return None;
        }
        perm.push(k);
    }
    if !t.done() {
        return None;
    }
    let mut o = Out::new();
    train_dir(&mut o, &f, n, p, &decoy);
    let mut f2 = Vec::with_capacity(n * p);
    let mut d2 = Vec::with_capacity(n);
    for &k in &perm {
        f2.extend_from_slice(&f[k * p..(k + 1) * p]);
        d2.push(decoy[k]);
    }
    train_dir(&mut o, &f2, n, p, &d2);
    Some(o.finish())
}

const RUNNER_SRC: &str = include_str!("/repo/crates/sage-cli/src/runner.rs");
const FALLBACK_EXPR: &str =
    "feat.discriminant_score = (-feat.poisson as f32).ln_1p() + feat.longest_y_pct / 3.0";

fn exec_scorepsms(t: &mut Toks) -> Option<String> {
    exec_scorepsms_tol(t, Tolerance::Ppm(-10.0, 10.0)).map(|(_, r)| r)
}

/// bin count and bandwidth factor of the mass-error KDE, as the UNCHANGED score_psms computes them from the
/// precursor tolerance (restated here for the data handed to the model; the Lean model has its own copy,
/// `massModelBins`, and the two are compared)
fn mass_model_params(tol: Tolerance) -> (f64, usize) {
    let (bw, bin_size) = match tol {
        Tolerance::Ppm(lo, hi) => (2.0f64, (hi - lo).max(100.0)),
        Tolerance::Da(lo, hi) => (0.1f64, (hi - lo).max(1000.0)),
        Tolerance::Pct(_, _) => (2.0f64, 100.0),
    };
    (bw, bin_size.ceil().abs() as usize)
}

/// `scorepsmstol kind(0 = ppm, 1 = da) lo:f32 hi:f32 n (21 fields)*n -> bins <scorepsms reply>`: score_psms under
/// the given precursor tolerance. For a dalton tolerance the mass error is `expmass - calcmass`: the harness
/// sets calcmass = 1000 and expmass = 1000 + 0.01 * delta_mass.
fn exec_scorepsmstol(t: &mut Toks) -> Option<String> {
    let kind = t.usize()?;
    let lo = t.f32()?;
    let hi = t.f32()?;
    let tol = if kind == 0 { Tolerance::Ppm(lo, hi) } else { Tolerance::Da(lo, hi) };
    exec_scorepsms_tol(t, tol).map(|(bins, r)| format!("{} {}", bins, r))
}

fn exec_scorepsms_tol(t: &mut Toks, tol: Tolerance) -> Option<(usize, String)> {
    let n = t.usize()?;
    if n > 100_000 {
        return None;
    }
    let mut feats = Vec::with_capacity(n);
    for i in 0..n {
        let mut f = super::util::blank_feature();
        f.psm_id = i;
        f.label = t.i64()? as i32;
        f.rank = t.usize()? as u32;
        f.charge = t.usize()? as u8;
        f.hyperscore = t.f64()?;
        f.delta_next = t.f64()?;
        f.delta_best = t.f64()?;
        f.delta_mass = t.f32()?;
        f.isotope_error = t.f32()?;
        f.average_ppm = t.f32()?;
        f.poisson = t.f64()?;
        f.matched_intensity_pct = t.f32()?;
        f.matched_peaks = t.usize()? as u32;
        f.longest_b = t.usize()? as u32;
        f.longest_y = t.usize()? as u32;
        f.peptide_len = t.usize()?;
        f.missed_cleavages = t.usize()? as u8;
        f.aligned_rt = t.f32()?;
        f.ims = t.f32()?;
        f.delta_rt_model = t.f32()?;
        f.delta_ims_model = t.f32()?;
        f.longest_y_pct = t.f32()?;
        if let Tolerance::Da(_, _) = tol {
            f.calcmass = 1000.0;
            f.expmass = 1000.0 + 0.01 * f.delta_mass;
        }
        feats.push(f);
    }
    if !t.done() {
        return None;
    }
    // tie to the source text of the fallback (Runner::spectrum_fdr is private to a binary crate)
    let squeezed: String = RUNNER_SRC.split_whitespace().collect::<Vec<_>>().join(" ");
    if !squeezed.contains(FALLBACK_EXPR) || !squeezed.contains("score_psms(features, self.parameters.precursor_tol) .is_none()") {
        return Some((0, "err:fallback_source_changed".into()));
    }
    // values of the transcendental / KDE parts of the feature transform, handed to the model as DATA
    // (computed here through the same public functions score_psms uses, with the arguments it uses
    // for a Ppm(-10, 10) tolerance: bw_adjust = 2x, bins = max(hi - lo, 100) = 100, not monotonic)
    let decoys: Vec<bool> = feats.iter().map(|f| f.label == -1).collect();
    let dm: Vec<f64> = feats
        .iter()
        .map(|f| match tol {
            Tolerance::Da(_, _) => (f.expmass - f.calcmass) as f64,
            _ => f.delta_mass as f64,
        })
        .collect();
    let (bw, bins) = mass_model_params(tol);
    let est = sage_core::ml::kde::Builder::default()
        .monotonic(false)
        .bw_adjust(move |x| x * bw)
        .bins(bins)
        .build(&dm, &decoys);
    let aux: Vec<[f64; 9]> = feats
        .iter()
        .zip(&dm)
        .map(|(f, &x)| {
            [
                est.posterior_error(x),
                f.hyperscore.ln_1p(),
                f.delta_next.ln_1p(),
                f.delta_best.ln_1p(),
                (-f.poisson).ln_1p(),
                (f.matched_intensity_pct as f64).ln_1p(),
                (f.longest_b as f64).ln_1p(),
                (f.longest_y as f64).ln_1p(),
                (f.peptide_len as f64).ln_1p(),
            ]
        })
        .collect();
    let fitted = score_psms(&mut feats, tol).is_some();
    if !fitted {
        for feat in feats.iter_mut() {
            feat.discriminant_score = (-feat.poisson as f32).ln_1p() + feat.longest_y_pct / 3.0;
        }
    }
    let mut o = Out::new();
    o.b(fitted).n(n);
    for (feat, a) in feats.iter().zip(&aux) {
        put32(&mut o, feat.discriminant_score);
        put32(&mut o, (-feat.poisson as f32).ln_1p());
        for &v in a {
            put64(&mut o, v);
        }
    }
    Some((bins, o.finish()))
}

struct TmpDir(std::path::PathBuf);
impl TmpDir {
    fn new() -> Self {
        static N: std::sync::atomic::AtomicUsize = std::sync::atomic::AtomicUsize::new(0);
        let k = N.fetch_add(1, std::sync::atomic::Ordering::SeqCst);
        let p = std::env::temp_dir().join(format!("verif-c15-{}-{}", std::process::id(), k));
        std::fs::create_dir_all(&p).expect("temp dir");
        TmpDir(p)
    }
}
impl Drop for TmpDir {
    fn drop(&mut self) {
        let _ = std::fs::remove_dir_all(&self.0);
    }
}

fn exec_fdrrun(t: &mut Toks) -> Option<String> {
    use sage_cli::input::Search;
    use sage_cli::runner::Runner;
    use sage_core::database::{Builder, EnzymeBuilder};
    let decoys = t.bool()?;
    let predict_rt = t.bool()?;
    let fasta = t.string()?;
    let mgf = t.string()?;
    // optional precursor tolerance: kind(0 = ppm, 1 = da) lo:f32 hi:f32 (default ppm -20..20)
    let precursor_tol = match t.usize() {
        None => Tolerance::Ppm(-20.0, 20.0),
        Some(kind) => {
            let lo = t.f32()?;
            let hi = t.f32()?;
            if kind == 0 { Tolerance::Ppm(lo, hi) } else { Tolerance::Da(lo, hi) }
        }
    };
    if !t.done() {
        return None;
    }
    let dir = TmpDir::new();
    let fasta_path = dir.0.join("db.fasta");
    std::fs::write(&fasta_path, fasta).ok()?;
    let mgf_path = dir.0.join("spectra.mgf");
    std::fs::write(&mgf_path, mgf).ok()?;
    let mut db = Builder { fasta: Some(fasta_path.to_string_lossy().to_string()), ..Default::default() }.make_parameters();
    db.enzyme = EnzymeBuilder { missed_cleavages: Some(0), min_len: Some(5), max_len: Some(50), ..Default::default() };
    db.peptide_min_mass = 300.0;
    db.peptide_max_mass = 6000.0;
    db.generate_decoys = decoys;
    let search = Search {
        version: "verif".into(),
        database: db,
        quant: Default::default(),
        precursor_tol,
        fragment_tol: Tolerance::Ppm(-10.0, 10.0),
        precursor_charge: (2, 4),
        override_precursor_charge: false,
        isotope_errors: (0, 0),
        deisotope: false,
        chimera: false,
        wide_window: false,
        min_peaks: 2,
        max_peaks: 150,
        max_fragment_charge: None,
        min_matched_peaks: 2,
        report_psms: 1,
        predict_rt,
        mzml_paths: vec![mgf_path.to_string_lossy().to_string()],
        output_paths: Vec::new(),
        bruker_config: Default::default(),
        output_directory: sage_cloudpath::CloudPath::Local(dir.0.clone()),
        write_pin: false,
        annotate_matches: false,
        score_type: sage_core::scoring::ScoreType::SageHyperScore,
    };
    let runner = match Runner::new(search, 1) {
        Ok(r) => r,
        Err(_) => return Some("err:runner_new".into()),
    };
    if in_pool(1, || runner.run(1, false)).is_err() {
        return Some("err:run".into());
    }
    let text = std::fs::read_to_string(dir.0.join("results.sage.tsv")).ok()?;
    let mut lines = text.lines();
    let header: Vec<&str> = lines.next()?.split('\t').collect();
    let col = |name: &str| header.iter().position(|h| *h == name);
    let (c_scan, c_rank, c_pep, c_label, c_poi, c_lyp, c_disc, c_q) = (
        col("scannr")?,
        col("rank")?,
        col("peptide")?,
        col("label")?,
        col("poisson")?,
        col("longest_y_pct")?,
        col("sage_discriminant_score")?,
        col("spectrum_q")?,
    );
    let mut rows: Vec<(String, u32, String, i32, f64, f32, f32, f32)> = Vec::new();
    for l in lines {
        let f: Vec<&str> = l.split('\t').collect();
        if f.len() != header.len() {
            return Some("err:tsv_row".into());
        }
        rows.push((
            f[c_scan].to_string(),
            f[c_rank].parse().ok()?,
            f[c_pep].to_string(),
            f[c_label].parse().ok()?,
            f[c_poi].parse().ok()?,
            f[c_lyp].parse().ok()?,
            f[c_disc].parse().ok()?,
            f[c_q].parse().ok()?,
        ));
    }
    rows.sort_by(|a, b| (&a.0, a.1, &a.2).cmp(&(&b.0, b.1, &b.2)));
    let mut o = Out::new();
    o.n(rows.len());
    for r in &rows {
        o.n(r.3);
        put64(&mut o, r.4);
        put32(&mut o, r.5);
        put32(&mut o, r.6);
        put32(&mut o, (-r.4 as f32).ln_1p());
        put32(&mut o, r.7);
    }
    Some(o.finish())
}

fn in_pool<R: Send>(threads: usize, f: impl FnOnce() -> R + Send) -> R {
    rayon::ThreadPoolBuilder::new()
        .num_threads(threads.max(1))
        .build()
        .expect("rayon pool")
        .install(f)
}

fn exec_ldabig(t: &mut Toks) -> Option<String> {
    let n = t.usize()?;
    let p = t.usize()?;
    if n > 200_000 || p > 16 {
        return None;
    }
    let mut f = Vec::with_capacity(n * p);
    for _ in 0..n * p {
        f.push(t.f64()?);
    }
    let mut decoy = Vec::with_capacity(n);
    for _ in 0..n {
        decoy.push(t.bool()?);
    }
    let mut perm = Vec::with_capacity(n);
    for _ in 0..n {
        let k = t.usize()?;
        if k >= n {
            return None;
        }
        perm.push(k);
    }
    let k = t.usize()?;
    if k == 0 || k > 8 {
        return None;
    }
    let mut pools = Vec::with_capacity(k);
    for _ in 0..k {
        let th = t.usize()?;
        if th == 0 || th > 64 {
            return None;
        }
        pools.push(th);
    }
    if !t.done() {
        return None;
    }
    let mut o = Out::new();
    for &th in &pools {
        in_pool(th, || train_dir(&mut o, &f, n, p, &decoy));
    }
    let mut f2 = Vec::with_capacity(n * p);
    let mut d2 = Vec::with_capacity(n);
    for &r in &perm {
        f2.extend_from_slice(&f[r * p..(r + 1) * p]);
        d2.push(decoy[r]);
    }
    in_pool(pools[0], || train_dir(&mut o, &f2, n, p, &d2));
    Some(o.finish())
}

fn exec_scorepsmst(t: &mut Toks) -> Option<String> {
    let th = t.usize()?;
    if th == 0 || th > 64 {
        return None;
    }
    in_pool(th, || exec_scorepsms(t))
}

pub fn exec(op: &str, t: &mut Toks) -> Option<String> {
    match op {
        "gauss" => exec_gauss(t),
        "lda" => exec_lda(t),
        "scorepsms" => exec_scorepsms(t),
        "ldabig" => exec_ldabig(t),
        "scorepsmst" => exec_scorepsmst(t),
        "fdrrun" => exec_fdrrun(t),
        "scorepsmstol" => exec_scorepsmstol(t),
        _ => None,
    }
}

// ------------------------------------------------------------------------------------------- gen

/// roughly normal(0,1)
fn gauss01(rng: &mut Rng) -> f64 {
    let mut s = 0.0;
    for _ in 0..6 {
        s += rng.unit();
    }
    (s - 3.0) * std::f64::consts::SQRT_2
}

/// keep `bits` fractional bits (keeps the exact-rational oracle cheap for part of the stream)
fn quant(x: f64, bits: i32) -> f64 {
    let s = (2.0f64).powi(bits);
    (x * s).round() / s
}

fn req_gauss(n: usize, m: usize, a: &[f64], b: &[f64]) -> String {
    let mut o = Out::new();
    o.raw("gauss").n(n).n(m);
    for &x in a {
        o.f64(x);
    }
    for &x in b {
        o.f64(x);
    }
    o.finish()
}

/// G'G (+ d on the diagonal) for a random r x n matrix G
fn gram(rng: &mut Rng, n: usize, r: usize, d: f64, integer: bool) -> Vec<f64> {
    let g: Vec<f64> = (0..r * n)
        .map(|_| if integer { rng.range(-3, 3) as f64 } else { quant(gauss01(rng), 20) })
        .collect();
    let mut a = vec![0.0; n * n];
    for i in 0..n {
        for j in 0..n {
            let mut s = 0.0;
            for k in 0..r {
                s += g[k * n + i] * g[k * n + j];
            }
            a[i * n + j] = s + if i == j { d } else { 0.0 };
        }
    }
    a
}

fn rand_rhs(rng: &mut Rng, n: usize, m: usize, integer: bool) -> Vec<f64> {
    (0..n * m)
        .map(|_| if integer { rng.range(-4, 4) as f64 } else { quant(gauss01(rng) * 3.0, 24) })
        .collect()
}

fn gen_gauss(rng: &mut Rng, tier: Tier, emit: &mut dyn FnMut(Case)) {
    let quick = tier == Tier::Quick;
    let nmax = if quick { 6 } else { 10 };
    // directed
    let w = [1e9, -1e9, -1e9, 1e9];
    emit(Case::new(req_gauss(2, 1, &w, &[1.0, 2.0])).tag("gauss").tag("witness-1e9-fixed"));
    emit(Case::new(req_gauss(2, 1, &[1e9, 1e9, 1e9, 1e9], &[1.0, 2.0])).tag("gauss").tag("ill-scaled-singular"));
    emit(Case::new(req_gauss(2, 2, &[1.0, 0.0, 0.0, 1.0], &[1.0, 2.0, 3.0, 4.0])).tag("gauss").tag("identity"));
    emit(Case::new(req_gauss(2, 1, &[0.0, 0.0, 0.0, 0.0], &[1.0, 2.0])).tag("gauss").tag("zero-matrix").nontrivial(false));
    emit(Case::new(req_gauss(1, 1, &[0.0], &[1.0])).tag("gauss").tag("zero-matrix").nontrivial(false));
    emit(Case::new(req_gauss(1, 1, &[4.0], &[2.0])).tag("gauss").tag("1x1").nontrivial(false));
    emit(Case::new(req_gauss(0, 0, &[], &[])).tag("gauss").tag("empty").nontrivial(false));
    emit(Case::new(req_gauss(2, 1, &[1.0, 0.0, 0.0, 0.0], &[1.0, 5.0])).tag("gauss").tag("singular-diagonal"));
    emit(Case::new(req_gauss(3, 1, &[2.0, 1.0, 0.0, 1.0, 2.0, 1.0, 0.0, 1.0, 2.0], &[1.0, 0.0, 1.0])).tag("gauss").tag("spd"));
    emit(Case::new(req_gauss(2, 1, &[1.0, 1.0, 1.0, 1.0], &[1.0, 1.0])).tag("gauss").tag("singular-consistent"));
    emit(Case::new(req_gauss(2, 1, &[1.0, 1.0, 1.0, 1.0], &[1.0, -1.0])).tag("gauss").tag("singular-inconsistent"));
    // a diagonal larger than its pivot column neighbour in magnitude but negative off-diagonals
    emit(Case::new(req_gauss(2, 1, &[1.0, -10.0, -10.0, 101.0], &[1.0, 1.0])).tag("gauss").tag("spd"));
    // tiny scale: everything below the regulariser
    emit(Case::new(req_gauss(2, 1, &[1e-12, 5e-13, 5e-13, 1e-12], &[1e-12, 2e-12])).tag("gauss").tag("tiny-scale"));

    // outside the property's quantifier (not symmetric PSD): model agreement only, spec `na`
    emit(Case::new(req_gauss(2, 1, &[-1e-8, 1.0, -1.0, 1.0], &[1.0, 2.0])).tag("gauss").tag("non-psd").tag("column-skip-quirk"));
    emit(Case::new(req_gauss(3, 1, &[1.0, 0.0, 0.0, 0.0, -1e-8, 1.0, 0.0, -1.0, 1.0], &[1.0, 2.0, 3.0])).tag("gauss").tag("non-psd").tag("column-skip-quirk"));
    emit(Case::new(req_gauss(2, 1, &[1.0, 0.0, 0.0, -1e-8], &[1.0, 5.0])).tag("gauss").tag("non-psd").tag("zero-row-accepted"));
    emit(Case::new(req_gauss(2, 1, &[f64::NAN, 1.0, 1.0, 2.0], &[1.0, 2.0])).tag("gauss").tag("non-finite-input").nontrivial(false));
    emit(Case::new(req_gauss(2, 1, &[1.0, f64::NAN, f64::NAN, 2.0], &[1.0, 2.0])).tag("gauss").tag("non-finite-input").nontrivial(false));
    emit(Case::new(req_gauss(2, 1, &[1.0, 0.5, 0.5, 2.0], &[f64::INFINITY, 2.0])).tag("gauss").tag("non-finite-input").nontrivial(false));
    emit(Case::new(req_gauss(3, 1, &[2.0, f64::NEG_INFINITY, 0.0, f64::NEG_INFINITY, 2.0, 0.0, 0.0, 0.0, 1.0], &[1.0, 2.0, 3.0])).tag("gauss").tag("non-finite-input").nontrivial(false));
    emit(Case::new(req_gauss(2, 1, &[1e200, 1e200, 1e200, 3e200], &[1e200, 1.0])).tag("gauss").tag("huge-scale"));

    // the tolerance of left_solved: exactly singular [[s, s t], [s t, s t^2]] with t = 2^-16, 2^-20, 2^-24 at
    // a scale that absorbs the first regulariser: the eliminated left side is [[1, t], [0, 0]], which
    // left_solved must reject for t > 1e-8 (a larger tolerance returns the unsolved right side)
    for &(ls, lt) in &[(60i32, 16i32), (68, 20), (76, 24), (82, 27)] {
        let (sv, tv) = (2f64.powi(ls), 2f64.powi(-lt));
        emit(Case::new(req_gauss(2, 1, &[sv, sv * tv, sv * tv, sv * tv * tv], &[1.0, 3.0])).tag("gauss").tag("left-solved-tolerance"));
    }
    // right-hand sides wider and narrower than A (seeded change C15-F: a loop over the right side
    // bounded by left.cols): SPD, well-conditioned, so the strict first-regulariser clause judges them
    for &(n, m) in &[(3usize, 5usize), (4, 2), (2, 6), (5, 1), (1, 4), (6, 3), (3, 7)] {
        for integer in [true, false] {
            let a = gram(rng, n, n + 2, 1.0, integer);
            let b = rand_rhs(rng, n, m, integer);
            emit(Case::new(req_gauss(n, m, &a, &b)).tag("gauss").tag("spd").tag(if m > n { "rhs-wider" } else { "rhs-narrower" }).nontrivial(n >= 2));
        }
    }

    let reps = if quick { 60 } else { 1500 };
    for _ in 0..reps {
        // general (non-symmetric / indefinite) systems: row swaps, negative pivots
        {
            let n = 1 + rng.below(nmax.min(6));
            let integer = rng.chance(1, 2);
            let a: Vec<f64> = (0..n * n).map(|_| if integer { rng.range(-3, 3) as f64 } else { quant(gauss01(rng), 12) }).collect();
            let b = rand_rhs(rng, n, 1, integer);
            emit(Case::new(req_gauss(n, 1, &a, &b)).tag("gauss").tag("non-psd").tag("general-nonsymmetric").nontrivial(n >= 2));
        }
        let n = 1 + rng.below(nmax);
        let m = if rng.chance(1, 4) { n } else { 1 + rng.below(3) };
        // SPD
        let d = *rng.pick(&[1.0, 0.1, 1e-3, 1e-6]);
        let r0 = n + rng.below(3);
        let a = gram(rng, n, r0, d, false);
        let b = rand_rhs(rng, n, m, false);
        emit(Case::new(req_gauss(n, m, &a, &b)).tag("gauss").tag("spd").nontrivial(n >= 2));
        // nearly singular PSD (rank r < n, float rounded)
        if n >= 2 {
            let r = 1 + rng.below(n - 1);
            let a = gram(rng, n, r, 0.0, false);
            let b = rand_rhs(rng, n, m, false);
            emit(Case::new(req_gauss(n, m, &a, &b)).tag("gauss").tag("psd-rank-deficient"));
            // exactly singular (integers)
            let a = gram(rng, n, r, 0.0, true);
            let b = rand_rhs(rng, n, m, true);
            emit(Case::new(req_gauss(n, m, &a, &b)).tag("gauss").tag("psd-singular-exact"));
            // exactly singular, consistent right-hand side B = A Y
            let y = rand_rhs(rng, n, m, true);
            let mut b2 = vec![0.0; n * m];
            for i in 0..n {
                for c in 0..m {
                    for k in 0..n {
                        b2[i * m + c] += a[i * n + k] * y[k * m + c];
                    }
                }
            }
            emit(Case::new(req_gauss(n, m, &a, &b2)).tag("gauss").tag("psd-singular-consistent"));
        }
        // ill-scaled D A D
        let d0 = *rng.pick(&[1.0, 1e-2, 0.0]);
        let int0 = rng.chance(1, 3);
        let base = gram(rng, n, n + 1, d0, int0);
        let ds: Vec<f64> = (0..n).map(|_| 10f64.powi(rng.range(-6, 9) as i32)).collect();
        let mut a = base.clone();
        for i in 0..n {
            for j in i..n {
                a[i * n + j] = base[i * n + j] * ds[i] * ds[j];
                a[j * n + i] = a[i * n + j];
            }
        }
        let b = rand_rhs(rng, n, m, false);
        emit(Case::new(req_gauss(n, m, &a, &b)).tag("gauss").tag("ill-scaled").nontrivial(n >= 2));
        // uniformly large / small scale
        // (exactly singular at 1e9 / 1e12: formerly the known finding C15-silently-wrong-singular-illscaled, repaired with the pivot rule)
        let r1 = if rng.chance(1, 2) { n } else { 1.max(n - 1) };
        let s = *rng.pick(&[1e9, 1e12, 1e-9, 1e5]);
        let a: Vec<f64> = gram(rng, n, r1, 0.0, true).iter().map(|x| x * s).collect();
        let b = rand_rhs(rng, n, m, true);
        emit(Case::new(req_gauss(n, m, &a, &b)).tag("gauss").tag("uniform-scale").nontrivial(n >= 2));
        // diagonal with zeros
        let mut a = vec![0.0; n * n];
        for i in 0..n {
            a[i * n + i] = if rng.chance(1, 3) { 0.0 } else { quant(rng.unit() * 4.0, 10) };
        }
        let b = rand_rhs(rng, n, m, true);
        emit(Case::new(req_gauss(n, m, &a, &b)).tag("gauss").tag("diagonal").nontrivial(n >= 2));
        // Hilbert-like (ill-conditioned SPD)
        if n >= 2 {
            let mut a = vec![0.0; n * n];
            for i in 0..n {
                for j in 0..n {
                    a[i * n + j] = 1.0 / ((i + j + 1) as f64);
                }
            }
            let b = rand_rhs(rng, n, m, true);
            emit(Case::new(req_gauss(n, m, &a, &b)).tag("gauss").tag("hilbert"));
        }
    }
}

fn req_lda(n: usize, p: usize, f: &[f64], decoy: &[bool], perm: &[usize]) -> String {
    let mut o = Out::new();
    o.raw("lda").n(n).n(p);
    for &x in f {
        o.f64(x);
    }
    for &d in decoy {
        o.b(d);
    }
    for &k in perm {
        o.n(k);
    }
    o.finish()
}

#[derive(Copy, Clone, PartialEq, Debug)]
enum Variant {
    Plain,
    ConstCol,
    ClassConstCol,
    Collinear,
    Scales,
    Integer,
    Duplicates,
    /// one or two columns carry a large common offset (unit spread): well-conditioned after centring
    Offset(f64),
    /// one column is `1 + 1e-6 * (unit-spread value)`: tiny scale riding on an offset of 1
    SmallScaleOffset,
}

/// a labelled feature matrix; `None` when the draw is degenerate in a way the generator avoids
/// on purpose (power-method start almost orthogonal to the class-mean difference)
fn draw_lda(rng: &mut Rng, n: usize, p: usize, v: Variant, nd: usize) -> Option<(Vec<f64>, Vec<bool>)> {
    let mut decoy: Vec<bool> = (0..n).map(|i| i < nd).collect();
    rng.shuffle(&mut decoy);
    // half of the draws give the DECOY class the higher means, so that the power method comes out
    // pointing the wrong way and the final sign flip of train() is what orients the direction
    let inverted = rng.chance(1, 2);
    let integer = v == Variant::Integer;
    let mt: Vec<f64> = (0..p).map(|_| if integer { rng.range(2, 6) as f64 } else { 2.0 + 2.0 * rng.unit() }).collect();
    let md: Vec<f64> = (0..p).map(|_| if integer { rng.range(0, 4) as f64 } else { 1.0 + 2.0 * rng.unit() }).collect();
    let mut f = vec![0.0; n * p];
    for i in 0..n {
        for j in 0..p {
            let mu = if decoy[i] != inverted { md[j] } else { mt[j] };
            f[i * p + j] = if integer { mu + rng.range(-2, 2) as f64 } else { quant(mu + 0.7 * gauss01(rng), 16) };
        }
    }
    match v {
        Variant::ConstCol => {
            let j = rng.below(p);
            let c = *rng.pick(&[0.0, 1.0, 2.5, -0.0]);
            for i in 0..n {
                f[i * p + j] = c;
            }
        }
        Variant::ClassConstCol => {
            let j = rng.below(p);
            for i in 0..n {
                f[i * p + j] = if decoy[i] { 1.0 } else { 2.0 };
            }
        }
        Variant::Collinear if p >= 2 => {
            let j = rng.below(p);
            let k = (j + 1 + rng.below(p - 1)) % p;
            let (s, c) = (*rng.pick(&[2.0, -1.0, 0.5]), *rng.pick(&[0.0, 1.0]));
            for i in 0..n {
                f[i * p + k] = s * f[i * p + j] + c;
            }
        }
        Variant::Scales => {
            for j in 0..p {
                let s = 10f64.powi(rng.range(-3, 6) as i32);
                for i in 0..n {
                    f[i * p + j] *= s;
                }
            }
        }
        Variant::Offset(off) => {
            // the offset is added exactly (values are multiples of 2^-16 below 2^4; 1e9 needs 30 bits)
            let j = rng.below(p);
            let two = p >= 2 && rng.chance(1, 3);
            let k = (j + 1) % p;
            for i in 0..n {
                f[i * p + j] += off;
                if two {
                    f[i * p + k] -= off;
                }
            }
        }
        Variant::SmallScaleOffset => {
            let j = rng.below(p);
            for i in 0..n {
                f[i * p + j] = 1.0 + 1e-6 * f[i * p + j];
            }
        }
        Variant::Duplicates => {
            for i in 1..n {
                if rng.chance(1, 2) {
                    // copy an earlier row of the same class
                    if let Some(k) = (0..i).find(|&k| decoy[k] == decoy[i]) {
                        for j in 0..p {
                            f[i * p + j] = f[k * p + j];
                        }
                    }
                }
            }
        }
        _ => {}
    }
    // avoid starts (overall mean) nearly orthogonal to the class-mean difference: reported separately
    let (nt, ndc) = (decoy.iter().filter(|&&d| !d).count(), decoy.iter().filter(|&&d| d).count());
    if nt > 0 && ndc > 0 {
        let mut xb = vec![0.0; p];
        let mut dd = vec![0.0; p];
        for i in 0..n {
            for j in 0..p {
                xb[j] += f[i * p + j] / n as f64;
                dd[j] += if decoy[i] { -f[i * p + j] / ndc as f64 } else { f[i * p + j] / nt as f64 };
            }
        }
        let dot: f64 = xb.iter().zip(&dd).map(|(a, b)| a * b).sum();
        let na: f64 = xb.iter().map(|a| a * a).sum::<f64>().sqrt();
        let nb: f64 = dd.iter().map(|a| a * a).sum::<f64>().sqrt();
        if na > 0.0 && nb > 0.0 && (dot / (na * nb)).abs() < 1e-2 {
            return None;
        }
    }
    Some((f, decoy))
}

fn all_perms(n: usize) -> Vec<Vec<usize>> {
    fn rec(cur: &mut Vec<usize>, used: &mut Vec<bool>, n: usize, out: &mut Vec<Vec<usize>>) {
        if cur.len() == n {
            out.push(cur.clone());
            return;
        }
        for i in 0..n {
            if !used[i] {
                used[i] = true;
                cur.push(i);
                rec(cur, used, n, out);
                cur.pop();
                used[i] = false;
            }
        }
    }
    let mut out = vec![];
    rec(&mut vec![], &mut vec![false; n], n, &mut out);
    out
}

fn gen_lda(rng: &mut Rng, tier: Tier, emit: &mut dyn FnMut(Case)) {
    let quick = tier == Tier::Quick;
    // the unit test of linear_discriminant.rs
    #[rustfmt::skip]
    let feats = [5., 4., 3., 2., 4., 5., 4., 3., 6., 3., 4., 5., 1., 0., 2., 9., 5., 4., 4., 3., 2., 1., 1., 9.5, 1., 0., 2., 8., 3., 2., -2., 10.];
    let lab = [false, false, false, true, false, true, true, true];
    let id8: Vec<usize> = (0..8).collect();
    emit(Case::new(req_lda(8, 4, &feats, &lab, &id8)).tag("lda").tag("unit-test-example"));
    let rev8: Vec<usize> = (0..8).rev().collect();
    emit(Case::new(req_lda(8, 4, &feats, &lab, &rev8)).tag("lda").tag("unit-test-example").tag("perm-random"));

    // all permutations of small inputs
    let (pn, pk) = if quick { (4usize, 3usize) } else { (6usize, 4usize) };
    for n in 2..=pn {
        for rep in 0..pk {
            let p = 1 + (rep % 3);
            let v = *rng.pick(&[Variant::Integer, Variant::Plain]);
            let nd = 1 + rng.below(n - 1);
            if let Some((f, d)) = draw_lda(rng, n, p, v, nd) {
                for perm in all_perms(n) {
                    emit(Case::new(req_lda(n, p, &f, &d, &perm)).tag("lda").tag("perm-all-small").nontrivial(p >= 2));
                }
            }
        }
    }

    let reps = if quick { 40 } else { 1200 };
    let (nmax, pmax) = if quick { (30usize, 5usize) } else { (200usize, 8usize) };
    let variants = [
        (Variant::Plain, "well-conditioned"),
        (Variant::ConstCol, "constant-column"),
        (Variant::ClassConstCol, "classwise-constant-column"),
        (Variant::Collinear, "collinear-columns"),
        (Variant::Scales, "column-scales"),
        (Variant::Integer, "integer-data"),
        (Variant::Duplicates, "duplicate-rows"),
    ];
    for _ in 0..reps {
        for &(v, tag) in &variants {
            let n = 2 + rng.below(nmax - 1);
            let p = 1 + rng.below(pmax);
            let nd = match rng.below(10) {
                0 => 1,
                1 => n - 1,
                _ => 1 + rng.below(n - 1),
            };
            if let Some((f, d)) = draw_lda(rng, n, p, v, nd) {
                let mut perm: Vec<usize> = (0..n).collect();
                let shuffled = rng.chance(3, 4);
                if shuffled {
                    rng.shuffle(&mut perm);
                }
                emit(Case::new(req_lda(n, p, &f, &d, &perm))
                    .tag("lda")
                    .tag(tag)
                    .tag_if(shuffled, "perm-random")
                    .tag_if(nd == 1 || nd == n - 1, "single-row-class")
                    .nontrivial(p >= 2));
            }
        }
        // one class empty
        let n = 1 + rng.below(8);
        let p = 1 + rng.below(3);
        if let Some((f, _)) = draw_lda(rng, n, p, Variant::Plain, 0) {
            let all = rng.chance(1, 2);
            let d = vec![all; n];
            let perm: Vec<usize> = (0..n).collect();
            emit(Case::new(req_lda(n, p, &f, &d, &perm)).tag("lda").tag("one-class-empty").nontrivial(false));
        }
    }
    // the width score_psms uses (20 features), thorough tier only (exact 20x20 rational inverse per case)
    if !quick {
        for _ in 0..12 {
            let n = 40 + rng.below(60);
            let v = *rng.pick(&[Variant::Plain, Variant::ConstCol, Variant::Scales]);
            let nd = 5 + rng.below(n - 10);
            if let Some((f, d)) = draw_lda(rng, n, 20, v, nd) {
                let mut perm: Vec<usize> = (0..n).collect();
                rng.shuffle(&mut perm);
                emit(Case::new(req_lda(n, 20, &f, &d, &perm)).tag("lda").tag("twenty-features").tag("perm-random"));
            }
        }
    }
    // large-offset: matrices that are well-conditioned after centring, with one or two columns carrying a
    // common offset of 1e3 / 1e6 / 1e9 (unit spread) or a column 1 + 1e-6 * value; both classes well
    // populated; the row order is always shuffled (row-permutation clause)
    let off_reps = if quick { 8 } else { 150 };
    for _ in 0..off_reps {
        for &(v, tag) in &[
            (Variant::Offset(1e3), "offset-1e3"),
            (Variant::Offset(1e6), "offset-1e6"),
            (Variant::Offset(1e9), "offset-1e9"),
            (Variant::SmallScaleOffset, "scale-1e-6-offset-1"),
        ] {
            let n = 20 + rng.below(41);
            let p = 2 + rng.below(3);
            let nd = n / 4 + rng.below(n / 2);
            if let Some((f, d)) = draw_lda(rng, n, p, v, nd) {
                let mut perm: Vec<usize> = (0..n).collect();
                rng.shuffle(&mut perm);
                emit(Case::new(req_lda(n, p, &f, &d, &perm)).tag("lda").tag("large-offset").tag(tag).tag("perm-random"));
            }
        }
    }
    // the demo of seeded change C15-E: 60 rows x 3 features, first column offset by 1e9
    {
        let mut r = Rng::new(0xC15E);
        if let Some((f, d)) = draw_lda(&mut r, 60, 3, Variant::Plain, 25) {
            let f: Vec<f64> = f.iter().enumerate().map(|(i, x)| if i % 3 == 0 { x + 1e9 } else { *x }).collect();
            let perm: Vec<usize> = (0..60).rev().collect();
            emit(Case::new(req_lda(60, 3, &f, &d, &perm)).tag("lda").tag("large-offset").tag("offset-1e9").tag("perm-random"));
        }
    }
    // zero rows / zero features
    emit(Case::new(req_lda(0, 2, &[], &[], &[])).tag("lda").tag("empty").nontrivial(false));
    emit(Case::new(req_lda(2, 0, &[], &[true, false], &[1, 0])).tag("lda").tag("empty").nontrivial(false));
    // overall mean zero: the power method starts from 0/0
    emit(Case::new(req_lda(4, 2, &[1., 2., -1., -2., 3., 1., -3., -1.], &[true, false, false, true], &[0, 1, 2, 3]))
        .tag("lda")
        .tag("zero-overall-mean"));
}

#[derive(Clone, Copy)]
struct Psm {
    label: i32,
    rank: u32,
    charge: u8,
    hyperscore: f64,
    delta_next: f64,
    delta_best: f64,
    delta_mass: f32,
    isotope_error: f32,
    average_ppm: f32,
    poisson: f64,
    matched_intensity_pct: f32,
    matched_peaks: u32,
    longest_b: u32,
    longest_y: u32,
    peptide_len: usize,
    missed_cleavages: u8,
    aligned_rt: f32,
    ims: f32,
    delta_rt_model: f32,
    delta_ims_model: f32,
    longest_y_pct: f32,
}

fn draw_psm(rng: &mut Rng, decoy: bool, with_ims: bool) -> Psm {
    let good = !decoy && rng.chance(2, 3);
    let peptide_len = 7 + rng.below(24);
    let longest_y = if good { 2 + rng.below(peptide_len - 2) } else { rng.below(4) } as u32;
    let longest_b = if good { 1 + rng.below(peptide_len / 2) } else { rng.below(3) } as u32;
    let matched = longest_y + longest_b + rng.below(4) as u32;
    let hyperscore = if good { 25.0 + 30.0 * rng.unit() } else { 8.0 + 14.0 * rng.unit() };
    let best = hyperscore + if rng.chance(1, 3) { 5.0 * rng.unit() } else { 0.0 };
    Psm {
        label: if decoy { -1 } else { 1 },
        rank: 1 + rng.below(2) as u32,
        charge: 2 + rng.below(3) as u8,
        hyperscore,
        delta_next: hyperscore * rng.unit() * 0.5,
        delta_best: best - hyperscore,
        delta_mass: (gauss01(rng) * if good { 2.0 } else { 6.0 }) as f32,
        isotope_error: if rng.chance(1, 5) { 1.00335 } else { 0.0 },
        average_ppm: (gauss01(rng) * 4.0) as f32,
        poisson: -(if good { 4.0 + 12.0 * rng.unit() } else { 0.3 + 3.0 * rng.unit() }),
        matched_intensity_pct: (if good { 20.0 + 60.0 * rng.unit() } else { 15.0 * rng.unit() }) as f32,
        matched_peaks: matched,
        longest_b,
        longest_y,
        peptide_len,
        missed_cleavages: rng.below(3) as u8,
        aligned_rt: rng.unit() as f32,
        ims: if with_ims { (0.6 + 0.6 * rng.unit()) as f32 } else { 0.0 },
        delta_rt_model: (rng.unit() * if good { 0.1 } else { 0.8 }) as f32,
        delta_ims_model: if with_ims { (rng.unit() * 0.2) as f32 } else { 0.0 },
        longest_y_pct: longest_y as f32 / peptide_len as f32,
    }
}

fn req_psms(ps: &[Psm]) -> String {
    let mut o = Out::new();
    o.raw("scorepsms").n(ps.len());
    for q in ps {
        o.n(q.label).n(q.rank).n(q.charge).f64(q.hyperscore).f64(q.delta_next).f64(q.delta_best);
        o.f32(q.delta_mass).f32(q.isotope_error).f32(q.average_ppm).f64(q.poisson).f32(q.matched_intensity_pct);
        o.n(q.matched_peaks).n(q.longest_b).n(q.longest_y).n(q.peptide_len).n(q.missed_cleavages);
        o.f32(q.aligned_rt).f32(q.ims).f32(q.delta_rt_model).f32(q.delta_ims_model).f32(q.longest_y_pct);
    }
    o.finish()
}

fn gen_psms(rng: &mut Rng, tier: Tier, emit: &mut dyn FnMut(Case)) {
    let quick = tier == Tier::Quick;
    let reps = if quick { 25 } else { 400 };
    let nmax = if quick { 80 } else { 400 };
    let mut guarded_budget = if quick { 4 } else { 60 };
    let mut tol_budget = if quick { 1 } else { 30 };
    for _ in 0..reps {
        let n = 4 + rng.below(nmax - 3);
        let with_ims = rng.chance(1, 3);
        let rate = *rng.pick(&[10u32, 30, 50]);
        let mut ps: Vec<Psm> = (0..n).map(|_| { let d = rng.chance(rate, 100); draw_psm(rng, d, with_ims) }).collect();
        ps[0].label = 1;
        ps[1].label = -1;
        ps[2].label = 1;
        ps[3].label = -1;
        emit(Case::new(req_psms(&ps)).tag("scorepsms").tag("realistic"));
        // small realistic sets (few PSMs per class; every class has at least two members)
        for _ in 0..2 {
            let n = 6 + rng.below(14);
            let mut small: Vec<Psm> = (0..n).map(|i| draw_psm(rng, i % 3 == 1, with_ims)).collect();
            if rng.chance(1, 2) {
                // constant charge / rank columns, as in a single-charge-state run
                for q in small.iter_mut() {
                    q.charge = 2;
                    q.rank = 1;
                }
            }
            rng.shuffle(&mut small);
            emit(Case::new(req_psms(&small)).tag("scorepsms").tag("realistic").tag("small-set"));
        }
        // nonfinite-feature-guarded: an ordinary, clearly fittable set in which 1..3 records carry a value
        // that the feature transform of score_psms guards (poisson: `x if x.is_finite() => x, _ => 3.5`
        // on ln_1p(-poisson); delta_rt_model / delta_ims_model: clamp(0.001, 0.999) before sqrt).
        // The guard replaces the value, so the model must be fitted and every score finite.
        if guarded_budget > 0 {
            guarded_budget -= 1;
            for variant in 0..14usize {
                let n = 40 + rng.below(30);
                let ims = with_ims || variant >= 9;
                let mut set: Vec<Psm> = (0..n).map(|i| draw_psm(rng, i % 3 == 0, ims)).collect();
                rng.shuffle(&mut set);
                let cnt = 1 + rng.below(3);
                for _ in 0..cnt {
                    let k = rng.below(n);
                    match variant {
                        0 => set[k].poisson = f64::NEG_INFINITY,
                        1 => set[k].poisson = f64::INFINITY,
                        2 => set[k].poisson = f64::NAN,
                        3 => set[k].poisson = 2.5, // ln_1p(-2.5) = NaN
                        4 => set[k].poisson = 1.0, // ln_1p(-1) = -inf
                        5 => set[k].delta_rt_model = f32::INFINITY,
                        6 => set[k].delta_rt_model = f32::NEG_INFINITY,
                        7 => set[k].delta_rt_model = -0.5, // sqrt would be NaN without the clamp
                        8 => set[k].delta_rt_model = 7.0,
                        9 => set[k].delta_ims_model = f32::INFINITY,
                        10 => set[k].delta_ims_model = f32::NEG_INFINITY,
                        11 => set[k].delta_ims_model = -0.25,
                        12 => {
                            set[k].poisson = f64::NEG_INFINITY;
                            set[k].delta_rt_model = f32::INFINITY;
                        }
                        _ => set[k].poisson = -1e300, // finite but huge: ln_1p(1e300) = 690.8, no guard needed
                    }
                }
                emit(Case::new(req_psms(&set))
                    .tag("scorepsms")
                    .tag("nonfinite-feature-guarded")
                    .tag_if(variant <= 4 || variant == 12, "guarded-poisson")
                    .tag_if((5..=8).contains(&variant) || variant == 12, "guarded-delta-rt")
                    .tag_if((9..=11).contains(&variant), "guarded-delta-ims"));
            }
        }
        // precursor tolerance varied (op scorepsmstol): the bin count / bandwidth factor of the mass-error KDE
        // depend on it (ppm: max(hi-lo, 100) bins, 2x; da: max(hi-lo, 1000) bins, 0.1x); fittable sets
        if tol_budget > 0 {
            tol_budget -= 1;
            let tols: [(usize, f32, f32); 10] = [
                (0, -10.0, 10.0), (0, -50.0, 50.0), (0, -5.0, 20.0), (0, -500.0, 500.0), (0, -1.0, 1.0),
                (1, -0.005, 0.005), (1, -0.5, 0.5), (1, -500.0, 100.0), (1, -3.5, 1.5), (1, -0.25, 0.75),
            ];
            for &(kind, lo, hi) in &tols {
                let n = 30 + rng.below(40);
                let mut set: Vec<Psm> = (0..n).map(|i| draw_psm(rng, i % 3 == 0, with_ims)).collect();
                rng.shuffle(&mut set);
                let mut o = Out::new();
                o.raw("scorepsmstol").n(kind).f32(lo).f32(hi);
                let req = format!("{} {}", o.finish(), req_psms(&set).strip_prefix("scorepsms ").unwrap());
                emit(Case::new(req)
                    .tag("scorepsmstol")
                    .tag("tolerance-varied")
                    .tag(if kind == 0 { "ppm-tolerance" } else if hi - lo <= 1.0 { "da-tolerance-narrow" } else { "da-tolerance" }));
            }
        }
        // two decoys among targets
        {
            let n = 8 + rng.below(20);
            let mut few: Vec<Psm> = (0..n).map(|i| draw_psm(rng, i < 2, with_ims)).collect();
            rng.shuffle(&mut few);
            emit(Case::new(req_psms(&few)).tag("scorepsms").tag("two-decoys"));
        }
        // one class empty
        let keep = if rng.chance(1, 2) { 1 } else { -1 };
        let one: Vec<Psm> = ps.into_iter().filter(|q| q.label == keep).collect();
        emit(Case::new(req_psms(&one)).tag("scorepsms").tag("one-class-empty").nontrivial(false));
        // a non-finite field in one record
        let n = 6 + rng.below(30);
        let mut ps: Vec<Psm> = (0..n).map(|i| draw_psm(rng, i % 3 == 0, with_ims)).collect();
        let k = rng.below(n);
        let which = rng.below(6);
        match which {
            0 => ps[k].hyperscore = f64::NAN,
            1 => ps[k].delta_next = f64::NAN,
            2 => ps[k].average_ppm = f32::NAN,
            3 => ps[k].delta_rt_model = f32::NAN,
            4 => ps[k].hyperscore = f64::INFINITY,
            _ => ps[k].aligned_rt = f32::INFINITY,
        }
        emit(Case::new(req_psms(&ps)).tag("scorepsms").tag("non-finite-feature"));
        // hyperscore below -1: ln_1p gives NaN
        let mut ps: Vec<Psm> = (0..n).map(|i| draw_psm(rng, i % 2 == 0, with_ims)).collect();
        ps[k].hyperscore = -1.5;
        emit(Case::new(req_psms(&ps)).tag("scorepsms").tag("ln1p-domain"));
        // single decoy / single target
        let mut ps: Vec<Psm> = (0..n).map(|_| draw_psm(rng, false, with_ims)).collect();
        ps[k] = draw_psm(rng, true, with_ims);
        emit(Case::new(req_psms(&ps)).tag("scorepsms").tag("single-decoy"));
        // identical records (all features constant)
        let one = draw_psm(rng, false, with_ims);
        let mut o: Vec<Psm> = Vec::new();
        for i in 0..(4 + rng.below(6)) {
            o.push(Psm { label: if i % 2 == 0 { 1 } else { -1 }, ..one });
        }
        emit(Case::new(req_psms(&o)).tag("scorepsms").tag("identical-records"));
    }
    emit(Case::new(req_psms(&[])).tag("scorepsms").tag("empty").nontrivial(false));
    let mut r = rng.fork();
    emit(Case::new(req_psms(&[draw_psm(&mut r, false, false)])).tag("scorepsms").tag("single-record").nontrivial(false));
    emit(Case::new(req_psms(&[draw_psm(&mut r, false, false), draw_psm(&mut r, true, false)])).tag("scorepsms").tag("two-records"));
}

/// Small default-on streams of the three KNOWN finding families (known_findings.json:
/// C15-silently-wrong-singular-illscaled, C15-start-orthogonal, C15-tiny-scale-early-stop) and of the
/// two observation families (spurious solver failure on block-diagonal SPD: verdict ok; fallback with
/// poisson = -inf, which scoring.rs can no longer produce: verdict na).
fn gen_finding_families(rng: &mut Rng, tier: Tier, emit: &mut dyn FnMut(Case)) {
    let reps = if tier == Tier::Quick { 12 } else { 150 };
    for _ in 0..reps {
        // block-diagonal SPD: an SPD block + an uncoupled positive diagonal entry (exact zeros)
        let n = 2 + rng.below(4);
        let blk = gram(rng, n, n + 1, 0.5, true);
        let mut a = vec![0.0; (n + 1) * (n + 1)];
        for i in 0..n {
            for j in 0..n {
                a[i * (n + 1) + j] = blk[i * n + j];
            }
        }
        a[n * (n + 1) + n] = 1.0 + rng.below(3) as f64;
        let b = rand_rhs(rng, n + 1, 1, true);
        emit(Case::new(req_gauss(n + 1, 1, &a, &b)).tag("gauss").tag("regression").tag("block-diagonal-spd"));
        // exactly singular integer PSD matrix at a scale that absorbs the first regularisers
        let n2 = 2 + rng.below(4);
        let s2 = *rng.pick(&[1e9, 1e12]);
        let a2: Vec<f64> = gram(rng, n2, n2 - 1, 0.0, true).iter().map(|x| x * s2).collect();
        let b2 = rand_rhs(rng, n2, 1, true);
        emit(Case::new(req_gauss(n2, 1, &a2, &b2)).tag("gauss").tag("regression").tag("singular-psd-huge-scale"));
        // non-singular SPD integer matrices whose first elimination step leaves an exact zero next to a
        // negative entry in column 1 (so the regulariser-made entry becomes the pivot), at scale 1e5..1e9
        {
            let sg = if rng.chance(1, 2) { 1.0 } else { -1.0 };
            let c = 2.0 + rng.below(5) as f64;
            let base: [f64; 9] = if rng.chance(1, 2) {
                [1.0, 2.0, sg, 2.0, 6.0, 3.0 * sg, sg, 3.0 * sg, c]
            } else {
                [2.0, 3.0, sg, 3.0, 6.0, 2.0 * sg, sg, 2.0 * sg, c - 1.0]
            };
            let s3 = *rng.pick(&[1e5, 1e6, 1e9]);
            let a3: Vec<f64> = base.iter().map(|x| x * s3).collect();
            let b3 = rand_rhs(rng, 3, 1, true);
            emit(Case::new(req_gauss(3, 1, &a3, &b3)).tag("gauss").tag("regression").tag("tiny-pivot"));
        }
        // LDA with the overall mean orthogonal to the class-mean difference (mirror-symmetric classes)
        let k = 2 + rng.below(4);
        let mut f = Vec::new();
        let mut d = Vec::new();
        for _ in 0..k {
            let (x, y) = (rng.range(3, 7) as f64, rng.range(0, 2) as f64);
            f.extend_from_slice(&[x, y]);
            d.push(false);
            f.extend_from_slice(&[y, x]);
            d.push(true);
        }
        let perm: Vec<usize> = (0..2 * k).collect();
        emit(Case::new(req_lda(2 * k, 2, &f, &d, &perm)).tag("lda").tag("known-finding-family").tag("start-orthogonal"));
        // LDA on features of order 1e-9
        if let Some((f, d)) = draw_lda(rng, 12, 2, Variant::Plain, 5) {
            let f: Vec<f64> = f.iter().map(|x| x * 1e-9).collect();
            let perm: Vec<usize> = (0..12).collect();
            emit(Case::new(req_lda(12, 2, &f, &d, &perm)).tag("lda").tag("known-finding-family").tag("tiny-scale"));
        }
        // forced fallback with poisson = -inf
        let mut ps: Vec<Psm> = (0..3 + rng.below(5)).map(|_| draw_psm(rng, false, false)).collect();
        ps[0].poisson = f64::NEG_INFINITY;
        emit(Case::new(req_psms(&ps)).tag("scorepsms").tag("observation").tag("fallback-neg-inf-poisson").nontrivial(false));
    }
}

#[derive(Copy, Clone, PartialEq, Debug)]
enum BigOrder {
    ByFeature,
    ByLabel,
    Shuffled,
}

/// a large two-class table with values on the grid 2^-8 (so that the exact rational statistics stay
/// small): column j = 3 + j + class shift + unit noise; `weak` = class shift of 0.02 sd in total (so that the dominant eigenvalue of S_w^-1 S_b is ~1e-4: far above
/// the absolute 1e-8 stopping threshold of power_method, but below it if anything divides it by the row count), else ~1 sd
fn draw_big(rng: &mut Rng, nt: usize, nd: usize, p: usize, weak: bool, order: BigOrder) -> (Vec<f64>, Vec<bool>) {
    let n = nt + nd;
    let shift: Vec<f64> = (0..p).map(|j| if weak { 0.02 / (p as f64).sqrt() * (1.0 + 0.1 * j as f64) } else { 0.8 + 0.3 * rng.unit() }).collect();
    let mut rows: Vec<(Vec<f64>, bool)> = (0..n)
        .map(|i| {
            let decoy = i >= nt;
            let r: Vec<f64> = (0..p)
                .map(|j| quant(3.0 + j as f64 + if decoy { 0.0 } else { shift[j] } + gauss01(rng), 8))
                .collect();
            (r, decoy)
        })
        .collect();
    match order {
        BigOrder::ByFeature => rows.sort_by(|a, b| a.0[0].total_cmp(&b.0[0])),
        BigOrder::ByLabel => rows.sort_by(|a, b| a.1.cmp(&b.1).then(a.0[p - 1].total_cmp(&b.0[p - 1]))),
        BigOrder::Shuffled => rng.shuffle(&mut rows),
    }
    let mut f = Vec::with_capacity(n * p);
    let mut d = Vec::with_capacity(n);
    for (r, dec) in rows {
        f.extend_from_slice(&r);
        d.push(dec);
    }
    (f, d)
}

fn req_ldabig(n: usize, p: usize, f: &[f64], decoy: &[bool], perm: &[usize], pools: &[usize]) -> String {
    let mut o = Out::new();
    o.raw("ldabig").n(n).n(p);
    for &x in f {
        o.f64(x);
    }
    for &d in decoy {
        o.b(d);
    }
    for &k in perm {
        o.n(k);
    }
    o.n(pools.len());
    for &t in pools {
        o.n(t);
    }
    o.finish()
}

/// large tables (more than 1024 rows in the table or in one class), run inside explicit rayon pools:
/// the statistics of `train` must not depend on how a pool would split the rows
fn gen_big(rng: &mut Rng, tier: Tier, emit: &mut dyn FnMut(Case)) {
    let quick = tier == Tier::Quick;
    let pools_q: &[usize] = &[1, 4];
    let pools_t: &[usize] = &[1, 2, 4, 16];
    let pools = if quick { pools_q } else { pools_t };
    let mut one = |rng: &mut Rng, nt: usize, nd: usize, p: usize, weak: bool, order: BigOrder, emit: &mut dyn FnMut(Case)| {
        let (f, d) = draw_big(rng, nt, nd, p, weak, order);
        let n = nt + nd;
        let mut perm: Vec<usize> = (0..n).collect();
        rng.shuffle(&mut perm);
        emit(Case::new(req_ldabig(n, p, &f, &d, &perm, pools))
            .tag("ldabig")
            .tag("large-table")
            .tag(if weak { "weak-separation" } else { "strong-separation" })
            .tag(match order {
                BigOrder::ByFeature => "sorted-by-feature",
                BigOrder::ByLabel => "sorted-by-label",
                BigOrder::Shuffled => "shuffled",
            })
            .tag(if n >= 40000 { "rows-40000" } else if n >= 5000 { "rows-5000" } else if n >= 3549 { "rows-2049+1500" } else { "rows-1100" }));
    };
    if quick {
        one(rng, 700, 400, 2, false, BigOrder::ByFeature, emit);
        one(rng, 2049, 1500, 3, false, BigOrder::ByLabel, emit);
        one(rng, 2049, 1500, 2, true, BigOrder::ByFeature, emit);
        one(rng, 3000, 2000, 2, true, BigOrder::Shuffled, emit);
        one(rng, 25000, 15000, 3, true, BigOrder::ByFeature, emit);
    } else {
        for &(nt, nd) in &[(700usize, 400usize), (2049, 1500), (3000, 2000), (25000, 15000)] {
            for &order in &[BigOrder::ByFeature, BigOrder::ByLabel, BigOrder::Shuffled] {
                for &weak in &[false, true] {
                    let reps = if nt + nd >= 40000 { 1 } else { 3 };
                    for _ in 0..reps {
                        let p = 2 + rng.below(3);
                        one(rng, nt, nd, p, weak, order, emit);
                    }
                }
            }
        }
    }
    // score_psms on large PSM tables sorted by hyperscore / by label, inside a pool of 4 (and 16) threads
    let sizes: &[usize] = if quick { &[1100] } else { &[1100, 3549, 3549] };
    for (idx, &n) in sizes.iter().enumerate() {
        let mut ps: Vec<Psm> = (0..n).map(|i| draw_psm(rng, i % 5 < 2, false)).collect();
        if idx % 2 == 0 {
            ps.sort_by(|a, b| b.hyperscore.total_cmp(&a.hyperscore));
        } else {
            ps.sort_by(|a, b| a.label.cmp(&b.label).then(b.hyperscore.total_cmp(&a.hyperscore)));
        }
        let th = if idx == 2 { 16 } else { 4 };
        let req = req_psms(&ps).replacen("scorepsms ", &format!("scorepsmst {} ", th), 1);
        emit(Case::new(req).tag("scorepsmst").tag("large-table").tag("sorted-by-feature"));
    }
}

/// b/y fragment m/z (charge 1) and precursor m/z (charge 2) of an unmodified peptide
fn fragments(seq: &[u8]) -> (Vec<f64>, f64) {
    use sage_core::mass::{monoisotopic, H2O, PROTON};
    let m: Vec<f64> = seq.iter().map(|&a| monoisotopic(a) as f64).collect();
    let total: f64 = m.iter().sum::<f64>() + H2O as f64;
    let mut out = Vec::new();
    let mut acc = 0.0;
    for i in 0..seq.len() - 1 {
        acc += m[i];
        out.push(acc + PROTON as f64); // b_{i+1}
        out.push(total - acc + PROTON as f64); // y_{len-1-i}
    }
    (out, (total + 2.0 * PROTON as f64) / 2.0)
}

fn req_fdrrun(decoys: bool, predict_rt: bool, fasta: &str, mgf: &str) -> String {
    let mut o = Out::new();
    o.raw("fdrrun").b(decoys).b(predict_rt).s(fasta).s(mgf);
    o.finish()
}

/// one MGF block
fn mgf_block(scan: usize, pmz: f64, peaks: &[(f64, f64)]) -> String {
    let mut s = format!("BEGIN IONS\nTITLE=scan={}\nPEPMASS={}\nCHARGE=2+\nRTINSECONDS={}\n", scan, pmz, 60 + 7 * scan);
    for (m, i) in peaks {
        s.push_str(&format!("{} {}\n", m, i));
    }
    s.push_str("END IONS\n");
    s
}

/// sage's decoy of a peptide: first and last residue fixed, the interior reversed (`Peptide::reverse`)
fn decoy_of(seq: &[u8]) -> Vec<u8> {
    let mut d = seq.to_vec();
    let n = d.len() - 1;
    if n > 1 {
        d[1..n].reverse();
    }
    d
}

/// Searches WITH generated decoys in which both classes are reported. `ndecoy` spectra are built from the
/// DECOY sequence of a database peptide (so the best match is the decoy), the rest from target sequences.
/// With exactly one decoy PSM the mass-error KDE of the decoy class has zero variance, feature 5 is NaN and
/// `score_psms` returns None although both classes are present: `spectrum_fdr` takes the fallback. The decoy
/// spectra carry b ions only (longest_y_pct = 0) and the target spectra y ions only / both, with ladders of
/// different completeness, so that the poisson order and the fallback-score order disagree around the decoy.
fn gen_fdrrun_decoys(rng: &mut Rng, tier: Tier, emit: &mut dyn FnMut(Case)) {
    let reps = if tier == Tier::Quick { 6 } else { 80 };
    let alphabet = b"ADEFGHILMNQSTVWY";
    for rep in 0..reps {
        let ntarget = 3 + rng.below(5);
        let ndecoy = if rep % 3 == 2 { 2 + rng.below(2) } else { 1 };
        let mut fasta = String::new();
        let mut blocks: Vec<String> = Vec::new();
        let mut scan = 0usize;
        for k in 0..ntarget + ndecoy {
            let len = 8 + rng.below(7);
            let mut seq: Vec<u8>;
            loop {
                seq = (0..len).map(|_| *rng.pick(alphabet)).collect();
                seq.push(b'K');
                if decoy_of(&seq) != seq {
                    break;
                }
            }
            fasta.push_str(&format!(">sp|Q{:03}|P{}\n{}\n", k, k, std::str::from_utf8(&seq).unwrap()));
            let is_decoy = k >= ntarget;
            let src = if is_decoy { decoy_of(&seq) } else { seq.clone() };
            let (frags, pmz) = fragments(&src);
            // frags alternate b, y
            let kind = if is_decoy { 0 } else { 1 + (rep + k) % 3 }; // 0: b only, 1: y only, 2: both, 3: y prefix
            let mut peaks: Vec<(f64, f64)> = Vec::new();
            for (i, &m) in frags.iter().enumerate() {
                let is_b = i % 2 == 0;
                let keep = match kind {
                    0 => is_b,
                    1 => !is_b,
                    2 => true,
                    _ => !is_b && i / 2 >= frags.len() / 4, // the longer y ions only: a shorter ladder
                };
                if keep {
                    peaks.push((m, 100.0 + 900.0 * rng.unit()));
                }
            }
            peaks.sort_by(|a, b| a.0.total_cmp(&b.0));
            blocks.push(mgf_block(scan, pmz, &peaks));
            scan += 1;
        }
        let mgf: String = blocks.concat();
        // the same search under other precursor tolerances (narrow and wide dalton windows, asymmetric ppm)
        let (tk, tlo, thi) = *rng.pick(&[(1usize, -0.5f32, 0.5f32), (1, -0.005, 0.005), (1, -500.0, 100.0), (0, -5.0, 50.0)]);
        {
            let mut o = Out::new();
            o.raw(&req_fdrrun(true, rep % 2 == 0, &fasta, &mgf)).n(tk).f32(tlo).f32(thi);
            emit(Case::new(o.finish()).tag("fdrrun").tag("with-decoys").tag("tolerance-varied"));
        }
        for predict_rt in [true, false] {
            emit(Case::new(req_fdrrun(true, predict_rt, &fasta, &mgf))
                .tag("fdrrun")
                .tag("with-decoys")
                .tag(if ndecoy == 1 { "single-decoy-psm" } else { "several-decoy-psms" })
                .tag(if predict_rt { "predict-rt" } else { "no-predict-rt" }));
        }
    }
}

/// The real `Runner::run` on tiny searches whose LDA cannot be fitted (target-only database: one class
/// empty) so that `Runner::spectrum_fdr` takes its heuristic fallback; families of isobaric peptides
/// (permutations of one composition) give several scored candidates per spectrum, hence poisson << -1,
/// single-candidate spectra with few peaks give poisson in (-1, 0)
fn gen_fdrrun(rng: &mut Rng, tier: Tier, emit: &mut dyn FnMut(Case)) {
    let reps = if tier == Tier::Quick { 6 } else { 80 };
    let alphabet = b"ADEFGHILMNQSTVWY";
    for rep in 0..reps {
        let nfam = 2 + rng.below(4);
        let mut fasta = String::new();
        let mut mgf = String::new();
        let mut scan = 0usize;
        for fam in 0..nfam {
            let len = 7 + rng.below(8);
            let mut core: Vec<u8> = (0..len).map(|_| *rng.pick(alphabet)).collect();
            let members = if rng.chance(1, 3) { 1 } else { 2 + rng.below(4) };
            let mut seqs: Vec<Vec<u8>> = Vec::new();
            for _ in 0..members {
                rng.shuffle(&mut core);
                let mut s = core.clone();
                s.push(b'K');
                if !seqs.contains(&s) {
                    seqs.push(s);
                }
            }
            fasta.push_str(&format!(">sp|P{:03}|FAM{}\n", fam, fam));
            for s in &seqs {
                fasta.push_str(std::str::from_utf8(s).unwrap());
            }
            fasta.push('\n');
            // spectra of one or two members: a full ladder, a partial ladder, a poor spectrum
            for (si, s) in seqs.iter().enumerate().take(2) {
                let (frags, pmz) = fragments(s);
                let keep = match (rep + fam + si) % 3 {
                    0 => frags.len(),
                    1 => frags.len() / 2,
                    _ => 3 + rng.below(3),
                };
                let mut idx: Vec<usize> = (0..frags.len()).collect();
                rng.shuffle(&mut idx);
                let mut peaks: Vec<(f64, f64)> = idx[..keep.min(frags.len())].iter().map(|&i| (frags[i], 100.0 + 900.0 * rng.unit())).collect();
                // a few noise peaks
                for _ in 0..rng.below(4) {
                    peaks.push((150.0 + 900.0 * rng.unit(), 50.0 + 100.0 * rng.unit()));
                }
                peaks.sort_by(|a, b| a.0.total_cmp(&b.0));
                mgf.push_str(&format!("BEGIN IONS\nTITLE=scan={}\nPEPMASS={}\nCHARGE=2+\nRTINSECONDS={}\n", scan, pmz, 60 + scan));
                for (m, i) in peaks {
                    mgf.push_str(&format!("{} {}\n", m, i));
                }
                mgf.push_str("END IONS\n");
                scan += 1;
            }
        }
        // target-only database: the LDA cannot be fitted; every 5th case keeps the decoys (fit may succeed)
        let decoys = rep % 5 == 4;
        emit(Case::new(req_fdrrun(decoys, rep % 2 == 0, &fasta, &mgf))
            .tag("fdrrun")
            .tag(if decoys { "with-decoys" } else { "target-only" }));
    }
    // a single spectrum / a single PSM
    let mut s = b"ADEFGHILK".to_vec();
    let (frags, pmz) = fragments(&s);
    s.push(b'\n');
    let mut mgf = format!("BEGIN IONS\nTITLE=scan=0\nPEPMASS={}\nCHARGE=2+\nRTINSECONDS=60\n", pmz);
    for m in &frags {
        mgf.push_str(&format!("{} 500\n", m));
    }
    mgf.push_str("END IONS\n");
    let fasta = format!(">sp|P000|ONE\n{}", std::str::from_utf8(&s).unwrap());
    emit(Case::new(req_fdrrun(false, true, &fasta, &mgf)).tag("fdrrun").tag("single-psm"));
    emit(Case::new(req_fdrrun(true, false, &fasta, &mgf)).tag("fdrrun").tag("single-psm").tag("with-decoys"));
}

pub fn gen(rng: &mut Rng, tier: Tier, emit: &mut dyn FnMut(Case)) {
    let mut r = rng.fork();
    gen_finding_families(&mut r, tier, emit);
    gen_gauss(rng, tier, emit);
    gen_lda(rng, tier, emit);
    gen_psms(rng, tier, emit);
    gen_big(rng, tier, emit);
    gen_fdrrun(rng, tier, emit);
    gen_fdrrun_decoys(rng, tier, emit);
}
