//! C19 — label-free quantification (`sage_core::lfq`)
//!
//! world W :=  withMob combine scoring(0..3) sum sa(f64) ppm(f32) mobPct(f32) zLo zHi
//!             [p h:seq…]                                          database peptides (index = PeptideIx)
//!             x [f (pep label q(f32) alignedRt(f32) calcmass(f32) charge file ims(f32) expmass(f32) isotopeError(f32))…]   PSM features, in order
//!               (older corpus lines: `[f (8 tokens)…]` without the `x` marker and without the last two fields)
//!             [a (maxRt slope intercept)…]                        alignments (index = file id)
//!             [s (file scanStart(f32) [k (mass intensity mobility)…])…]   MS1 spectra
//! result R := [k (pep charge(0 = combined) decoy peakRt score(f64) angle(f64) [files area(f64)…])…] sorted by key | panic
//!
//!   lfqmap  ppm mobPct zLo zHi [f feature…]   -> [n (rt massLo massHi mobLo mobHi charge isotope pep file decoy)…] [m minRt…] binSize
//!   lfqgrid refRt refFile files d0 d1 d2 scoring sum sa(f64) [n (rt isotope file intensity)…]
//!                                             -> [c cell(f64)…] [d dot…] [d angle…] (0 | 1 peakRt score angle [files area…])
//!   lfq     [t threads…] binSize W            -> R for each pool size, in order   (binSize 0 = the map as built)
//!   lfqbigmap seed nPep [t threads…]          -> the lfqmap reply once per pool size (world derived from the seed on both sides, see `big_world`)
//!   lfqbig  seed nPep [t threads…]            -> R per pool size (same derived world: nPep confident peptides, RT-disjoint, one clean envelope each)
//!   lfq2    kind [n perm…] binSize W_A W_B    -> R_A R_B   (single-thread pool; kind 0 = noise, 1 = file permutation, 2 = spectrum order)
use super::Info;
use crate::proto::{Case, Out, Rng, Tier, Toks};
use sage_core::database::{IndexedDatabase, PeptideIx};
use sage_core::lfq::{
    build_feature_map, FeatureMap, Grid, IntegrationStrategy, LfqSettings, PeakScoringStrategy,
    PrecursorId, PrecursorRange,
};
use sage_core::ml::retention_alignment::Alignment;
use sage_core::peptide::Peptide;
use sage_core::scoring::Feature;
use sage_core::spectrum::{IMPeak, MS1Spectra, Peak, ProcessedSpectrum};
use std::collections::HashMap;
use std::sync::{Arc, Mutex, OnceLock};

pub const OPS: &[&str] = &["lfqmap", "lfqgrid", "lfq", "lfq2", "lfqbigmap", "lfqbig"];
pub const INFO: Info = Info {
    rule: "synthetic LFQ worlds: 1-6 peptides (random sequences incl. C/M), 1-3 PSMs each mixing confident targets \
           (q in {0,0.005,0.01}) with decoys and q in {nextafter(0.01),0.05,1}, shuffled; 1-3 files (5 thorough) with identity or \
           random affine alignments; per peptide 5-25 scans spread over 1.4x the RT window carrying isotope envelopes \
           (charges zLo..zHi+1, isotopes 0..3, ppm error up to 1.6x tolerance, gaussian elution profile), scans in the decoy \
           window at +11.06, random noise peaks, optional ion mobility; page size 16384 or rebinned to 1..8 ranges per page; \
           directed: peaks exactly on / one ulp outside massLo/massHi, scans exactly on / one ulp outside rt +- RT_TOL, \
           feature rt < 2*RT_TOL (decoy rt clamps to 0), q exactly 0.01, empty charge range, empty inputs, wide ppm (window > 0.1 Da); \
           streams: pools {1,2,4,16}; file B = 2 x file A; lfq2 noise (B = A + irrelevant peaks/spectra/PSMs) and file permutation; \
           acos-cliff stream (exact theoretical envelopes with 2^30 dynamic range in one RT bin, one intensity tuned by bisection on the real Grid until the similarity sits within an ulp of 1.0; emitted as lfq2 kind 2 = same spectra in another order, and lfq with repeated pools); big worlds (1000 quick / 1000, 2000, 4000 thorough confident peptides = 18 ranges each, derived from a seed on both sides, RT-disjoint, one clean envelope each): lfqbigmap (page layout of the map built by 1, 2, 4, 16 workers) and lfqbig (full pipeline in those pools); lfqmap (feature map as built, incl. >16384 ranges in thorough) and lfqgrid (Grid::add_entry/summarize/integrate on \
           random and boundary contributions). non-trivial = at least one in-window peak and one irrelevant peak or PSM",
    serial: false,
};

// ---------------------------------------------------------------------------------------------
// world

#[derive(Clone, Debug)]
struct Ft {
    pep: u32,
    label: i32,
    q: f32,
    rt: f32,
    calcmass: f32,
    charge: u8,
    file: usize,
    ims: f32,
    /// `Feature::expmass` and `Feature::isotope_error`: NOT read by the unchanged `build_feature_map` (windows are centred on calcmass)
    expmass: f32,
    iso_err: f32,
}

#[derive(Clone, Debug)]
struct Sp {
    file: usize,
    t: f32,
    peaks: Vec<(f32, f32, f32)>,
}

#[derive(Clone, Debug)]
struct World {
    with_mob: bool,
    combine: bool,
    scoring: u8,
    sum: bool,
    sa: f64,
    ppm: f32,
    mob_pct: f32,
    z_lo: u8,
    z_hi: u8,
    peptides: Vec<Vec<u8>>,
    feats: Vec<Ft>,
    aligns: Vec<(f32, f32, f32)>,
    spectra: Vec<Sp>,
}

fn put_feat(o: &mut Out, f: &Ft) {
    o.n(f.pep).n(f.label).f32(f.q).f32(f.rt).f32(f.calcmass).n(f.charge).n(f.file).f32(f.ims).f32(f.expmass).f32(f.iso_err);
}

/// feature list: `x n (10 tokens)…` (with expmass and isotope_error) or, as in older corpus files, `n (8 tokens)…`
fn get_feats(t: &mut Toks) -> Option<Vec<Ft>> {
    let first = t.tok()?;
    if first == "x" {
        t.list(|t| {
            let mut f = get_feat(t)?;
            f.expmass = t.f32()?;
            f.iso_err = t.f32()?;
            Some(f)
        })
    } else {
        let n: usize = first.parse().ok()?;
        let mut v = Vec::with_capacity(n.min(1 << 20));
        for _ in 0..n {
            v.push(get_feat(t)?);
        }
        Some(v)
    }
}

fn get_feat(t: &mut Toks) -> Option<Ft> {
    Some(Ft {
        pep: t.usize()? as u32,
        label: t.i64()? as i32,
        q: t.f32()?,
        rt: t.f32()?,
        calcmass: t.f32()?,
        charge: t.usize()? as u8,
        file: t.usize()?,
        ims: t.f32()?,
        expmass: 0.0,
        iso_err: 0.0,
    })
}

impl World {
    fn put(&self, o: &mut Out) {
        o.b(self.with_mob).b(self.combine).n(self.scoring).b(self.sum).f64(self.sa).f32(self.ppm).f32(self.mob_pct);
        o.n(self.z_lo).n(self.z_hi);
        o.n(self.peptides.len());
        for p in &self.peptides {
            o.bytes(p);
        }
        o.raw("x").n(self.feats.len());
        for f in &self.feats {
            put_feat(o, f);
        }
        o.n(self.aligns.len());
        for a in &self.aligns {
            o.f32(a.0).f32(a.1).f32(a.2);
        }
        o.n(self.spectra.len());
        for s in &self.spectra {
            o.n(s.file).f32(s.t).n(s.peaks.len());
            for p in &s.peaks {
                o.f32(p.0).f32(p.1).f32(p.2);
            }
        }
    }

    fn get(t: &mut Toks) -> Option<World> {
        let with_mob = t.bool()?;
        let combine = t.bool()?;
        let scoring = t.usize()? as u8;
        let sum = t.bool()?;
        let sa = t.f64()?;
        let ppm = t.f32()?;
        let mob_pct = t.f32()?;
        let z_lo = t.usize()? as u8;
        let z_hi = t.usize()? as u8;
        let peptides = t.list(|t| t.bytes())?;
        let feats = get_feats(t)?;
        let aligns = t.list(|t| Some((t.f32()?, t.f32()?, t.f32()?)))?;
        let spectra = t.list(|t| {
            let file = t.usize()?;
            let time = t.f32()?;
            let peaks = t.list(|t| Some((t.f32()?, t.f32()?, t.f32()?)))?;
            Some(Sp { file, t: time, peaks })
        })?;
        Some(World { with_mob, combine, scoring, sum, sa, ppm, mob_pct, z_lo, z_hi, peptides, feats, aligns, spectra })
    }

    fn settings(&self) -> LfqSettings {
        settings(self.scoring, self.sum, self.sa, self.ppm, self.mob_pct, self.combine)
    }
}

fn settings(scoring: u8, sum: bool, sa: f64, ppm: f32, mob_pct: f32, combine: bool) -> LfqSettings {
    LfqSettings {
        peak_scoring: match scoring {
            0 => PeakScoringStrategy::RetentionTime,
            1 => PeakScoringStrategy::SpectralAngle,
            2 => PeakScoringStrategy::Intensity,
            _ => PeakScoringStrategy::Hybrid,
        },
        integration: if sum { IntegrationStrategy::Sum } else { IntegrationStrategy::Apex },
        spectral_angle: sa,
        ppm_tolerance: ppm,
        mobility_pct_tolerance: mob_pct,
        combine_charge_states: combine,
    }
}

fn features(fs: &[Ft]) -> Vec<Feature> {
    fs.iter()
        .map(|f| {
            let mut x = super::util::blank_feature();
            x.peptide_idx = PeptideIx(f.pep);
            x.label = f.label;
            x.peptide_q = f.q;
            x.aligned_rt = f.rt;
            x.calcmass = f.calcmass;
            x.charge = f.charge;
            x.file_id = f.file;
            x.ims = f.ims;
            x.expmass = f.expmass;
            x.isotope_error = f.iso_err;
            x
        })
        .collect()
}

fn pool(n: usize) -> Arc<rayon::ThreadPool> {
    static POOLS: OnceLock<Mutex<HashMap<usize, Arc<rayon::ThreadPool>>>> = OnceLock::new();
    let m = POOLS.get_or_init(|| Mutex::new(HashMap::new()));
    let mut g = m.lock().unwrap_or_else(|e| e.into_inner());
    g.entry(n)
        .or_insert_with(|| Arc::new(rayon::ThreadPoolBuilder::new().num_threads(n).build().expect("pool")))
        .clone()
}

/// re-bin a feature map to pages of `b` ranges (same procedure as `build_feature_map`, smaller page)
fn rebin(fm: &mut FeatureMap, b: usize) {
    fm.ranges.sort_by(|x, y| x.rt.total_cmp(&y.rt));
    fm.min_rts = fm
        .ranges
        .chunks_mut(b)
        .map(|c| {
            let m = c[0].rt;
            c.sort_by(|x, y| x.mass_lo.total_cmp(&y.mass_lo));
            m
        })
        .collect();
    fm.bin_size = b;
}

fn put_result(o: &mut Out, rows: &[(u32, u8, bool, usize, f64, f64, Vec<f64>)]) {
    o.n(rows.len());
    for r in rows {
        o.n(r.0).n(r.1).b(r.2).n(r.3).f64(r.4).f64(r.5).n(r.6.len());
        for a in &r.6 {
            o.f64(*a);
        }
    }
}

/// the real pipeline: build_feature_map(..).quantify(..) inside a pool of `threads` workers
fn run(w: &World, bin: usize, threads: usize) -> Vec<(u32, u8, bool, usize, f64, f64, Vec<f64>)> {
    let db = IndexedDatabase {
        peptides: w
            .peptides
            .iter()
            .map(|s| Peptide {
                decoy: false,
                sequence: Arc::from(s.clone().into_boxed_slice()),
                modifications: vec![0.0; s.len()],
                nterm: None,
                cterm: None,
                monoisotopic: 0.0,
                missed_cleavages: 0,
                semi_enzymatic: false,
                position: sage_core::enzyme::Position::Internal,
                proteins: vec![],
            })
            .collect(),
        ..Default::default()
    };
    let feats = features(&w.feats);
    let aligns: Vec<Alignment> = w
        .aligns
        .iter()
        .enumerate()
        .map(|(i, a)| Alignment { file_id: i, max_rt: a.0, slope: a.1, intercept: a.2 })
        .collect();
    let ms1 = if w.with_mob {
        MS1Spectra::WithMobility(
            w.spectra
                .iter()
                .map(|s| ProcessedSpectrum::<IMPeak> {
                    level: 1,
                    file_id: s.file,
                    scan_start_time: s.t,
                    peaks: s.peaks.iter().map(|p| IMPeak { mass: p.0, intensity: p.1, mobility: p.2 }).collect(),
                    ..Default::default()
                })
                .collect(),
        )
    } else {
        MS1Spectra::NoMobility(
            w.spectra
                .iter()
                .map(|s| ProcessedSpectrum::<Peak> {
                    level: 1,
                    file_id: s.file,
                    scan_start_time: s.t,
                    peaks: s.peaks.iter().map(|p| Peak { mass: p.0, intensity: p.1 }).collect(),
                    ..Default::default()
                })
                .collect(),
        )
    };
    let st = w.settings();
    let out = pool(threads).install(|| {
        let mut fm = build_feature_map(st, (w.z_lo, w.z_hi), &feats);
        if bin > 0 && !fm.ranges.is_empty() {
            rebin(&mut fm, bin);
        }
        fm.quantify(&db, &ms1, &aligns)
    });
    let mut rows: Vec<_> = out
        .into_iter()
        .map(|((id, decoy), (peak, areas))| {
            let (pep, z) = match id {
                PrecursorId::Combined(p) => (p.0, 0u8),
                PrecursorId::Charged((p, z)) => (p.0, z),
            };
            (pep, z, decoy, peak.rt, peak.score, peak.spectral_angle, areas)
        })
        .collect();
    rows.sort_by(|a, b| (a.0, a.1, a.2).cmp(&(b.0, b.1, b.2)));
    rows
}

pub fn exec(op: &str, t: &mut Toks) -> Option<String> {
    let mut o = Out::new();
    match op {
        "lfqmap" => {
            let ppm = t.f32()?;
            let mob = t.f32()?;
            let z_lo = t.usize()? as u8;
            let z_hi = t.usize()? as u8;
            let fs = get_feats(t)?;
            let fm = pool(4).install(|| build_feature_map(settings(3, true, 0.7, ppm, mob, true), (z_lo, z_hi), &features(&fs)));
            o.n(fm.ranges.len());
            for r in &fm.ranges {
                o.f32(r.rt).f32(r.mass_lo).f32(r.mass_hi).f32(r.mobility_lo).f32(r.mobility_hi);
                o.n(r.charge).n(r.isotope).n(r.peptide.0).n(r.file_id).b(r.decoy);
            }
            o.n(fm.min_rts.len());
            for m in &fm.min_rts {
                o.f32(*m);
            }
            o.n(fm.bin_size);
        }
        "lfqgrid" => {
            let ref_rt = t.f32()?;
            let ref_file = t.usize()?;
            let files = t.usize()?;
            let dist = [t.f32()?, t.f32()?, t.f32()?];
            let scoring = t.usize()? as u8;
            let sum = t.bool()?;
            let sa = t.f64()?;
            let adds = t.list(|t| Some((t.f32()?, t.usize()?, t.usize()?, t.f32()?)))?;
            let entry = PrecursorRange {
                rt: ref_rt,
                mass_lo: 0.0,
                mass_hi: 0.0,
                mobility_lo: 0.0,
                mobility_hi: 0.0,
                charge: 2,
                isotope: 0,
                peptide: PeptideIx(0),
                file_id: ref_file,
                decoy: false,
            };
            // RT_TOL and GRID_SIZE are private constants of lfq.rs: the literal values are passed as `quantify` passes them
            let mut g = Grid::new(&entry, 0.0050, dist, files, 100);
            for a in &adds {
                g.add_entry(a.0, a.1, a.2, a.3);
            }
            o.n(g.matrix.data.len());
            for x in &g.matrix.data {
                o.f64(*x);
            }
            let mut tr = g.summarize_traces();
            o.n(tr.dot_product.data.len());
            for x in &tr.dot_product.data {
                o.f64(*x);
            }
            o.n(tr.spectral_angle.data.len());
            for x in &tr.spectral_angle.data {
                o.f64(*x);
            }
            match tr.integrate(&settings(scoring, sum, sa, 5.0, 1.0, true)) {
                None => {
                    o.n(0);
                }
                Some((p, areas)) => {
                    o.n(1).n(p.rt).f64(p.score).f64(p.spectral_angle).n(areas.len());
                    for a in &areas {
                        o.f64(*a);
                    }
                }
            }
        }
        "lfq" => {
            let threads = t.list(|t| t.usize())?;
            let bin = t.usize()?;
            let w = World::get(t)?;
            for n in threads {
                let rows = run(&w, bin, n.max(1));
                put_result(&mut o, &rows);
            }
        }
        "lfq2" => {
            let _kind = t.usize()?;
            let _perm = t.list(|t| t.usize())?;
            let bin = t.usize()?;
            let a = World::get(t)?;
            let b = World::get(t)?;
            put_result(&mut o, &run(&a, bin, 1));
            put_result(&mut o, &run(&b, bin, 1));
        }
        "lfqbigmap" => {
            let seed = t.usize()? as u64;
            let n_pep = t.usize()?;
            let threads = t.list(|t| t.usize())?;
            let w = big_world(seed, n_pep);
            let fs = features(&w.feats);
            for n in threads {
                let fm = pool(n.max(1)).install(|| build_feature_map(w.settings(), (w.z_lo, w.z_hi), &fs));
                o.n(fm.ranges.len());
                for r in &fm.ranges {
                    o.f32(r.rt).f32(r.mass_lo).f32(r.mass_hi).f32(r.mobility_lo).f32(r.mobility_hi);
                    o.n(r.charge).n(r.isotope).n(r.peptide.0).n(r.file_id).b(r.decoy);
                }
                o.n(fm.min_rts.len());
                for m in &fm.min_rts {
                    o.f32(*m);
                }
                o.n(fm.bin_size);
            }
        }
        "lfqbig" => {
            let seed = t.usize()? as u64;
            let n_pep = t.usize()?;
            let threads = t.list(|t| t.usize())?;
            let w = big_world(seed, n_pep);
            for n in threads {
                let rows = run(&w, 0, n.max(1));
                put_result(&mut o, &rows);
            }
        }
        _ => return None,
    }
    if !t.done() {
        return None;
    }
    Some(o.finish())
}

// ---------------------------------------------------------------------------------------------
// big worlds, derived from (seed, nPep) identically here and in lean/SageModel/Drv/C19.lean (`bigWorld`): only integer
// arithmetic, exact integer -> f32 casts and single correctly rounded f32 operations are used, so both sides get the same bits.

const BIG_SEQS: [&[u8]; 8] = [b"PEPTIDEK", b"ACDEFGHIK", b"LLMMNNPPQQR", b"SSTTVVWWYK", b"GGAAGGAAGGK", b"CMCMCMK", b"FFYYWWHHR", b"DEDEDEDEKR"];

/// splitmix64 finaliser of (seed, i): stateless
fn big_hash(seed: u64, i: u64) -> u64 {
    let mut z = seed.wrapping_add((i + 1).wrapping_mul(0x9E37_79B9_7F4A_7C15));
    z = (z ^ (z >> 30)).wrapping_mul(0xBF58_476D_1CE4_E5B9);
    z = (z ^ (z >> 27)).wrapping_mul(0x94D0_49BB_1331_11EB);
    z ^ (z >> 31)
}

/// nPep confident target peptides, charges 2..=4 searched (18 ranges each), aligned RTs 0.03 apart (so that no scan of one
/// peptide lies in a window of another, decoy windows included), two files with identity alignment; peptide i is identified
/// in file i % 2 and has three MS1 scans there (0.0008 apart) carrying a clean charge-2 envelope 1 : 0.75 : 0.5
fn big_world(seed: u64, n_pep: usize) -> World {
    let mut peptides = Vec::with_capacity(n_pep);
    let mut feats = Vec::with_capacity(n_pep);
    let mut spectra = Vec::with_capacity(3 * n_pep);
    for i in 0..n_pep {
        let r = big_hash(seed, i as u64);
        let calc = (700_000 + (r % 3_000_000)) as f32 / 1000.0f32;
        let rt = (2 + 3 * i) as f32 / 100.0f32;
        let base = (1000 + ((r >> 40) % 9000)) as f32;
        peptides.push(BIG_SEQS[((r >> 32) % 8) as usize].to_vec());
        // every third PSM was picked on the M+1 peak and measured 15 ppm high: the windows stay on calcmass
        let shifted = (r >> 20) % 3 == 0;
        let iso_err = if shifted { NEUTRON } else { 0.0 };
        let expmass = if shifted { (calc + NEUTRON) + calc * 0.000015f32 } else { calc };
        feats.push(Ft { pep: i as u32, label: 1, q: 0.0, rt, calcmass: calc, charge: 2, file: i % 2, ims: 1.0, expmass, iso_err });
        for k in 0..3usize {
            let t = rt + [-0.0008f32, 0.0, 0.0008][k];
            let wk = [0.5f32, 1.0, 0.5][k];
            let mut peaks: Vec<(f32, f32, f32)> = (0..3usize)
                .map(|iso| ((calc + iso as f32 * NEUTRON) / 2.0f32, base * wk * [1.0f32, 0.75, 0.5][iso], 1.0f32))
                .collect();
            if shifted {
                // noise 15 ppm away (tolerance 10 ppm), where windows centred on expmass - isotope_error would be
                for iso in 0..3usize {
                    peaks.push((((expmass - NEUTRON) + iso as f32 * NEUTRON) / 2.0f32, base * wk * 2.0f32, 1.0f32));
                }
            }
            spectra.push(Sp { file: i % 2, t, peaks });
        }
    }
    World {
        with_mob: false,
        combine: true,
        scoring: 3,
        sum: true,
        sa: 0.5,
        ppm: 10.0,
        mob_pct: 1.0,
        z_lo: 2,
        z_hi: 4,
        peptides,
        feats,
        aligns: vec![(1.0, 1.0, 0.0), (1.0, 1.0, 0.0)],
        spectra,
    }
}

// ---------------------------------------------------------------------------------------------
// generator

const AAS: &[u8] = b"ACDEFGHIKLMNPQRSTVWY";
const NEUTRON: f32 = 1.00335;
const RT_TOL: f32 = 0.005;

fn up(x: f32) -> f32 {
    if x > 0.0 { f32::from_bits(x.to_bits() + 1) } else { x }
}
fn down(x: f32) -> f32 {
    if x > 0.0 { f32::from_bits(x.to_bits() - 1) } else { x }
}

fn ppm_bounds(center: f32, ppm: f32) -> (f32, f32) {
    (center + center * (-ppm) / 1_000_000.0, center + center * ppm / 1_000_000.0)
}

fn iso_dist(seq: &[u8]) -> [f32; 3] {
    let mut c = 0u16;
    let mut s = 0u16;
    for r in seq {
        let k = sage_core::mass::composition(*r);
        c += k.carbon;
        s += k.sulfur;
    }
    sage_core::isotopes::peptide_isotopes(c, s)
}

struct Cfg {
    max_pep: usize,
    max_files: usize,
    scans: (usize, usize),
}

/// a random world; returns the world and whether it has in-window signal by construction
fn world(rng: &mut Rng, cfg: &Cfg, force_files: Option<usize>, identity: bool) -> World {
    let n_files = force_files.unwrap_or(1 + rng.below(cfg.max_files));
    let with_mob = rng.chance(1, 3);
    let ppm = *rng.pick(&[5.0f32, 5.0, 10.0, 20.0, 20.0, 50.0]);
    let mob_pct = *rng.pick(&[1.0f32, 5.0]);
    let (z_lo, z_hi) = *rng.pick(&[(2u8, 3u8), (2, 4), (1, 2), (2, 2), (2, 3), (1, 4)]);
    let aligns: Vec<(f32, f32, f32)> = (0..n_files)
        .map(|_| {
            if identity || rng.chance(1, 3) {
                (1.0, 1.0, 0.0)
            } else {
                (
                    30.0 + 90.0 * rng.unit() as f32,
                    0.9 + 0.2 * rng.unit() as f32,
                    -0.02 + 0.04 * rng.unit() as f32,
                )
            }
        })
        .collect();
    let n_pep = 1 + rng.below(cfg.max_pep);
    let mut peptides = Vec::new();
    let mut feats = Vec::new();
    let mut spectra: Vec<Sp> = Vec::new();
    for p in 0..n_pep {
        let len = 6 + rng.below(12);
        let seq: Vec<u8> = (0..len).map(|_| *rng.pick(AAS)).collect();
        let dist = iso_dist(&seq);
        peptides.push(seq);
        let calcmass = if rng.chance(1, 10) { 4000.0 + 2000.0 * rng.unit() as f32 } else { 600.0 + 2900.0 * rng.unit() as f32 };
        let n_psm = 1 + rng.below(3);
        let mut psms = Vec::new();
        for _ in 0..n_psm {
            let confident = rng.chance(2, 3);
            let (label, q) = if confident {
                (1, *rng.pick(&[0.0f32, 0.005, 0.01]))
            } else if rng.chance(1, 2) {
                (-1, *rng.pick(&[0.0f32, 0.005, 0.5]))
            } else {
                (1, *rng.pick(&[up(0.01f32), 0.05, 1.0]))
            };
            let file = rng.below(n_files);
            let rt = if rng.chance(1, 12) { 0.012 * rng.unit() as f32 } else { 0.02 + 0.96 * rng.unit() as f32 };
            // aligned retention times are the output of a per-file linear fit, so they do leave [0, 1]:
            // an identification at the very start (end) of a run whose alignment has a negative intercept
            // (slope + intercept > 1) -- the window must stay centred on the aligned time (seeded C19-E)
            let a = aligns[file];
            let rt = if rng.chance(1, 6) {
                let hi = a.1 + a.2;
                if a == (1.0, 1.0, 0.0) {
                    // the aligned time is an input of its own: just outside [0, 1] under the identity alignment too
                    if rng.chance(1, 2) { -0.004 * rng.unit() as f32 } else { 1.0 + 0.004 * rng.unit() as f32 }
                } else if a.2 < 0.0 && rng.chance(1, 2) {
                    a.2 * rng.unit() as f32
                } else if hi > 1.0 {
                    1.0 + (hi - 1.0) * rng.unit() as f32
                } else {
                    rt
                }
            } else {
                rt
            };
            let cm = if rng.chance(1, 8) { calcmass + 0.5 } else { calcmass };
            // the MS2 precursor may have been picked on a C13 peak (isotope_error = k neutrons, k in -1..=3 as the
            // `isotope_errors` setting allows) and its measured mass is off by up to +-30 ppm, independently of calcmass:
            // none of that may move the LFQ windows, which belong to the peptide's theoretical isotopologue m/z (seeded C19-R)
            let iso_err = if rng.chance(2, 5) { *rng.pick(&[NEUTRON, NEUTRON, 2.0 * NEUTRON, 3.0 * NEUTRON, -NEUTRON]) } else { 0.0 };
            let expmass = cm + iso_err + cm * (60.0 * rng.unit() as f32 - 30.0) / 1.0e6;
            psms.push(Ft {
                pep: p as u32,
                label,
                q,
                rt,
                calcmass: cm,
                charge: 2 + rng.below(2) as u8,
                file,
                ims: 0.6 + 0.8 * rng.unit() as f32,
                expmass,
                iso_err,
            });
        }
        // signal around every PSM of the peptide (so a wrong winner of first-wins changes the result)
        for f in &psms {
            for file in 0..n_files {
                if rng.chance(1, 6) {
                    continue;
                }
                let a = aligns[file];
                let scale = 1.0e4 * (1.0 + 9.0 * rng.unit() as f32);
                let n_scan = cfg.scans.0 + rng.below(cfg.scans.1 - cfg.scans.0 + 1);
                let apex = f.rt + 0.002 * (rng.unit() as f32 - 0.5);
                for _ in 0..n_scan {
                    let decoy_win = rng.chance(1, 6);
                    let centre = if decoy_win { (f.rt - 2.0 * RT_TOL).max(0.0) } else { f.rt };
                    let rt = centre + 0.014 * (rng.unit() as f32 - 0.5);
                    let t = ((rt - a.2) / a.1) * a.0;
                    if t < 0.0 {
                        continue;
                    }
                    let profile = (-0.5 * ((rt - apex) / 0.0012).powi(2)).exp();
                    let mut peaks = Vec::new();
                    for z in z_lo..=z_hi.saturating_add(1) {
                        if z == 0 || rng.chance(1, 4) {
                            continue;
                        }
                        for iso in 0..4usize {
                            let mz = (f.calcmass + iso as f32 * NEUTRON) / z as f32 + if decoy_win { 11.06 } else { 0.0 };
                            let err = ppm * 1.6 * (2.0 * rng.unit() as f32 - 1.0);
                            let inten = if iso < 3 { dist[iso] } else { 0.05 }
                                * scale
                                * (0.05 + profile)
                                * (0.8 + 0.4 * rng.unit() as f32)
                                / z as f32;
                            let mob = f.ims * (1.0 + mob_pct * 1.5 * (2.0 * rng.unit() as f32 - 1.0) / 100.0);
                            peaks.push((mz + mz * err / 1.0e6, inten, mob));
                        }
                    }
                    if f.iso_err != 0.0 && rng.chance(1, 2) {
                        // strong peaks where the windows would be if they were centred on the de-isotoped observed mass
                        for z in z_lo..=z_hi {
                            if z == 0 {
                                continue;
                            }
                            for iso in 0..3usize {
                                let mz = ((f.expmass - f.iso_err) + iso as f32 * NEUTRON) / z as f32;
                                peaks.push((mz, 3.0 * scale * (0.05 + profile), f.ims));
                            }
                        }
                    }
                    for _ in 0..rng.below(4) {
                        peaks.push((300.0 + 1700.0 * rng.unit() as f32, 1.0e3 * rng.unit() as f32, 0.6 + 0.8 * rng.unit() as f32));
                    }
                    peaks.sort_by(|x, y| x.0.total_cmp(&y.0));
                    spectra.push(Sp { file, t, peaks });
                }
            }
        }
        feats.extend(psms);
    }
    rng.shuffle(&mut feats);
    if rng.chance(3, 4) {
        spectra.sort_by(|x, y| (x.file, x.t.to_bits()).cmp(&(y.file, y.t.to_bits())));
    } else {
        rng.shuffle(&mut spectra);
    }
    World {
        with_mob,
        combine: rng.chance(1, 2),
        scoring: rng.below(4) as u8,
        sum: rng.chance(2, 3),
        sa: *rng.pick(&[0.0f64, 0.3, 0.7, 0.7, 0.9]),
        ppm,
        mob_pct,
        z_lo,
        z_hi,
        peptides,
        feats,
        aligns,
        spectra,
    }
}

fn pick_bin(rng: &mut Rng) -> usize {
    if rng.chance(1, 2) { 0 } else { *rng.pick(&[1usize, 2, 3, 5, 8, 13]) }
}

fn req_lfq(threads: &[usize], bin: usize, w: &World) -> String {
    let mut o = Out::new();
    o.raw("lfq").n(threads.len());
    for t in threads {
        o.n(*t);
    }
    o.n(bin);
    w.put(&mut o);
    o.finish()
}

fn req_lfq2(kind: usize, perm: &[usize], bin: usize, a: &World, b: &World) -> String {
    let mut o = Out::new();
    o.raw("lfq2").n(kind).n(perm.len());
    for p in perm {
        o.n(*p);
    }
    o.n(bin);
    a.put(&mut o);
    b.put(&mut o);
    o.finish()
}

fn req_map(ppm: f32, mob: f32, z_lo: u8, z_hi: u8, fs: &[Ft]) -> String {
    let mut o = Out::new();
    o.raw("lfqmap").f32(ppm).f32(mob).n(z_lo).n(z_hi).raw("x").n(fs.len());
    for f in fs {
        put_feat(&mut o, f);
    }
    o.finish()
}

/// the confident winner per peptide, as `build_feature_map` picks it
fn winners(w: &World) -> Vec<Ft> {
    let mut seen = std::collections::HashSet::new();
    let mut out = Vec::new();
    for f in &w.feats {
        if f.q <= 0.01 && f.label == 1 && seen.insert(f.pep) {
            out.push(f.clone());
        }
    }
    out
}

/// B = A plus signal that the property says is irrelevant
fn add_noise(rng: &mut Rng, a: &World) -> World {
    let mut b = a.clone();
    let win = winners(a);
    // PSMs: decoys / q > 0.01, for known and for new peptides, at random positions (also in front of the winner)
    let extra = 1 + rng.below(4);
    for _ in 0..extra {
        let new_pep = rng.chance(1, 3) || a.peptides.is_empty();
        let pep = if new_pep {
            b.peptides.push((0..8).map(|_| *rng.pick(AAS)).collect());
            (b.peptides.len() - 1) as u32
        } else {
            rng.below(a.peptides.len()) as u32
        };
        let (label, q) = if rng.chance(1, 2) { (-1, *rng.pick(&[0.0f32, 0.01])) } else { (1, *rng.pick(&[up(0.01f32), 0.02, 1.0])) };
        let f = Ft {
            pep,
            label,
            q,
            rt: rng.unit() as f32,
            calcmass: 500.0 + 3000.0 * rng.unit() as f32,
            charge: 2,
            file: rng.below(a.aligns.len().max(1)),
            ims: 1.0,
            expmass: 0.0,
            iso_err: 0.0,
        };
        let at = if rng.chance(1, 2) { 0 } else { rng.below(b.feats.len() + 1) };
        b.feats.insert(at, f);
    }
    // peaks one ulp (or a few ppm) outside a real window, in a scan inside the RT window; and in-window masses in scans
    // just outside the RT window (identity alignment only: the scan time is then the aligned rt exactly)
    for f in &win {
        for z in a.z_lo..=a.z_hi {
            if z == 0 {
                continue;
            }
            for iso in 0..3usize {
                let mz = (f.calcmass + iso as f32 * NEUTRON) / z as f32;
                let (lo, hi) = ppm_bounds(mz, a.ppm);
                if !b.spectra.is_empty() && rng.chance(1, 2) {
                    let k = rng.below(b.spectra.len());
                    let m = *rng.pick(&[up(hi), down(lo), hi * (1.0 + 3.0e-6), lo * (1.0 - 3.0e-6)]);
                    let at = rng.below(b.spectra[k].peaks.len() + 1);
                    b.spectra[k].peaks.insert(at, (m, 5.0e4, f.ims));
                }
                if rng.chance(1, 3) {
                    for file in 0..a.aligns.len() {
                        if a.aligns[file] == (1.0, 1.0, 0.0) {
                            let t = *rng.pick(&[up(up(f.rt + RT_TOL)), f.rt + 1.5 * RT_TOL]);
                            if a.with_mob || t - f.rt > RT_TOL {
                                b.spectra.push(Sp { file, t, peaks: vec![(mz, 7.0e4, f.ims)] });
                            }
                        }
                    }
                }
                if a.with_mob && !b.spectra.is_empty() && rng.chance(1, 3) {
                    // right mass, wrong mobility
                    let k = rng.below(b.spectra.len());
                    b.spectra[k].peaks.push((mz, 6.0e4, f.ims * (1.0 + 3.0 * a.mob_pct / 100.0)));
                }
            }
        }
    }
    // peaks at the de-isotoped OBSERVED mass of the winning PSM (expmass - isotope_error), when that is clearly outside the
    // ppm window around the theoretical m/z: in scans inside the RT window
    for f in &win {
        let off_ppm = ((f.expmass - f.iso_err) - f.calcmass).abs() / f.calcmass * 1.0e6;
        if f.iso_err == 0.0 || off_ppm < 1.5 * a.ppm {
            continue;
        }
        for k in 0..b.spectra.len() {
            let al = a.aligns[b.spectra[k].file];
            let rt = (b.spectra[k].t / al.0) * al.1 + al.2;
            if (rt - f.rt).abs() > 0.004 || rng.chance(1, 3) {
                continue;
            }
            for z in a.z_lo..=a.z_hi {
                if z == 0 {
                    continue;
                }
                for iso in 0..3usize {
                    let mz = ((f.expmass - f.iso_err) + iso as f32 * NEUTRON) / z as f32;
                    b.spectra[k].peaks.push((mz, 9.0e4, f.ims));
                }
            }
        }
    }
    // far-away peaks and spectra
    for _ in 0..rng.below(4) {
        if !b.spectra.is_empty() {
            let k = rng.below(b.spectra.len());
            b.spectra[k].peaks.push((5000.0 + 1000.0 * rng.unit() as f32, 1.0e5, 1.0));
        }
    }
    for _ in 0..rng.below(3) {
        if !a.aligns.is_empty() {
            let file = rng.below(a.aligns.len());
            let at = rng.below(b.spectra.len() + 1);
            b.spectra.insert(at, Sp { file, t: 1.0e6, peaks: vec![(700.0, 1.0e5, 1.0), (1200.0, 3.0e4, 1.0)] });
        }
    }
    b
}

fn permute_files(a: &World, perm: &[usize]) -> World {
    // file i of A becomes file perm[i] of B
    let mut b = a.clone();
    for f in &mut b.feats {
        f.file = perm[f.file];
    }
    for s in &mut b.spectra {
        s.file = perm[s.file];
    }
    for (i, al) in a.aligns.iter().enumerate() {
        b.aligns[perm[i]] = *al;
    }
    b
}

fn directed(emit: &mut dyn FnMut(Case)) {
    // one peptide, identity alignment, everything on a boundary
    for &(ppm, combine, z) in &[(5.0f32, true, 2u8), (20.0, false, 2), (10.0, true, 3)] {
        for &rt0 in &[0.5f32, 0.25, 0.004, 0.01, 0.0] {
            let calc = 1500.75f32;
            let seq = b"PEPTIDECMK".to_vec();
            let feat = Ft { pep: 0, label: 1, q: 0.01, rt: rt0, calcmass: calc, charge: z, file: 0, ims: 1.0, expmass: 0.0, iso_err: 0.0 };
            let mut spectra = Vec::new();
            let scan_rts = [
                rt0,
                rt0 + RT_TOL,
                up(rt0 + RT_TOL),
                rt0 - RT_TOL,
                down(rt0 - RT_TOL),
                rt0 + 0.5 * RT_TOL,
                rt0 - 0.5 * RT_TOL,
                rt0 + 0.001,
                rt0 + 0.0011,
                rt0 + 0.0012,
                rt0 - 0.0009,
                rt0 - 0.001,
                (rt0 - 2.0 * RT_TOL).max(0.0),
                (rt0 - 2.0 * RT_TOL).max(0.0) + RT_TOL,
            ];
            // scans that sit EXACTLY on the two edges of the lookup's window test as the code evaluates it in f32:
            // `range.rt <= fl(rt + RT_TOL)` and `range.rt >= fl(rt - RT_TOL)` hold with equality (for the target range at
            // rt0 and for the decoy range at max(rt0 - 2*RT_TOL, 0)); a `<` / `>` there loses these scans
            let mut scan_rts: Vec<f32> = scan_rts.to_vec();
            for centre in [rt0, (rt0 - 2.0 * RT_TOL).max(0.0)] {
                for (guess, plus) in [(centre - RT_TOL, true), (centre + RT_TOL, false)] {
                    if guess <= 0.0 {
                        continue;
                    }
                    for d in -8i32..=8 {
                        let x = f32::from_bits((guess.to_bits() as i64 + d as i64) as u32);
                        let hit = if plus { x + RT_TOL == centre } else { x - RT_TOL == centre };
                        if hit {
                            scan_rts.push(x);
                        }
                    }
                }
            }
            for (k, &t) in scan_rts.iter().enumerate() {
                if t < 0.0 {
                    continue;
                }
                let mut peaks = Vec::new();
                for iso in 0..3usize {
                    let mz = (calc + iso as f32 * NEUTRON) / z as f32;
                    let (lo, hi) = ppm_bounds(mz, ppm);
                    let w = [1.0f32, 0.8, 0.4][iso] * (1.0 + k as f32);
                    for (j, m) in [lo, hi, down(lo), up(hi), mz].iter().enumerate() {
                        peaks.push((*m, 1000.0 * w * (1.0 + j as f32), 1.0));
                    }
                    let (lo2, hi2) = ppm_bounds(mz + 11.06, ppm);
                    peaks.push((lo2, 500.0 * w, 1.0));
                    peaks.push((up(hi2), 500.0 * w, 1.0));
                }
                spectra.push(Sp { file: 0, t, peaks });
            }
            for &sa in &[0.0f64, 0.7] {
                for &scoring in &[0u8, 3] {
                    let w = World {
                        with_mob: false,
                        combine,
                        scoring,
                        sum: true,
                        sa,
                        ppm,
                        mob_pct: 1.0,
                        z_lo: z,
                        z_hi: z,
                        peptides: vec![seq.clone()],
                        feats: vec![feat.clone()],
                        aligns: vec![(1.0, 1.0, 0.0)],
                        spectra: spectra.clone(),
                    };
                    emit(Case::new(req_lfq(&[1], 0, &w)).tag("directed-boundary"));
                    emit(Case::new(req_lfq(&[1], 2, &w)).tag("directed-boundary").tag("rebinned"));
                }
            }
        }
    }
    // near-isobaric neighbours: two confident peptides whose m/z windows overlap (0.002 apart at charge 2), same rt; a peak in
    // BOTH windows. `binary_search_slice` returns one element below the lower search bound, so a too-small search margin
    // (mass - 0.001 instead of mass - 0.1) still finds the nearer range and silently loses the farther one.
    for &(ppm, combine) in &[(5.0f32, true), (10.0, false)] {
        let calc = [1500.0f32, 1500.004];
        let feats: Vec<Ft> = (0..2)
            .map(|p| Ft { pep: p as u32, label: 1, q: 0.0, rt: 0.4, calcmass: calc[p], charge: 2, file: 0, ims: 1.0, expmass: 0.0, iso_err: 0.0 })
            .collect();
        let mut spectra = Vec::new();
        for k in 0..9 {
            let t = 0.4 + 0.0006 * (k as f32 - 4.0);
            let mut peaks = Vec::new();
            for iso in 0..3usize {
                let w = [1.0f32, 0.85, 0.45][iso] * (5.0 - (k as f32 - 4.0).abs());
                peaks.push(((calc[0] + iso as f32 * NEUTRON) / 2.0 + 0.003, 2.0e4 * w, 1.0));
            }
            spectra.push(Sp { file: 0, t, peaks });
        }
        let w = World {
            with_mob: false,
            combine,
            scoring: 3,
            sum: true,
            sa: 0.3,
            ppm,
            mob_pct: 1.0,
            z_lo: 2,
            z_hi: 2,
            peptides: vec![b"PEPTIDEKAA".to_vec(), b"PEPTLDEKAA".to_vec()],
            feats,
            aligns: vec![(1.0, 1.0, 0.0)],
            spectra,
        };
        emit(Case::new(req_lfq(&[1], 0, &w)).tag("directed-isobaric-neighbours"));
        emit(Case::new(req_lfq(&[1], 3, &w)).tag("directed-isobaric-neighbours").tag("rebinned"));
    }
    // the best PSM was triggered on the M+1 isotope peak (isotope_error = 1 neutron) and its measured precursor mass is 12 ppm
    // off; the LFQ windows (5 ppm) belong to the theoretical isotopologue m/z all the same (seeded C19-R centred them on
    // expmass - isotope_error): (a) strong peaks 12 ppm away are noise, (b) a world with ONLY such peaks reports nothing
    for &iso_k in &[1.0f32, 2.0] {
        let calc = 927.4549f32;
        let iso_err = iso_k * NEUTRON;
        let expmass = calc + iso_err + calc * 12.0 / 1.0e6;
        let feat = Ft { pep: 0, label: 1, q: 0.0, rt: 0.5, calcmass: calc, charge: 2, file: 0, ims: 1.0, expmass, iso_err };
        let env = [1.0f32, 0.45, 0.12];
        let mut clean = Vec::new();
        let mut noisy = Vec::new();
        let mut only_noise = Vec::new();
        for k in 0..9 {
            let t = 0.5 + 0.0005 * (k as f32 - 4.0);
            let w = 1.0e5 * (5.0 - (k as f32 - 4.0).abs());
            let sig: Vec<(f32, f32, f32)> = (0..3usize).map(|i| ((calc + i as f32 * NEUTRON) / 2.0, env[i] * w, 1.0)).collect();
            let off: Vec<(f32, f32, f32)> =
                (0..3usize).map(|i| (((expmass - iso_err) + i as f32 * NEUTRON) / 2.0, 5.0 * env[i] * w, 1.0)).collect();
            clean.push(Sp { file: 0, t, peaks: sig.clone() });
            let mut both = sig.clone();
            both.extend(off.iter().copied());
            noisy.push(Sp { file: 0, t, peaks: both });
            only_noise.push(Sp { file: 0, t, peaks: off });
        }
        let mk = |spectra: Vec<Sp>| World {
            with_mob: false,
            combine: true,
            scoring: 3,
            sum: true,
            sa: 0.5,
            ppm: 5.0,
            mob_pct: 1.0,
            z_lo: 2,
            z_hi: 2,
            peptides: vec![b"PEPTIDEK".to_vec()],
            feats: vec![feat.clone()],
            aligns: vec![(1.0, 1.0, 0.0)],
            spectra,
        };
        emit(Case::new(req_lfq2(0, &[], 0, &mk(clean), &mk(noisy))).tag("directed-isotope-error").tag("noise"));
        emit(Case::new(req_lfq(&[1], 0, &mk(only_noise))).tag("directed-isotope-error"));
    }
    // degenerate worlds
    let empty = World {
        with_mob: false,
        combine: true,
        scoring: 3,
        sum: true,
        sa: 0.7,
        ppm: 5.0,
        mob_pct: 1.0,
        z_lo: 2,
        z_hi: 3,
        peptides: vec![],
        feats: vec![],
        aligns: vec![],
        spectra: vec![],
    };
    emit(Case::new(req_lfq(&[1, 2], 0, &empty)).tag("empty").nontrivial(false));
    let mut e2 = empty.clone();
    e2.peptides = vec![b"PEPTIDEK".to_vec()];
    e2.feats = vec![Ft { pep: 0, label: 1, q: 0.0, rt: 0.5, calcmass: 1000.0, charge: 2, file: 0, ims: 1.0, expmass: 0.0, iso_err: 0.0 }];
    e2.aligns = vec![(1.0, 1.0, 0.0)];
    emit(Case::new(req_lfq(&[1], 0, &e2)).tag("no-spectra").nontrivial(false));
    let mut e3 = e2.clone();
    e3.z_lo = 3;
    e3.z_hi = 2;
    e3.spectra = vec![Sp { file: 0, t: 0.5, peaks: vec![(500.0, 1.0e4, 1.0)] }];
    emit(Case::new(req_lfq(&[1], 0, &e3)).tag("empty-charge-range").nontrivial(false));
    // a spectrum of a file without alignment: the code panics
    let mut e4 = e2.clone();
    e4.spectra = vec![Sp { file: 1, t: 0.5, peaks: vec![] }];
    emit(Case::new(req_lfq(&[1], 0, &e4)).tag("bad-file-index").nontrivial(false));
    // reference file out of range: panics only when the grid is created
    let mut e5 = e2.clone();
    e5.feats[0].file = 3;
    e5.spectra = vec![Sp { file: 0, t: 0.5, peaks: vec![(500.0, 1.0e4, 1.0)] }];
    emit(Case::new(req_lfq(&[1], 0, &e5)).tag("bad-reference-file"));
    let mut e6 = e5.clone();
    e6.spectra = vec![Sp { file: 0, t: 0.9, peaks: vec![(500.0, 1.0e4, 1.0)] }];
    emit(Case::new(req_lfq(&[1], 0, &e6)).tag("bad-reference-file-unused").nontrivial(false));
}

// ---------------------------------------------------------------------------------------------
// acos cliff: an observed envelope that is (almost) exactly the theoretical one makes
// `similarity = dot / (ss.sqrt() * ss_dist)` land within a few ulp of 1.0; above 1.0 `acos` is NaN and the
// column cannot be chosen. The search below tunes one envelope so that the columns sit ON the cliff and
// the order of the f64 additions into a grid cell decides which columns survive.

/// scans: (intensities of isotopes 0..3), all at retention time `rt`
fn cliff_pattern(ref_rt: f32, rt: f32, dist: [f32; 3], scans: &[[f32; 3]], order: &[usize]) -> Vec<bool> {
    let entry = PrecursorRange {
        rt: ref_rt,
        mass_lo: 0.0,
        mass_hi: 0.0,
        mobility_lo: 0.0,
        mobility_hi: 0.0,
        charge: 2,
        isotope: 0,
        peptide: PeptideIx(0),
        file_id: 0,
        decoy: false,
    };
    let mut g = Grid::new(&entry, 0.0050, dist, 1, 100);
    for &k in order {
        for iso in 0..3 {
            g.add_entry(rt, iso, 0, scans[k][iso]);
        }
    }
    let tr = g.summarize_traces();
    (0..100).map(|c| tr.spectral_angle.data[c].is_nan() && tr.dot_product.data[c] > 0.0).collect()
}

fn cliff_pattern_signal(ref_rt: f32, rt: f32, dist: [f32; 3], scans: &[[f32; 3]], order: &[usize]) -> Vec<bool> {
    let entry = PrecursorRange {
        rt: ref_rt, mass_lo: 0.0, mass_hi: 0.0, mobility_lo: 0.0, mobility_hi: 0.0, charge: 2, isotope: 0,
        peptide: PeptideIx(0), file_id: 0, decoy: false,
    };
    let mut g = Grid::new(&entry, 0.0050, dist, 1, 100);
    for &k in order {
        for iso in 0..3 {
            g.add_entry(rt, iso, 0, scans[k][iso]);
        }
    }
    let tr = g.summarize_traces();
    (0..100).map(|c| tr.dot_product.data[c] > 0.0).collect()
}

fn nan_count(p: &[bool]) -> usize {
    p.iter().filter(|b| **b).count()
}

/// a one-peptide, one-file world tuned onto the cliff; `None` if the search does not converge for this sequence
fn cliff_world(rng: &mut Rng, want_presence: bool) -> Option<(World, World)> {
    let len = 7 + rng.below(10);
    let seq: Vec<u8> = (0..len).map(|_| *rng.pick(AAS)).collect();
    let d = iso_dist(&seq);
    let ref_rt = 0.3f32 + 0.4 * rng.unit() as f32;
    let rt = ref_rt + 0.0007;
    let big = (1u64 << 30) as f32;
    let mid = (1u64 << 15) as f32;
    let mut scans: Vec<[f32; 3]> = vec![[d[0] * big, d[1] * big, d[2] * big], [d[0] * mid, d[1] * mid, d[2] * mid]];
    let n_small = 3 + rng.below(6);
    for _ in 0..n_small {
        let g = 1.0 + 7.0 * rng.unit() as f32;
        scans.push([d[0] * g, d[1] * g, d[2] * g]);
    }
    let ident: Vec<usize> = (0..scans.len()).collect();
    let base = cliff_pattern(ref_rt, rt, d, &scans, &ident);
    if nan_count(&base) == 0 {
        return None; // ss_dist rounded up for this peptide: the exact envelope is on the safe side
    }
    // coarse knob: isotope 1 of the big scan, as a multiplier in f32 steps
    let (mut lo, mut hi) = (scans[0][1].to_bits(), (scans[0][1] * 1.01).to_bits());
    {
        let mut s = scans.clone();
        s[0][1] = f32::from_bits(hi);
        if nan_count(&cliff_pattern(ref_rt, rt, d, &s, &ident)) != 0 {
            return None;
        }
    }
    while hi - lo > 1 {
        let m = lo + (hi - lo) / 2;
        let mut s = scans.clone();
        s[0][1] = f32::from_bits(m);
        if nan_count(&cliff_pattern(ref_rt, rt, d, &s, &ident)) > 0 { lo = m } else { hi = m }
    }
    scans[0][1] = f32::from_bits(lo); // still NaN somewhere
    // medium knob: isotope 1 of the 2^15 scan
    let (mut lo2, mut hi2) = (scans[1][1].to_bits(), (scans[1][1] * 2.0).to_bits());
    {
        let mut s = scans.clone();
        s[1][1] = f32::from_bits(hi2);
        if nan_count(&cliff_pattern(ref_rt, rt, d, &s, &ident)) != 0 {
            return None;
        }
    }
    while hi2 - lo2 > 1 {
        let m = lo2 + (hi2 - lo2) / 2;
        let mut s = scans.clone();
        s[1][1] = f32::from_bits(m);
        if nan_count(&cliff_pattern(ref_rt, rt, d, &s, &ident)) > 0 { lo2 = m } else { hi2 = m }
    }
    // around the boundary: look for a setting where the ORDER of the scans changes the NaN pattern
    let mut orders: Vec<Vec<usize>> = vec![ident.clone(), ident.iter().rev().copied().collect()];
    for _ in 0..6 {
        let mut o = ident.clone();
        rng.shuffle(&mut o);
        orders.push(o);
    }
    for k in 0..120u32 {
        let bits = if k % 2 == 0 { lo2.saturating_sub(k / 2) } else { hi2 + k / 2 };
        let mut s = scans.clone();
        s[1][1] = f32::from_bits(bits);
        let pats: Vec<Vec<bool>> = orders.iter().map(|o| cliff_pattern(ref_rt, rt, d, &s, o)).collect();
        // presence: in one order every column that carries signal is NaN, in the other some column survives
        let sig = cliff_pattern_signal(ref_rt, rt, d, &s, &orders[0]);
        let dead = |p: &Vec<bool>| (0..100).all(|c| !sig[c] || p[c]);
        let hit = if want_presence {
            (0..pats.len()).find(|&j| dead(&pats[j])).and_then(|a| (0..pats.len()).find(|&b| !dead(&pats[b])).map(|b| (b, a)))
        } else {
            (1..pats.len()).find(|&j| pats[j] != pats[0]).map(|j| (0, j))
        };
        if let Some((i0, j)) = hit {
            let calc = 900.0 + 1500.0 * rng.unit() as f32;
            let mk = |order: &[usize]| -> Vec<Sp> {
                order
                    .iter()
                    .map(|&i| Sp {
                        file: 0,
                        t: rt,
                        peaks: (0..3).map(|iso| ((calc + iso as f32 * NEUTRON) / 2.0, s[i][iso], 1.0)).collect(),
                    })
                    .collect()
            };
            let w = World {
                with_mob: false,
                combine: true,
                scoring: 3,
                sum: true,
                sa: 0.7,
                ppm: 5.0,
                mob_pct: 1.0,
                z_lo: 2,
                z_hi: 2,
                peptides: vec![seq.clone()],
                feats: vec![Ft { pep: 0, label: 1, q: 0.0, rt: ref_rt, calcmass: calc, charge: 2, file: 0, ims: 1.0, expmass: 0.0, iso_err: 0.0 }],
                aligns: vec![(1.0, 1.0, 0.0)],
                spectra: mk(&orders[i0]),
            };
            let mut w2 = w.clone();
            w2.spectra = mk(&orders[j]);
            return Some((w, w2));
        }
    }
    None
}

fn gen_grid(rng: &mut Rng, n: usize, emit: &mut dyn FnMut(Case)) {
    for i in 0..n {
        let files = 1 + rng.below(3);
        // binade-crossing reference times: rt_min = fl(ref - tol) and ref have different ulps there, so a scan one ulp
        // below rt_min can still pass the lookup's window test (`ref <= fl(rt + tol)`)
        let edge = rng.chance(1, 3);
        let ref_rt = if edge {
            *rng.pick(&[0.5f32, 0.25, 0.125, 0.0625, 0.03125]) * (1.0 + 0.0099 * rng.unit() as f32)
        } else if rng.chance(1, 8) {
            0.0
        } else {
            rng.unit() as f32
        };
        let seq: Vec<u8> = (0..(6 + rng.below(14))).map(|_| *rng.pick(AAS)).collect();
        let dist = iso_dist(&seq);
        let n_add = if i == 0 { 0 } else { 1 + rng.below(60) };
        let lo = ref_rt - RT_TOL;
        let apex = ref_rt + 0.004 * (rng.unit() as f32 - 0.5);
        let exact = rng.chance(1, 4);
        let strict = rng.chance(4, 5);
        let mut o = Out::new();
        o.raw("lfqgrid").f32(ref_rt).n(rng.below(files)).n(files).f32(dist[0]).f32(dist[1]).f32(dist[2]);
        o.n(rng.below(4)).b(rng.chance(2, 3)).f64(*rng.pick(&[0.0f64, 0.5, 0.7, 0.9]));
        o.n(n_add);
        for _ in 0..n_add {
            let below = [down(lo), down(down(lo)), down(down(down(lo)))];
            let passing: Vec<f32> = below.iter().copied().filter(|r| ref_rt <= r + RT_TOL && ref_rt >= r - RT_TOL).collect();
            let rt = match rng.below(10) {
                0 if edge && !passing.is_empty() => *rng.pick(&passing),
                5 if edge && !passing.is_empty() => *rng.pick(&passing),
                0 => lo,
                1 => ref_rt + RT_TOL,
                2 => up(ref_rt + RT_TOL),
                3 => down(lo),
                4 => lo + (rng.below(101) as f32) * (RT_TOL * 2.0 / 100.0),
                _ => lo + 2.0 * RT_TOL * rng.unit() as f32,
            };
            // most cases keep to what `quantify` can feed a grid (the lookup's window test, in f32)
            let rt = if strict && !(ref_rt <= rt + RT_TOL && ref_rt >= rt - RT_TOL) { lo } else { rt };
            let iso = rng.below(3);
            let profile = (-0.5 * ((rt - apex) / 0.001).powi(2)).exp();
            let inten = if exact { dist[iso] * 1.0e4 * profile } else { dist[iso] * 1.0e4 * (0.02 + profile) * (0.7 + 0.6 * rng.unit() as f32) };
            o.f32(rt).n(iso).n(rng.below(files)).f32(inten);
        }
        emit(Case::new(o.finish()).tag("grid").tag_if(exact, "grid-exact-envelope").tag_if(edge, "grid-binade-edge").nontrivial(n_add > 0));
    }
}

pub fn gen(rng: &mut Rng, tier: Tier, emit: &mut dyn FnMut(Case)) {
    let quick = tier == Tier::Quick;
    let cfg = if quick {
        Cfg { max_pep: 4, max_files: 3, scans: (5, 14) }
    } else {
        Cfg { max_pep: 6, max_files: 5, scans: (5, 25) }
    };
    directed(emit);
    // big worlds: more than 16384 precursor ranges (1000+ confident peptides x 18), so that the RT-sorted map has several
    // pages even when built by ONE worker; the map itself (page layout against bin_size) and the full pipeline in pools
    let big: &[(usize, &[usize])] = if quick {
        &[(1000, &[1, 4])]
    } else {
        &[(1000, &[1, 2, 4, 16]), (2000, &[1, 2, 4, 16]), (4000, &[1, 2, 4, 16])]
    };
    for (n_pep, threads) in big {
        let seed = rng.next() % 1_000_000;
        let mut o = Out::new();
        o.raw("lfqbigmap").n(seed).n(*n_pep).n(threads.len());
        for t in *threads {
            o.n(*t);
        }
        emit(Case::new(o.finish()).tag("big-map"));
        let mut o = Out::new();
        o.raw("lfqbig").n(seed).n(*n_pep).n(threads.len());
        for t in *threads {
            o.n(*t);
        }
        emit(Case::new(o.finish()).tag("big-world"));
    }
    gen_grid(rng, if quick { 60 } else { 4000 }, emit);

    // feature map as built
    let n_map = if quick { 40 } else { 1500 };
    for _ in 0..n_map {
        let w = world(rng, &cfg, None, false);
        emit(Case::new(req_map(w.ppm, w.mob_pct, w.z_lo, w.z_hi, &w.feats)).tag("map").nontrivial(!winners(&w).is_empty()));
    }
    if !quick {
        // more than one real page: 1000 confident peptides x charges 2..4 x 3 isotopes x 2 = 18000 ranges, many rt ties
        let fs: Vec<Ft> = (0..1000u32)
            .map(|p| Ft {
                pep: p,
                label: 1,
                q: 0.0,
                rt: (rng.below(400) as f32) / 400.0,
                calcmass: 700.0 + 3000.0 * rng.unit() as f32,
                charge: 2,
                file: 0,
                ims: 1.0,
                expmass: 0.0,
                iso_err: 0.0,
            })
            .collect();
        emit(Case::new(req_map(10.0, 1.0, 2, 4, &fs)).tag("map").tag("map-multipage"));
    }

    // full pipeline, pools
    let n_full = if quick { 60 } else { 4000 };
    for i in 0..n_full {
        let w = world(rng, &cfg, None, false);
        let threads: Vec<usize> = if i % 3 == 0 { vec![1, 2, 4, 16] } else { vec![1] };
        let bin = pick_bin(rng);
        let nt = !winners(&w).is_empty() && !w.spectra.is_empty();
        emit(Case::new(req_lfq(&threads, bin, &w))
            .tag("full")
            .tag_if(threads.len() > 1, "pools-1-2-4-16")
            .tag_if(bin > 0, "rebinned")
            .tag_if(w.with_mob, "mobility")
            .tag_if(w.ppm > 20.0, "wide-ppm")
            .nontrivial(nt));
    }
    // doubling: file 1 = file 0 with doubled intensities
    let n_dbl = if quick { 25 } else { 1500 };
    for _ in 0..n_dbl {
        let mut w = world(rng, &cfg, Some(1), false);
        let base = w.spectra.clone();
        w.aligns.push(w.aligns[0]);
        for s in &base {
            w.spectra.push(Sp { file: 1, t: s.t, peaks: s.peaks.iter().map(|p| (p.0, p.1 * 2.0, p.2)).collect() });
        }
        if rng.chance(1, 2) {
            // interleave the two files
            let n = base.len();
            let mut v = Vec::new();
            for k in 0..n {
                v.push(w.spectra[k].clone());
                v.push(w.spectra[n + k].clone());
            }
            w.spectra = v;
        }
        if rng.chance(1, 2) {
            for f in &mut w.feats {
                f.file = rng.below(2);
            }
        }
        emit(Case::new(req_lfq(&[1], pick_bin(rng), &w)).tag("doubling").nontrivial(!winners(&w).is_empty()));
    }
    // noise
    let n_noise = if quick { 40 } else { 2500 };
    for i in 0..n_noise {
        let a = world(rng, &cfg, None, i % 2 == 0);
        let b = add_noise(rng, &a);
        emit(Case::new(req_lfq2(0, &[], pick_bin(rng), &a, &b)).tag("noise").nontrivial(!winners(&a).is_empty() && !a.spectra.is_empty()));
    }
    // file permutation
    let n_perm = if quick { 25 } else { 1500 };
    for _ in 0..n_perm {
        let nf = 2 + rng.below(cfg.max_files - 1);
        let a = world(rng, &cfg, Some(nf), false);
        let mut perm: Vec<usize> = (0..nf).collect();
        rng.shuffle(&mut perm);
        if perm.iter().enumerate().all(|(i, p)| i == *p) {
            perm.swap(0, 1);
        }
        let b = permute_files(&a, &perm);
        emit(Case::new(req_lfq2(1, &perm, pick_bin(rng), &a, &b)).tag("file-permutation").nontrivial(!winners(&a).is_empty()));
    }

    // acos cliff: envelopes tuned so that `similarity` sits within an ulp of 1.0 and the order of the f64 additions into a
    // grid cell (2^30 dynamic range inside one RT bin) decides which columns get a NaN spectral angle
    let tries = if quick { 300 } else { 5000 };
    for k in 0..tries {
        if let Some((w, w2)) = cliff_world(rng, k % 2 == 1) {
            emit(Case::new(req_lfq2(2, &[], 0, &w, &w2)).tag("acos-cliff").tag("spectrum-order"));
            emit(Case::new(req_lfq(&[1, 16, 16, 16, 16, 4, 4, 2, 2], 0, &w)).tag("acos-cliff").tag("pools-repeated"));
        }
    }
}
