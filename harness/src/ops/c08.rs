//! C08 — the peptide database is canonical and independent of FASTA order and scheduling
//!
//!   db8 <mode> <pseed> <nperm> <gen 0|1> <tag:hex>
//!       <mc> <min_len> <max_len> <cleave:hex> <0 | 1 restrict-byte> <c_terminal> <semi>
//!       <f32 min_mass> <f32 max_mass> <max_var>
//!       <nvar> {<key:hex> <nmass> <f32>*} <nstatic> {<key:hex> <f32>}
//!       <kinds mask (bit i = Kind i of a,b,c,x,y,z)> <min_ion_index> <bucket> <frag 0|1>
//!       <nrec> {<accession:hex> <sequence:hex>}
//!     -> panic
//!      | ok <npep> {<decoy> <seq:hex> <n> <f32 mod>*n <0|1 f32 nterm> <0|1 f32 cterm> <f32 mass>
//!                   <missed_cleavages> <semi_enzymatic> <position 0..3> <nprot> <acc:hex>*}
//!           F <nfrag> [frag=1: {<peptide index> <f32 m/z>}*nfrag sorted]
//!           perm <orders tried> <orders whose content differs>
//!           pool <pools tried> <pools whose content differs>
//!           hash <rebuilds of Parameters tried> <rebuilds whose content differs>
//!           ford <record orders> <pools> <rebuilds> whose fragment index AS STORED differs from the first build's
//!                (FNV-1a over (peptide index, m/z bits) in vector order, bucket size and min_value; the "content"
//!                comparison sorts the fragment list and cannot see the stored order)
//!
//!   The records are rendered as FASTA text (`>acc description\nSEQ\n`), read by the real `Fasta::parse`, and
//!   the database is built by the real `Builder::make_parameters` + `Parameters::build`.
//!   "content" = every public field of every peptide in database order, the fragment multiset
//!   (peptide index, m/z bits) sorted, and `min_value`.
//!   * perm: the same build on permuted record orders — ALL permutations when there are <= 5 records, otherwise
//!     reversal, a rotation and `nperm` shuffles drawn from `pseed`;
//!   * pool: the same build inside rayon pools of 1,2,3,4,5,6,8,16,32 threads (`ThreadPool::install`);
//!   * hash: the same build from a freshly made `Parameters` (new `HashMap` seeds for the modification
//!     tables, whose iteration order feeds the candidate order of `Peptide::apply`): run-to-run determinism
//!     (before fix 8dee51f `position` / `semi_enzymatic` of merged duplicates varied here).
//!   All perm/pool builds use a clone of one `Parameters` value, so that the only thing varied is the thing named.
//!   mode 0: main stream. mode 1: additionally the clause "a decoy-tagged FASTA protein that contains the
//!   peptide is listed too" is switched on in the driver (FASTA-supplied decoys; separate stream).
//!
//!   db8t <k> <threads>*k <the arguments of db8>
//!     -> panic
//!      | ok <pre> <npep> {peptide as in db8}*npep  T <k> {<threads> <npep_t> <ndup_t> <nbad_t> <digest_t> <stored_t>}*k
//!        (stored_t: digest of the fragment index as stored, see `ford` of db8)
//!   Block-boundary stream for the de-duplication of `reorder_peptides`: the same build inside rayon pools of
//!   the listed sizes. `pre` = number of peptide forms handed to `reorder_peptides` (before de-duplication;
//!   recomputed through the public API: `Fasta::digest`, `group_digests`, `Peptide::try_from/apply/reverse`).
//!   The full database is listed for the FIRST pool size; for every pool size: entry count, number of entries
//!   whose (sequence, modifications, nterm, cterm) was already seen (`ndup`), number of entries whose mass is
//!   below its predecessor's or whose protein list is not strictly increasing (`nbad`), and an FNV-1a digest of
//!   the canonical content (peptides, sorted fragments, min_value).
//!
//!   chunkdb <k> <seed> <drop 0|1> <kfree 0|1> <the arguments of db8>
//!     -> panic
//!      | ok <npep> {peptide as in db8}*npep F <nfrag> [frag=1: pairs]
//!           shuf <orders tried> <that differ>  pool <pools tried> <that differ>  ksz <chunk sizes tried> <that differ>
//!           ford <concatenation orders> <pools> <chunk sizes> whose fragment index AS STORED differs
//!   The chunked PREFILTER path of sage-cli (`Runner::prefilter_peptides`) through the public API:
//!   `Fasta::parse` -> `iter_chunks(k)` -> per chunk `Parameters::build` -> of each chunk's peptides a subset
//!   (drop = 1: entry i of chunk c is dropped iff (7 i + 3 c + seed) % 4 == 0; the real prefilter keeps what
//!   matched a spectrum) -> concatenated in an arbitrary order (shuffled from `seed`; the real code collects from
//!   a HashSet) -> `Parameters::reorder_peptides` -> `build_from_peptides`. `k = 0` panics (`chunks(0)`).
//!   shuf: the same with other concatenation orders (chunk order, reversed, 3 more shuffles);
//!   pool: the same inside rayon pools of 1, 2, 4, 8 threads; ksz (only when kfree = 1, i.e. the request has no
//!   decoys at all and is not semi-enzymatic, drop = 0): chunk sizes 1, 2, 3, n-1, n, n+1 give the same content.
use super::Info;
use crate::proto::{Case, Out, Rng, Tier, Toks};
use sage_core::database::{Builder, EnzymeBuilder, IndexedDatabase, Parameters};
use sage_core::enzyme::{group_digests, EnzymeParameters, Position};
use sage_core::peptide::Peptide;
use sage_core::fasta::Fasta;
use sage_core::ion_series::Kind;
use std::collections::{HashMap, HashSet};
use std::sync::{Arc, Mutex, OnceLock};

pub const OPS: &[&str] = &["db8", "db8t", "chunkdb"];
pub const INFO: Info = Info {
    rule: "db8: FASTA records assembled from a pool of tryptic blocks over a small residue alphabet (I/L isobars, \
           M/C/Q/S for modifications), so that peptides are shared between proteins and occur at protein N-terminus, \
           C-terminus, internally and as whole proteins; whole proteins duplicated under other accessions; accessions \
           whose byte order differs from their numeric order; 2-6 records (every permutation is rebuilt), 7-60 records, \
           and large databases up to several thousand entries before merging (frag=0) so that rayon's insertion-sort \
           (<=20), sequential (<=2000) and parallel quicksort regimes are reached; enzyme: KR/P tryptic, N-terminal \
           cleavage, no restriction, 0-2 missed cleavages, semi-enzymatic, non-specific; variable modifications on \
           ^ $ [ ] (with and without residue) and residues, 1-3 per peptide, several masses per key, overlapping \
           candidates (^ and [ with the same mass); non-overlapping static modifications; generated decoys and \
           FASTA-supplied decoys; about 3 in 8 inputs already CONTAIN decoy-tagged records placed first / interleaved \
           (a tagged record directly before an untagged one) / last, with generate_decoys = true (they must be skipped \
           without trace) or false (they are the decoys) (tagged accessions, peptides shared between tagged and untagged proteins); mass \
           window sometimes cutting the form list; directed cases: the two fixed C08 defects, palindromic / short \
           peptides whose reversal is a target, FASTAs without any digest (one protein below min_len, only tagged records while decoys are generated, empty \
           FASTA: the empty database, trivial); every case is also \
           rebuilt 4 times from a fresh Parameters value (new HashMap seeds). fragment-tie stream (db8): peptides with I/L isomers, shared \
           2-3 residue prefixes and shared tails, targets with their decoys, 0-2 missed cleavages, bucket sizes 2,4,8,16,64, \
           min_ion_index 0-1: many equal-m/z fragments of different peptides straddling bucket boundaries; every db8 / db8t / \
           chunkdb build also reports a digest of the fragment index AS STORED (vector order, bucket layout), compared \
           across record orders, pools, repeated builds, concatenation orders, chunk sizes. db8t (block-boundary stream): FASTAs \
           of 3-peptide proteins over a pool of m distinct peptides plus single-peptide proteins, so that every form \
           is produced by up to four digest groups (N-terminal / internal / C-terminal / whole protein) and by its \
           reversed decoy: the sorted pre-merge vector is runs of equal keys; sizes chosen so that it has about \
           4096-, 4096+, 2x4096, 9k, 3x4096, 13k, 20k, 30k forms; built in pools of 1,2,3,4,5,6,8,16 threads. chunkdb (chunked \
           prefilter path): proteins A_i and B_i = mirror images (reversal between the termini) of A_i's peptides plus a \
           peptide shared with A_(i+1), so that with chunk sizes 1,2,3,n-1 the generated decoy of one chunk is a target \
           of another; f32 residue sums of the two orders equal (main stream) or one ulp apart (separate stream); static \
           ^ [ ] $ +229 or C +57, variable ^ $ [ ] M S; FASTA-supplied decoys in other chunks; random subset dropped; \
           concatenation shuffled 6 ways; pools 1,2,4,8; chunk sizes 1,2,3,n-1,n,n+1 compared when there are no decoys. \
           non-trivial = at least two database entries and at least one entry with >= 2 proteins or >= 2 merged \
           sources; distinct by request line",
    serial: true,
};

// ------------------------------------------------------------------------------------------ request

#[derive(Clone, Debug)]
struct Req {
    mode: usize,
    pseed: u64,
    nperm: usize,
    gen: bool,
    tag: String,
    mc: u8,
    min_len: usize,
    max_len: usize,
    cleave: String,
    restrict: Option<u8>,
    c_terminal: bool,
    semi: bool,
    lo: f32,
    hi: f32,
    max_var: usize,
    vars: Vec<(String, Vec<f32>)>,
    statics: Vec<(String, f32)>,
    kinds: usize,
    min_ion: usize,
    bucket: usize,
    frag: bool,
    recs: Vec<(String, String)>,
}

fn write_req(r: &Req) -> String {
    let mut o = Out::new();
    o.raw("db8").n(r.mode).n(r.pseed).n(r.nperm).b(r.gen).s(&r.tag);
    o.n(r.mc).n(r.min_len).n(r.max_len).s(&r.cleave);
    match r.restrict {
        None => o.n(0),
        Some(c) => o.n(1).n(c),
    };
    o.b(r.c_terminal).b(r.semi).f32(r.lo).f32(r.hi).n(r.max_var);
    o.n(r.vars.len());
    for (k, ms) in &r.vars {
        o.s(k).n(ms.len());
        for m in ms {
            o.f32(*m);
        }
    }
    o.n(r.statics.len());
    for (k, m) in &r.statics {
        o.s(k).f32(*m);
    }
    o.n(r.kinds).n(r.min_ion).n(r.bucket).b(r.frag);
    o.n(r.recs.len());
    for (a, s) in &r.recs {
        o.s(a).s(s);
    }
    o.finish()
}

fn read_req(t: &mut Toks) -> Option<Req> {
    let mode = t.usize()?;
    let pseed = t.tok()?.parse::<u64>().ok()?;
    let nperm = t.usize()?;
    let gen = t.bool()?;
    let tag = t.string()?;
    let mc = t.usize()?;
    if mc > 254 {
        return None;
    }
    let min_len = t.usize()?;
    let max_len = t.usize()?;
    let cleave = t.string()?;
    let restrict = t.opt(|t| t.usize())?;
    let restrict = match restrict {
        None => None,
        Some(c) if c < 128 => Some(c as u8),
        _ => return None,
    };
    let c_terminal = t.bool()?;
    let semi = t.bool()?;
    let lo = t.f32()?;
    let hi = t.f32()?;
    let max_var = t.usize()?;
    let vars = t.list(|t| {
        let k = t.string()?;
        let ms = t.list(|t| t.f32())?;
        Some((k, ms))
    })?;
    let statics = t.list(|t| {
        let k = t.string()?;
        let m = t.f32()?;
        Some((k, m))
    })?;
    let kinds = t.usize()?;
    let min_ion = t.usize()?;
    let bucket = t.usize()?;
    let frag = t.bool()?;
    let recs = t.list(|t| {
        let a = t.string()?;
        let s = t.string()?;
        Some((a, s))
    })?;
    if !t.done() {
        return None;
    }
    Some(Req {
        mode, pseed, nperm, gen, tag, mc: mc as u8, min_len, max_len, cleave, restrict, c_terminal, semi, lo, hi,
        max_var, vars, statics, kinds, min_ion, bucket, frag, recs,
    })
}

// ------------------------------------------------------------------------------------------ sage glue

fn kinds_of(mask: usize) -> Vec<Kind> {
    [Kind::A, Kind::B, Kind::C, Kind::X, Kind::Y, Kind::Z]
        .into_iter()
        .enumerate()
        .filter(|(i, _)| mask >> i & 1 == 1)
        .map(|(_, k)| k)
        .collect()
}

fn parameters(r: &Req) -> Parameters {
    Builder {
        bucket_size: Some(r.bucket.max(1)),
        enzyme: Some(EnzymeBuilder {
            missed_cleavages: Some(r.mc),
            min_len: Some(r.min_len),
            max_len: Some(r.max_len),
            cleave_at: Some(r.cleave.clone()),
            restrict: r.restrict.map(|c| c as char),
            c_terminal: Some(r.c_terminal),
            semi_enzymatic: Some(r.semi),
        }),
        peptide_min_mass: Some(r.lo),
        peptide_max_mass: Some(r.hi),
        ion_kinds: Some(kinds_of(r.kinds)),
        min_ion_index: Some(r.min_ion),
        static_mods: Some(r.statics.iter().cloned().collect::<HashMap<_, _>>()),
        variable_mods: Some(r.vars.iter().cloned().collect::<HashMap<_, _>>()),
        max_variable_mods: Some(r.max_var),
        decoy_tag: Some(r.tag.clone()),
        generate_decoys: Some(r.gen),
        fasta: Some("none".into()),
        ..Default::default()
    }
    .make_parameters()
}

fn fasta_text(recs: &[(String, String)]) -> String {
    let mut s = String::new();
    for (a, q) in recs {
        s.push('>');
        s.push_str(a);
        s.push_str(" d\n");
        s.push_str(q);
        s.push('\n');
    }
    s
}

fn build(p: &Parameters, recs: &[(String, String)]) -> IndexedDatabase {
    let fasta = Fasta::parse(fasta_text(recs), &p.decoy_tag, p.generate_decoys);
    let mut db = p.clone().build(fasta);
    if std::env::var("VERIF_C08_SIM").ok().as_deref() == Some("J") {
        sim_fold_reduce_index(p, &mut db);
    }
    db
}

/// debugging aid only (VERIF_C08_SIM=J): rebuilds the fragment index the way seeded change C08-J does - the fragments
/// are gathered into one buffer per worker (as many parts as the current pool has threads) and the buffers are
/// joined smaller-onto-larger, so the order BEFORE the unstable sorts depends on the pool size - then the same
/// sorts and bucket layout as `build_from_peptides`. Used to check that the stored-order digests see it.
fn sim_fold_reduce_index(p: &Parameters, db: &mut IndexedDatabase) {
    use rayon::prelude::*;
    use sage_core::database::{PeptideIx, Theoretical};
    use sage_core::ion_series::IonSeries;
    let parts = rayon::current_num_threads().max(1);
    let n = db.peptides.len();
    let per = (n + parts - 1) / parts.max(1);
    let mut bufs: Vec<Vec<Theoretical>> = Vec::new();
    for c in 0..parts {
        let mut b = Vec::new();
        for idx in (c * per).min(n)..((c + 1) * per).min(n) {
            let pep = &db.peptides[idx];
            for kind in &p.ion_kinds {
                for (ion_idx, ion) in IonSeries::new(pep, *kind).enumerate() {
                    let keep = match ion.kind {
                        Kind::A | Kind::B | Kind::C => (ion_idx + 1) > p.min_ion_index,
                        Kind::X | Kind::Y | Kind::Z => pep.sequence.len().saturating_sub(1) - ion_idx > p.min_ion_index,
                    };
                    if keep {
                        b.push(Theoretical { peptide_index: PeptideIx(idx as u32), fragment_mz: ion.monoisotopic_mass });
                    }
                }
            }
        }
        bufs.push(b);
    }
    let mut acc: Vec<Theoretical> = Vec::new();
    for b in bufs {
        if b.len() > acc.len() {
            let mut b = b;
            b.extend(acc);
            acc = b;
        } else {
            acc.extend(b);
        }
    }
    acc.par_sort_unstable_by(|a, b| a.fragment_mz.total_cmp(&b.fragment_mz));
    let min_value: Vec<f32> = acc
        .par_chunks_mut(p.bucket_size)
        .map(|chunk| {
            let min = chunk[0].fragment_mz;
            chunk.par_sort_unstable_by(|a, b| a.peptide_index.cmp(&b.peptide_index));
            min
        })
        .collect();
    db.fragments = acc;
    db.min_value = min_value;
}

fn pos_code(p: Position) -> usize {
    match p {
        Position::Nterm => 0,
        Position::Cterm => 1,
        Position::Full => 2,
        Position::Internal => 3,
    }
}

struct Content {
    peps: String,
    npep: usize,
    frags: Vec<(u32, u32)>,
    minv: Vec<u32>,
    /// FNV-1a digest of the fragment index AS STORED: (peptide index, m/z bits) in vector order, the bucket size
    /// and `min_value` (the bucket layout). The multiset comparison above does not see the stored order.
    stored: u64,
}

impl Content {
    fn same(&self, o: &Content) -> bool {
        self.peps == o.peps && self.frags == o.frags && self.minv == o.minv
    }
}

fn content(db: &IndexedDatabase) -> Content {
    let mut o = Out::new();
    for p in &db.peptides {
        o.b(p.decoy).bytes(&p.sequence).n(p.modifications.len());
        for m in &p.modifications {
            o.f32(*m);
        }
        for t in [p.nterm, p.cterm] {
            match t {
                None => o.n(0),
                Some(x) => o.n(1).f32(x),
            };
        }
        o.f32(p.monoisotopic).n(p.missed_cleavages).b(p.semi_enzymatic).n(pos_code(p.position));
        o.n(p.proteins.len());
        for a in &p.proteins {
            o.s(a);
        }
    }
    let mut frags: Vec<(u32, u32)> = db.fragments.iter().map(|f| (f.peptide_index.0, f.fragment_mz.to_bits())).collect();
    let mut stored: u64 = 0xcbf29ce484222325;
    for (a, b) in &frags {
        fnv(&mut stored, &a.to_le_bytes());
        fnv(&mut stored, &b.to_le_bytes());
    }
    fnv(&mut stored, &(db.bucket_size as u64).to_le_bytes());
    for m in &db.min_value {
        fnv(&mut stored, &m.to_bits().to_le_bytes());
    }
    frags.sort();
    Content { peps: o.finish(), npep: db.peptides.len(), frags, minv: db.min_value.iter().map(|x| x.to_bits()).collect(), stored }
}

fn pool(threads: usize) -> Arc<rayon::ThreadPool> {
    static POOLS: OnceLock<Mutex<HashMap<usize, Arc<rayon::ThreadPool>>>> = OnceLock::new();
    let m = POOLS.get_or_init(|| Mutex::new(HashMap::new()));
    let mut g = m.lock().unwrap_or_else(|e| e.into_inner());
    g.entry(threads)
        .or_insert_with(|| Arc::new(rayon::ThreadPoolBuilder::new().num_threads(threads.max(1)).build().expect("pool")))
        .clone()
}

const POOLS: &[usize] = &[1, 2, 3, 4, 5, 6, 8, 16, 32];

fn all_perms(n: usize) -> Vec<Vec<usize>> {
    fn rec(k: usize, a: &mut Vec<usize>, out: &mut Vec<Vec<usize>>) {
        if k <= 1 {
            out.push(a.clone());
            return;
        }
        for i in 0..k {
            rec(k - 1, a, out);
            if k % 2 == 0 {
                a.swap(i, k - 1);
            } else {
                a.swap(0, k - 1);
            }
        }
    }
    let mut a: Vec<usize> = (0..n).collect();
    let mut out = Vec::new();
    rec(n, &mut a, &mut out);
    out
}

fn orders(n: usize, nperm: usize, pseed: u64) -> Vec<Vec<usize>> {
    if n <= 5 {
        return all_perms(n).into_iter().filter(|p| p.iter().enumerate().any(|(i, &x)| i != x)).collect();
    }
    let mut out: Vec<Vec<usize>> = Vec::new();
    out.push((0..n).rev().collect());
    out.push((0..n).map(|i| (i + n / 2) % n).collect());
    let mut rng = Rng::new(pseed);
    for _ in 0..nperm {
        let mut a: Vec<usize> = (0..n).collect();
        rng.shuffle(&mut a);
        out.push(a);
    }
    out
}

fn fnv(h: &mut u64, bytes: &[u8]) {
    for b in bytes {
        *h ^= *b as u64;
        *h = h.wrapping_mul(0x100000001b3);
    }
}

/// number of peptide forms `Parameters::digest` hands to `reorder_peptides`, through the public API
fn pre_dedup_count(p: &Parameters, recs: &[(String, String)]) -> usize {
    let fasta = Fasta::parse(fasta_text(recs), &p.decoy_tag, p.generate_decoys);
    let enzyme: EnzymeParameters = p.enzyme.clone().into();
    let groups = group_digests(fasta.digest(&enzyme));
    let targets: HashSet<Vec<u8>> =
        groups.iter().filter(|g| !g.reference.decoy).map(|g| g.reference.sequence.clone().into_bytes()).collect();
    let mods: Vec<_> = p.variable_mods.iter().flat_map(|(a, b)| b.iter().map(|b| (*a, *b))).collect();
    let mut n = 0;
    for g in groups {
        if let Ok(pep) = Peptide::try_from(g) {
            for f in pep.apply(&mods, &p.static_mods, p.max_variable_mods) {
                if f.monoisotopic >= p.peptide_min_mass && f.monoisotopic <= p.peptide_max_mass {
                    let both = if p.generate_decoys { vec![f.reverse(), f] } else { vec![f] };
                    n += both.iter().filter(|q| !q.decoy || !targets.contains(&q.sequence[..])).count();
                }
            }
        }
    }
    n
}

/// debugging aid (VERIF_C08_SIMBLOCK=1, stderr only): how many runs of equal keys of the sorted pre-merge vector
/// would be split by a de-duplication done per block of max(len / threads + 1, 4096) elements
fn sim_block_splits(p: &Parameters, recs: &[(String, String)], threads: &[usize]) {
    let fasta = Fasta::parse(fasta_text(recs), &p.decoy_tag, p.generate_decoys);
    let enzyme: EnzymeParameters = p.enzyme.clone().into();
    let groups = group_digests(fasta.digest(&enzyme));
    let targets: HashSet<Vec<u8>> =
        groups.iter().filter(|g| !g.reference.decoy).map(|g| g.reference.sequence.clone().into_bytes()).collect();
    let mods: Vec<_> = p.variable_mods.iter().flat_map(|(a, b)| b.iter().map(|b| (*a, *b))).collect();
    let mut pre: Vec<Peptide> = Vec::new();
    for g in groups {
        if let Ok(pep) = Peptide::try_from(g) {
            for f in pep.apply(&mods, &p.static_mods, p.max_variable_mods) {
                if f.monoisotopic >= p.peptide_min_mass && f.monoisotopic <= p.peptide_max_mass {
                    let both = if p.generate_decoys { vec![f.reverse(), f] } else { vec![f] };
                    pre.extend(both.into_iter().filter(|q| !q.decoy || !targets.contains(&q.sequence[..])));
                }
            }
        }
    }
    pre.sort_by(|a, b| a.monoisotopic.total_cmp(&b.monoisotopic).then_with(|| a.initial_sort(b)));
    let same = |a: &Peptide, b: &Peptide| {
        a.sequence == b.sequence && a.modifications == b.modifications && a.nterm == b.nterm && a.cterm == b.cterm
    };
    let inside = (1..pre.len()).filter(|&i| same(&pre[i - 1], &pre[i])).count();
    let mut line = format!("simblock: pre {} positions inside a run {}:", pre.len(), inside);
    for &t in threads {
        let b = (pre.len() / t + 1).max(4096);
        let splits = (1..).map(|j| j * b).take_while(|&i| i < pre.len()).filter(|&i| same(&pre[i - 1], &pre[i])).count();
        line.push_str(&format!(" t{}:{}", t, splits));
    }
    eprintln!("{}", line);
}

fn exec_threads(t: &mut Toks) -> Option<String> {
    let threads = t.list(|t| t.usize())?;
    if threads.is_empty() || threads.iter().any(|&k| k == 0 || k > 64) {
        return None;
    }
    let r = read_req(t)?;
    let p = parameters(&r);
    let pre = pre_dedup_count(&p, &r.recs);
    if std::env::var("VERIF_C08_SIMBLOCK").is_ok() {
        sim_block_splits(&p, &r.recs, &threads);
    }
    let mut o = Out::new();
    let mut tail = Out::new();
    for (i, &k) in threads.iter().enumerate() {
        let db = pool(k).install(|| build(&p, &r.recs));
        let c = content(&db);
        if i == 0 {
            o.raw("ok").n(pre).n(c.npep).raw(&c.peps);
        }
        let mut seen: HashSet<Vec<u8>> = HashSet::with_capacity(db.peptides.len());
        let (mut ndup, mut nbad) = (0usize, 0usize);
        let mut last = f32::NEG_INFINITY;
        for q in &db.peptides {
            let mut key: Vec<u8> = q.sequence.to_vec();
            for m in &q.modifications {
                key.extend_from_slice(&m.to_bits().to_le_bytes());
            }
            for x in [q.nterm, q.cterm] {
                key.push(x.is_some() as u8);
                key.extend_from_slice(&x.unwrap_or(0.0).to_bits().to_le_bytes());
            }
            if !seen.insert(key) {
                ndup += 1;
            }
            if q.monoisotopic < last || !q.proteins.windows(2).all(|w| w[0] < w[1]) {
                nbad += 1;
            }
            last = q.monoisotopic;
        }
        let mut h: u64 = 0xcbf29ce484222325;
        fnv(&mut h, c.peps.as_bytes());
        for (a, b) in &c.frags {
            fnv(&mut h, &a.to_le_bytes());
            fnv(&mut h, &b.to_le_bytes());
        }
        for m in &c.minv {
            fnv(&mut h, &m.to_le_bytes());
        }
        tail.n(k).n(c.npep).n(ndup).n(nbad).n(h).n(c.stored);
    }
    o.raw("T").n(threads.len()).raw(&tail.finish());
    Some(o.finish())
}

/// the prefilter path: per-chunk builds, subset, arbitrary concatenation order, reorder, index
fn chunk_build(p: &Parameters, recs: &[(String, String)], k: usize, seed: u64, drop: bool, order: usize) -> IndexedDatabase {
    let fasta = Fasta::parse(fasta_text(recs), &p.decoy_tag, p.generate_decoys);
    let mut all: Vec<Peptide> = Vec::new();
    for (c, chunk) in fasta.iter_chunks(k).enumerate() {
        let db = p.clone().build(chunk);
        for (i, q) in db.peptides.iter().enumerate() {
            if drop && (7 * i + 3 * c + seed as usize) % 4 == 0 {
                continue;
            }
            all.push(q.clone());
        }
    }
    match order {
        0 => Rng::new(seed).shuffle(&mut all),
        1 => {}
        2 => all.reverse(),
        j => Rng::new(seed.wrapping_add(j as u64 * 7919)).shuffle(&mut all),
    }
    match std::env::var("VERIF_C08_SIM").ok().as_deref() {
        // debugging aid only: local re-implementations of two seeded changes, to evaluate the generator
        Some(m @ ("H7" | "G8")) => sim_reorder(&mut all, m == "H7"),
        _ => Parameters::reorder_peptides(&mut all),
    }
    let mut db = p.clone().build_from_peptides(all);
    if std::env::var("VERIF_C08_SIM").ok().as_deref() == Some("J") {
        sim_fold_reduce_index(p, &mut db);
    }
    db
}

/// `reorder_peptides` with (h7) `remove.decoy == keep.decoy` added to the merge test, or (g8) the decoy flag as a
/// last sort key and no `keep.decoy &= remove.decoy` — used only under VERIF_C08_SIM
fn sim_reorder(v: &mut Vec<Peptide>, h7: bool) {
    v.sort_unstable_by(|a, b| {
        let o = a.monoisotopic.total_cmp(&b.monoisotopic).then_with(|| a.initial_sort(b));
        if h7 { o } else { o.then_with(|| a.decoy.cmp(&b.decoy)) }
    });
    v.dedup_by(|remove, keep| {
        if remove.monoisotopic == keep.monoisotopic
            && remove.sequence == keep.sequence
            && remove.modifications == keep.modifications
            && remove.nterm == keep.nterm
            && remove.cterm == keep.cterm
            && (!h7 || remove.decoy == keep.decoy)
        {
            keep.proteins.extend(remove.proteins.iter().cloned());
            if h7 {
                keep.decoy &= remove.decoy;
            }
            keep.semi_enzymatic &= remove.semi_enzymatic;
            keep.missed_cleavages = keep.missed_cleavages.min(remove.missed_cleavages);
            keep.position = keep.position.min(remove.position);
            true
        } else {
            false
        }
    });
    for q in v.iter_mut() {
        q.proteins.sort_unstable();
        q.proteins.dedup();
    }
}

fn exec_chunks(t: &mut Toks) -> Option<String> {
    let k = t.usize()?;
    let seed = t.tok()?.parse::<u64>().ok()?;
    let drop = t.bool()?;
    let kfree = t.bool()?;
    let r = read_req(t)?;
    let p = parameters(&r);
    let base = pool(4).install(|| content(&chunk_build(&p, &r.recs, k, seed, drop, 0)));
    let mut o = Out::new();
    o.raw("ok").n(base.npep).raw(&base.peps);
    o.raw("F").n(base.frags.len());
    if r.frag {
        for (i, m) in &base.frags {
            o.n(*i).n(*m);
        }
    }
    let mut sdiff = 0;
    let (mut fo_shuf, mut fo_pool, mut fo_ksz) = (0, 0, 0);
    let orders = [1usize, 2, 3, 4, 5];
    for &ord in &orders {
        let c = pool(4).install(|| content(&chunk_build(&p, &r.recs, k, seed, drop, ord)));
        if !c.same(&base) {
            sdiff += 1;
        }
        if c.stored != base.stored {
            fo_shuf += 1;
        }
    }
    o.raw("shuf").n(orders.len()).n(sdiff);
    let pools = [1usize, 2, 4, 8];
    let mut tdiff = 0;
    for &n in &pools {
        let c = pool(n).install(|| content(&chunk_build(&p, &r.recs, k, seed, drop, 0)));
        if !c.same(&base) {
            tdiff += 1;
        }
        if c.stored != base.stored {
            fo_pool += 1;
        }
    }
    o.raw("pool").n(pools.len()).n(tdiff);
    let (mut nk, mut kdiff) = (0, 0);
    if kfree && !drop {
        let n = Fasta::parse(fasta_text(&r.recs), &p.decoy_tag, p.generate_decoys).targets.len();
        let mut ks = vec![1usize, 2, 3, n.saturating_sub(1).max(1), n.max(1), n + 1];
        ks.sort();
        ks.dedup();
        for &kk in &ks {
            let c = pool(4).install(|| content(&chunk_build(&p, &r.recs, kk, seed, false, 0)));
            nk += 1;
            if !c.same(&base) {
                kdiff += 1;
            }
            if c.stored != base.stored {
                fo_ksz += 1;
            }
        }
    }
    o.raw("ksz").n(nk).n(kdiff);
    o.raw("ford").n(fo_shuf).n(fo_pool).n(fo_ksz);
    Some(o.finish())
}

pub fn exec(op: &str, t: &mut Toks) -> Option<String> {
    if op == "chunkdb" {
        return exec_chunks(t);
    }
    if op == "db8t" {
        return exec_threads(t);
    }
    if op != "db8" {
        return None;
    }
    let r = read_req(t)?;
    let p = parameters(&r);
    // the reference build runs in a 4-thread pool; a panic (an assert of Enzyme::new) propagates to the caller
    let base = pool(4).install(|| content(&build(&p, &r.recs)));
    let mut o = Out::new();
    o.raw("ok").n(base.npep).raw(&base.peps);
    if base.npep == 0 {
        // `raw` of an empty string would add a stray separator; nothing to do
    }
    o.raw("F").n(base.frags.len());
    if r.frag {
        for (i, m) in &base.frags {
            o.n(*i).n(*m);
        }
    }
    // metamorphic streams, evaluated on the implementation itself
    let ords = orders(r.recs.len(), r.nperm, r.pseed);
    let mut pdiff = 0;
    let (mut fo_perm, mut fo_pool, mut fo_rep) = (0, 0, 0);
    for ord in &ords {
        let recs: Vec<(String, String)> = ord.iter().map(|&i| r.recs[i].clone()).collect();
        let c = pool(4).install(|| content(&build(&p, &recs)));
        if !c.same(&base) {
            pdiff += 1;
        }
        if c.stored != base.stored {
            fo_perm += 1;
        }
    }
    o.raw("perm").n(ords.len()).n(pdiff);
    let mut tdiff = 0;
    for &k in POOLS {
        let c = pool(k).install(|| content(&build(&p, &r.recs)));
        if !c.same(&base) {
            tdiff += 1;
        }
        if c.stored != base.stored {
            fo_pool += 1;
        }
    }
    o.raw("pool").n(POOLS.len()).n(tdiff);
    let nh = 4;
    let mut hdiff = 0;
    for _ in 0..nh {
        let p2 = parameters(&r);
        let c = pool(4).install(|| content(&build(&p2, &r.recs)));
        if c.stored != base.stored {
            fo_rep += 1;
        }
        if !c.same(&base) {
            hdiff += 1;
            if std::env::var("VERIF_C08_DEBUG").is_ok() {
                let a: Vec<&str> = base.peps.split(' ').collect();
                let b: Vec<&str> = c.peps.split(' ').collect();
                let i = a.iter().zip(b.iter()).position(|(x, y)| x != y).unwrap_or(0);
                eprintln!("hash diff: npep {} {} frags_same {} at tok {}: {:?} vs {:?}", base.npep, c.npep, base.frags == c.frags, i,
                    &a[i.saturating_sub(12)..(i + 6).min(a.len())], &b[i.saturating_sub(12)..(i + 6).min(b.len())]);
            }
        }
    }
    o.raw("hash").n(nh).n(hdiff);
    // the fragment index AS STORED (vector order + bucket layout): record orders / pools / repeated builds that differ
    o.raw("ford").n(fo_perm).n(fo_pool).n(fo_rep);
    Some(o.finish())
}

// ------------------------------------------------------------------------------------------ generator

const MASSES: &[f32] = &[15.9949, 42.010565, 79.96633, -17.026548, 0.984016, 14.01565, 28.0313, 114.04293];
const ALPHA: &[u8] = b"AGILSMCQEPDK";
const ACCS: &[&str] = &["P1", "P10", "P2", "sp|Q9|X", "a1", "B7", "P02", "Z", "tr|A0|Y", "P3", "P11", "b"];

fn block(rng: &mut Rng, lo: usize, hi: usize) -> String {
    let n = rng.range(lo as i64, hi as i64) as usize;
    let mut s: Vec<u8> = (0..n.saturating_sub(1)).map(|_| *rng.pick(ALPHA)).collect();
    // inner K/R are allowed (missed-cleavage material, KP restriction); end on a cleavage residue
    if rng.chance(1, 6) && !s.is_empty() {
        let i = rng.below(s.len());
        s[i] = if rng.chance(1, 2) { b'K' } else { b'R' };
        if rng.chance(1, 2) && i + 1 < s.len() {
            s[i + 1] = b'P';
        }
    }
    s.push(if rng.chance(2, 3) { b'K' } else { b'R' });
    String::from_utf8(s).unwrap()
}

fn acc(i: usize) -> String {
    if i < ACCS.len() {
        ACCS[i].to_string()
    } else {
        format!("{}{}", ["P", "Q", "sp|", "x"][i % 4], i)
    }
}

/// proteins as concatenations of blocks drawn from a shared pool
fn proteins(rng: &mut Rng, nrec: usize, npool: usize, maxblocks: usize, blo: usize, bhi: usize) -> Vec<(String, String)> {
    let pool: Vec<String> = (0..npool).map(|_| block(rng, blo, bhi)).collect();
    let mut recs: Vec<(String, String)> = Vec::new();
    for i in 0..nrec {
        let seq = if i > 0 && rng.chance(1, 8) {
            // a whole protein duplicated under another accession
            recs[rng.below(i)].1.clone()
        } else if rng.chance(1, 10) {
            // a protein that is exactly one block (Position::Full)
            rng.pick(&pool[..]).clone()
        } else {
            let nb = rng.range(1, maxblocks as i64) as usize;
            let mut s = String::new();
            for _ in 0..nb {
                s.push_str(rng.pick(&pool[..]).as_str());
            }
            if rng.chance(1, 4) {
                // a C-terminal tail that does not end on a cleavage residue
                let tail: String = (0..rng.range(2, 6)).map(|_| *rng.pick(b"AGILSMCQ") as char).collect();
                s.push_str(&tail);
            }
            s
        };
        recs.push((acc(i), seq));
    }
    recs
}

fn var_mods(rng: &mut Rng, recs: &[(String, String)]) -> Vec<(String, Vec<f32>)> {
    let mut keys: Vec<String> = vec!["^".into(), "$".into(), "[".into(), "]".into(), "M".into(), "S".into(), "C".into(), "Q".into()];
    // terminal keys with a residue that actually occurs at a peptide terminus
    if let Some((_, s)) = recs.first() {
        let b = s.as_bytes();
        if !b.is_empty() {
            keys.push(format!("^{}", b[0] as char));
            keys.push(format!("[{}", b[0] as char));
            keys.push(format!("]{}", b[b.len() - 1] as char));
        }
    }
    keys.push("$K".into());
    let n = rng.below(4);
    let mut out: Vec<(String, Vec<f32>)> = Vec::new();
    for _ in 0..n {
        let k = rng.pick(&keys).clone();
        if out.iter().any(|(k2, _)| *k2 == k) {
            continue;
        }
        let nm = if rng.chance(1, 4) { 2 } else { 1 };
        let mut ms: Vec<f32> = Vec::new();
        for _ in 0..nm {
            let m = *rng.pick(MASSES);
            if !ms.contains(&m) {
                ms.push(m);
            }
        }
        out.push((k, ms));
    }
    // overlapping candidates: ^ and [ with the same mass put the same form on the list twice
    if rng.chance(1, 6) {
        out.retain(|(k, _)| k != "^" && k != "[");
        out.push(("^".into(), vec![42.010565]));
        out.push(("[".into(), vec![42.010565]));
    }
    out
}

/// static modifications that can never address the same site twice
fn static_mods(rng: &mut Rng, vars: &[(String, Vec<f32>)]) -> Vec<(String, f32)> {
    let mut out: Vec<(String, f32)> = Vec::new();
    if rng.chance(1, 2) {
        out.push(("C".into(), 57.021465));
    }
    if rng.chance(1, 5) {
        out.push(("K".into(), 229.16293));
    }
    if rng.chance(1, 6) {
        out.push((if rng.chance(1, 2) { "^" } else { "[" }.into(), 229.16293));
    }
    if rng.chance(1, 8) {
        out.push((if rng.chance(1, 2) { "$" } else { "]" }.into(), -0.984016));
    }
    let _ = vars;
    out
}

fn base_req(rng: &mut Rng, recs: Vec<(String, String)>) -> Req {
    let vars = var_mods(rng, &recs);
    let statics = static_mods(rng, &vars);
    let semi = rng.chance(1, 5);
    let (cleave, restrict, c_terminal) = match rng.below(10) {
        0 => ("KR".to_string(), None, true),
        1 => ("KR".to_string(), Some(b'P'), false),
        2 => ("K".to_string(), Some(b'P'), true),
        3 => ("".to_string(), None, true),
        _ => ("KR".to_string(), Some(b'P'), true),
    };
    let nonspecific = cleave.is_empty();
    let min_len = if nonspecific { rng.range(5, 6) as usize } else { rng.range(3, 6) as usize };
    let max_len = if nonspecific { min_len + rng.below(2) } else { rng.range(12, 30) as usize };
    let (lo, hi) = match rng.below(5) {
        0 => (600.0, 1200.0),
        1 => (0.0, 900.0),
        _ => (200.0, 6000.0),
    };
    Req {
        mode: 0,
        pseed: rng.next() % 1_000_000,
        nperm: 4,
        gen: rng.chance(2, 3),
        tag: "rev_".into(),
        mc: rng.below(3) as u8,
        min_len,
        max_len,
        cleave,
        restrict,
        c_terminal,
        semi: semi && !nonspecific,
        lo,
        hi,
        max_var: rng.range(1, 3) as usize,
        vars,
        statics,
        kinds: *rng.pick(&[0b010010usize, 0b010010, 0b111111, 0b000010, 0b100100]),
        min_ion: rng.below(3),
        bucket: *rng.pick(&[1usize, 2, 8, 64, 8192]),
        frag: true,
        recs,
    }
}

/// FASTA-supplied decoys: tag some accessions (reversed or identical sequences, so that peptides are shared
/// between tagged and untagged proteins)
fn tag_some(rng: &mut Rng, r: &mut Req, share: bool) {
    r.gen = false;
    let n = r.recs.len();
    let mut extra: Vec<(String, String)> = Vec::new();
    for i in 0..n {
        if rng.chance(1, 2) {
            let (a, s) = r.recs[i].clone();
            let seq = if share || rng.chance(1, 3) { s } else { s.chars().rev().collect() };
            extra.push((format!("rev_{}", a), seq));
        }
    }
    if extra.is_empty() {
        let (a, s) = r.recs[0].clone();
        extra.push((format!("rev_{}", a), s));
    }
    r.recs.extend(extra);
    rng.shuffle(&mut r.recs);
}


/// where the decoy-tagged records of the input stand relative to the untagged ones
#[derive(Copy, Clone, PartialEq)]
enum Place {
    First,
    Interleaved,
    Last,
}

/// a FASTA that already CONTAINS decoy-tagged records (`rev_` accessions), placed first / interleaved / last.
/// With `gen = true` `Fasta::parse` must skip them entirely (their residues must not leak into a neighbouring
/// record, no peptide of the database may derive from them, decoys are reversals of the untagged proteins);
/// with `gen = false` they are the decoys. Tagged sequences are reversals of untagged ones or unrelated blocks,
/// so that a peptide that leaks from them is foreign to every untagged protein.
fn with_tagged(rng: &mut Rng, r: &mut Req, gen: bool, place: Place, max_total: usize) {
    r.gen = gen;
    let targets: Vec<(String, String)> = std::mem::take(&mut r.recs);
    let nt = targets.len().max(1);
    let want = rng.range(1, 3) as usize;
    let ntag = want.min(max_total.saturating_sub(1)).max(1);
    let keep_t = nt.min(max_total - ntag).max(1);
    let targets: Vec<(String, String)> = targets.into_iter().take(keep_t).collect();
    let mut tagged: Vec<(String, String)> = Vec::new();
    for i in 0..ntag {
        let (a, q) = targets[i % targets.len()].clone();
        let seq: String = match rng.below(3) {
            0 => q.chars().rev().collect(),
            1 => format!("{}{}", block(rng, 5, 9), block(rng, 5, 9)),
            _ => {
                let mut v: Vec<char> = q.chars().collect();
                if v.len() > 2 {
                    let n = v.len();
                    v[1..n - 1].reverse();
                }
                v.into_iter().collect()
            }
        };
        tagged.push((format!("rev_{}{}", a, if i >= targets.len() { "b" } else { "" }), seq));
    }
    r.recs = match place {
        Place::First => tagged.into_iter().chain(targets).collect(),
        Place::Last => targets.into_iter().chain(tagged).collect(),
        Place::Interleaved => {
            // tagged, untagged, tagged, untagged, ... (a tagged record directly before an untagged one)
            let mut out = Vec::new();
            let mut ti = tagged.into_iter();
            let mut ui = targets.into_iter();
            loop {
                let a = ti.next();
                let b = ui.next();
                if a.is_none() && b.is_none() {
                    break;
                }
                out.extend(a);
                out.extend(b);
            }
            out
        }
    };
}

fn place_of(rng: &mut Rng) -> (Place, &'static str) {
    match rng.below(3) {
        0 => (Place::First, "tagged_records_first"),
        1 => (Place::Interleaved, "tagged_records_interleaved"),
        _ => (Place::Last, "tagged_records_last"),
    }
}

fn emit_req(emit: &mut dyn FnMut(Case), r: &Req, tags: &[&'static str]) {
    let mut c = Case::new(write_req(r));
    for t in tags {
        c = c.tag(t);
    }
    c = c.tag_if(r.gen, "generated_decoys").tag_if(!r.gen, "fasta_decoys_or_none");
    let has_tagged = r.recs.iter().any(|(a, _)| a.contains(r.tag.as_str()));
    c = c.tag_if(has_tagged && r.gen, "input_decoys_skipped").tag_if(has_tagged && !r.gen, "input_decoys_used");
    let tagged_before_target = r
        .recs
        .windows(2)
        .any(|w| w[0].0.contains(r.tag.as_str()) && !w[1].0.contains(r.tag.as_str()));
    c = c.tag_if(tagged_before_target, "tagged_directly_before_untagged");
    c = c.tag_if(r.semi, "semi_enzymatic").tag_if(r.cleave.is_empty(), "non_specific");
    c = c.tag_if(!r.vars.is_empty(), "variable_mods").tag_if(!r.statics.is_empty(), "static_mods");
    c = c.tag_if(r.recs.len() <= 5, "all_permutations").tag_if(r.recs.len() > 5, "sampled_permutations");
    c = c.tag_if(r.vars.iter().any(|(k, _)| k.starts_with('[') || k.starts_with(']')), "protein_terminal_mods");
    let shared = {
        // some 5-mer occurs in two different records
        let mut seen: HashMap<&str, usize> = HashMap::new();
        let mut hit = false;
        for (i, (_, s)) in r.recs.iter().enumerate() {
            for j in 0..s.len().saturating_sub(4) {
                match seen.get(&s[j..j + 5]) {
                    Some(&k) if k != i => hit = true,
                    _ => {
                        seen.insert(&s[j..j + 5], i);
                    }
                }
            }
        }
        hit
    };
    c = c.tag_if(shared, "shared_peptides");
    emit(c.nontrivial(shared && r.recs.len() >= 2));
}

fn s(x: &str) -> String {
    x.to_string()
}

fn directed(emit: &mut dyn FnMut(Case)) {
    let plain = |recs: Vec<(&str, &str)>| Req {
        mode: 0,
        pseed: 1,
        nperm: 4,
        gen: false,
        tag: s("rev_"),
        mc: 0,
        min_len: 5,
        max_len: 50,
        cleave: s("KR"),
        restrict: Some(b'P'),
        c_terminal: true,
        semi: false,
        lo: 100.0,
        hi: 6000.0,
        max_var: 2,
        vars: vec![],
        statics: vec![],
        kinds: 0b010010,
        min_ion: 0,
        bucket: 4,
        frag: true,
        recs: recs.into_iter().map(|(a, q)| (s(a), s(q))).collect(),
    };
    // fixed defect 7: semi_enzymatic of CCCCC depended on the record order
    let mut r = plain(vec![("A", "GGGGKCCCCC"), ("B", "GGGGGCCCCC")]);
    r.semi = true;
    emit_req(emit, &r, &["directed", "fixed_semi_flag_order"]);
    // fixed defect 8: overlapping candidates listed the protein twice
    let mut r = plain(vec![("P1", "AGGGGK"), ("P2", "AGGGGKAGGGGK")]);
    r.vars = vec![(s("^A"), vec![42.0]), (s("A"), vec![42.0])];
    emit_req(emit, &r, &["directed", "fixed_protein_listed_twice"]);
    // the same peptide at N-terminus, internally, at the C-terminus and as a whole protein, with ^ $ [ ] mods:
    // key-equal duplicates on which the comparator's cterm/nterm clause answers Less in both directions
    let mut r = plain(vec![("P1", "SEPTIDEKAAAAAK"), ("P2", "AAAAAKSEPTIDEKGGGGGK"), ("P3", "GGGGGKSEPTIDEK"), ("P4", "SEPTIDEK")]);
    r.vars = vec![(s("^"), vec![42.010565]), (s("$"), vec![-0.984016]), (s("["), vec![42.010565]), (s("]"), vec![14.01565])];
    r.gen = true;
    emit_req(emit, &r, &["directed", "four_positions_terminal_mods"]);
    // palindromes and short peptides: the reversed decoy is itself a target
    let mut r = plain(vec![("P1", "AKAGGK"), ("P2", "ALLAKALLAK"), ("P3", "GAGAK")]);
    r.gen = true;
    r.min_len = 3;
    emit_req(emit, &r, &["directed", "reversal_is_target"]);
    // I/L isobars: equal mass, decided by the sequence clause
    let mut r = plain(vec![("P1", "SEPTIDEKSEPTLDEK"), ("P2", "SEPTLDEKSEPTIDEK")]);
    r.gen = true;
    emit_req(emit, &r, &["directed", "isobaric_sequences"]);
    // duplicated accession (the list names it once)
    let r = plain(vec![("P1", "AAAAAKCCCCCK"), ("P1", "CCCCCKGGGGGK")]);
    emit_req(emit, &r, &["directed", "duplicate_accession"]);
    // the input already contains decoy-tagged records: first / interleaved / last, skipped (gen) or used (!gen).
    // A reader that lets the residues of a skipped record leak into the next one puts foreign peptides
    // (here CCCCCK / GGGGGK / MMMMMK) into the target database.
    for (gen, recs, tag) in [
        (true, vec![("rev_D1", "CCCCCKGGGGGK"), ("T1", "AAAAAKSSSSSK")], "tagged_records_first"),
        (true, vec![("rev_D1", "CCCCCKGGGGGK"), ("T1", "AAAAAKSSSSSK"), ("rev_D2", "MMMMMKCCCCCK"), ("T2", "LLLLLKAAAAAK")], "tagged_records_interleaved"),
        (true, vec![("T1", "AAAAAKSSSSSK"), ("T2", "LLLLLKAAAAAK"), ("rev_D1", "CCCCCKGGGGGK")], "tagged_records_last"),
        (false, vec![("rev_D1", "CCCCCKGGGGGK"), ("T1", "AAAAAKSSSSSK")], "tagged_records_first"),
        (false, vec![("T1", "AAAAAKSSSSSK"), ("rev_D1", "CCCCCKGGGGGK"), ("T2", "LLLLLKAAAAAK")], "tagged_records_interleaved"),
        (false, vec![("T1", "AAAAAKSSSSSK"), ("rev_D1", "CCCCCKGGGGGK")], "tagged_records_last"),
    ] {
        let mut r = plain(recs);
        r.gen = gen;
        emit_req(emit, &r, &["directed", tag]);
    }
    // no digest at all: the empty database (group_digests is guarded; it used to index digests[0] and panic):
    // one protein below min_len; only tagged records while decoys are generated; an empty FASTA
    for (gen, recs) in [
        (false, vec![("P1", "AAK")]),
        (true, vec![("P1", "AAK"), ("P2", "GGR")]),
        (true, vec![("rev_D1", "CCCCCKGGGGGK"), ("rev_D2", "AAAAAKSSSSSK")]),
        (true, vec![]),
        (false, vec![]),
    ] {
        let mut r = plain(recs);
        r.gen = gen;
        emit(Case::new(write_req(&r)).tag("directed").tag("no_digest_empty_database").nontrivial(false));
    }
}

fn directed_decoy_listing(emit: &mut dyn FnMut(Case)) {
    let r = Req {
        mode: 1,
        pseed: 1,
        nperm: 2,
        gen: false,
        tag: s("rev_"),
        mc: 0,
        min_len: 5,
        max_len: 50,
        cleave: s("KR"),
        restrict: Some(b'P'),
        c_terminal: true,
        semi: false,
        lo: 100.0,
        hi: 6000.0,
        max_var: 1,
        vars: vec![],
        statics: vec![],
        kinds: 0b010010,
        min_ion: 0,
        bucket: 4,
        frag: true,
        recs: vec![(s("T1"), s("AAAAAKCCCCCK")), (s("rev_D1"), s("CCCCCKGGGGGK"))],
    };
    emit_req(emit, &r, &["decoy_listing_stream", "directed"]);
}


/// a FASTA in which nearly every peptide occurs in several digest groups (protein N-terminus, internally,
/// C-terminus, and sometimes as a whole protein): `m` distinct tryptic peptides, `4m` proteins that are
/// concatenations of three of them, `m` single-peptide proteins. Every modified form is then produced by up to
/// four groups, so that the sorted pre-merge vector consists of runs of 2-8 equal keys (generated decoys double
/// them) and nearly every position is inside a run.
fn dense_fasta(rng: &mut Rng, m: usize) -> Vec<(String, String)> {
    const AA: &[u8] = b"AGILSMCQEDTVNFYWH";
    let mut seen: HashSet<String> = HashSet::new();
    let mut peps: Vec<String> = Vec::new();
    while peps.len() < m {
        let n = rng.range(6, 10) as usize;
        let mut v: Vec<u8> = (0..n - 1).map(|_| *rng.pick(AA)).collect();
        v.push(if rng.chance(1, 2) { b'K' } else { b'R' });
        let q = String::from_utf8(v).unwrap();
        if seen.insert(q.clone()) {
            peps.push(q);
        }
    }
    let mut recs: Vec<(String, String)> = Vec::new();
    for i in 0..4 * m {
        let q = format!("{}{}{}", rng.pick(&peps[..]), rng.pick(&peps[..]), rng.pick(&peps[..]));
        recs.push((format!("X{}", i), q));
    }
    for i in 0..m {
        recs.push((format!("F{}", i), rng.pick(&peps[..]).clone()));
    }
    rng.shuffle(&mut recs);
    recs
}

fn dense_req(rng: &mut Rng, m: usize) -> Req {
    let recs = dense_fasta(rng, m);
    Req {
        mode: 0,
        pseed: 1,
        nperm: 0,
        gen: true,
        tag: s("rev_"),
        mc: 0,
        min_len: 5,
        max_len: 40,
        cleave: s("KR"),
        restrict: Some(b'P'),
        c_terminal: true,
        semi: false,
        lo: 200.0,
        hi: 6000.0,
        max_var: 2,
        // peptide-terminal mods: the same forms in every group; `[` with the mass of `^`: in N-terminal and
        // whole-protein groups the acetylated forms are generated twice (overlapping candidates)
        vars: vec![(s("^"), vec![42.010565]), (s("$"), vec![-0.984016]), (s("["), vec![42.010565])],
        statics: if rng.chance(1, 2) { vec![(s("C"), 57.021465)] } else { vec![] },
        kinds: 0b010010,
        min_ion: 1,
        bucket: 8192,
        frag: false,
        recs,
    }
}

const BLOCK_THREADS: &[usize] = &[4, 1, 2, 3, 5, 6, 8, 16];

fn emit_threads(emit: &mut dyn FnMut(Case), r: &Req, tags: &[&'static str]) {
    let body = write_req(r);
    let mut o = Out::new();
    o.raw("db8t").n(BLOCK_THREADS.len());
    for k in BLOCK_THREADS {
        o.n(*k);
    }
    o.raw(body.strip_prefix("db8 ").unwrap());
    let mut c = Case::new(o.finish()).tag("block_boundary_stream");
    for t in tags {
        c = c.tag(t);
    }
    emit(c);
}

// ------------------------------------------------------------------------------------------ chunked prefilter stream

fn f32_sum(seq: &[u8]) -> f32 {
    let mut m = sage_core::mass::H2O;
    for c in seq {
        m += sage_core::mass::monoisotopic(*c);
    }
    m
}

/// reversal between the termini (what `Peptide::reverse` does to a sequence)
fn mirror(q: &str) -> String {
    let mut v: Vec<u8> = q.bytes().collect();
    let n = v.len();
    if n > 3 {
        v[1..n - 1].reverse();
    }
    String::from_utf8(v).unwrap()
}

/// a tryptic peptide that differs from its mirror image; `equal`: the f32 residue sums of the two orders have
/// the same bits (then a generated decoy and the mirror-image target of another chunk are merged), or differ
/// (one ulp: before the repair of reorder_peptides they were not merged)
fn mirror_peptide(rng: &mut Rng, equal: bool) -> String {
    const AA: &[u8] = b"ACDEFGHILMNQSTVWY";
    loop {
        let n = rng.range(6, 9) as usize;
        let mut v: Vec<u8> = (0..n - 1).map(|_| *rng.pick(AA)).collect();
        v.push(if rng.chance(1, 2) { b'K' } else { b'R' });
        let q = String::from_utf8(v).unwrap();
        let m = mirror(&q);
        if m == q {
            continue;
        }
        if (f32_sum(q.as_bytes()).to_bits() == f32_sum(m.as_bytes()).to_bits()) == equal {
            return q;
        }
    }
}

struct ChunkCase {
    k: usize,
    seed: u64,
    drop: bool,
    kfree: bool,
    r: Req,
}

fn write_chunk(c: &ChunkCase) -> String {
    let body = write_req(&c.r);
    let mut o = Out::new();
    o.raw("chunkdb").n(c.k).n(c.seed).b(c.drop).b(c.kfree);
    o.raw(body.strip_prefix("db8 ").unwrap());
    o.finish()
}

fn emit_chunk(emit: &mut dyn FnMut(Case), c: &ChunkCase, tags: &[&'static str]) {
    let mut case = Case::new(write_chunk(c)).tag("chunked_prefilter_stream");
    for t in tags {
        case = case.tag(t);
    }
    let n = c.r.recs.len();
    case = case.tag_if(c.k == 1, "chunk_size_1").tag_if(c.k >= n, "chunk_size_ge_n").tag_if(c.k + 1 == n, "chunk_size_n_minus_1");
    case = case.tag_if(c.drop, "subset_dropped").tag_if(c.kfree, "chunk_size_independence_checked");
    case = case.tag_if(c.r.gen, "generated_decoys").tag_if(!c.r.gen, "fasta_decoys_or_none");
    case = case.tag_if(!c.r.statics.is_empty(), "static_mods").tag_if(!c.r.vars.is_empty(), "variable_mods");
    emit(case);
}

fn chunk_base(recs: Vec<(String, String)>) -> Req {
    Req {
        mode: 0,
        pseed: 1,
        nperm: 0,
        gen: true,
        tag: s("rev_"),
        mc: 0,
        min_len: 5,
        max_len: 50,
        cleave: s("KR"),
        restrict: Some(b'P'),
        c_terminal: true,
        semi: false,
        lo: 100.0,
        hi: 6000.0,
        max_var: 2,
        vars: vec![],
        statics: vec![],
        kinds: 0b010010,
        min_ion: 0,
        bucket: 4,
        frag: true,
        recs,
    }
}

/// proteins A_0..A_{h-1} (2-3 peptides each) and B_0..B_{h-1}: B_i holds the mirror images of the peptides of
/// A_i (so the generated decoys of A_i are the targets of B_i and vice versa) plus a peptide shared verbatim with
/// A_{i+1}. Order A_0.., B_0..: with chunk sizes < h every mirror pair is split between chunks.
fn mirror_fasta(rng: &mut Rng, h: usize, equal: bool) -> Vec<(String, String)> {
    let a: Vec<Vec<String>> = (0..h).map(|_| (0..rng.range(2, 3)).map(|_| mirror_peptide(rng, equal)).collect()).collect();
    let mut recs: Vec<(String, String)> = Vec::new();
    for (i, ps) in a.iter().enumerate() {
        recs.push((format!("A{}", i), ps.concat()));
    }
    for (i, ps) in a.iter().enumerate() {
        let mut q: String = ps.iter().rev().map(|x| mirror(x)).collect();
        q.push_str(&a[(i + 1) % h][0]);
        recs.push((format!("B{}", i), q));
    }
    recs
}

fn pick_k(rng: &mut Rng, n: usize) -> usize {
    *rng.pick(&[1usize, 1, 2, 2, 3, n.saturating_sub(1).max(1), n, n + 1])
}

fn gen_chunked(rng: &mut Rng, thorough: bool, emit: &mut dyn FnMut(Case)) {
    let hx = |v: Vec<(&str, &str)>| -> Vec<(String, String)> { v.into_iter().map(|(a, q)| (s(a), s(q))).collect() };
    // directed: mirror-image targets in different chunks (the generated decoy of one IS the other target)
    for k in [1usize, 2, 3] {
        let r = chunk_base(hx(vec![("P1", "ACDEFKGGGGGK"), ("P2", "AFEDCKSSSSSK"), ("P3", "GGGGGKLLLLLK")]));
        emit_chunk(emit, &ChunkCase { k, seed: 7, drop: false, kfree: false, r }, &["directed", "mirror_targets_across_chunks"]);
    }
    // ... with a static N-terminal modification (every form has nterm = Some: the comparator answers Less both ways)
    for (k, key) in [(1usize, "^"), (2, "^"), (1, "["), (1, "$"), (1, "]")] {
        let mut r = chunk_base(hx(vec![("P1", "ACDEFKGGGGGK"), ("P2", "AFEDCKSSSSSK"), ("P3", "AFEDCK")]));
        r.statics = vec![(s(key), 229.16293)];
        r.vars = vec![(s("^"), vec![42.010565]), (s("$"), vec![-0.984016])];
        if key == "^" {
            r.vars.remove(0);
        }
        if key == "$" {
            r.vars.remove(1);
        }
        emit_chunk(emit, &ChunkCase { k, seed: 11, drop: false, kfree: false, r }, &["directed", "mirror_targets_terminal_static_mod"]);
    }
    // FASTA-supplied decoys: a tagged record in another chunk shares a peptide with a target
    for k in [1usize, 2] {
        let mut r = chunk_base(hx(vec![("T1", "AAAAAKCCCCCK"), ("T2", "LLLLLKSSSSSK"), ("rev_D1", "CCCCCKGGGGGK")]));
        r.gen = false;
        emit_chunk(emit, &ChunkCase { k, seed: 3, drop: false, kfree: false, r }, &["directed", "tagged_record_in_other_chunk"]);
    }
    // no decoys at all: every chunk size gives the unchunked database
    let mut r = chunk_base(hx(vec![("P1", "AAAAAKCCCCCK"), ("P2", "CCCCCKGGGGGK"), ("P3", "GGGGGKAAAAAK"), ("P4", "CCCCCK")]));
    r.gen = false;
    r.vars = vec![(s("["), vec![42.010565]), (s("]"), vec![14.01565])];
    emit_chunk(emit, &ChunkCase { k: 2, seed: 5, drop: false, kfree: true, r }, &["directed", "no_decoys"]);
    // a chunk none of whose proteins yields a peptide contributes the empty database (it used to panic):
    // the result is the build of the other chunks
    for k in [1usize, 2, 3] {
        let r = chunk_base(hx(vec![("P1", "AAAAAKCCCCCK"), ("S1", "AAK"), ("P2", "CCCCCKGGGGGK"), ("S2", "GR"), ("S3", "MK")]));
        emit_chunk(emit, &ChunkCase { k, seed: 9, drop: false, kfree: false, r }, &["directed", "chunk_without_peptides"]);
    }
    let mut r = chunk_base(hx(vec![("S1", "AAK"), ("P1", "AAAAAKCCCCCK"), ("S2", "GR"), ("P2", "CCCCCKGGGGGK")]));
    r.gen = false;
    emit_chunk(emit, &ChunkCase { k: 1, seed: 9, drop: false, kfree: true, r }, &["directed", "chunk_without_peptides", "no_decoys"]);
    // every chunk empty; no chunk at all (only tagged records while decoys are generated; empty FASTA)
    let r = chunk_base(hx(vec![("S1", "AAK"), ("S2", "GR")]));
    emit_chunk(emit, &ChunkCase { k: 1, seed: 9, drop: false, kfree: false, r }, &["directed", "chunk_without_peptides", "no_digest_empty_database"]);
    let r = chunk_base(hx(vec![("rev_D1", "CCCCCKGGGGGK")]));
    emit_chunk(emit, &ChunkCase { k: 1, seed: 9, drop: true, kfree: false, r }, &["directed", "no_digest_empty_database"]);
    let r = chunk_base(vec![]);
    emit_chunk(emit, &ChunkCase { k: 2, seed: 9, drop: false, kfree: false, r }, &["directed", "no_digest_empty_database"]);
    // chunks(0) panics (trivial class)
    let r = chunk_base(hx(vec![("P1", "AAAAAKCCCCCK")]));
    emit(Case::new(write_chunk(&ChunkCase { k: 0, seed: 1, drop: false, kfree: false, r })).tag("chunked_prefilter_stream").tag("chunk_size_0_panic").nontrivial(false));
    // random
    let n_rand = if thorough { 300 } else { 28 };
    for _ in 0..n_rand {
        let h = rng.range(2, 4) as usize;
        let mut r = chunk_base(mirror_fasta(rng, h, true));
        let n0 = r.recs.len();
        match rng.below(4) {
            0 => {}
            1 => r.statics = vec![(s("^"), 229.16293)],
            2 => r.statics = vec![(s(*rng.pick(&["[", "]", "$"])), 229.16293)],
            _ => r.statics = vec![(s("C"), 57.021465)],
        }
        match rng.below(5) {
            0 => {}
            1 => r.vars = vec![(s("^"), vec![42.010565])],
            2 => r.vars = vec![(s("$"), vec![-0.984016]), (s("M"), vec![15.9949])],
            3 => r.vars = vec![(s("["), vec![42.010565]), (s("]"), vec![14.01565])],
            _ => r.vars = vec![(s("^"), vec![42.010565]), (s("S"), vec![79.96633])],
        }
        r.vars.retain(|(k, _)| !r.statics.iter().any(|(k2, _)| k2 == k));
        r.max_var = rng.range(1, 2) as usize;
        r.mc = rng.below(2) as u8;
        let mut tags: Vec<&'static str> = vec!["mirror_targets_across_chunks"];
        match rng.below(4) {
            0 => {
                // FASTA-supplied decoys: tagged copies / mirrors of some records, appended (other chunks)
                r.gen = false;
                for i in 0..n0 {
                    if rng.chance(1, 2) {
                        let (a, q) = r.recs[i].clone();
                        let q2 = if rng.chance(1, 2) { q } else { q.split_inclusive(|c| c == 'K' || c == 'R').map(mirror).collect() };
                        r.recs.push((format!("rev_{}", a), q2));
                    }
                }
                tags.push("tagged_records_in_other_chunks");
            }
            1 => {
                r.gen = false;
                tags.push("no_decoys");
            }
            _ => {}
        }
        let n = r.recs.len();
        let k = pick_k(rng, n);
        let drop = rng.chance(1, 3);
        let has_tagged = r.recs.iter().any(|(a, _)| a.contains("rev_"));
        let kfree = !r.gen && !has_tagged && !drop;
        let c = ChunkCase { k, seed: rng.next() % 1000, drop, kfree, r };
        emit_chunk(emit, &c, &tags);
    }
    // mirror pairs whose f32 residue sums differ in the last bit (fixed defect: they were not merged)
    let r = chunk_base(hx(vec![("P1", "LEQSMDEK"), ("P2", "LEDMSQEK")]));
    emit_chunk(emit, &ChunkCase { k: 1, seed: 1, drop: false, kfree: false, r }, &["mirror_sums_differ_stream", "directed"]);
    for _ in 0..(if thorough { 20 } else { 3 }) {
        let r = chunk_base(mirror_fasta(rng, 2, false));
        let c = ChunkCase { k: rng.range(1, 2) as usize, seed: rng.next() % 1000, drop: false, kfree: false, r };
        emit_chunk(emit, &c, &["mirror_sums_differ_stream"]);
    }
}

/// fragment-tie stream: databases with many fragments of EQUAL m/z that belong to DIFFERENT peptides - I/L isomers
/// (every b and y ion bit-equal), peptides sharing their first 2-3 residues (equal b2, b3) or their tail, targets and
/// their generated decoys (equal b1 and y(n-1)), missed-cleavage products (share the b ladder of their first
/// peptide) - with small bucket sizes, so that runs of equal m/z straddle bucket boundaries. What the unstable
/// sort by m/z and the per-bucket sort by peptide index make of such ties is visible only in the fragment vector
/// AS STORED (reply tokens `ford`).
fn tie_fasta(rng: &mut Rng, nrec: usize) -> Vec<(String, String)> {
    const PRE: &[&str] = &["LE", "IE", "LEA", "IEA", "AG", "AGL", "AGI", "SL"];
    const MID: &[u8] = b"AGSTVDEQNLI";
    const SUF: &[&str] = &["LK", "IK", "EK", "LR", "IR", "SK"];
    let npep = rng.range(4, 9) as usize;
    let mut peps: Vec<String> = Vec::new();
    for _ in 0..npep {
        let mut q = String::from(*rng.pick(PRE));
        for _ in 0..rng.range(1, 4) {
            q.push(*rng.pick(MID) as char);
        }
        q.push_str(*rng.pick(SUF));
        peps.push(q.clone());
        // an I/L isomer of it
        if rng.chance(1, 2) {
            let iso: String = q.chars().map(|c| if c == 'L' { 'I' } else if c == 'I' { 'L' } else { c }).collect();
            peps.push(iso);
        }
    }
    let mut recs = Vec::new();
    for i in 0..nrec {
        let nb = rng.range(2, 5) as usize;
        let mut q = String::new();
        for _ in 0..nb {
            q.push_str(rng.pick(&peps[..]).as_str());
        }
        recs.push((acc(i), q));
    }
    recs
}

fn gen_ties(rng: &mut Rng, thorough: bool, emit: &mut dyn FnMut(Case)) {
    let n = if thorough { 200 } else { 18 };
    for i in 0..n {
        let nrec = rng.range(3, 7) as usize;
        let recs = tie_fasta(rng, nrec);
        let mut r = base_req(rng, recs);
        r.cleave = s("KR");
        r.restrict = Some(b'P');
        r.c_terminal = true;
        r.semi = false;
        r.min_len = 4;
        r.max_len = 40;
        r.mc = (i % 3) as u8;
        r.lo = 100.0;
        r.hi = 8000.0;
        r.bucket = [2usize, 4, 8, 16, 64][i % 5];
        r.min_ion = rng.below(2);
        r.kinds = *rng.pick(&[0b010010usize, 0b010010, 0b111111, 0b010011]);
        r.gen = i % 4 != 3;
        r.max_var = 1;
        if r.vars.len() > 1 {
            r.vars.truncate(1);
        }
        r.nperm = 4;
        r.frag = true;
        emit_req(emit, &r, &["fragment_ties_stream"]);
    }
}

pub fn gen(rng: &mut Rng, tier: Tier, emit: &mut dyn FnMut(Case)) {
    let thorough = tier == Tier::Thorough;
    directed(emit);
    // small: every permutation of the records is rebuilt
    let n_small = if thorough { 600 } else { 60 };
    for _ in 0..n_small {
        let nrec = rng.range(2, 5) as usize;
        let np = rng.range(2, 5) as usize;
        let recs = proteins(rng, nrec, np, 4, 5, 9);
        let mut r = base_req(rng, recs);
        match rng.below(8) {
            0 => {
                tag_some(rng, &mut r, false);
                r.recs.truncate(5);
                emit_req(emit, &r, &["small", "fasta_decoys"]);
            }
            1 | 2 | 3 => {
                // the input contains tagged records: skipped (2 of 3) or used (1 of 3), at a chosen place
                let gen = !rng.chance(1, 3);
                let (pl, tag) = place_of(rng);
                with_tagged(rng, &mut r, gen, pl, 5);
                emit_req(emit, &r, &["small", tag]);
            }
            _ => emit_req(emit, &r, &["small"]),
        }
    }
    // medium
    let n_med = if thorough { 120 } else { 12 };
    for _ in 0..n_med {
        let nrec = rng.range(7, 60) as usize;
        let np = rng.range(5, 30) as usize;
        let recs = proteins(rng, nrec, np, 6, 5, 10);
        let mut r = base_req(rng, recs);
        r.nperm = if thorough { 12 } else { 4 };
        match rng.below(8) {
            0 => {
                tag_some(rng, &mut r, false);
                emit_req(emit, &r, &["medium", "fasta_decoys"]);
            }
            1 | 2 | 3 => {
                let gen = !rng.chance(1, 3);
                let (pl, tag) = place_of(rng);
                with_tagged(rng, &mut r, gen, pl, 80);
                emit_req(emit, &r, &["medium", tag]);
            }
            _ => emit_req(emit, &r, &["medium"]),
        }
    }
    // large: reach the sequential (<= 2000) and parallel (> 2000) quicksort regimes of par_sort_unstable_by
    let larges: &[usize] = if thorough { &[150, 300, 300, 600, 900, 1500] } else { &[150, 400] };
    for &nrec in larges {
        let recs = proteins(rng, nrec, nrec / 2, 6, 6, 10);
        let mut r = base_req(rng, recs);
        r.cleave = s("KR");
        r.restrict = Some(b'P');
        r.c_terminal = true;
        r.semi = false;
        r.min_len = 5;
        r.max_len = 30;
        r.mc = 1;
        r.gen = true;
        r.lo = 200.0;
        r.hi = 6000.0;
        r.frag = false;
        r.max_var = 1;
        r.vars = vec![(s("^"), vec![42.010565]), (s("$"), vec![-0.984016]), (s("["), vec![42.010565])];
        r.nperm = if thorough { 6 } else { 3 };
        if nrec == 150 {
            with_tagged(rng, &mut r, true, Place::Interleaved, 10_000);
            emit_req(emit, &r, &["large", "tagged_records_interleaved"]);
        } else {
            emit_req(emit, &r, &["large"]);
        }
    }
    // block-boundary stream: databases whose pre-merge vector is (mostly) runs of equal keys, with about
    // 4096-, 4096+, 2*4096, 9k, 3*4096, 13k, 20k, 30k forms before de-duplication (a blocked de-duplication with
    // blocks of max(len / threads + 1, 4096) has its boundaries at 4096, 8192, ... or at len/threads + 1), built in
    // pools of 1, 2, 3, 4, 5, 6, 8, 16 threads. ~35 forms per peptide of the pool.
    let dense: &[(usize, &'static str)] = if thorough {
        &[(100, "pre_below_4096"), (125, "pre_above_4096"), (235, "pre_about_2x4096"), (260, "pre_about_9k"),
          (350, "pre_about_3x4096"), (375, "pre_about_13k"), (570, "pre_about_20k"), (860, "pre_about_30k"),
          (125, "pre_above_4096"), (260, "pre_about_9k"), (375, "pre_about_13k"), (470, "pre_about_4x4096")]
    } else {
        &[(125, "pre_above_4096"), (260, "pre_about_9k"), (375, "pre_about_13k")]
    };
    for &(m, tag) in dense {
        let r = dense_req(rng, m);
        emit_threads(emit, &r, &[tag]);
    }
    gen_ties(rng, thorough, emit);
    gen_chunked(rng, thorough, emit);
    // separate stream: FASTA-supplied decoys sharing peptides with targets, strict protein-listing clause
    directed_decoy_listing(emit);
    let n_dl = if thorough { 40 } else { 6 };
    for _ in 0..n_dl {
        let nrec = rng.range(1, 3) as usize;
        let recs = proteins(rng, nrec, 3, 3, 5, 8);
        let mut r = base_req(rng, recs);
        r.mode = 1;
        tag_some(rng, &mut r, true);
        emit_req(emit, &r, &["decoy_listing_stream"]);
    }
}
