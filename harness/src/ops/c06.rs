//! C06 — modified peptide forms
//!
//!   modkey <key:hex>
//!        -> ok <kind 0..4> <0 | 1 residue> <display:hex> | err:empty | err:residue <code point> | err:toolong
//!           (`ModificationSpecificity::from_str`, and `to_string` of what it returned)
//!   apply <pos 0..3> <seq:hex> <max> <nvar> {<key:hex> <nmass> <f32>*} <nstatic> {<key:hex> <f32>}
//!        -> err:invalid | ok <k> <static idx>*k <nforms> {<0|1 f32> <len> <f32>*len <0|1 f32> <f32 mono>}
//!           (`Peptide::try_from(DigestGroup)` then `Peptide::apply`; static mods go through
//!            `validate_mods`, variable keys through `from_str` + the flat_map of `Parameters::digest`;
//!            the k indices are the iteration order of the static HashMap; forms sorted)
//!   dbforms <seq:hex> <max> <f32 lo> <f32 hi> <vars> <statics>
//!        -> ok <nforms> {form} <nall> {form}
//!           (`Builder::make_parameters` + `Parameters::digest` on a one-protein FASTA with
//!            `cleave_at = "$"`: the whole protein is one peptide, Position::Full; sorted; first with
//!            the bounds [lo, hi], then with [-inf, +inf])
//!   dbdigest <mc min_len max_len cleave:hex restrict c_terminal semi, each `0` | `1 x`> <protein:hex> <max>
//!            <f32 lo> <f32 hi> <vars> <statics>
//!        -> panic | ok <n> {<seq:hex> form} <nall> {<seq:hex> form}
//!           (`Parameters::digest` on a one-protein FASTA digested with a real enzyme, so that N-terminal,
//!            C-terminal and internal peptides with `[` `]` `^` `$` keys go through the database path too)
//!   pepdisplay <same arguments as apply>
//!        -> err:invalid | ok <ntab> {<f32> <text:hex>} <nforms> {form <display:hex>}
//!           (`Peptide::to_string()` of every form of `apply`, with the `{:+}` text of every mass shown as a table:
//!            the float printer is data, the structure of `Display for Peptide` is what is compared)
//!   dbmulti <7 opt EnzymeBuilder fields> <k> {<protein:hex>}*k <max> <vars> <statics>
//!        -> panic | ok <n> {<seq:hex> form <position 0..3> <j> <protein index>*j}
//!           (`Parameters::digest` on a FASTA of k target proteins `P0`..: every database entry with its protein
//!            list and `position`; the same peptide at different protein positions in different proteins)
//!   modjson <dupfield 0|1> <ns> {<key:hex> <kind> <f32>} <nv> {<key:hex> <kind> <n> <f32>*n}
//!        -> err:json | ok <ns'> {<kind 0..4> <0|1 r> <f32>} <nv'> {<kind> <0|1 r> <n> <f32>*n}
//!           (the harness renders a JSON search configuration with these mod-map members in this order and feeds it
//!            to serde -> `sage_cli::input::Input` -> `Input::build`; the reply is the two mod maps of the built
//!            `Parameters`, sorted by specificity)
use super::Info;
use crate::proto::{Case, Out, Rng, Tier, Toks};
use sage_core::database::{Builder, EnzymeBuilder};
use sage_core::enzyme::{Digest, DigestGroup, EnzymeParameters, Position};
use sage_core::fasta::Fasta;
use sage_core::modification::{validate_mods, InvalidModification, ModificationSpecificity};
use sage_core::peptide::Peptide;
use std::collections::HashMap;
use std::str::FromStr;
use std::sync::Arc;

pub const OPS: &[&str] = &["modkey", "apply", "dbforms", "dbdigest", "pepdisplay", "dbmulti", "modjson"];
pub const INFO: Info = Info {
    rule: "modkey (extended): EVERY two-byte character U+0080..U+07FF alone; for every letter A-Z a-z bare and after each marker the code points U+0100..U+0700+L, U+1000+L, U+2000+L, U+FF00+L, U+10000+L (low byte = the letter), full-width, mathematical bold, letter + combining mark, the lower-case letter, the doubled letter; Latin-1 letters after each marker; random UTF-8 of 1..8 bytes. rejected keys end to end: look-alike keys with a mass no valid key offers through apply and dbforms (clause invalid_key_accepted). modjson: JSON configurations (member order, repeated keys, wrong value types, NaN literal, null, negative zero, repeated field, keys outside the grammar incl. look-alikes) through serde -> Input -> Input::build. modkey: every string of length <= 2 (quick) / <= 3 (thorough) over the 12-character alphabet \
           ^ $ [ ] M K A Z B m e-acute '-', all 114 documented keys, every ASCII character alone and after each marker, \
           a few 3/4-byte characters. apply: peptides of length 0..8 (12 thorough) over a small residue alphabet \
           (so residues repeat), all four positions, max_variable_mods 0..4, 0..4 variable keys (residues of the \
           peptide, the four markers with and without its first/last residue, several masses per key, sometimes \
           invalid keys, sometimes invalid residues), 0..3 static keys; directed streams: overlapping candidates \
           (^A + A with the same mass, a mass listed twice), variable + static on the same residue, both termini \
           of a length-1 peptide, overlapping static mods, zero masses; exhaustive small scope: all sequences over \
           {A,K} up to length 2 (4 thorough) x 4 positions x 12 variable sets x 6 static sets x max 1..2 (1..3). \
           long peptides (default on): 60..140 residues and some 255..300, at most 6 candidate sites placed 64/128 apart, at residue 62/63 together with a terminal key, straddling index 64, or sparse at random, max 2..3, through apply and dbforms. pepdisplay: Peptide::to_string of every form for the directed apply cases and a deterministic eighth of all others, with the {:+} text of each shown mass as a table. dbmulti: 2..5 proteins built from peptide blocks so that one (sometimes two) peptides are shared and occur N-terminal in one protein and C-terminal / internal / full-length in others; the other peptides start with A/C or Y/W/V so that the shared peptide is the last of one position block and the first of the next in group_digests' sort (tagged when it is); keys [ ] [X ]X ^ $ ^X and residues, non-overlapping statics; through Parameters::digest; non-trivial = some peptide at two different protein positions and a protein-terminal key. dbdigest: proteins of 4..28 residues digested by Parameters::digest with a real enzyme (KR|P, KR, K, R|P, N-terminal D, N-terminal KR; 0..2 missed cleavages; sometimes semi-enzymatic), variable keys among residues and [ ] ^ $ [X ]X ^X $X, non-overlapping static keys, mass bounds on / one ulp around real form masses; non-trivial = peptides at >= 2 different positions and at least one modified form. dbforms: the same peptides through Parameters::digest with mass bounds placed on / one ulp around the \
           masses of generated forms. non-trivial = at least one modified form generated (apply), bound cuts the \
           form list (dbforms); distinct by request line",
    serial: false,
};

type VarMods = Vec<(String, Vec<f32>)>;
type StaticMods = Vec<(String, f32)>;

fn write_mods(o: &mut Out, vars: &VarMods, statics: &StaticMods) {
    o.n(vars.len());
    for (k, ms) in vars {
        o.s(k).n(ms.len());
        for m in ms {
            o.f32(*m);
        }
    }
    o.n(statics.len());
    for (k, m) in statics {
        o.s(k).f32(*m);
    }
}

fn req_apply(pos: usize, seq: &str, max: usize, vars: &VarMods, statics: &StaticMods) -> String {
    let mut o = Out::new();
    o.raw("apply").n(pos).s(seq).n(max);
    write_mods(&mut o, vars, statics);
    o.finish()
}

fn req_db(seq: &str, max: usize, lo: f32, hi: f32, vars: &VarMods, statics: &StaticMods) -> String {
    let mut o = Out::new();
    o.raw("dbforms").s(seq).n(max).f32(lo).f32(hi);
    write_mods(&mut o, vars, statics);
    o.finish()
}

fn req_key(k: &str) -> String {
    let mut o = Out::new();
    o.raw("modkey").s(k);
    o.finish()
}

fn position(n: usize) -> Option<Position> {
    Some(match n {
        0 => Position::Nterm,
        1 => Position::Cterm,
        2 => Position::Full,
        3 => Position::Internal,
        _ => return None,
    })
}

fn read_mods(t: &mut Toks) -> Option<(VarMods, StaticMods)> {
    let vars = t.list(|t| {
        let k = t.string()?;
        let ms = t.list(|t| t.f32())?;
        Some((k, ms))
    })?;
    let statics = t.list(|t| {
        let k = t.string()?;
        let m = t.f32()?;
        Some((k, m))
    })?;
    Some((vars, statics))
}

fn write_form(o: &mut Vec<u64>, p: &Peptide) {
    let opt = |o: &mut Vec<u64>, x: Option<f32>| match x {
        None => o.push(0),
        Some(v) => {
            o.push(1);
            o.push(v.to_bits() as u64)
        }
    };
    opt(o, p.nterm);
    o.push(p.modifications.len() as u64);
    for m in &p.modifications {
        o.push(m.to_bits() as u64);
    }
    opt(o, p.cterm);
    o.push(p.monoisotopic.to_bits() as u64);
}

fn write_forms(o: &mut Out, forms: &[Peptide]) {
    let mut toks: Vec<Vec<u64>> = forms
        .iter()
        .map(|p| {
            let mut v = Vec::new();
            write_form(&mut v, p);
            v
        })
        .collect();
    toks.sort();
    o.n(toks.len());
    for f in toks {
        for x in f {
            o.n(x);
        }
    }
}

/// peptides of a digested protein: `<seq:hex> form`, sorted by (sequence, form)
fn write_peps(o: &mut Out, forms: &[Peptide]) {
    let mut toks: Vec<(Vec<u64>, usize)> = forms
        .iter()
        .enumerate()
        .map(|(i, p)| {
            let mut v: Vec<u64> = vec![p.sequence.len() as u64];
            v.extend(p.sequence.iter().map(|b| *b as u64));
            write_form(&mut v, p);
            (v, i)
        })
        .collect();
    toks.sort();
    o.n(toks.len());
    for (_, i) in toks {
        let p = &forms[i];
        o.bytes(&p.sequence);
        let mut v = Vec::new();
        write_form(&mut v, p);
        for x in v {
            o.n(x);
        }
    }
}

fn run_digest(enzyme: &EnzymeBuilder, prot: &str, max: usize, lo: f32, hi: f32, vars: &VarMods, statics: &StaticMods) -> Vec<Peptide> {
    let builder = Builder {
        enzyme: Some(enzyme.clone()),
        peptide_min_mass: Some(lo),
        peptide_max_mass: Some(hi),
        static_mods: Some(statics.iter().cloned().collect()),
        variable_mods: Some(vars.iter().cloned().collect()),
        max_variable_mods: Some(max),
        generate_decoys: Some(false),
        fasta: Some("none".into()),
        ..Default::default()
    };
    let params = builder.make_parameters();
    let fasta = Fasta::parse(format!(">P1 test\n{}\n", prot), "rev_", false);
    params.digest(&fasta)
}

fn read_enzyme(t: &mut Toks) -> Option<EnzymeBuilder> {
    let mc = t.opt(|t| t.usize())?;
    let min_len = t.opt(|t| t.usize())?;
    let max_len = t.opt(|t| t.usize())?;
    let cleave = t.opt(|t| t.string())?;
    let restrict = t.opt(|t| t.usize())?;
    let c_terminal = t.opt(|t| t.bool())?;
    let semi = t.opt(|t| t.bool())?;
    Some(EnzymeBuilder {
        missed_cleavages: mc.map(|x| x as u8),
        min_len,
        max_len,
        cleave_at: cleave,
        restrict: restrict.map(|c| c as u8 as char),
        c_terminal,
        semi_enzymatic: semi,
    })
}

fn multi_fasta(prots: &[String]) -> String {
    let mut text = String::new();
    for (i, p) in prots.iter().enumerate() {
        text.push_str(&format!(">P{} protein {}\n{}\n", i, i, p));
    }
    text
}

fn run_multi(enzyme: &EnzymeBuilder, prots: &[String], max: usize, vars: &VarMods, statics: &StaticMods) -> Vec<Peptide> {
    let builder = Builder {
        enzyme: Some(enzyme.clone()),
        peptide_min_mass: Some(f32::NEG_INFINITY),
        peptide_max_mass: Some(f32::INFINITY),
        static_mods: Some(statics.iter().cloned().collect()),
        variable_mods: Some(vars.iter().cloned().collect()),
        max_variable_mods: Some(max),
        generate_decoys: Some(false),
        fasta: Some("none".into()),
        ..Default::default()
    };
    let params = builder.make_parameters();
    let fasta = Fasta::parse(multi_fasta(prots), "rev_", false);
    params.digest(&fasta)
}

/// exact JSON text of an f32 (the shortest decimal of the equal f64: parses back to exactly this value)
fn json_num(m: f32) -> String {
    if m == 0.0 && m.is_sign_negative() {
        "-0.0".to_string()
    } else {
        format!("{:?}", m as f64)
    }
}

/// a search configuration as JSON text; value kind 0 = well-typed, others = wrong type
fn render_config(dup_field: bool, statics: &[(String, usize, f32)], vars: &[(String, usize, Vec<f32>)]) -> String {
    let key = |k: &str| serde_json::to_string(k).unwrap();
    let smembers: Vec<String> = statics.iter().map(|(k, kind, m)| {
        let v = match kind {
            0 => json_num(*m),
            1 => "null".to_string(),
            2 => format!("\"{}\"", json_num(*m)),
            3 => format!("[{}]", json_num(*m)),
            _ => "NaN".to_string(),
        };
        format!("{}: {}", key(k), v)
    }).collect();
    let vmembers: Vec<String> = vars.iter().map(|(k, kind, ms)| {
        let list = ms.iter().map(|m| json_num(*m)).collect::<Vec<_>>().join(", ");
        let v = match kind {
            0 => format!("[{}]", list),
            1 => ms.first().map(|m| json_num(*m)).unwrap_or_else(|| "1.0".into()),
            2 => "null".to_string(),
            3 => format!("[{}\"x\"]", if ms.is_empty() { String::new() } else { format!("{}, ", list) }),
            _ => "[NaN]".to_string(),
        };
        format!("{}: {}", key(k), v)
    }).collect();
    let smap = format!("{{{}}}", smembers.join(", "));
    let extra = if dup_field { format!("\"static_mods\": {}, ", smap) } else { String::new() };
    format!(
        "{{\"database\": {{\"fasta\": \"none.fasta\", {}\"static_mods\": {}, \"variable_mods\": {{{}}}}}, \
          \"precursor_tol\": {{\"ppm\": [-10.0, 10.0]}}, \"fragment_tol\": {{\"ppm\": [-10.0, 10.0]}}, \"mzml_paths\": []}}",
        extra, smap, vmembers.join(", "))
}

/// the real code: `try_from` + `apply`, mods prepared the way `Builder`/`Parameters::digest` prepare them
fn run_apply(pos: Position, seq: &str, max: usize, vars: &VarMods, statics: &StaticMods)
    -> Result<(Vec<usize>, Vec<Peptide>), ()> {
    let digest = Digest {
        decoy: false,
        semi_enzymatic: false,
        sequence: seq.to_string(),
        protein: Arc::from("P1"),
        missed_cleavages: 0,
        position: pos,
    };
    let group = DigestGroup { reference: digest, proteins: vec![Arc::from("P1")] };
    let peptide = Peptide::try_from(group).map_err(|_| ())?;
    // variable: validate_var_mods drops unparsable keys; digest() flattens (key, masses) to (key, mass)
    let mut var: Vec<(ModificationSpecificity, f32)> = Vec::new();
    for (k, ms) in vars {
        if let Ok(t) = ModificationSpecificity::from_str(k) {
            for m in ms {
                var.push((t, *m));
            }
        }
    }
    let smap: HashMap<String, f32> = statics.iter().cloned().collect();
    let stat = validate_mods(Some(smap));
    let order: Vec<usize> = stat
        .iter()
        .map(|(t, _)| {
            statics
                .iter()
                .position(|(k, _)| ModificationSpecificity::from_str(k).ok() == Some(*t))
                .expect("static key")
        })
        .collect();
    let forms = peptide.apply(&var, &stat, max);
    Ok((order, forms))
}

fn run_db(seq: &str, max: usize, lo: f32, hi: f32, vars: &VarMods, statics: &StaticMods) -> Vec<Peptide> {
    let builder = Builder {
        enzyme: Some(EnzymeBuilder {
            missed_cleavages: Some(0),
            min_len: Some(1),
            max_len: Some(1_000_000),
            cleave_at: Some("$".into()),
            restrict: None,
            c_terminal: Some(true),
            semi_enzymatic: Some(false),
        }),
        peptide_min_mass: Some(lo),
        peptide_max_mass: Some(hi),
        static_mods: Some(statics.iter().cloned().collect()),
        variable_mods: Some(vars.iter().cloned().collect()),
        max_variable_mods: Some(max),
        generate_decoys: Some(false),
        fasta: Some("none".into()),
        ..Default::default()
    };
    let params = builder.make_parameters();
    let fasta = Fasta::parse(format!(">P1 test\n{}\n", seq), "rev_", false);
    params.digest(&fasta)
}

pub fn exec(op: &str, t: &mut Toks) -> Option<String> {
    let mut o = Out::new();
    match op {
        "modkey" => {
            let k = t.string()?;
            match ModificationSpecificity::from_str(&k) {
                Ok(m) => {
                    let (kind, r) = match m {
                        ModificationSpecificity::PeptideN(r) => (0, r),
                        ModificationSpecificity::PeptideC(r) => (1, r),
                        ModificationSpecificity::ProteinN(r) => (2, r),
                        ModificationSpecificity::ProteinC(r) => (3, r),
                        ModificationSpecificity::Residue(r) => (4, Some(r)),
                    };
                    o.raw("ok").n(kind);
                    match r {
                        None => o.n(0),
                        Some(r) => o.n(1).n(r),
                    };
                    o.s(&m.to_string());
                }
                Err(InvalidModification::Empty) => {
                    o.raw("err:empty");
                }
                Err(InvalidModification::InvalidResidue(c)) => {
                    o.raw("err:residue").n(c as u32);
                }
                Err(InvalidModification::TooLong(_)) => {
                    o.raw("err:toolong");
                }
            }
        }
        "apply" => {
            let pos = position(t.usize()?)?;
            let seq = t.string()?;
            let max = t.usize()?;
            let (vars, statics) = read_mods(t)?;
            match run_apply(pos, &seq, max, &vars, &statics) {
                Err(()) => {
                    o.raw("err:invalid");
                }
                Ok((order, forms)) => {
                    o.raw("ok").n(order.len());
                    for i in order {
                        o.n(i);
                    }
                    write_forms(&mut o, &forms);
                }
            }
        }
        "dbforms" => {
            let seq = t.string()?;
            let max = t.usize()?;
            let lo = t.f32()?;
            let hi = t.f32()?;
            let (vars, statics) = read_mods(t)?;
            // the database with the requested bounds, then with no bounds at all (same code path), so that
            // the range filter can be checked exactly on the implementation's own f32 masses
            let forms = run_db(&seq, max, lo, hi, &vars, &statics);
            let all = run_db(&seq, max, f32::NEG_INFINITY, f32::INFINITY, &vars, &statics);
            o.raw("ok");
            write_forms(&mut o, &forms);
            write_forms(&mut o, &all);
        }
        "pepdisplay" => {
            let pos = position(t.usize()?)?;
            let seq = t.string()?;
            let max = t.usize()?;
            let (vars, statics) = read_mods(t)?;
            match run_apply(pos, &seq, max, &vars, &statics) {
                Err(()) => {
                    o.raw("err:invalid");
                }
                Ok((_, forms)) => {
                    let mut shown: Vec<u32> = Vec::new();
                    for p in &forms {
                        for m in p.nterm.iter().chain(p.cterm.iter()).chain(p.modifications.iter().filter(|m| **m != 0.0)) {
                            shown.push(m.to_bits());
                        }
                    }
                    shown.sort();
                    shown.dedup();
                    o.raw("ok").n(shown.len());
                    for b in &shown {
                        o.n(*b).s(&format!("{:+}", f32::from_bits(*b)));
                    }
                    let mut rows: Vec<(Vec<u64>, String)> = forms
                        .iter()
                        .map(|p| {
                            let mut v = Vec::new();
                            write_form(&mut v, p);
                            (v, p.to_string())
                        })
                        .collect();
                    rows.sort();
                    o.n(rows.len());
                    for (v, d) in rows {
                        for x in v {
                            o.n(x);
                        }
                        o.s(&d);
                    }
                }
            }
        }
        "dbmulti" => {
            let enzyme = read_enzyme(t)?;
            let prots = t.list(|t| t.string())?;
            let max = t.usize()?;
            let (vars, statics) = read_mods(t)?;
            let db = run_multi(&enzyme, &prots, max, &vars, &statics);
            let mut rows: Vec<Vec<u64>> = db
                .iter()
                .map(|p| {
                    let mut v: Vec<u64> = vec![p.sequence.len() as u64];
                    v.extend(p.sequence.iter().map(|b| *b as u64));
                    write_form(&mut v, p);
                    v.push(match p.position {
                        Position::Nterm => 0,
                        Position::Cterm => 1,
                        Position::Full => 2,
                        Position::Internal => 3,
                    });
                    v.push(p.proteins.len() as u64);
                    for name in &p.proteins {
                        v.push(name[1..].parse::<u64>().expect("protein name"));
                    }
                    v
                })
                .collect();
            rows.sort();
            o.raw("ok").n(rows.len());
            for r in rows {
                let n = r[0] as usize;
                let seq: Vec<u8> = r[1..1 + n].iter().map(|x| *x as u8).collect();
                o.bytes(&seq);
                for x in &r[1 + n..] {
                    o.n(*x);
                }
            }
        }
        "modjson" => {
            let dup = t.usize()? != 0;
            let statics = t.list(|t| Some((t.string()?, t.usize()?, t.f32()?)))?;
            let vars = t.list(|t| Some((t.string()?, t.usize()?, t.list(|t| t.f32())?)))?;
            let json = render_config(dup, &statics, &vars);
            match serde_json::from_str::<sage_cli::input::Input>(&json) {
                Err(_) => {
                    o.raw("err:json");
                }
                Ok(input) => match input.build() {
                    Err(_) => {
                        o.raw("err:build");
                    }
                    Ok(search) => {
                        let spec_toks = |m: &ModificationSpecificity| -> Vec<u64> {
                            let (kind, r) = match m {
                                ModificationSpecificity::PeptideN(r) => (0u64, *r),
                                ModificationSpecificity::PeptideC(r) => (1, *r),
                                ModificationSpecificity::ProteinN(r) => (2, *r),
                                ModificationSpecificity::ProteinC(r) => (3, *r),
                                ModificationSpecificity::Residue(r) => (4, Some(*r)),
                            };
                            match r {
                                None => vec![kind, 0],
                                Some(r) => vec![kind, 1, r as u64],
                            }
                        };
                        let mut srows: Vec<Vec<u64>> = search.database.static_mods.iter().map(|(k, m)| {
                            let mut v = spec_toks(k);
                            v.push(m.to_bits() as u64);
                            v
                        }).collect();
                        srows.sort();
                        let mut vrows: Vec<Vec<u64>> = search.database.variable_mods.iter().map(|(k, ms)| {
                            let mut v = spec_toks(k);
                            v.push(ms.len() as u64);
                            v.extend(ms.iter().map(|m| m.to_bits() as u64));
                            v
                        }).collect();
                        vrows.sort();
                        o.raw("ok");
                        for rows in [srows, vrows] {
                            o.n(rows.len());
                            for r in rows {
                                for x in r {
                                    o.n(x);
                                }
                            }
                        }
                    }
                },
            }
        }
        "dbdigest" => {
            let mc = t.opt(|t| t.usize())?;
            let min_len = t.opt(|t| t.usize())?;
            let max_len = t.opt(|t| t.usize())?;
            let cleave = t.opt(|t| t.string())?;
            let restrict = t.opt(|t| t.usize())?;
            let c_terminal = t.opt(|t| t.bool())?;
            let semi = t.opt(|t| t.bool())?;
            let prot = t.string()?;
            let max = t.usize()?;
            let lo = t.f32()?;
            let hi = t.f32()?;
            let (vars, statics) = read_mods(t)?;
            let enzyme = EnzymeBuilder {
                missed_cleavages: mc.map(|x| x as u8),
                min_len,
                max_len,
                cleave_at: cleave,
                restrict: restrict.map(|c| c as u8 as char),
                c_terminal,
                semi_enzymatic: semi,
            };
            let run = |lo: f32, hi: f32| -> Vec<Peptide> { run_digest(&enzyme, &prot, max, lo, hi, &vars, &statics) };
            let kept = run(lo, hi);
            let all = run(f32::NEG_INFINITY, f32::INFINITY);
            o.raw("ok");
            write_peps(&mut o, &kept);
            write_peps(&mut o, &all);
        }
        _ => return None,
    }
    Some(o.finish())
}

// ------------------------------------------------------------------------------------------ generator

const MASSES: &[f32] = &[
    15.9949, 42.010565, 79.96633, -17.026548, 57.021465, 229.16293, 0.984016, 14.01565, 1.0, 2.0, 16.0, -18.010565,
    304.2071, 28.0313, 114.04293,
];
const RESIDUES: &[u8] = b"AMKSCG";
const ALL_AA: &[u8] = b"ACDEFGHIKLMNPQRSTVWYUO";
const MARKERS: &[char] = &['^', '$', '[', ']'];

fn mass(rng: &mut Rng) -> f32 {
    if rng.chance(4, 5) {
        *rng.pick(MASSES)
    } else {
        // a random f32 with a full mantissa
        let x = (rng.unit() * 400.0 - 100.0) as f32;
        if x.abs() < 0.001 { 0.5 } else { x }
    }
}

fn rand_seq(rng: &mut Rng, maxlen: usize) -> String {
    let len = rng.below(maxlen + 1);
    let alpha: &[u8] = if rng.chance(1, 6) { ALL_AA } else { RESIDUES };
    (0..len).map(|_| *rng.pick(alpha) as char).collect()
}

fn rand_key(rng: &mut Rng, seq: &str) -> String {
    let b = seq.as_bytes();
    let some_resi = |rng: &mut Rng| -> char {
        if !b.is_empty() && rng.chance(3, 4) {
            // first / last / any residue of the peptide
            match rng.below(3) {
                0 => b[0] as char,
                1 => b[b.len() - 1] as char,
                _ => b[rng.below(b.len())] as char,
            }
        } else {
            *rng.pick(RESIDUES) as char
        }
    };
    match rng.below(20) {
        0..=7 => some_resi(rng).to_string(),
        8..=11 => rng.pick(MARKERS).to_string(),
        12..=17 => format!("{}{}", rng.pick(MARKERS), some_resi(rng)),
        18 => rng.pick(&["MK", "^Z", "é", "", "^^", "B", "m", "^MK", "$é", "ō", "Ń", "ŋ", "œ", "Ｍ", "^ō", "ʍ"]).to_string(),
        _ => (*rng.pick(ALL_AA) as char).to_string(),
    }
}

fn rand_vars(rng: &mut Rng, seq: &str, nmax: usize) -> VarMods {
    let n = rng.below(nmax + 1);
    let mut v: VarMods = Vec::new();
    for _ in 0..n {
        let k = rand_key(rng, seq);
        if v.iter().any(|(k2, _)| *k2 == k) {
            continue;
        }
        let nm = 1 + if rng.chance(1, 3) { rng.below(3) } else { 0 };
        let mut ms: Vec<f32> = (0..nm).map(|_| mass(rng)).collect();
        if rng.chance(1, 25) && !ms.is_empty() {
            ms.push(ms[0]); // a mass listed twice: duplicate candidates
        }
        v.push((k, ms));
    }
    // now and then give two different keys the same mass (overlapping candidates such as ^A + A)
    if v.len() >= 2 && rng.chance(1, 4) {
        let m = v[0].1[0];
        v[1].1[0] = m;
    }
    v
}

fn rand_statics(rng: &mut Rng, seq: &str, nmax: usize) -> StaticMods {
    let n = rng.below(nmax + 1);
    let mut v: StaticMods = Vec::new();
    for _ in 0..n {
        let k = rand_key(rng, seq);
        if v.iter().any(|(k2, _)| *k2 == k) {
            continue;
        }
        v.push((k, mass(rng)));
    }
    v
}

/// sites a key addresses (generator-side estimate, used only to size cases and to tag them)
fn sites(key: &str, seq: &str, pos: usize) -> Vec<i64> {
    let b = seq.as_bytes();
    let c: Vec<char> = key.chars().collect();
    let n_ok = pos == 0 || pos == 2;
    let c_ok = pos == 1 || pos == 2;
    let last = b.len() as i64 - 1;
    match c.as_slice() {
        ['^'] => vec![-1],
        ['$'] => vec![-2],
        ['['] => if n_ok { vec![-1] } else { vec![] },
        [']'] => if c_ok { vec![-2] } else { vec![] },
        ['^', r] => if b.first().map(|x| *x as char) == Some(*r) { vec![0] } else { vec![] },
        ['$', r] => if b.last().map(|x| *x as char) == Some(*r) { vec![last] } else { vec![] },
        ['[', r] => if n_ok && b.first().map(|x| *x as char) == Some(*r) { vec![0] } else { vec![] },
        [']', r] => if c_ok && b.last().map(|x| *x as char) == Some(*r) { vec![last] } else { vec![] },
        [r] => (0..b.len()).filter(|i| b[*i] as char == *r).map(|i| i as i64).collect(),
        _ => vec![],
    }
}

fn valid_key(k: &str) -> bool {
    ModificationSpecificity::from_str(k).is_ok()
}

struct Shape {
    cands: usize,
    dup_cands: bool,
    static_overlap: bool,
    var_static_same_site: bool,
}

fn shape(pos: usize, seq: &str, vars: &VarMods, statics: &StaticMods) -> Shape {
    let mut cands: Vec<(i64, u32)> = Vec::new();
    for (k, ms) in vars {
        if !valid_key(k) {
            continue;
        }
        for m in ms {
            for s in sites(k, seq, pos) {
                cands.push((s, m.to_bits()));
            }
        }
    }
    let mut sorted = cands.clone();
    sorted.sort();
    sorted.dedup();
    let mut ssites: Vec<i64> = Vec::new();
    for (k, _) in statics {
        if valid_key(k) {
            ssites.extend(sites(k, seq, pos));
        }
    }
    let mut s2 = ssites.clone();
    s2.sort();
    s2.dedup();
    Shape {
        cands: cands.len(),
        dup_cands: sorted.len() != cands.len(),
        static_overlap: s2.len() != ssites.len(),
        var_static_same_site: cands.iter().any(|(s, _)| ssites.contains(s)),
    }
}

fn binom_sum(n: usize, k: usize) -> usize {
    let mut total = 0usize;
    let mut c = 1usize;
    for i in 1..=k.min(n) {
        c = c * (n + 1 - i) / i;
        total += c;
    }
    total
}

fn emit_apply(emit: &mut dyn FnMut(Case), tag: &'static str, pos: usize, seq: &str, mut max: usize, vars: &VarMods, statics: &StaticMods) {
    let sh = shape(pos, seq, vars, statics);
    // keep the number of combinations per case bounded
    while max > 1 && binom_sum(sh.cands, max) > 400 {
        max -= 1;
    }
    if binom_sum(sh.cands, max) > 400 {
        return;
    }
    let valid_seq = seq.bytes().all(|c| ALL_AA.contains(&c));
    let zero = vars.iter().any(|(_, ms)| ms.iter().any(|m| *m == 0.0)) || statics.iter().any(|(_, m)| *m == 0.0);
    // the display string of the same forms (structure of `Display for Peptide`), for the directed cases and a
    // deterministic eighth of the others
    let req = req_apply(pos, seq, max, vars, statics);
    let h = req.bytes().fold(0u32, |a, b| a.wrapping_mul(31).wrapping_add(b as u32));
    if tag.ends_with("directed") || h % 8 == 0 {
        emit(Case::new(req.replacen("apply", "pepdisplay", 1))
            .tag("display")
            .tag_if(vars.iter().any(|(k, _)| k == "^" || k == "[") || statics.iter().any(|(k, _)| k == "^" || k == "["), "display:nterm-key")
            .tag_if(vars.iter().any(|(k, _)| k == "$" || k == "]") || statics.iter().any(|(k, _)| k == "$" || k == "]"), "display:cterm-key")
            .nontrivial(valid_seq && sh.cands > 0 && max > 0));
    }
    emit(Case::new(req)
        .tag(tag)
        .tag_if(!valid_seq, "apply:invalid-sequence")
        .tag_if(seq.is_empty(), "apply:empty-sequence")
        .tag_if(seq.len() >= 60, "apply:len>=60")
        .tag_if(seq.len() >= 255, "apply:len>=255")
        .tag_if(sh.dup_cands, "apply:duplicate-candidates")
        .tag_if(sh.static_overlap, "apply:static-overlap")
        .tag_if(sh.var_static_same_site, "apply:var+static-same-site")
        .tag_if(zero, "apply:zero-mass")
        .tag_if(sh.cands > max && max > 0, "apply:max-binds")
        .tag_if(max == 0, "apply:max=0")
        .tag(match pos { 0 => "pos:nterm", 1 => "pos:cterm", 2 => "pos:full", _ => "pos:internal" })
        .nontrivial(valid_seq && sh.cands > 0 && max > 0));
}

fn vm(v: &[(&str, &[f32])]) -> VarMods {
    v.iter().map(|(k, ms)| (k.to_string(), ms.to_vec())).collect()
}
fn sm(v: &[(&str, f32)]) -> StaticMods {
    v.iter().map(|(k, m)| (k.to_string(), *m)).collect()
}

fn gen_modkey(rng: &mut Rng, tier: Tier, emit: &mut dyn FnMut(Case)) {
    let alphabet: Vec<char> = vec!['^', '$', '[', ']', 'M', 'K', 'A', 'Z', 'B', 'm', 'é', '-'];
    let maxlen = if tier == Tier::Quick { 2 } else { 3 };
    let mut strings: Vec<String> = vec![String::new()];
    let mut frontier: Vec<String> = vec![String::new()];
    for _ in 0..maxlen {
        let mut next = Vec::new();
        for s in &frontier {
            for c in &alphabet {
                let mut s2 = s.clone();
                s2.push(*c);
                next.push(s2);
            }
        }
        strings.extend(next.iter().cloned());
        frontier = next;
    }
    for s in strings {
        emit(Case::new(req_key(&s)).tag("modkey:exhaustive"));
    }
    // the documented grammar, completely
    for &r in ALL_AA {
        emit(Case::new(req_key(&(r as char).to_string())).tag("modkey:grammar"));
        for m in MARKERS {
            emit(Case::new(req_key(&format!("{}{}", m, r as char))).tag("modkey:grammar"));
        }
    }
    // every ASCII character alone, after each marker, and before a residue
    for c in 0u8..128 {
        let ch = c as char;
        emit(Case::new(req_key(&ch.to_string())).tag("modkey:ascii"));
        for m in MARKERS {
            emit(Case::new(req_key(&format!("{}{}", m, ch))).tag("modkey:ascii"));
        }
        emit(Case::new(req_key(&format!("{}M", ch))).tag("modkey:ascii"));
    }
    for s in ["€", "^€", "😀", "^😀", "é", "^é", "éM", "Mé", "ÿ", "\u{80}", "^\u{80}", "\u{7ff}", "\u{800}", "Ａ", "^Ａ", "MKA", "^MK", "^^^", "M ", " M"] {
        emit(Case::new(req_key(s)).tag("modkey:unicode-and-long"));
    }
    // EVERY two-byte character alone (U+0080..U+07FF): the only non-ASCII keys that pass `s.len() <= 2`. Those whose
    // code point's low byte is a residue letter (U+014D -> 'M') are the ones a `c as u8` without `is_ascii` misreads.
    for cp in 0x80u32..0x800 {
        let ch = char::from_u32(cp).unwrap();
        let low = (cp & 0xff) as u8;
        emit(Case::new(req_key(&ch.to_string()))
            .tag("modkey:two-byte-char")
            .tag_if(ALL_AA.contains(&low), "modkey:low-byte-is-residue"));
    }
    // look-alikes of every letter, bare and after each marker
    let prefixes = ["", "^", "$", "[", "]"];
    for l in (b'A'..=b'Z').chain(b'a'..=b'z') {
        let up = l.to_ascii_uppercase();
        let mut alikes: Vec<String> = Vec::new();
        for hi in [0x100u32, 0x200, 0x300, 0x400, 0x500, 0x600, 0x700, 0x1000, 0x2000, 0xFF00, 0x10000, 0x1F600, 0xE0000] {
            if let Some(c) = char::from_u32(hi + l as u32) {
                alikes.push(c.to_string()); // low byte of the code point == the letter
            }
        }
        alikes.push(char::from_u32(0xFF21 + (up - b'A') as u32).unwrap().to_string()); // full-width capital
        alikes.push(char::from_u32(0xFF41 + (up - b'A') as u32).unwrap().to_string()); // full-width small
        alikes.push(char::from_u32(0x1D400 + (up - b'A') as u32).unwrap().to_string()); // mathematical bold capital
        alikes.push(format!("{}\u{301}", l as char)); // combining acute
        alikes.push(format!("{}\u{30a}", l as char));
        alikes.push((l as char).to_string());
        alikes.push(format!("{}{}", l as char, l as char));
        for a in &alikes {
            for p in prefixes {
                emit(Case::new(req_key(&format!("{}{}", p, a))).tag("modkey:look-alike"));
            }
        }
    }
    // Latin-1 letters after each marker (alone they are in the two-byte sweep)
    for cp in 0xC0u32..0x100 {
        let ch = char::from_u32(cp).unwrap();
        for p in ["^", "$", "[", "]"] {
            emit(Case::new(req_key(&format!("{}{}", p, ch))).tag("modkey:latin1"));
        }
    }
    // random UTF-8 of 1..4 bytes (sometimes longer)
    let n = if tier == Tier::Quick { 1500 } else { 60000 };
    for _ in 0..n {
        let budget = if rng.chance(1, 10) { 5 + rng.below(4) } else { 1 + rng.below(4) };
        let mut s = String::new();
        loop {
            let cp = match rng.below(8) {
                0 | 1 => rng.below(0x80) as u32,
                2 => *rng.pick(&[b'^', b'$', b'[', b']']) as u32,
                3 => *rng.pick(ALL_AA) as u32,
                4 | 5 => 0x80 + rng.below(0x780) as u32,
                6 => 0x800 + rng.below(0xF800) as u32,
                _ => 0x10000 + rng.below(0x100000) as u32,
            };
            let ch = match char::from_u32(cp) { Some(c) => c, None => continue };
            if s.len() + ch.len_utf8() > budget {
                break;
            }
            s.push(ch);
            if s.len() == budget {
                break;
            }
        }
        emit(Case::new(req_key(&s)).tag("modkey:random-utf8").tag_if(!s.is_ascii(), "modkey:non-ascii"));
    }
}

fn gen_directed(emit: &mut dyn FnMut(Case)) {
    let e: VarMods = vec![];
    let s0: StaticMods = vec![];
    // DESIGN §5 #8: overlapping candidates generate the same form twice at `apply` level
    emit_apply(emit, "apply:directed", 2, "AGGGGK", 1, &vm(&[("^A", &[42.0]), ("A", &[42.0])]), &s0);
    emit_apply(emit, "apply:directed", 2, "AGGGGK", 2, &vm(&[("^A", &[42.0]), ("A", &[42.0])]), &s0);
    emit_apply(emit, "apply:directed", 3, "MAMK", 2, &vm(&[("M", &[15.9949, 15.9949])]), &s0);
    // the unit tests' shapes
    emit_apply(emit, "apply:directed", 2, "GCASDDCAK", 2, &vm(&[("C", &[57.0, 30.0]), ("^", &[42.0]), ("$", &[11.0])]), &s0);
    emit_apply(emit, "apply:directed", 2, "PEPTIDEK", 2, &vm(&[("[", &[42.0]), ("]", &[11.0]), ("P", &[15.0])]), &sm(&[("K", 8.0)]));
    // variable and static on the same residue; static with the same mass as the variable one
    for pos in 0..4 {
        emit_apply(emit, "apply:directed", pos, "MCMK", 2, &vm(&[("M", &[15.9949])]), &sm(&[("C", 57.021465), ("M", 1.0)]));
        emit_apply(emit, "apply:directed", pos, "MCMK", 2, &vm(&[("M", &[15.9949])]), &sm(&[("M", 15.9949)]));
        // protein-terminal vs peptide-terminal, with and without residue
        emit_apply(emit, "apply:directed", pos, "MAAK", 3, &vm(&[("[", &[42.010565]), ("]", &[-17.026548]), ("[M", &[1.0]), ("]K", &[2.0])]), &s0);
        emit_apply(emit, "apply:directed", pos, "MAAK", 3, &vm(&[("^", &[42.010565]), ("$", &[-17.026548]), ("^M", &[1.0]), ("$K", &[2.0])]), &s0);
        emit_apply(emit, "apply:directed", pos, "MAAK", 2, &e, &sm(&[("[", 42.010565), ("]", 17.0), ("[M", 1.0), ("]K", 2.0)]));
        emit_apply(emit, "apply:directed", pos, "MAAK", 2, &vm(&[("K", &[8.0])]), &sm(&[("^", 229.16293), ("K", 229.16293)]));
        // a residue key must not act on the first/last residue only, a terminal-residue key not elsewhere
        emit_apply(emit, "apply:directed", pos, "KAKAK", 3, &vm(&[("^K", &[1.0]), ("$K", &[2.0])]), &s0);
        emit_apply(emit, "apply:directed", pos, "KAKAK", 3, &vm(&[("K", &[1.0, 2.0])]), &s0);
        emit_apply(emit, "apply:directed", pos, "AKAKA", 2, &vm(&[("^K", &[1.0]), ("$K", &[2.0]), ("[K", &[3.0]), ("]K", &[4.0])]), &s0);
        // length 1: both ends are the same slot
        emit_apply(emit, "apply:directed", pos, "K", 2, &vm(&[("^K", &[1.0]), ("$K", &[2.0]), ("K", &[3.0])]), &s0);
        emit_apply(emit, "apply:directed", pos, "K", 3, &vm(&[("^", &[1.0]), ("$", &[2.0]), ("[", &[3.0]), ("]", &[4.0])]), &s0);
        emit_apply(emit, "apply:directed", pos, "K", 1, &e, &sm(&[("^K", 1.0), ("$K", 2.0)]));
        // empty peptide
        emit_apply(emit, "apply:directed", pos, "", 2, &vm(&[("^", &[1.0]), ("^A", &[2.0]), ("A", &[3.0]), ("$A", &[4.0])]), &sm(&[("$", 5.0), ("^K", 6.0)]));
        // max = 0, 1 and beyond the number of sites
        for max in [0usize, 1, 4, 5] {
            emit_apply(emit, "apply:directed", pos, "SAS", max, &vm(&[("S", &[79.96633]), ("^", &[42.010565])]), &sm(&[("A", 1.0)]));
        }
        // invalid keys are dropped, not misapplied (FIXES: MK, ^Z)
        emit_apply(emit, "apply:directed", pos, "MKZ", 2, &vm(&[("MK", &[1.0]), ("^Z", &[2.0])]), &sm(&[("é", 3.0)]));
        emit_apply(emit, "apply:directed", pos, "MKM", 2, &vm(&[("MK", &[1.0]), ("^Z", &[2.0]), ("m", &[4.0])]), &sm(&[("é", 3.0), ("KM", 5.0)]));
        // invalid residues
        for s in ["PEPTIDEZ", "BK", "peptide", "AK*", "AéK", "A K", "XAAK", "AAJ"] {
            emit_apply(emit, "apply:directed", pos, s, 1, &vm(&[("A", &[1.0])]), &s0);
        }
        // zero masses (outside the property's premise; model comparison only)
        emit_apply(emit, "apply:directed", pos, "MAMK", 2, &vm(&[("M", &[0.0, 16.0]), ("^", &[0.0])]), &sm(&[("M", 5.0), ("^", 7.0)]));
        // masses that cancel: mass formula with negative terms
        emit_apply(emit, "apply:directed", pos, "MAMK", 2, &vm(&[("M", &[16.0, -16.0])]), &sm(&[("K", -128.09496)]));
    }
    // all 22 residues carry their mass
    emit_apply(emit, "apply:directed", 2, "ACDEFGHIKLMNPQRSTVWYUO", 1, &vm(&[("U", &[1.0]), ("O", &[2.0])]), &sm(&[("W", 3.0)]));
}

fn gen_small_scope(tier: Tier, emit: &mut dyn FnMut(Case)) {
    let (maxlen, maxes): (usize, &[usize]) = if tier == Tier::Quick { (2, &[1, 2]) } else { (4, &[1, 2, 3]) };
    let var_sets: Vec<VarMods> = vec![
        vm(&[("A", &[1.0])]),
        vm(&[("K", &[1.0, 2.0])]),
        vm(&[("^", &[4.0]), ("$", &[8.0])]),
        vm(&[("[", &[4.0]), ("]", &[8.0])]),
        vm(&[("^A", &[1.0]), ("$K", &[2.0])]),
        vm(&[("[A", &[1.0]), ("]K", &[2.0])]),
        vm(&[("A", &[1.0]), ("^", &[4.0])]),
        vm(&[("A", &[1.0]), ("K", &[2.0]), ("$", &[8.0])]),
        vm(&[("^A", &[1.0]), ("A", &[2.0])]),
        vm(&[("^A", &[1.0]), ("A", &[1.0])]),
        vm(&[("^K", &[1.0]), ("[K", &[2.0]), ("$K", &[4.0]), ("]K", &[8.0])]),
        vm(&[("A", &[1.0]), ("[", &[4.0]), ("]A", &[2.0])]),
        vm(&[("A", &[1.0]), ("K", &[2.0]), ("C", &[4.0])]),
        vm(&[("C", &[1.0, 2.0]), ("^C", &[4.0]), ("K", &[8.0])]),
    ];
    let static_sets: Vec<StaticMods> = vec![
        sm(&[]),
        sm(&[("A", 16.0)]),
        sm(&[("K", 16.0), ("^", 32.0)]),
        sm(&[("[", 32.0), ("]", 64.0)]),
        sm(&[("^A", 16.0), ("$K", 32.0)]),
        sm(&[("A", 1.0), ("$", 64.0), ("[K", 32.0)]),
        sm(&[("C", 57.0)]),
    ];
    let mut seqs: Vec<String> = vec![String::new()];
    let mut frontier = seqs.clone();
    for _ in 0..maxlen {
        let mut next = Vec::new();
        for s in &frontier {
            for c in ['A', 'K', 'C'] {
                let mut s2 = s.clone();
                s2.push(c);
                next.push(s2);
            }
        }
        seqs.extend(next.iter().cloned());
        frontier = next;
    }
    if tier == Tier::Quick {
        // three distinct modifiable residues together: every arrangement of A, K, C
        for p in ["AKC", "ACK", "KAC", "KCA", "CAK", "CKA"] {
            seqs.push(p.to_string());
        }
    }
    for seq in &seqs {
        for pos in 0..4 {
            for v in &var_sets {
                for s in &static_sets {
                    for &max in maxes {
                        emit_apply(emit, "apply:small-scope", pos, seq, max, v, s);
                    }
                }
            }
        }
    }
}

fn gen_random(rng: &mut Rng, tier: Tier, emit: &mut dyn FnMut(Case)) {
    let (n, maxlen) = if tier == Tier::Quick { (1500, 8) } else { (150000, 12) };
    for _ in 0..n {
        let mut seq = rand_seq(rng, maxlen);
        if rng.chance(1, 30) && !seq.is_empty() {
            // spoil one residue
            let i = rng.below(seq.len());
            let bad = *rng.pick(&['B', 'Z', 'X', 'J', 'a', '*', 'é', '1']);
            let mut cs: Vec<char> = seq.chars().collect();
            cs[i] = bad;
            seq = cs.into_iter().collect();
        }
        let pos = rng.below(4);
        let max = *rng.pick(&[0usize, 1, 1, 2, 2, 2, 3, 3, 4]);
        let vars = rand_vars(rng, &seq, 4);
        let statics = rand_statics(rng, &seq, 3);
        emit_apply(emit, "apply:random", pos, &seq, max, &vars, &statics);
    }
}

fn next_up(x: f32) -> f32 {
    f32::from_bits(x.to_bits() + 1)
}
fn next_down(x: f32) -> f32 {
    f32::from_bits(x.to_bits() - 1)
}

fn gen_db(rng: &mut Rng, tier: Tier, emit: &mut dyn FnMut(Case)) {
    let n = if tier == Tier::Quick { 400 } else { 20000 };
    let mut done = 0;
    let mut attempts = 0;
    while done < n && attempts < 20 * n {
        attempts += 1;
        let mut seq = rand_seq(rng, 8);
        if seq.is_empty() {
            continue; // Parameters::digest panics on a FASTA without peptides (outside the property; FIXES.md)
        }
        if rng.chance(1, 40) {
            seq.push(*rng.pick(&['B', 'Z', 'x']));
        }
        let max = *rng.pick(&[0usize, 1, 2, 2, 3]);
        let vars = rand_vars(rng, &seq, 3);
        let statics = rand_statics(rng, &seq, 2);
        if emit_db(rng, emit, "", &seq, max, &vars, &statics) {
            done += 1;
        }
    }
}

/// one long peptide: modifiable residues only at `idx` (letter `letters[j]` at `idx[j]`), background of
/// letters that no key addresses
fn long_seq(rng: &mut Rng, len: usize, idx: &[usize], letters: &[u8]) -> String {
    let bg: &[u8] = if rng.chance(1, 2) { b"G" } else { b"GAVLS" };
    let mut v: Vec<u8> = (0..len).map(|_| *rng.pick(bg)).collect();
    for (j, &i) in idx.iter().enumerate() {
        v[i] = letters[j % letters.len()];
    }
    String::from_utf8(v).unwrap()
}

struct LongCase {
    pos: usize,
    seq: String,
    max: usize,
    vars: VarMods,
    statics: StaticMods,
}

/// Long peptides (60..140 residues, a few 255..300) with at most 6 candidate sites, placed so that
/// pairs of sites are 64 / 128 apart, or sit at residue 62 / 63 together with a terminal modification,
/// or straddle index 64 -- any per-combination site bookkeeping narrower than the peptide (a machine-word
/// bitmask, a u8 index, a fixed array) drops or merges such placements. max_variable_mods 2..3.
fn long_case(rng: &mut Rng, pattern: usize) -> LongCase {
    let mods: &[u8] = b"MKC";
    let nletters = 1 + rng.below(3);
    let letters: Vec<u8> = {
        let mut l = mods.to_vec();
        rng.shuffle(&mut l);
        l.truncate(nletters);
        l
    };
    let huge = rng.chance(1, 8);
    let mut len = if huge { 255 + rng.below(46) } else { 60 + rng.below(81) };
    let mut term: Option<&'static str> = None;
    let mut idx: Vec<usize> = match pattern % 10 {
        0 => vec![0, 64],
        1 => vec![1, 65],
        2 => vec![63, 127],
        3 => { term = Some(*rng.pick(&["^", "["])); vec![62] }
        4 => { term = Some(*rng.pick(&["$", "]"])); vec![63] }
        5 => { let i = rng.below(60); vec![i, i + 64] }
        6 => { let i = rng.below(40); vec![i, i + 64, i + 128] }
        7 => { term = Some(*rng.pick(&["^", "$", "[", "]"])); vec![61, 62, 63, 64] }
        8 => { let i = rng.below(30); vec![i, i + 32, i + 64, i + 96] }
        _ => vec![],
    };
    let need = idx.iter().max().map(|m| m + 1 + rng.below(12)).unwrap_or(0);
    if len < need {
        len = need;
    }
    // random sparse extra sites, up to 6 residue sites / 5 with a terminal one
    let cap = if term.is_some() { 5 } else { 6 };
    let extra = if idx.is_empty() { 2 + rng.below(4) } else { rng.below(cap + 1 - idx.len().min(cap)) };
    for _ in 0..extra {
        if idx.len() >= cap {
            break;
        }
        let i = rng.below(len);
        if !idx.contains(&i) {
            idx.push(i);
        }
    }
    if term.is_none() && idx.len() < cap && rng.chance(1, 4) {
        term = Some(*rng.pick(&["^", "$", "[", "]"]));
    }
    let seq = long_seq(rng, len, &idx, &letters);
    let pos = match term {
        Some("[") => *rng.pick(&[0usize, 2, 2]),
        Some("]") => *rng.pick(&[1usize, 2, 2]),
        _ => rng.below(4),
    };
    let mut vars: VarMods = Vec::new();
    let few = idx.len() <= 3;
    for &l in &letters {
        if idx.iter().enumerate().any(|(j, _)| letters[j % letters.len()] == l) {
            let mut ms = vec![mass(rng)];
            if few && rng.chance(1, 4) {
                ms.push(mass(rng));
            }
            vars.push(((l as char).to_string(), ms));
        }
    }
    if let Some(t) = term {
        vars.push((t.to_string(), vec![mass(rng)]));
    }
    let mut statics: StaticMods = Vec::new();
    if rng.chance(1, 3) {
        // a static mod on a background letter, on the other terminus, or on one of the variable letters
        let k = match rng.below(3) {
            0 => "G".to_string(),
            1 => (*rng.pick(&["^", "$"])).to_string(),
            _ => (letters[0] as char).to_string(),
        };
        if !vars.iter().any(|(k2, _)| *k2 == k) || rng.chance(1, 2) {
            statics.push((k, mass(rng)));
        }
    }
    LongCase { pos, seq, max: 2 + rng.below(2), vars, statics }
}

fn gen_long(rng: &mut Rng, tier: Tier, emit: &mut dyn FnMut(Case)) {
    let e: StaticMods = vec![];
    // directed: M G*63 M K doubly oxidised (sites 0 and 64), and the other alignments, one by one
    let g = |n: usize| "G".repeat(n);
    let ox: &[f32] = &[15.9949];
    let directed: Vec<(usize, String, VarMods)> = vec![
        (2, format!("M{}MK", g(63)), vm(&[("M", ox)])),                       // residues 0 and 64
        (3, format!("GM{}MK", g(63)), vm(&[("M", ox)])),                      // 1 and 65
        (2, format!("{}M{}MK", g(63), g(63)), vm(&[("M", ox)])),              // 63 and 127
        (2, format!("{}MGK", g(62)), vm(&[("M", ox), ("^", &[42.010565])])),  // residue 62 + N-terminus
        (2, format!("{}MGK", g(62)), vm(&[("M", ox), ("[", &[42.010565])])),
        (2, format!("{}MK", g(63)), vm(&[("M", ox), ("$", &[-17.026548])])),  // residue 63 + C-terminus
        (2, format!("{}MK", g(63)), vm(&[("M", ox), ("]", &[-17.026548])])),
        (2, format!("{}MMK", g(62)), vm(&[("M", ox), ("^", &[42.010565]), ("$", &[-17.026548])])),
        (3, format!("M{}M{}MK", g(63), g(63)), vm(&[("M", ox)])),             // 0, 64, 128
        (2, format!("K{}K{}", g(63), g(190)), vm(&[("K", &[8.0, 10.0])])),    // 0 and 64 in a 256-residue peptide
        (2, format!("{}C{}C{}", g(200), g(63), g(20)), vm(&[("C", &[57.021465])])),   // 200 and 264
        (2, format!("M{}MK", g(62)), vm(&[("M", ox)])),                       // 0 and 63: not aligned (control)
    ];
    for (pos, seq, vars) in &directed {
        for max in [2usize, 3] {
            emit_apply(emit, "apply:long-directed", *pos, seq, max, vars, &e);
            emit_db(rng, emit, "db:long", seq, max, vars, &e);
        }
    }
    let n = if tier == Tier::Quick { 120 } else { 6000 };
    for k in 0..n {
        let c = long_case(rng, k);
        emit_apply(emit, "apply:long", c.pos, &c.seq, c.max, &c.vars, &c.statics);
        if k % 3 == 0 {
            emit_db(rng, emit, "db:long", &c.seq, c.max, &c.vars, &c.statics);
        }
    }
}

/// a dbforms case for a given peptide: bounds on / one ulp around the masses of its forms
fn emit_db(rng: &mut Rng, emit: &mut dyn FnMut(Case), extra_tag: &'static str, seq: &str, max: usize, vars: &VarMods, statics: &StaticMods) -> bool {
    let sh = shape(2, seq, vars, statics);
    if seq.is_empty() || sh.static_overlap || binom_sum(sh.cands, max.max(1)) > 300 {
        return false;
    }
    // keys are HashMap keys in Parameters: they cannot repeat
    for (i, (k, _)) in vars.iter().enumerate() {
        if vars[..i].iter().any(|(k2, _)| k2 == k) {
            return false;
        }
    }
    let masses: Vec<f32> = match run_apply(Position::Full, seq, max.max(1), vars, statics) {
        Ok((_, forms)) => forms.iter().map(|p| p.monoisotopic).collect(),
        Err(()) => vec![],
    };
    let pickm = |rng: &mut Rng| -> f32 {
        if masses.is_empty() { 500.0 } else { *rng.pick(&masses) }
    };
    let (lo, hi, tag): (f32, f32, &'static str) = match rng.below(8) {
        0 => (0.0, 1.0e6, "db:range-all"),
        1 => { let m = pickm(rng); (m, 1.0e6, "db:lo=form-mass") }
        2 => { let m = pickm(rng); (next_up(m), 1.0e6, "db:lo=form-mass+1ulp") }
        3 => { let m = pickm(rng); (0.0, m, "db:hi=form-mass") }
        4 => { let m = pickm(rng); (0.0, next_down(m), "db:hi=form-mass-1ulp") }
        5 => { let a = pickm(rng); let b = pickm(rng); (a.min(b), a.max(b), "db:lo,hi=form-masses") }
        6 => { let m = pickm(rng); (m, m, "db:lo=hi=form-mass") }
        _ => { let m = pickm(rng); (m - 10.0, m + 10.0, "db:window") }
    };
    let inside = masses.iter().filter(|m| **m >= lo && **m <= hi).count();
    emit(Case::new(req_db(seq, max, lo, hi, vars, statics))
        .tag(tag)
        .tag_if(!extra_tag.is_empty(), extra_tag)
        .tag_if(sh.dup_cands, "db:duplicate-candidates")
        .tag_if(inside == 0, "db:nothing-in-range")
        .tag_if(inside == masses.len() && inside > 0, "db:everything-in-range")
        .nontrivial(inside > 0 && inside < masses.len()));
    true
}

// ------------------------------------------------------------------------------ proteins through a real enzyme

fn opt_tok<T: std::fmt::Display>(o: &mut Out, x: Option<T>) {
    match x {
        None => { o.n(0); }
        Some(v) => { o.n(1).n(v); }
    }
}

fn req_digest(e: &EnzymeBuilder, prot: &str, max: usize, lo: f32, hi: f32, vars: &VarMods, statics: &StaticMods) -> String {
    let mut o = Out::new();
    o.raw("dbdigest");
    opt_tok(&mut o, e.missed_cleavages);
    opt_tok(&mut o, e.min_len);
    opt_tok(&mut o, e.max_len);
    match &e.cleave_at {
        None => { o.n(0); }
        Some(c) => { o.n(1).s(c); }
    }
    opt_tok(&mut o, e.restrict.map(|c| c as u32));
    opt_tok(&mut o, e.c_terminal.map(|b| b as u8));
    opt_tok(&mut o, e.semi_enzymatic.map(|b| b as u8));
    o.s(prot).n(max).f32(lo).f32(hi);
    write_mods(&mut o, vars, statics);
    o.finish()
}

fn emit_digest(rng: &mut Rng, emit: &mut dyn FnMut(Case), tag: &'static str, e: &EnzymeBuilder, prot: &str, mut max: usize,
               vars: &VarMods, statics: &StaticMods) -> bool {
    for (i, (k, _)) in vars.iter().enumerate() {
        if vars[..i].iter().any(|(k2, _)| k2 == k) {
            return false;
        }
    }
    let sh = shape(2, prot, vars, statics);
    while max > 1 && binom_sum(sh.cands, max) > 120 {
        max -= 1;
    }
    if binom_sum(sh.cands, max.max(1)) > 120 {
        return false;
    }
    let (e2, p2, v2, s2) = (e.clone(), prot.to_string(), vars.clone(), statics.clone());
    let all = match std::panic::catch_unwind(move || run_digest(&e2, &p2, max, f32::NEG_INFINITY, f32::INFINITY, &v2, &s2)) {
        Ok(a) => a,
        Err(_) => {
            emit(Case::new(req_digest(e, prot, max, 0.0, 1.0e6, vars, statics)).tag(tag).tag("dig:panic").nontrivial(false));
            return true;
        }
    };
    let masses: Vec<f32> = all.iter().map(|p| p.monoisotopic).collect();
    let pickm = |rng: &mut Rng| -> f32 { if masses.is_empty() { 500.0 } else { *rng.pick(&masses) } };
    let (lo, hi): (f32, f32) = match rng.below(7) {
        0 | 1 => (0.0, 1.0e6),
        2 => { let m = pickm(rng); (m, 1.0e6) }
        3 => { let m = pickm(rng); (next_up(m), 1.0e6) }
        4 => { let m = pickm(rng); (0.0, m) }
        5 => { let m = pickm(rng); (0.0, next_down(m)) }
        _ => { let a = pickm(rng); let b = pickm(rng); (a.min(b), a.max(b)) }
    };
    let has = |pos: Position| all.iter().any(|p| p.position == pos);
    let modified = |p: &Peptide| p.nterm.is_some() || p.cterm.is_some() || p.modifications.iter().any(|m| *m != 0.0);
    let term_mod = |pos: Position| all.iter().any(|p| p.position == pos && (p.nterm.is_some() || p.cterm.is_some()));
    let prot_keys = vars.iter().any(|(k, _)| k.starts_with('[') || k.starts_with(']'))
        || statics.iter().any(|(k, _)| k.starts_with('[') || k.starts_with(']'));
    let npos = [Position::Nterm, Position::Cterm, Position::Internal, Position::Full].iter().filter(|p| has(**p)).count();
    emit(Case::new(req_digest(e, prot, max, lo, hi, vars, statics))
        .tag(tag)
        .tag_if(has(Position::Nterm), "dig:has-nterm-peptide")
        .tag_if(has(Position::Cterm), "dig:has-cterm-peptide")
        .tag_if(has(Position::Internal), "dig:has-internal-peptide")
        .tag_if(has(Position::Full), "dig:has-full-peptide")
        .tag_if(prot_keys, "dig:protein-terminal-keys")
        .tag_if(term_mod(Position::Nterm), "dig:nterm-peptide-terminally-modified")
        .tag_if(term_mod(Position::Cterm), "dig:cterm-peptide-terminally-modified")
        .tag_if(term_mod(Position::Internal), "dig:internal-peptide-terminally-modified")
        .tag_if(e.semi_enzymatic == Some(true), "dig:semi")
        .tag_if(e.missed_cleavages.unwrap_or(0) > 0, "dig:missed-cleavages")
        .nontrivial(npos >= 2 && all.iter().any(modified)));
    true
}

fn enzyme(cleave: &str, restrict: Option<char>, c_terminal: bool, mc: u8, min_len: usize, max_len: usize, semi: bool) -> EnzymeBuilder {
    EnzymeBuilder {
        missed_cleavages: Some(mc),
        min_len: Some(min_len),
        max_len: Some(max_len),
        cleave_at: Some(cleave.into()),
        restrict,
        c_terminal: Some(c_terminal),
        semi_enzymatic: Some(semi),
    }
}

fn gen_digest(rng: &mut Rng, tier: Tier, emit: &mut dyn FnMut(Case)) {
    let e: StaticMods = vec![];
    // directed: every position, every kind of terminal key
    let tryp = |mc: u8| enzyme("KR", Some('P'), true, mc, 1, 40, false);
    for mc in 0..=2u8 {
        for max in [1usize, 2] {
            emit_digest(rng, emit, "dig:directed", &tryp(mc), "MAAKCCMKGGR", max,
                &vm(&[("[", &[42.010565]), ("]", &[-17.026548]), ("M", &[15.9949])]), &sm(&[("C", 57.021465)]));
            emit_digest(rng, emit, "dig:directed", &tryp(mc), "MAAKCCMKGGR", max,
                &vm(&[("^", &[42.010565]), ("$", &[-17.026548])]), &sm(&[("K", 8.0)]));
            emit_digest(rng, emit, "dig:directed", &tryp(mc), "MAAKMCMKMGR", max,
                &vm(&[("[M", &[1.0]), ("]R", &[2.0]), ("^M", &[4.0]), ("$K", &[8.0])]), &e);
            emit_digest(rng, emit, "dig:directed", &tryp(mc), "MAAKMCMKMGR", max,
                &vm(&[("M", &[15.9949])]), &sm(&[("[", 42.010565), ("$", 3.0)]));
            emit_digest(rng, emit, "dig:directed", &tryp(mc), "MAAKMCMKMGR", max,
                &vm(&[("K", &[8.0])]), &sm(&[("]", 1.0), ("^", 229.16293), ("C", 57.021465)]));
            // the same peptide at the protein N-terminus and inside / at the C-terminus
            emit_digest(rng, emit, "dig:directed", &tryp(mc), "AAKGGKAAK", max,
                &vm(&[("[", &[42.010565]), ("]", &[-17.026548])]), &e);
            emit_digest(rng, emit, "dig:directed", &tryp(mc), "GGKAAKGGK", max,
                &vm(&[("[", &[42.010565]), ("]", &[-17.026548]), ("^G", &[1.0])]), &e);
        }
    }
    emit_digest(rng, emit, "dig:directed", &enzyme("D", None, false, 1, 1, 40, false), "MADCKDMMD", 2,
        &vm(&[("[", &[42.010565]), ("]", &[-17.026548]), ("M", &[15.9949])]), &sm(&[("C", 57.021465)]));
    emit_digest(rng, emit, "dig:directed", &enzyme("KR", None, true, 0, 1, 40, true), "MAKCR", 2,
        &vm(&[("[", &[42.010565]), ("]", &[-17.026548]), ("^", &[1.0])]), &sm(&[("C", 57.021465)]));
    emit_digest(rng, emit, "dig:directed", &enzyme("$", None, true, 0, 1, 40, false), "MAKCR", 2,
        &vm(&[("[", &[42.010565]), ("]", &[-17.026548])]), &e);
    // length window that removes every peptide: the empty database (group_digests is guarded; it used to panic)
    emit_digest(rng, emit, "dig:directed", &enzyme("KR", None, true, 0, 30, 40, false), "MAKCR", 1, &vm(&[("M", &[1.0])]), &e);

    let n = if tier == Tier::Quick { 300 } else { 12000 };
    let enzymes: &[(&str, Option<char>, bool)] = &[
        ("KR", Some('P'), true), ("KR", None, true), ("K", None, true), ("R", Some('P'), true), ("D", None, false), ("KR", None, false),
    ];
    let mut done = 0;
    let mut attempts = 0;
    while done < n && attempts < 20 * n {
        attempts += 1;
        let semi = rng.chance(1, 8);
        let len = if semi { 4 + rng.below(8) } else { 6 + rng.below(23) };
        let alpha: &[u8] = b"KKRRDPMMCCSAAGG";
        let prot: String = (0..len).map(|_| *rng.pick(alpha) as char).collect();
        let (cl, re, ct) = *rng.pick(enzymes);
        let mc = rng.below(3) as u8;
        let min_len = 1 + rng.below(3);
        let max_len = 5 + rng.below(26);
        let ez = enzyme(cl, re, ct, mc, min_len, max_len, semi);
        let b = prot.as_bytes();
        let first = b[0] as char;
        let last = b[b.len() - 1] as char;
        let mut vars: VarMods = Vec::new();
        let nv = 1 + rng.below(3);
        for _ in 0..nv {
            let k: String = match rng.below(12) {
                0..=3 => (*rng.pick(b"MCSKAD") as char).to_string(),
                4 => "[".into(),
                5 => "]".into(),
                6 => "^".into(),
                7 => "$".into(),
                8 => format!("[{}", first),
                9 => format!("]{}", last),
                10 => format!("^{}", *rng.pick(b"MCKGA") as char),
                _ => format!("${}", *rng.pick(b"KRD") as char),
            };
            if vars.iter().any(|(k2, _)| *k2 == k) {
                continue;
            }
            let mut ms = vec![mass(rng)];
            if rng.chance(1, 5) {
                ms.push(mass(rng));
            }
            vars.push((k, ms));
        }
        // static mods that cannot overlap: residue keys (distinct letters) and at most one terminal marker
        let mut statics: StaticMods = Vec::new();
        if rng.chance(1, 2) {
            statics.push(((*rng.pick(b"CMKS") as char).to_string(), mass(rng)));
        }
        if rng.chance(1, 3) {
            statics.push((rng.pick(&["^", "$", "[", "]"]).to_string(), mass(rng)));
        }
        let max = *rng.pick(&[1usize, 2, 2, 3]);
        if emit_digest(rng, emit, "dig:random", &ez, &prot, max, &vars, &statics) {
            done += 1;
        }
    }
}

// ------------------------------------------------------------------------------ several proteins sharing peptides

fn write_enzyme(o: &mut Out, e: &EnzymeBuilder) {
    opt_tok(o, e.missed_cleavages);
    opt_tok(o, e.min_len);
    opt_tok(o, e.max_len);
    match &e.cleave_at {
        None => { o.n(0); }
        Some(c) => { o.n(1).s(c); }
    }
    opt_tok(o, e.restrict.map(|c| c as u32));
    opt_tok(o, e.c_terminal.map(|b| b as u8));
    opt_tok(o, e.semi_enzymatic.map(|b| b as u8));
}

fn req_multi(e: &EnzymeBuilder, prots: &[String], max: usize, vars: &VarMods, statics: &StaticMods) -> String {
    let mut o = Out::new();
    o.raw("dbmulti");
    write_enzyme(&mut o, e);
    o.n(prots.len());
    for p in prots {
        o.s(p);
    }
    o.n(max);
    write_mods(&mut o, vars, statics);
    o.finish()
}

fn emit_multi(emit: &mut dyn FnMut(Case), tag: &'static str, e: &EnzymeBuilder, prots: &[String], mut max: usize,
              vars: &VarMods, statics: &StaticMods) -> bool {
    if prots.is_empty() || prots.iter().any(|p| p.is_empty()) {
        return false;
    }
    for (i, (k, _)) in vars.iter().enumerate() {
        if vars[..i].iter().any(|(k2, _)| k2 == k) {
            return false;
        }
    }
    let worst = prots.iter().map(|p| shape(2, p, vars, statics).cands).max().unwrap_or(0);
    while max > 1 && binom_sum(worst, max) > 120 {
        max -= 1;
    }
    if binom_sum(worst, max.max(1)) > 120 {
        return false;
    }
    // the digests with their positions (real code; used for the distribution tags only)
    let (e2, p2) = (e.clone(), prots.to_vec());
    let digests: Vec<Digest> = match std::panic::catch_unwind(move || {
        let ep: EnzymeParameters = e2.into();
        p2.iter().enumerate().flat_map(|(i, p)| ep.digest(p, Arc::from(format!("P{}", i)))).collect::<Vec<_>>()
    }) {
        Ok(d) => d,
        Err(_) => return false,
    };
    if digests.is_empty() {
        // no digest at all: the empty database (group_digests is guarded; it used to panic)
        emit(Case::new(req_multi(e, prots, max, vars, statics)).tag(tag).tag("multi:no-digest-empty-database").nontrivial(false));
        return true;
    }
    let mut keyed: Vec<(Position, String)> = digests.iter().map(|d| (d.position, d.sequence.clone())).collect();
    keyed.sort();
    keyed.dedup();
    let two_pos = keyed.iter().any(|(p, s)| keyed.iter().any(|(p2, s2)| s == s2 && p != p2));
    let boundary = keyed.windows(2).any(|w| w[0].0 != w[1].0 && w[0].1 == w[1].1);
    let nboundary = keyed.windows(2).filter(|w| w[0].0 != w[1].0 && w[0].1 == w[1].1).count();
    let prot_keys = vars.iter().any(|(k, _)| k.starts_with('[') || k.starts_with(']'))
        || statics.iter().any(|(k, _)| k.starts_with('[') || k.starts_with(']'));
    emit(Case::new(req_multi(e, prots, max, vars, statics))
        .tag(tag)
        .tag_if(two_pos, "multi:same-peptide-at-two-positions")
        .tag_if(boundary, "multi:same-peptide-adjacent-across-position-blocks")
        .tag_if(nboundary >= 2, "multi:two-block-boundaries-hit")
        .tag_if(prot_keys, "multi:protein-terminal-keys")
        .tag_if(e.missed_cleavages.unwrap_or(0) > 0, "multi:missed-cleavages")
        .nontrivial(two_pos && prot_keys));
    true
}

fn gen_multi(rng: &mut Rng, tier: Tier, emit: &mut dyn FnMut(Case)) {
    let e: StaticMods = vec![];
    let ps = |v: &[&str]| -> Vec<String> { v.iter().map(|s| s.to_string()).collect() };
    let term_vars = vm(&[("[", &[42.010565]), ("]", &[-17.026548])]);
    // directed: the shared peptide S = MCSK sits last in one position block and first in the next one of
    // group_digests' sort (position, sequence): other peptides of the earlier block start with A, of the later with Y/W
    for mc in [0u8, 1] {
        let tr = enzyme("KR", None, true, mc, 1, 40, false);
        for (vars, statics) in [
            (term_vars.clone(), e.clone()),
            (vm(&[("[M", &[1.0]), ("]K", &[2.0]), ("M", &[15.9949])]), sm(&[("C", 57.021465)])),
            (vm(&[("^", &[4.0]), ("M", &[15.9949])]), sm(&[("[", 42.010565)])),
            (vm(&[("$", &[4.0])]), sm(&[("]", 1.0), ("C", 57.021465)])),
        ] {
            // N-terminal | C-terminal
            emit_multi(emit, "multi:directed", &tr, &ps(&["MCSKYAGKWWG", "AAGKYSRMCSK"]), 2, &vars, &statics);
            emit_multi(emit, "multi:directed", &tr, &ps(&["AAGKYSRMCSK", "MCSKYAGKWWG", "ACCKWGGR"]), 2, &vars, &statics);
            // C-terminal | full
            emit_multi(emit, "multi:directed", &tr, &ps(&["AAGKYSRMCSK", "MCSK", "AGKACK"]), 2, &vars, &statics);
            // full | internal
            emit_multi(emit, "multi:directed", &tr, &ps(&["MCSK", "AAGKMCSKYYG", "AGKYCKAG"]), 2, &vars, &statics);
            // N-terminal | C-terminal | full | internal: all four
            emit_multi(emit, "multi:directed", &tr, &ps(&["MCSKYAGKWWG", "AAGKYSRMCSK", "MCSK", "AAGKMCSKYYG"]), 2, &vars, &statics);
            // alphabetically extreme shared peptides
            emit_multi(emit, "multi:directed", &tr, &ps(&["AAAAKYYGKWW", "AAAAK", "ACKAAAAK", "ACKAAAAKYYR"]), 2, &vars, &statics);
            emit_multi(emit, "multi:directed", &tr, &ps(&["YYYYKAAGKAC", "YYYYK", "ACKYYYYK", "ACKYYYYKAAR"]), 2, &vars, &statics);
            emit_multi(emit, "multi:directed", &tr, &ps(&["WWWWKAAGK", "AGKWWWWK", "AGKWWWWKAGK"]), 2, &vars, &statics);
            // not adjacent (control): another peptide sits between the two occurrences in the sort
            emit_multi(emit, "multi:directed", &tr, &ps(&["MCSKYAGKWWG", "YAGKYSRMCSK", "AAAKGG", "GGKAAA"]), 2, &vars, &statics);
        }
    }
    // no protein yields a peptide (length window 30..40): the empty database
    emit_multi(emit, "multi:directed", &enzyme("KR", None, true, 0, 30, 40, false), &ps(&["MCSKYAGK", "AAGK"]), 2, &term_vars, &e);
    emit_multi(emit, "multi:directed", &enzyme("KR", Some('P'), true, 1, 30, 40, true), &ps(&["MK"]), 1, &term_vars, &e);
    // N-terminal cleavage (the peptide starts with D)
    emit_multi(emit, "multi:directed", &enzyme("D", None, false, 0, 1, 40, false), &ps(&["DMCSDYAG", "AAGDYSDMCS", "DMCS"]), 2, &term_vars, &e);

    let n = if tier == Tier::Quick { 400 } else { 15000 };
    let low: &[u8] = b"AAC";
    let high: &[u8] = b"YWV";
    let mid: &[u8] = b"MSGTCA";
    let mut done = 0;
    let mut attempts = 0;
    while done < n && attempts < 20 * n {
        attempts += 1;
        let block = |rng: &mut Rng, first: &[u8], close: bool| -> String {
            let len = 1 + rng.below(4);
            let mut v: Vec<u8> = vec![*rng.pick(first)];
            for _ in 1..len {
                v.push(*rng.pick(mid));
            }
            if close {
                v.push(*rng.pick(b"KKR"));
            }
            String::from_utf8(v).unwrap()
        };
        // the shared peptide: sometimes itself alphabetically extreme
        let s_first: &[u8] = match rng.below(4) { 0 => low, 1 => high, _ => b"MS" };
        let shared = block(rng, s_first, true);
        let shared2 = block(rng, b"MSG", true);
        let k = 2 + rng.below(4);
        let mut prots: Vec<String> = Vec::new();
        for _ in 0..k {
            // fillers of one protein come from one side of the alphabet or from anywhere
            let side = |rng: &mut Rng| -> &'static [u8] { match rng.below(3) { 0 => b"AAC", 1 => b"YWV", _ => b"ACGMSTVWY" } };
            let mut p = String::new();
            match rng.below(8) {
                0 | 1 => { p.push_str(&shared); let a = side(rng); p.push_str(&block(rng, a, true)); let b = side(rng); let cl = rng.chance(1, 2); p.push_str(&block(rng, b, cl)); }
                2 | 3 => { let a = side(rng); p.push_str(&block(rng, a, true)); let b = side(rng); p.push_str(&block(rng, b, true)); p.push_str(&shared); }
                4 => { p.push_str(&shared); }
                5 | 6 => { let a = side(rng); p.push_str(&block(rng, a, true)); p.push_str(&shared); let b = side(rng); let cl = rng.chance(1, 2); p.push_str(&block(rng, b, cl)); }
                _ => { let a = side(rng); p.push_str(&block(rng, a, true)); let b = side(rng); let cl = rng.chance(1, 2); p.push_str(&block(rng, b, cl)); }
            }
            if rng.chance(1, 4) {
                // a second shared peptide, in front or behind
                if rng.chance(1, 2) { p = format!("{}{}", shared2, p); } else if p.ends_with('K') || p.ends_with('R') { p.push_str(&shared2); }
            }
            prots.push(p);
        }
        let mc = if rng.chance(1, 4) { 1 } else { 0 };
        let ez = if rng.chance(1, 10) { enzyme("K", None, true, mc, 1, 40, false) } else { enzyme("KR", None, true, mc, 1 + rng.below(2), 40, false) };
        let sb = shared.as_bytes();
        let mut vars: VarMods = Vec::new();
        let nv = 1 + rng.below(3);
        for j in 0..nv {
            let k: String = match if j == 0 { rng.below(4) } else { rng.below(10) } {
                0 => "[".into(),
                1 => "]".into(),
                2 => format!("[{}", sb[0] as char),
                3 => format!("]{}", sb[sb.len() - 1] as char),
                4 => "^".into(),
                5 => "$".into(),
                6 => format!("^{}", sb[0] as char),
                _ => (*rng.pick(b"MSCKT") as char).to_string(),
            };
            if vars.iter().any(|(k2, _)| *k2 == k) {
                continue;
            }
            vars.push((k, vec![mass(rng)]));
        }
        let mut statics: StaticMods = Vec::new();
        if rng.chance(1, 3) {
            statics.push(((*rng.pick(b"CMS") as char).to_string(), mass(rng)));
        }
        if rng.chance(1, 3) {
            statics.push((rng.pick(&["[", "]", "^", "$"]).to_string(), mass(rng)));
        }
        let max = *rng.pick(&[1usize, 2, 2]);
        if emit_multi(emit, "multi:random", &ez, &prots, max, &vars, &statics) {
            done += 1;
        }
    }
}

// ------------------------------------------------------------------------------ rejected keys end to end, JSON config

fn gen_rejected(rng: &mut Rng, emit: &mut dyn FnMut(Case)) {
    // keys outside the grammar that a careless byte cast would read as a residue: their masses (7.5, 9.25, 3.25)
    // are offered by no valid key, so any form carrying them shows the key was accepted
    let alikes = ["ō", "Ń", "ŋ", "œ", "Ｍ", "m", "MK", "^ō", "$ŋ", "M\u{301}"];
    for pos in 0..4 {
        for a in alikes {
            emit_apply(emit, "apply:rejected-key", pos, "MCMKS", 2, &vm(&[(a, &[7.5])]), &vec![]);
            emit_apply(emit, "apply:rejected-key", pos, "MCMKS", 2, &vm(&[(a, &[7.5]), ("M", &[15.9949])]), &sm(&[("C", 57.021465)]));
            emit_apply(emit, "apply:rejected-key", pos, "MCMKS", 2, &vm(&[("S", &[79.96633])]), &sm(&[(a, 9.25)]));
            emit_apply(emit, "apply:rejected-key", pos, "MCMKS", 1, &vec![], &sm(&[(a, 9.25), ("K", 3.0)]));
        }
    }
    for a in alikes {
        emit_db(rng, emit, "db:rejected-key", "MCMKS", 2, &vm(&[(a, &[7.5])]), &vec![]);
        emit_db(rng, emit, "db:rejected-key", "MCMKS", 2, &vm(&[(a, &[7.5]), ("M", &[15.9949])]), &sm(&[("C", 57.021465)]));
        emit_db(rng, emit, "db:rejected-key", "MCMKS", 2, &vm(&[("S", &[79.96633])]), &sm(&[(a, 9.25)]));
        emit_db(rng, emit, "db:rejected-key", "MCMKS", 1, &vec![], &sm(&[(a, 9.25), ("K", 3.0)]));
    }
}

type SMember = (String, usize, f32);
type VMember = (String, usize, Vec<f32>);

fn req_json(dup: bool, statics: &[SMember], vars: &[VMember]) -> String {
    let mut o = Out::new();
    o.raw("modjson").b(dup).n(statics.len());
    for (k, kind, m) in statics {
        o.s(k).n(*kind).f32(*m);
    }
    o.n(vars.len());
    for (k, kind, ms) in vars {
        o.s(k).n(*kind).n(ms.len());
        for m in ms {
            o.f32(*m);
        }
    }
    o.finish()
}

fn emit_json(emit: &mut dyn FnMut(Case), tag: &'static str, dup: bool, statics: &[SMember], vars: &[VMember]) {
    let keys: Vec<&String> = statics.iter().map(|x| &x.0).collect();
    let vkeys: Vec<&String> = vars.iter().map(|x| &x.0).collect();
    let repeated = |ks: &Vec<&String>| ks.iter().enumerate().any(|(i, k)| ks[..i].contains(k));
    let malformed = dup || statics.iter().any(|x| x.1 != 0) || vars.iter().any(|x| x.1 != 0);
    let invalid = statics.iter().any(|x| !valid_key(&x.0)) || vars.iter().any(|x| !valid_key(&x.0));
    let nonascii = statics.iter().any(|x| !x.0.is_ascii()) || vars.iter().any(|x| !x.0.is_ascii());
    let negzero = statics.iter().any(|x| x.2.to_bits() == 0x8000_0000) || vars.iter().any(|x| x.2.iter().any(|m| m.to_bits() == 0x8000_0000));
    emit(Case::new(req_json(dup, statics, vars))
        .tag(tag)
        .tag_if(repeated(&keys) || repeated(&vkeys), "json:repeated-key")
        .tag_if(malformed, "json:malformed-value")
        .tag_if(invalid, "json:key-outside-grammar")
        .tag_if(nonascii, "json:non-ascii-key")
        .tag_if(negzero, "json:negative-zero")
        .nontrivial(!statics.is_empty() || !vars.is_empty()));
}

fn gen_json(rng: &mut Rng, tier: Tier, emit: &mut dyn FnMut(Case)) {
    let s = |k: &str, kind: usize, m: f32| -> SMember { (k.to_string(), kind, m) };
    let v = |k: &str, kind: usize, ms: &[f32]| -> VMember { (k.to_string(), kind, ms.to_vec()) };
    // directed
    emit_json(emit, "json:directed", false, &[], &[]);
    emit_json(emit, "json:directed", false, &[s("C", 0, 57.021465), s("^", 0, 304.2071), s("K", 0, 304.2071)], &[v("M", 0, &[15.9949]), v("[", 0, &[42.010565]), v("S", 0, &[79.96633, -18.010565])]);
    // the same members in another order
    emit_json(emit, "json:directed", false, &[s("K", 0, 304.2071), s("C", 0, 57.021465), s("^", 0, 304.2071)], &[v("S", 0, &[79.96633, -18.010565]), v("[", 0, &[42.010565]), v("M", 0, &[15.9949])]);
    // a repeated key keeps its last value (both orders)
    emit_json(emit, "json:directed", false, &[s("C", 0, 57.021465), s("C", 0, 58.0)], &[v("M", 0, &[15.9949]), v("M", 0, &[1.0, 2.0])]);
    emit_json(emit, "json:directed", false, &[s("C", 0, 58.0), s("C", 0, 57.021465)], &[v("M", 0, &[1.0, 2.0]), v("M", 0, &[15.9949])]);
    emit_json(emit, "json:directed", false, &[s("C", 0, 58.0), s("K", 0, 1.0), s("C", 0, 57.021465)], &[]);
    // a malformed value fails the document even when a later member repeats the key correctly
    emit_json(emit, "json:directed", false, &[s("C", 3, 58.0), s("C", 0, 57.021465)], &[]);
    emit_json(emit, "json:directed", false, &[s("C", 0, 57.021465), s("C", 1, 58.0)], &[]);
    for kind in 1..=4usize {
        emit_json(emit, "json:directed", false, &[s("C", kind, 57.021465)], &[v("M", 0, &[15.9949])]);
        emit_json(emit, "json:directed", false, &[s("C", 0, 57.021465)], &[v("M", kind, &[15.9949])]);
        emit_json(emit, "json:directed", false, &[s("ō", kind, 57.021465)], &[]);
    }
    emit_json(emit, "json:directed", true, &[s("C", 0, 57.021465)], &[]);
    // negative zero, empty list, list with a repeated mass
    emit_json(emit, "json:directed", false, &[s("C", 0, -0.0), s("K", 0, 0.0)], &[v("M", 0, &[-0.0, 0.0]), v("S", 0, &[]), v("T", 0, &[79.96633, 79.96633])]);
    // keys outside the grammar are dropped, whatever they look like
    for k in ["ō", "Ń", "ŋ", "œ", "Ｍ", "m", "MK", "^Z", "", "^ō", "M\u{301}", "é", " M", "M ", "\"", "\\", "\u{1}"] {
        emit_json(emit, "json:directed", false, &[s(k, 0, 9.25), s("K", 0, 3.0)], &[v(k, 0, &[7.5]), v("M", 0, &[15.9949])]);
        emit_json(emit, "json:directed", false, &[s(k, 0, 9.25)], &[v(k, 0, &[7.5])]);
    }
    // a look-alike next to the real key: must not overwrite it
    emit_json(emit, "json:directed", false, &[s("M", 0, 1.0), s("ō", 0, 9.25)], &[v("C", 0, &[2.0]), v("Ń", 0, &[7.5])]);
    emit_json(emit, "json:directed", false, &[s("ō", 0, 9.25), s("M", 0, 1.0)], &[v("Ń", 0, &[7.5]), v("C", 0, &[2.0])]);

    let n = if tier == Tier::Quick { 400 } else { 20000 };
    let pool: Vec<String> = {
        let mut p: Vec<String> = Vec::new();
        for &r in b"MCKSTA" {
            p.push((r as char).to_string());
            for m in MARKERS {
                p.push(format!("{}{}", m, r as char));
            }
        }
        for m in MARKERS {
            p.push(m.to_string());
        }
        for k in ["ō", "Ń", "ŋ", "œ", "ŧ", "Ｍ", "m", "MK", "^Z", "", "é", "B", "^ō", "\u{14D}\u{41}", "𝐌"] {
            p.push(k.to_string());
        }
        p
    };
    for _ in 0..n {
        let kind = |rng: &mut Rng| -> usize { if rng.chance(1, 25) { 1 + rng.below(4) } else { 0 } };
        let mut statics: Vec<SMember> = Vec::new();
        for _ in 0..rng.below(6) {
            let k = if !statics.is_empty() && rng.chance(1, 5) { statics[rng.below(statics.len())].0.clone() } else { rng.pick(&pool).clone() };
            let m = if rng.chance(1, 20) { -0.0 } else { mass(rng) };
            statics.push((k, kind(rng), m));
        }
        let mut vars: Vec<VMember> = Vec::new();
        for _ in 0..rng.below(5) {
            let k = if !vars.is_empty() && rng.chance(1, 5) { vars[rng.below(vars.len())].0.clone() } else { rng.pick(&pool).clone() };
            let ms: Vec<f32> = (0..rng.below(4)).map(|_| mass(rng)).collect();
            vars.push((k, kind(rng), ms));
        }
        emit_json(emit, "json:random", rng.chance(1, 60), &statics, &vars);
    }
}

pub fn gen(rng: &mut Rng, tier: Tier, emit: &mut dyn FnMut(Case)) {
    gen_modkey(rng, tier, emit);
    gen_directed(emit);
    gen_small_scope(tier, emit);
    gen_random(rng, tier, emit);
    gen_db(rng, tier, emit);
    gen_long(rng, tier, emit);
    gen_digest(rng, tier, emit);
    gen_multi(rng, tier, emit);
    gen_rejected(rng, emit);
    gen_json(rng, tier, emit);
}
