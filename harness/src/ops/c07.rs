//! C07 — decoys mirror their targets one-to-one and never collide with a target
//!
//!   db7 <tag:hex> <generate_decoys> <opt mc> <opt min_len> <opt max_len> <opt cleave:hex> <opt restrict-byte>
//!       <opt c_terminal> <opt semi> <max_variable_mods> <f32 lo> <f32 hi>
//!       <nvar> {<key:hex> <nmass> <f32>*} <nstatic> {<key:hex> <f32>} <fasta text:hex>
//!        -> panic | ok <n> {<entry> <reported:hex>}*n            (entries sorted by their text)
//!           `Builder::make_parameters`, `Fasta::parse(text, tag, generate_decoys)`, `Parameters::build`;
//!           the entries are `IndexedDatabase.peptides`; `reported` is
//!           `peptide.proteins(&db.decoy_tag, db.generate_decoys)`
//!   rev7 <tag:hex> <generate_decoys> <entry>
//!        -> panic | ok <entry of p.reverse()> <p.reverse().reverse() == p> <label p> <label rev>
//!              <p.proteins(tag, gen):hex> <rev.proteins(tag, gen):hex>
//!           a `Peptide` built field by field (all fields are public), then `Peptide::reverse`
//!   <entry> = <seq:hex> <decoy> <missed_cleavages> <f32 mono> <0|1 f32 nterm> <nmods> <f32>* <0|1 f32 cterm>
//!             <nprot> <name:hex>*
use super::Info;
use crate::proto::{Case, Out, Rng, Tier, Toks};
use sage_core::database::{Builder, EnzymeBuilder};
use sage_core::enzyme::Position;
use sage_core::fasta::Fasta;
use sage_core::peptide::Peptide;
use std::sync::Arc;

pub const OPS: &[&str] = &["db7", "rev7"];
pub const INFO: Info = Info {
    rule: "db7: FASTA files of 1..6 (thorough ..12) proteins assembled from a pool of short peptides over \
           {A,G,S,M,C,I,L,P,D} closed by K/R, so that peptides are shared between proteins and between protein \
           positions (N-terminal / internal / C-terminal / whole protein); planted: palindromic peptides (middle \
           part reads the same backwards), peptides of length 1..3 (with min_len 1..3), mirror pairs X / mirror(X) \
           that are both targets (each one's decoy is the other target: both decoys must be dropped), I/L-swapped \
           pairs (equal mass, different sequence), a peptide whose mirror occurs only as a missed-cleavage or \
           semi-enzymatic product; enzymes: trypsin KR!P, KR, K, N-terminal D, '$' (whole protein), non-specific, \
           missed cleavages 0..2, semi-enzymatic, min_len 1..5, max_len 4..30; 0..3 variable modifications \
           (residues of the pool, ^ $ [ ] with and without residue, up to two masses per key) with \
           max_variable_mods 1..3 so that mirrored modification vectors are visible, 0..3 NON-overlapping static \
           modifications, mass window wide or cutting the list; both settings of generate_decoys, in both of them \
           tagged records (tag as prefix; sometimes infix; tags rev_, DECOY_, XX, Rev_, REV_); UNTAGGED accessions that contain the tag in another letter case (PREV_HUMAN, Rev_P1, rev_ under tag REV_ ...: `contains` is case-sensitive) in both modes; accessions containing ';' , ',' ':' '|' ';;' (the reported string prefixes the tag once per name, compared by spec clause protein_names) whose sequences are the mirror \
           image of a target protein, a copy of a target protein, a mixture of shared and own peptides; duplicate \
           accessions; different tags. Larger databases (thorough: up to 60 proteins) exercise the quick-sort \
           regime of par_sort_unstable_by. rev7: peptides of length 0..12 built field by field with random \
           non-zero modification slots, termini, flags, 0..3 proteins; every length 0..8 with a fully distinct \
           modification vector. NOT generated (outside the statement, FIXES.md): FASTA text on which \
           Fasta::parse panics (bare '>' header followed by sequence, sequence before the first header) and inputs \
           with an empty digest list (Parameters::build gives the empty database) - the generator checks with the \
           real digest that at least one digest exists; overlapping static modifications (HashMap order); \
           modification vectors shorter than the sequence (rev7). Non-trivial: db7 = the database holds at least \
           one decoy and one target; rev7 = length >= 4 (something moves). Distinct by request line.",
    serial: false,
};

type VarMods = Vec<(String, Vec<f32>)>;
type StaticMods = Vec<(String, f32)>;

#[derive(Clone)]
struct Enz {
    mc: Option<u8>,
    min_len: Option<usize>,
    max_len: Option<usize>,
    cleave: Option<String>,
    restrict: Option<u8>,
    c_terminal: Option<bool>,
    semi: Option<bool>,
}

#[derive(Clone)]
struct Req {
    tag: String,
    gen: bool,
    enz: Enz,
    max: usize,
    lo: f32,
    hi: f32,
    vars: VarMods,
    statics: StaticMods,
    text: String,
}

fn write_req(r: &Req) -> String {
    let mut o = Out::new();
    o.raw("db7").s(&r.tag).b(r.gen);
    let e = &r.enz;
    match e.mc {
        None => o.n(0),
        Some(x) => o.n(1).n(x),
    };
    match e.min_len {
        None => o.n(0),
        Some(x) => o.n(1).n(x),
    };
    match e.max_len {
        None => o.n(0),
        Some(x) => o.n(1).n(x),
    };
    match &e.cleave {
        None => o.n(0),
        Some(x) => o.n(1).s(x),
    };
    match e.restrict {
        None => o.n(0),
        Some(x) => o.n(1).n(x),
    };
    match e.c_terminal {
        None => o.n(0),
        Some(x) => o.n(1).b(x),
    };
    match e.semi {
        None => o.n(0),
        Some(x) => o.n(1).b(x),
    };
    o.n(r.max).f32(r.lo).f32(r.hi);
    o.n(r.vars.len());
    for (k, ms) in &r.vars {
        o.s(k).n(ms.len());
        for m in ms {
            o.f32(*m);
        }
    }
    o.n(r.statics.len());
    for (k, m) in &r.statics {
        o.s(k).f32(*m);
    }
    o.s(&r.text);
    o.finish()
}

fn read_req(t: &mut Toks) -> Option<Req> {
    let tag = t.string()?;
    let gen = t.bool()?;
    let mc = t.opt(|t| t.usize())?.map(|x| x as u8);
    let min_len = t.opt(|t| t.usize())?;
    let max_len = t.opt(|t| t.usize())?;
    let cleave = t.opt(|t| t.string())?;
    let restrict = t.opt(|t| t.usize())?.map(|x| x as u8);
    let c_terminal = t.opt(|t| t.bool())?;
    let semi = t.opt(|t| t.bool())?;
    let max = t.usize()?;
    let lo = t.f32()?;
    let hi = t.f32()?;
    let vars = t.list(|t| {
        let k = t.string()?;
        let ms = t.list(|t| t.f32())?;
        Some((k, ms))
    })?;
    let statics = t.list(|t| {
        let k = t.string()?;
        let m = t.f32()?;
        Some((k, m))
    })?;
    let text = t.string()?;
    Some(Req { tag, gen, enz: Enz { mc, min_len, max_len, cleave, restrict, c_terminal, semi }, max, lo, hi, vars, statics, text })
}

fn enzyme_builder(e: &Enz) -> EnzymeBuilder {
    EnzymeBuilder {
        missed_cleavages: e.mc,
        min_len: e.min_len,
        max_len: e.max_len,
        cleave_at: e.cleave.clone(),
        restrict: e.restrict.map(|c| c as char),
        c_terminal: e.c_terminal,
        semi_enzymatic: e.semi,
    }
}

/// the real code: `Builder::make_parameters`, `Fasta::parse`, `Parameters::build`
fn run_db(r: &Req) -> (Vec<Peptide>, String, bool) {
    let builder = Builder {
        enzyme: Some(enzyme_builder(&r.enz)),
        peptide_min_mass: Some(r.lo),
        peptide_max_mass: Some(r.hi),
        static_mods: Some(r.statics.iter().cloned().collect()),
        variable_mods: Some(r.vars.iter().cloned().collect()),
        max_variable_mods: Some(r.max),
        decoy_tag: Some(r.tag.clone()),
        generate_decoys: Some(r.gen),
        fasta: Some("none".into()),
        ..Default::default()
    };
    let params = builder.make_parameters();
    let fasta = Fasta::parse(r.text.clone(), params.decoy_tag.clone(), params.generate_decoys);
    let db = params.build(fasta);
    (db.peptides, db.decoy_tag, db.generate_decoys)
}

fn write_entry(o: &mut Out, p: &Peptide) {
    o.bytes(&p.sequence).b(p.decoy).n(p.missed_cleavages).f32(p.monoisotopic);
    match p.nterm {
        None => o.n(0),
        Some(x) => o.n(1).f32(x),
    };
    o.n(p.modifications.len());
    for m in &p.modifications {
        o.f32(*m);
    }
    match p.cterm {
        None => o.n(0),
        Some(x) => o.n(1).f32(x),
    };
    o.n(p.proteins.len());
    for s in &p.proteins {
        o.s(s);
    }
}

fn read_entry(t: &mut Toks) -> Option<Peptide> {
    let sequence = t.bytes()?;
    let decoy = t.bool()?;
    let mc = t.usize()? as u8;
    let mono = t.f32()?;
    let nterm = t.opt(|t| t.f32())?;
    let mods = t.list(|t| t.f32())?;
    let cterm = t.opt(|t| t.f32())?;
    let proteins = t.list(|t| t.string())?;
    Some(Peptide {
        decoy,
        sequence: Arc::from(sequence.into_boxed_slice()),
        modifications: mods,
        nterm,
        cterm,
        monoisotopic: mono,
        missed_cleavages: mc,
        semi_enzymatic: false,
        position: Position::Internal,
        proteins: proteins.into_iter().map(|s| Arc::from(s.as_str())).collect(),
    })
}

pub fn exec(op: &str, t: &mut Toks) -> Option<String> {
    let mut o = Out::new();
    match op {
        "db7" => {
            let r = read_req(t)?;
            let (peps, tag, gen) = run_db(&r);
            let mut recs: Vec<String> = peps
                .iter()
                .map(|p| {
                    let mut e = Out::new();
                    write_entry(&mut e, p);
                    e.s(&p.proteins(&tag, gen));
                    e.finish()
                })
                .collect();
            recs.sort();
            o.raw("ok").n(recs.len());
            for r in &recs {
                o.raw(r);
            }
        }
        "rev7" => {
            let tag = t.string()?;
            let gen = t.bool()?;
            let p = read_entry(t)?;
            let r = p.reverse();
            let rr = r.reverse();
            o.raw("ok");
            write_entry(&mut o, &r);
            o.b(rr == p).n(p.label()).n(r.label());
            o.s(&p.proteins(&tag, gen)).s(&r.proteins(&tag, gen));
        }
        _ => return None,
    }
    Some(o.finish())
}

// ------------------------------------------------------------------------------------------ generator

const BODY: &[u8] = b"AGSMCILPD";

fn rand_body(rng: &mut Rng, lo: usize, span: usize) -> Vec<u8> {
    let len = lo + rng.below(span);
    let alpha: &[u8] = match rng.below(4) {
        0 => b"AG",
        1 => b"ASMC",
        2 => b"IL",
        _ => BODY,
    };
    (0..len).map(|_| *rng.pick(alpha)).collect()
}

fn mirror(s: &[u8]) -> Vec<u8> {
    let mut v = s.to_vec();
    let n = v.len();
    if n > 3 {
        v[1..n - 1].reverse();
    }
    v
}

/// a pool of tryptic-looking peptides (closed by K or R) with the planted shapes
fn peptide_pool(rng: &mut Rng, size: usize) -> Vec<Vec<u8>> {
    let mut pool: Vec<Vec<u8>> = Vec::new();
    while pool.len() < size {
        let close = *rng.pick(b"KKR");
        match rng.below(10) {
            0 => {
                // length 1..3
                let mut p = rand_body(rng, 0, 3);
                p.push(close);
                pool.push(p);
            }
            1 | 2 => {
                // palindromic middle
                let first = *rng.pick(BODY);
                let half = rand_body(rng, 1, 3);
                let mut p = vec![first];
                p.extend(&half);
                if rng.chance(1, 2) {
                    p.push(*rng.pick(BODY));
                }
                p.extend(half.iter().rev());
                p.push(close);
                pool.push(p);
            }
            3 | 4 => {
                // mirror pair: both X and mirror(X) are targets
                let mut p = rand_body(rng, 3, 5);
                p.push(close);
                pool.push(mirror(&p));
                pool.push(p);
            }
            5 => {
                // I/L swapped pair
                let mut p = rand_body(rng, 2, 4);
                let i = rng.below(p.len());
                p[i] = b'I';
                let mut q = p.clone();
                q[i] = b'L';
                p.push(close);
                q.push(close);
                pool.push(p);
                pool.push(q);
            }
            _ => {
                let mut p = rand_body(rng, 2, 9);
                p.push(close);
                pool.push(p);
            }
        }
    }
    pool
}

struct Rec {
    acc: String,
    seq: Vec<u8>,
}

fn render_fasta(rng: &mut Rng, recs: &[Rec]) -> String {
    let mut s = String::new();
    for r in recs {
        s.push('>');
        s.push_str(&r.acc);
        if rng.chance(1, 3) {
            s.push_str(" some description");
        }
        s.push('\n');
        let width = *rng.pick(&[60usize, 7, 1000]);
        for chunk in r.seq.chunks(width) {
            s.push_str(std::str::from_utf8(chunk).unwrap());
            s.push('\n');
        }
        if rng.chance(1, 8) {
            s.push('\n');
        }
    }
    s
}

const MASSES: &[f32] = &[15.9949, 42.010565, 79.96633, 57.021465, 229.16293, 0.984016, 14.01565, 1.0, -17.026548];

fn rand_vars(rng: &mut Rng) -> VarMods {
    let keys = ["M", "S", "C", "K", "A", "I", "^", "$", "[", "]", "^A", "$K", "[M", "]K", "G", "^G"];
    let n = *rng.pick(&[0usize, 1, 1, 2, 2, 3]);
    let mut v: VarMods = Vec::new();
    for _ in 0..n {
        let k = rng.pick(&keys).to_string();
        if v.iter().any(|(k2, _)| *k2 == k) {
            continue;
        }
        let mut ms = vec![*rng.pick(MASSES)];
        if rng.chance(1, 5) {
            ms.push(*rng.pick(MASSES));
        }
        v.push((k, ms));
    }
    v
}

/// structurally non-overlapping static modifications: distinct residues, at most one N-terminal and one
/// C-terminal key (without residue)
fn rand_statics(rng: &mut Rng) -> StaticMods {
    let mut v: StaticMods = Vec::new();
    if rng.chance(1, 2) {
        v.push(("C".into(), 57.021465));
    }
    if rng.chance(1, 5) {
        v.push(("K".into(), 229.16293));
    }
    if rng.chance(1, 6) {
        v.push((rng.pick(&["^", "["]).to_string(), *rng.pick(&[229.16293f32, 42.010565])));
    }
    if rng.chance(1, 8) {
        v.push((rng.pick(&["$", "]"]).to_string(), *rng.pick(&[0.984016f32, 14.01565])));
    }
    v
}

fn rand_enzyme(rng: &mut Rng) -> Enz {
    let min_len = Some(1 + rng.below(5));
    let max_len = Some(4 + rng.below(27));
    let mc = Some(rng.below(3) as u8);
    match rng.below(12) {
        0 => Enz { mc, min_len, max_len, cleave: Some("KR".into()), restrict: None, c_terminal: Some(true), semi: Some(false) },
        1 => Enz { mc, min_len, max_len, cleave: Some("K".into()), restrict: None, c_terminal: Some(true), semi: Some(false) },
        2 => Enz { mc, min_len, max_len, cleave: Some("D".into()), restrict: None, c_terminal: Some(false), semi: Some(false) },
        3 => Enz { mc, min_len, max_len: Some(1000), cleave: Some("$".into()), restrict: None, c_terminal: Some(true), semi: Some(false) },
        4 => Enz { mc: Some(0), min_len: Some(2 + rng.below(3)), max_len: Some(5 + rng.below(2)), cleave: Some("".into()), restrict: None, c_terminal: Some(true), semi: Some(false) },
        5 | 6 => Enz { mc: Some(rng.below(2) as u8), min_len: Some(2 + rng.below(3)), max_len, cleave: Some("KR".into()), restrict: Some(b'P'), c_terminal: Some(true), semi: Some(true) },
        7 => Enz { mc: None, min_len: None, max_len: None, cleave: None, restrict: Some(b'P'), c_terminal: None, semi: None },
        _ => Enz { mc, min_len, max_len, cleave: Some("KR".into()), restrict: Some(b'P'), c_terminal: Some(true), semi: Some(false) },
    }
}

/// an UNTAGGED accession that contains the tag in another letter case (`contains` is case-sensitive:
/// `sp|Q1|PREV_HUMAN` does not carry the tag `rev_`)
fn other_case_acc(rng: &mut Rng, tag: &str, i: usize) -> String {
    let flipped: String = tag
        .chars()
        .map(|c| if c.is_ascii_lowercase() { c.to_ascii_uppercase() } else { c.to_ascii_lowercase() })
        .collect();
    let mixed: String = tag
        .chars()
        .enumerate()
        .map(|(k, c)| if k == 0 { if c.is_ascii_lowercase() { c.to_ascii_uppercase() } else { c.to_ascii_lowercase() } } else { c })
        .collect();
    let v = if rng.chance(1, 2) { flipped } else { mixed };
    if v == tag {
        return format!("P{}", i);
    }
    match rng.below(3) {
        0 => format!("sp|Q0000{}|P{}HUMAN", i, v),
        1 => format!("{}P{}", v, i),
        _ => format!("tr|{}{}", v, i),
    }
}

fn tagged_acc(rng: &mut Rng, tag: &str, base: &str) -> String {
    if rng.chance(1, 6) {
        format!("sp|{}{}", tag, base)
    } else {
        format!("{}{}", tag, base)
    }
}

fn rand_case(rng: &mut Rng, nprot_max: usize, pool_size: usize) -> Req {
    let pool = peptide_pool(rng, pool_size);
    let tag = rng.pick(&["rev_", "rev_", "DECOY_", "XX", "Rev_", "REV_"]).to_string();
    let gen = rng.chance(1, 2);
    let nprot = 1 + rng.below(nprot_max);
    let mut recs: Vec<Rec> = Vec::new();
    for i in 0..nprot {
        let npep = 1 + rng.below(6);
        let mut seq: Vec<u8> = Vec::new();
        if rng.chance(1, 4) {
            seq.push(b'M');
        }
        for _ in 0..npep {
            seq.extend(rng.pick(&pool));
        }
        if rng.chance(1, 3) {
            // a C-terminal peptide that does not end in K/R
            seq.extend(rand_body(rng, 1, 6));
        }
        let acc = if rng.chance(1, 15) && i > 0 {
            recs[rng.below(i)].acc.clone()
        } else if rng.chance(1, 4) {
            other_case_acc(rng, &tag, i + 1)
        } else if rng.chance(1, 6) {
            // separators inside the accession (the reported string joins names with ';')
            let sep = *rng.pick(&[";", ";", ",", ":", "|", ";;"]);
            format!("tr|B{}{}B{}x|BBBB_HUMAN", i + 1, sep, i + 1)
        } else {
            format!("P{}", i + 1)
        };
        recs.push(Rec { acc, seq });
    }
    // tagged records
    let ntag = if rng.chance(if gen { 1 } else { 5 }, 6) { 1 + rng.below(3) } else { 0 };
    let ntargets = recs.len();
    for j in 0..ntag {
        let src = rng.below(ntargets);
        let seq: Vec<u8> = match rng.below(4) {
            0 => recs[src].seq.clone(), // copy of a target protein: every peptide collides
            1 => {
                // whole protein reversed (the classical decoy database)
                let mut s = recs[src].seq.clone();
                s.reverse();
                s
            }
            2 => {
                // peptide-wise mirror image + shared peptides
                let mut s = Vec::new();
                for _ in 0..(1 + rng.below(5)) {
                    let p = rng.pick(&pool);
                    if rng.chance(2, 3) {
                        s.extend(mirror(p));
                    } else {
                        s.extend(p);
                    }
                }
                s
            }
            _ => {
                let mut s = Vec::new();
                for _ in 0..(1 + rng.below(4)) {
                    let mut p = rand_body(rng, 2, 8);
                    p.push(b'K');
                    s.extend(p);
                }
                s
            }
        };
        let base = if rng.chance(1, 2) { recs[src].acc.clone() } else { format!("D{}", j + 1) };
        let acc = tagged_acc(rng, &tag, &base);
        let at = rng.below(recs.len() + 1);
        recs.insert(at, Rec { acc, seq });
    }
    let text = render_fasta(rng, &recs);
    let (lo, hi) = match rng.below(6) {
        0 => (300.0, 900.0),
        1 => (500.0, 5000.0),
        _ => (0.0, 1.0e6),
    };
    Req {
        tag,
        gen,
        enz: rand_enzyme(rng),
        max: 1 + rng.below(3),
        lo,
        hi,
        vars: rand_vars(rng),
        statics: rand_statics(rng),
        text,
    }
}

/// does the real digest produce anything (else `Parameters::build` panics: outside the statement)?
fn has_digest(r: &Req) -> bool {
    let r = r.clone();
    std::panic::catch_unwind(move || {
        let fasta = Fasta::parse(r.text.clone(), r.tag.clone(), r.gen);
        let enzyme = enzyme_builder(&r.enz).into();
        !fasta.digest(&enzyme).is_empty()
    })
    .unwrap_or(false)
}

fn emit_db(emit: &mut dyn FnMut(Case), r: &Req, tag: &'static str) -> bool {
    // no digest at all: the empty database (group_digests is guarded; it used to panic) - kept, as a trivial case
    let nodigest = !has_digest(r);
    let r2 = r.clone();
    let peps = match std::panic::catch_unwind(move || run_db(&r2).0) {
        Ok(p) => p,
        Err(_) => return false,
    };
    if peps.len() > 4000 {
        return false;
    }
    let ndecoy = peps.iter().filter(|p| p.decoy).count();
    let ntarget = peps.len() - ndecoy;
    let modified = peps.iter().any(|p| p.decoy && p.modifications.iter().any(|m| *m != 0.0));
    let shared = peps.iter().any(|p| p.proteins.len() > 1);
    let short = peps.iter().any(|p| p.sequence.len() <= 3);
    if nodigest {
        emit(Case::new(write_req(r)).tag(tag).tag("db:no-digest-empty-database").nontrivial(false));
        return true;
    }
    emit(Case::new(write_req(r))
        .tag(tag)
        .tag(if r.gen { "db:generate_decoys" } else { "db:fasta_decoys" })
        .tag_if(r.gen && ndecoy < ntarget, "db:some-decoy-dropped")
        .tag_if(r.gen && ndecoy == ntarget && ntarget > 0, "db:every-target-has-decoy")
        .tag_if(modified, "db:modified-decoy")
        .tag_if(shared, "db:shared-peptide")
        .tag_if(short, "db:length<=3")
        .tag_if(r.enz.semi == Some(true), "db:semi")
        .tag_if(peps.len() > 20, "db:>20-entries(quicksort)")
        .tag_if(peps.is_empty(), "db:empty")
        .nontrivial(ndecoy > 0 && ntarget > 0));
    true
}

fn tryptic() -> Enz {
    Enz { mc: Some(0), min_len: Some(1), max_len: Some(50), cleave: Some("KR".into()), restrict: Some(b'P'), c_terminal: Some(true), semi: Some(false) }
}

fn directed(emit: &mut dyn FnMut(Case)) {
    let base = |text: &str, gen: bool| Req {
        tag: "rev_".into(),
        gen,
        enz: tryptic(),
        max: 2,
        lo: 0.0,
        hi: 1.0e6,
        vars: vec![],
        statics: vec![],
        text: text.into(),
    };
    let vm = |v: &[(&str, &[f32])]| -> VarMods { v.iter().map(|(k, m)| (k.to_string(), m.to_vec())).collect() };
    // palindrome, length <= 3, mirror pair, ordinary peptide
    let t1 = ">P1\nAGSGKAKGKAMSGKAGSMKMSGAKPEPTIDEK\n>P2\nAGSMKPEPTIDEKAK\nILMK\n>P3\nLIMKAK\n";
    for gen in [true, false] {
        emit_db(emit, &base(t1, gen), "db:directed");
        let mut r = base(t1, gen);
        r.vars = vm(&[("M", &[15.9949]), ("S", &[79.96633]), ("^", &[42.010565])]);
        r.statics = vec![("K".into(), 229.16293)];
        emit_db(emit, &r, "db:directed");
        let mut r = base(t1, gen);
        r.enz.mc = Some(2);
        r.vars = vm(&[("[", &[42.010565]), ("]", &[0.984016]), ("$", &[1.0])]);
        emit_db(emit, &r, "db:directed");
        let mut r = base(t1, gen);
        r.enz.semi = Some(true);
        r.enz.min_len = Some(3);
        r.enz.mc = Some(1);
        emit_db(emit, &r, "db:directed");
    }
    // FASTA decoys: reversed protein, copy of a target, decoy sharing a peptide with a target, tag as infix
    let t2 = ">P1\nAGSMKPEPTIDEKAAK\n>rev_P1\nKAAKEDITPEPKMSGA\n>rev_P2\nAGSMKLLLK\n>sp|rev_P3\nCCCK\n>P3 x\nCCCKAMSGK\n";
    for gen in [true, false] {
        emit_db(emit, &base(t2, gen), "db:directed");
        let mut r = base(t2, gen);
        r.vars = vm(&[("M", &[15.9949])]);
        emit_db(emit, &r, "db:directed");
        let mut r = base(t2, gen);
        r.tag = "P".into(); // every accession carries the tag
        emit_db(emit, &r, "db:directed");
        let mut r = base(t2, gen);
        r.tag = "DECOY_".into(); // nothing carries the tag
        emit_db(emit, &r, "db:directed");
    }
    // a peptide whose mirror image only exists as a missed-cleavage product
    let t3 = ">P1\nASGKMK\n>P2\nAGSKMK\n>P3\nAKGSMK\n";
    for mc in [0u8, 1, 2] {
        let mut r = base(t3, true);
        r.enz.mc = Some(mc);
        emit_db(emit, &r, "db:directed");
    }
    // the same form from two positions with different protein-terminal eligibility
    let t4 = ">P1\nAGSMKAGSMK\n>P2\nCCKAGSMK\n";
    let mut r = base(t4, true);
    r.vars = vm(&[("[", &[42.010565]), ("M", &[15.9949])]);
    emit_db(emit, &r, "db:directed");
    // whole protein as one peptide; non-specific
    let mut r = base(">P1\nAGSMCILK\n>P2\nALICMSGK\n>P3\nAGK\n", true);
    r.enz.cleave = Some("$".into());
    emit_db(emit, &r, "db:directed");
    let mut r = base(">P1\nAGSMCA\n", true);
    r.enz.cleave = Some("".into());
    r.enz.min_len = Some(2);
    r.enz.max_len = Some(5);
    emit_db(emit, &r, "db:directed");
    // no digest at all -> the empty database: one short protein below min_len; only tagged records while decoys
    // are generated; an empty FASTA; a FASTA of blank lines
    for gen in [true, false] {
        emit_db(emit, &base(">P1\nAAK\n", gen), "db:directed");
        emit_db(emit, &base("", gen), "db:directed");
        emit_db(emit, &base("\n\n", gen), "db:directed");
    }
    emit_db(emit, &base(">rev_D1\nCCCCCKGGGGGK\n>sp|rev_D2\nAAAAAKSSSSSK\n", true), "db:directed");
    // accessions that contain the tag in another letter case are NOT tagged (case-sensitive `contains`);
    // accessions containing ';' and other separators: the tag is prefixed once per NAME
    let t5 = ">sp|Q00001|PREV_HUMAN\nAGSMKPEPTIDEK\n>Rev_P2\nCCSMK\n>REV_P3 d\nLLGGK\n>rev_P4\nKEDITPEPKMSGA\n>tr|B00002;B00003|BBBB_HUMAN\nAGSMKAASSK\n>a;b;;c\nMMGGK\n>x,y:z\nAGSMK\n";
    for gen in [true, false] {
        for tag in ["rev_", "REV_", "Rev_", "prev_", "b0000"] {
            let mut r = base(t5, gen);
            r.tag = tag.into();
            emit_db(emit, &r, "db:directed-case-and-separators");
        }
    }
    // invalid residues are skipped; mass window cutting the list
    let mut r = base(">P1\nAGSMKABZKXXKAGGSK\n", true);
    r.lo = 300.0;
    r.hi = 400.0;
    emit_db(emit, &r, "db:directed");
}

fn rev_request(tag: &str, gen: bool, p: &Peptide) -> String {
    let mut o = Out::new();
    o.raw("rev7").s(tag).b(gen);
    write_entry(&mut o, p);
    o.finish()
}

fn gen_rev(rng: &mut Rng, tier: Tier, emit: &mut dyn FnMut(Case)) {
    let mk = |seq: Vec<u8>, mods: Vec<f32>, nterm: Option<f32>, cterm: Option<f32>, decoy: bool, prots: Vec<String>| Peptide {
        decoy,
        sequence: Arc::from(seq.into_boxed_slice()),
        modifications: mods,
        nterm,
        cterm,
        monoisotopic: 1234.5,
        missed_cleavages: 1,
        semi_enzymatic: false,
        position: Position::Internal,
        proteins: prots.into_iter().map(|s| Arc::from(s.as_str())).collect(),
    };
    // every length 0..=8 with all-distinct residues and modification slots
    for len in 0..=8usize {
        for decoy in [false, true] {
            let seq: Vec<u8> = b"ACDEFGHI"[..len].to_vec();
            let mods: Vec<f32> = (0..len).map(|i| (i + 1) as f32).collect();
            let p = mk(seq, mods, Some(42.0), Some(-1.0), decoy, vec!["P1".into(), "P2".into()]);
            for gen in [false, true] {
                emit(Case::new(rev_request("rev_", gen, &p)).tag("rev:every-length").nontrivial(len >= 4));
            }
        }
    }
    let n = if tier == Tier::Quick { 400 } else { 20000 };
    for _ in 0..n {
        let len = rng.below(13);
        let seq: Vec<u8> = (0..len).map(|_| *rng.pick(b"ACDEFGHIKLMNPQRSTVWY")).collect();
        let mods: Vec<f32> = (0..len)
            .map(|_| if rng.chance(1, 3) { *rng.pick(MASSES) } else { 0.0 })
            .collect();
        let nterm = if rng.chance(1, 3) { Some(*rng.pick(MASSES)) } else { None };
        let cterm = if rng.chance(1, 4) { Some(*rng.pick(MASSES)) } else { None };
        let np = rng.below(4);
        let prots: Vec<String> = (0..np)
            .map(|i| format!("{}{}", rng.pick(&["P", "sp|Q", "rev_X", "tr|B;C", "a;;b", "REV_", ";"]), i))
            .collect();
        let mut p = mk(seq, mods, nterm, cterm, rng.chance(1, 2), prots);
        p.monoisotopic = (rng.unit() * 3000.0) as f32;
        p.missed_cleavages = rng.below(4) as u8;
        let tag = rng.pick(&["rev_", "DECOY_", ""]).to_string();
        emit(Case::new(rev_request(&tag, rng.chance(1, 2), &p))
            .tag("rev:random")
            .tag_if(p.modifications.iter().any(|m| *m != 0.0), "rev:modified")
            .nontrivial(len >= 4));
    }
}

pub fn gen(rng: &mut Rng, tier: Tier, emit: &mut dyn FnMut(Case)) {
    directed(emit);
    gen_rev(rng, tier, emit);
    let (n, nprot_max) = if tier == Tier::Quick { (250, 6) } else { (6000, 12) };
    let mut done = 0;
    let mut attempts = 0;
    while done < n && attempts < 10 * n {
        attempts += 1;
        let pool_size = 3 + rng.below(10);
        let r = rand_case(rng, nprot_max, pool_size);
        if emit_db(emit, &r, "db:random") {
            done += 1;
        }
    }
    // larger databases: the quick-sort regime of par_sort_unstable_by, many cross-position duplicates
    let nbig = if tier == Tier::Quick { 6 } else { 150 };
    let mut done = 0;
    let mut attempts = 0;
    while done < nbig && attempts < 10 * nbig {
        attempts += 1;
        let pool_size = 6 + rng.below(8);
        let r = rand_case(rng, if tier == Tier::Quick { 25 } else { 60 }, pool_size);
        if emit_db(emit, &r, "db:large") {
            done += 1;
        }
    }
}
