//! C09 — `IonSeries` and the fragment generation of `Parameters::build_from_peptides`
//!
//!   pep      := h:seq [n u32 mod…] opt(u32 nterm) opt(u32 cterm) u32(monoisotopic)
//!   ions pep                                   ->  [k u32…]×6 (a b c x y z, iteration order) | panic
//!   ionidx [k kind…] min_ion_index bucket [p pep…]  ->  [f (pep_ix u32 mz)…] sorted by (pep_ix, mz bits) | panic
//!   ionconst tol_micro_da                      ->  u32×4: -(C+O), NH3, (C+O-NH3+N+H), -NH3 as IonSeries uses them
//!   ionidxb style opt(min_ion_index) opt([k kind…]) opt(bucket_size) [t threads…] [p pep…]
//!         ->  min_ion_index [k kind…] bucket_size [f (pep_ix u32 mz)…] (t-1)×(1 | 0 [f (pep_ix u32 mz)…]) order_ok  | panic
//!       order_ok = in every pool: buckets ascending in m/z, each bucket sorted by peptide index, min_value[i] = its bucket's least m/z
//!       the settings are written as JSON text (style: 0 absent keys, 1 explicit null, 2 pretty-printed / other key
//!       order), deserialised into sage_cli::input::Input exactly as sage-cli does, Input::build() (-> Builder::
//!       make_parameters), then Parameters::build_from_peptides inside an explicit rayon pool of each listed size
//!
//! kind: 0=a 1=b 2=c 3=x 4=y 5=z.  Peptide values are constructed directly (all fields are public).
use super::Info;
use crate::proto::{Case, Out, Rng, Tier, Toks};
use sage_core::database::{EnzymeBuilder, Parameters};
use sage_core::enzyme::Position;
use sage_core::ion_series::{IonSeries, Kind};
use sage_core::mass::{monoisotopic, H2O, VALID_AA};
use sage_core::peptide::Peptide;
use std::sync::Arc;

pub const OPS: &[&str] = &["ions", "ionidx", "ionconst", "ionidxb"];
pub const INFO: Info = Info {
    rule: "ions: synthetic Peptide values (fields set directly): directed cases (PEPTIDE, the all-zero-mass peptide that \
           reads the constants out of IonSeries::new, one modification at every position, terminal modifications, \
           lengths 0/1/2, modification vectors one shorter / two shorter / longer than the sequence), small-scope \
           enumeration (every sequence up to length 3 (quick) / 4 (thorough) over {A,G,K,W,'a'} x modification \
           placement x nterm), and random peptides of length 0..60 over VALID_AA (plus 3% arbitrary bytes), \
           modifications from a list of real deltas or random (0.5% of slots: magnitudes 1e-30..2e30, sums stay finite), optional termini, monoisotopic consistent \
           (H2O + residues + mods + termini, computed in f32) in 85% of cases and arbitrary otherwise. \
           ionidx: 0..6 such peptides, every subset of the six kinds (thorough: all 64 exhaustively x min_ion_index 0..4; \
           quick: random subsets, incl. duplicates and the empty set), min_ion_index 0..n+1 incl. the boundaries n-2, n-1, n, \
           bucket sizes 1,2,3,7,8192. non-trivial = ions: sequence length >= 2 (at least one ion per series); \
           ionidx: at least one fragment stored and at least one ion filtered out or several kinds; distinct by request line. \
           ionidxb (JSON text -> sage_cli Input -> Input::build/Builder::make_parameters -> build_from_peptides inside explicit \
           rayon pools): peptide counts 1..40 (thorough 1..120) and 97/200/257/300 x pool sizes 1,2,3,4,5,7,8,16 in one request \
           (all residues of count mod pool size / slab size), every peptide with its own fragment fingerprint (distinct first- \
           and last-residue modification, varying length and sequence) so that an ion filed under another peptide index is visible; \
           min_ion_index absent / null / 0 / 1 / 2 / 3 / n-2 / n-1 / n / larger, ion_kinds absent / b,y / all six / singletons / \
           random subsets, bucket_size absent / 0 / 1 / 3 / 5 / 8192 / 10000, three JSON renderings; \
           isomer lists: 2..1200 peptides made of groups of 2..6 positional isomers (one sequence, k identical modifications on \
           different eligible residues, all members given the same monoisotopic), N-terminal +42 vs +42 on the first / last residue vs \
           C-terminal (equal mass), exact duplicates of one peptide, fingerprinted fillers; in the database's order (mass, sequence, \
           modifications, nterm) and shuffled; pools 1, 2, 4, 16; non-trivial = at least one fragment stored",
    serial: false,
};

const KINDS: [Kind; 6] = [Kind::A, Kind::B, Kind::C, Kind::X, Kind::Y, Kind::Z];

#[derive(Clone)]
struct Pep {
    seq: Vec<u8>,
    mods: Vec<f32>,
    nterm: Option<f32>,
    cterm: Option<f32>,
    mono: f32,
}

impl Pep {
    fn consistent_mass(seq: &[u8], mods: &[f32], nterm: Option<f32>, cterm: Option<f32>) -> f32 {
        let mut m = H2O;
        for (i, &r) in seq.iter().enumerate() {
            m += monoisotopic(r) + mods.get(i).copied().unwrap_or(0.0);
        }
        m + nterm.unwrap_or_default() + cterm.unwrap_or_default()
    }
    fn write(&self, o: &mut Out) {
        o.bytes(&self.seq).n(self.mods.len());
        for &m in &self.mods {
            o.f32(m);
        }
        for t in [self.nterm, self.cterm] {
            match t {
                None => {
                    o.n(0);
                }
                Some(x) => {
                    o.n(1).f32(x);
                }
            }
        }
        o.f32(self.mono);
    }
    fn read(t: &mut Toks) -> Option<Pep> {
        let seq = t.bytes()?;
        let mods = t.list(|t| t.f32())?;
        let nterm = t.opt(|t| t.f32())?;
        let cterm = t.opt(|t| t.f32())?;
        let mono = t.f32()?;
        Some(Pep { seq, mods, nterm, cterm, mono })
    }
    fn peptide(&self) -> Peptide {
        Peptide {
            decoy: false,
            sequence: Arc::from(self.seq.clone().into_boxed_slice()),
            modifications: self.mods.clone(),
            nterm: self.nterm,
            cterm: self.cterm,
            monoisotopic: self.mono,
            missed_cleavages: 0,
            semi_enzymatic: false,
            position: Position::Internal,
            proteins: vec![Arc::from("P1")],
        }
    }
}

fn req_ions(p: &Pep) -> String {
    let mut o = Out::new();
    o.raw("ions");
    p.write(&mut o);
    o.finish()
}

fn req_idx(kinds: &[usize], min_idx: usize, bucket: usize, peps: &[Pep]) -> String {
    let mut o = Out::new();
    o.raw("ionidx").n(kinds.len());
    for &k in kinds {
        o.n(k);
    }
    o.n(min_idx).n(bucket).n(peps.len());
    for p in peps {
        p.write(&mut o);
    }
    o.finish()
}

const MOD_DELTAS: [f32; 9] =
    [15.9949, 57.0215, 79.9663, -17.0265, 229.1629, 0.984, 42.0106, -18.0106, 114.0429];

fn simple(seq: &[u8], mods: Vec<f32>, nterm: Option<f32>, cterm: Option<f32>) -> Pep {
    let mono = Pep::consistent_mass(seq, &mods, nterm, cterm);
    Pep { seq: seq.to_vec(), mods, nterm, cterm, mono }
}

fn random_pep(rng: &mut Rng, maxlen: usize) -> Pep {
    let len = match rng.below(20) {
        0 => 0,
        1 => 1,
        2 => 2,
        _ => 3 + rng.below(maxlen.saturating_sub(2).max(1)),
    };
    let seq: Vec<u8> = (0..len)
        .map(|_| if rng.chance(3, 100) { rng.below(256) as u8 } else { *rng.pick(&VALID_AA) })
        .collect();
    let mod_rate = *rng.pick(&[0u32, 5, 20, 100]);
    let mlen = match rng.below(25) {
        0 => len.saturating_sub(1),
        1 => len.saturating_sub(2),
        2 => len + 1 + rng.below(3),
        _ => len,
    };
    let mods: Vec<f32> = (0..mlen)
        .map(|_| {
            if rng.chance(1, 200) {
                // large magnitudes (sums stay finite): cancellation / absorption in the cumulative sums
                (*rng.pick(&[1.0e30f32, -1.0e30, 3.0e7, -3.0e7, 1.0e-30])) * (1.0 + rng.unit() as f32)
            } else if rng.chance(mod_rate, 100) {
                if rng.chance(1, 5) {
                    (rng.unit() * 600.0 - 200.0) as f32
                } else {
                    *rng.pick(&MOD_DELTAS)
                }
            } else {
                0.0
            }
        })
        .collect();
    let term = |rng: &mut Rng| -> Option<f32> {
        match rng.below(8) {
            0 => Some(*rng.pick(&MOD_DELTAS)),
            1 => Some((rng.unit() * 400.0 - 100.0) as f32),
            2 => Some(if rng.chance(1, 2) { 0.0 } else { -0.0 }),
            _ => None,
        }
    };
    let nterm = term(rng);
    let cterm = term(rng);
    let mono = if rng.chance(85, 100) {
        Pep::consistent_mass(&seq, &mods, nterm, cterm)
    } else {
        match rng.below(3) {
            0 => 0.0,
            1 => (rng.unit() * 5000.0) as f32,
            _ => (rng.unit() * 2.0e6 - 1.0e6) as f32,
        }
    };
    Pep { seq, mods, nterm, cterm, mono }
}

fn emit_ions(p: &Pep, tag: &'static str, emit: &mut dyn FnMut(Case)) {
    let n = p.seq.len();
    let consistent = p.mono.to_bits() == Pep::consistent_mass(&p.seq, &p.mods, p.nterm, p.cterm).to_bits();
    emit(Case::new(req_ions(p))
        .tag(tag)
        .tag_if(n == 0, "ions:empty-sequence")
        .tag_if(n == 1, "ions:length-1")
        .tag_if(n >= 1 && p.mods.len() + 1 < n, "ions:mods-too-short")
        .tag_if(n >= 1 && p.mods.len() + 1 == n, "ions:mods-one-short")
        .tag_if(p.mods.len() > n, "ions:mods-longer")
        .tag_if(p.mods.iter().any(|&m| m != 0.0), "ions:modified")
        .tag_if(p.mods.iter().any(|&m| m.abs() > 1.0e6), "ions:large-magnitude")
        .tag_if(p.nterm.is_some(), "ions:nterm")
        .tag_if(p.cterm.is_some(), "ions:cterm")
        .tag_if(!consistent, "ions:mass-inconsistent")
        .tag_if(p.seq.iter().any(|b| !b.is_ascii_uppercase()), "ions:non-letter")
        .nontrivial(n >= 2 && p.mods.len() + 1 >= n));
}

fn emit_idx(kinds: &[usize], min_idx: usize, bucket: usize, peps: &[Pep], tag: &'static str, emit: &mut dyn FnMut(Case)) {
    let panics = !kinds.is_empty() && peps.iter().any(|p| p.seq.is_empty() || p.mods.len() + 1 < p.seq.len());
    let stored: usize = peps.iter().map(|p| kinds.len() * p.seq.len().saturating_sub(1).saturating_sub(min_idx)).sum();
    let dropped: usize = peps.iter().map(|p| kinds.len() * p.seq.len().saturating_sub(1).min(min_idx)).sum();
    let mut ks = kinds.to_vec();
    ks.sort();
    ks.dedup();
    emit(Case::new(req_idx(kinds, min_idx, bucket, peps))
        .tag(tag)
        .tag_if(kinds.is_empty(), "ionidx:no-kinds")
        .tag_if(ks.len() != kinds.len(), "ionidx:duplicate-kind")
        .tag_if(peps.is_empty(), "ionidx:no-peptides")
        .tag_if(panics, "ionidx:panicking-peptide")
        .tag_if(min_idx == 0, "ionidx:min0")
        .tag_if(!panics && stored == 0 && dropped > 0, "ionidx:all-filtered")
        .tag_if(!panics && peps.iter().any(|p| p.seq.len() >= 2 && p.seq.len() - 2 == min_idx), "ionidx:one-ion-left")
        .tag_if(ks.iter().any(|&k| k < 3) && ks.iter().any(|&k| k >= 3), "ionidx:n-and-c-kinds")
        .nontrivial(!panics && stored > 0 && (dropped > 0 || ks.len() > 1)));
}


// ------------------------------------------------------------------------------------------------ ionidxb

/// peptide `i` of a fingerprinted family: length, sequence and two modification values depend on `i`,
/// so b/a/c ions (contain residue 0) and y/x/z ions (contain the last residue) differ between any two members
fn fp_pep(i: usize) -> Pep {
    let len = 6 + (i % 7);
    let seq: Vec<u8> = (0..len).map(|j| VALID_AA[(i * 7 + j * (1 + i % 5) + j * j) % 20]).collect();
    let mut mods = vec![0.0f32; len];
    mods[0] = 0.5 * (i as f32 + 1.0);
    mods[len - 1] = 0.25 * (i as f32 + 1.0);
    let nterm = if i % 9 == 4 { Some(42.0106) } else { None };
    let cterm = if i % 11 == 7 { Some(-0.984) } else { None };
    simple(&seq, mods, nterm, cterm)
}

fn req_idxb(style: usize, min_idx: Option<usize>, kinds: &Option<Vec<usize>>, bucket: Option<usize>, threads: &[usize], peps: &[Pep]) -> String {
    let mut o = Out::new();
    o.raw("ionidxb").n(style);
    match min_idx {
        None => { o.n(0); }
        Some(m) => { o.n(1).n(m); }
    }
    match kinds {
        None => { o.n(0); }
        Some(ks) => {
            o.n(1).n(ks.len());
            for &k in ks { o.n(k); }
        }
    }
    match bucket {
        None => { o.n(0); }
        Some(b) => { o.n(1).n(b); }
    }
    o.n(threads.len());
    for &t in threads { o.n(t); }
    o.n(peps.len());
    for p in peps { p.write(&mut o); }
    o.finish()
}

fn emit_idxb(style: usize, min_idx: Option<usize>, kinds: &Option<Vec<usize>>, bucket: Option<usize>, threads: &[usize],
             peps: &[Pep], tag: &'static str, emit: &mut dyn FnMut(Case)) {
    let nk = kinds.as_ref().map(|k| k.len()).unwrap_or(2);
    let m = min_idx.unwrap_or(2);
    let panics = nk > 0 && peps.iter().any(|p| p.seq.is_empty() || p.mods.len() + 1 < p.seq.len());
    let stored: usize = peps.iter().map(|p| nk * p.seq.len().saturating_sub(1).saturating_sub(m)).sum();
    emit(Case::new(req_idxb(style, min_idx, kinds, bucket, threads, peps))
        .tag(tag)
        .tag_if(min_idx.is_none(), "ionidxb:min-absent")
        .tag_if(min_idx == Some(0), "ionidxb:min0")
        .tag_if(min_idx == Some(1), "ionidxb:min1")
        .tag_if(kinds.is_none(), "ionidxb:kinds-absent")
        .tag_if(bucket.is_none(), "ionidxb:bucket-absent")
        .tag_if(threads.len() > 1, "ionidxb:several-pools")
        .tag_if(threads.iter().any(|&t| t > 1 && peps.len() % t != 0 && peps.len() > t), "ionidxb:count-not-divisible-by-pool")
        .tag_if(peps.len() >= 90, "ionidxb:hundreds-of-peptides")
        .tag_if(peps.windows(2).any(|w| w[0].seq == w[1].seq && w[0].mono.to_bits() == w[1].mono.to_bits() && w[0].mods != w[1].mods),
                "ionidxb:adjacent-same-sequence-same-mass-different-mods")
        .tag_if(peps.windows(2).any(|w| w[0].seq == w[1].seq && w[0].mods == w[1].mods && w[0].nterm == w[1].nterm && w[0].cterm == w[1].cterm),
                "ionidxb:adjacent-exact-duplicates")
        .tag_if(panics, "ionidxb:panicking-peptide")
        .nontrivial(!panics && stored > 0));
}

const KIND_NAMES: [&str; 6] = ["a", "b", "c", "x", "y", "z"];

/// the configuration file text sage-cli would read (only `database` varies)
fn config_json(style: usize, min_idx: Option<usize>, kinds: &Option<Vec<usize>>, bucket: Option<usize>) -> Option<String> {
    let mut fields: Vec<(String, String)> = Vec::new();
    let explicit_null = style % 3 == 1;
    match min_idx {
        Some(m) => fields.push(("min_ion_index".into(), m.to_string())),
        None if explicit_null => fields.push(("min_ion_index".into(), "null".into())),
        None => {}
    }
    match kinds {
        Some(ks) => {
            let names: Option<Vec<String>> = ks.iter().map(|&k| KIND_NAMES.get(k).map(|s| format!("\"{}\"", s))).collect();
            fields.push(("ion_kinds".into(), format!("[{}]", names?.join(","))));
        }
        None if explicit_null => fields.push(("ion_kinds".into(), "null".into())),
        None => {}
    }
    match bucket {
        Some(b) => fields.push(("bucket_size".into(), b.to_string())),
        None if explicit_null => fields.push(("bucket_size".into(), "null".into())),
        None => {}
    }
    fields.push(("fasta".into(), "\"unused.fasta\"".into()));
    fields.push(("generate_decoys".into(), "false".into()));
    let pretty = style % 3 == 2;
    if pretty {
        fields.reverse();
    }
    let (nl, ind, sp) = if pretty { ("\n", "    ", " ") } else { ("", "", "") };
    let db = fields.iter().map(|(k, v)| format!("{ind}{ind}\"{k}\":{sp}{v}")).collect::<Vec<_>>().join(&format!(",{nl}"));
    Some(format!(
        "{{{nl}{ind}\"database\":{sp}{{{nl}{db}{nl}{ind}}},{nl}{ind}\"precursor_tol\":{sp}{{\"ppm\":{sp}[-10.0,{sp}10.0]}},{nl}{ind}\"fragment_tol\":{sp}{{\"ppm\":{sp}[-10.0,{sp}10.0]}},{nl}{ind}\"mzml_paths\":{sp}[\"unused.mzML\"]{nl}}}"
    ))
}


/// a group of positional isomers: one sequence, `k` identical modifications of mass `delta` on different
/// eligible residues (every k-subset of the positions holding `site`), all given the SAME `monoisotopic`
/// (the first member's; the others' own f32 sums differ from it by at most an ulp) — sequence + mass does
/// not identify a member, only the modification vector does
fn isomer_group(seq: &[u8], site: u8, k: usize, delta: f32, max: usize) -> Vec<Pep> {
    let pos: Vec<usize> = (0..seq.len()).filter(|&i| seq[i] == site).collect();
    let mut out: Vec<Pep> = Vec::new();
    for mask in 0u32..(1u32 << pos.len()) {
        if mask.count_ones() as usize != k {
            continue;
        }
        let mut mods = vec![0.0f32; seq.len()];
        for (b, &p) in pos.iter().enumerate() {
            if (mask >> b) & 1 == 1 {
                mods[p] = delta;
            }
        }
        out.push(simple(seq, mods, None, None));
        if out.len() == max {
            break;
        }
    }
    if let Some(m) = out.first().map(|p| p.mono) {
        for p in out.iter_mut() {
            p.mono = m;
        }
    }
    out
}

/// N-terminal +42 versus +42 on the first residue (equal total mass), plus exact duplicates of one
/// unmodified peptide (which legitimately share every ion)
fn terminal_vs_residue(seq: &[u8], delta: f32) -> Vec<Pep> {
    let n = seq.len();
    let a = simple(seq, vec![0.0; n], Some(delta), None);
    let mut m = vec![0.0f32; n];
    m[0] = delta;
    let mut b = simple(seq, m, None, None);
    b.mono = a.mono;
    let mut m2 = vec![0.0f32; n];
    m2[n - 1] = delta;
    let mut c = simple(seq, m2, None, None);
    c.mono = a.mono;
    let mut d = simple(seq, vec![0.0; n], None, Some(delta));
    d.mono = a.mono;
    vec![a, b, c, d]
}

/// `Parameters::reorder_peptides` order: monoisotopic (total_cmp), then `initial_sort`
/// (sequence, modifications, nterm)
fn db_order(peps: &mut Vec<Pep>) {
    peps.sort_by(|a, b| {
        a.mono
            .total_cmp(&b.mono)
            .then_with(|| a.seq.cmp(&b.seq))
            .then_with(|| a.mods.partial_cmp(&b.mods).unwrap_or(std::cmp::Ordering::Equal))
            .then_with(|| a.nterm.partial_cmp(&b.nterm).unwrap_or(std::cmp::Ordering::Equal))
    });
}

const ISO_SEQS: [&[u8]; 8] = [b"MAMK", b"MAM", b"AMSMMTMK", b"SPEPSTYSK", b"MMMMK", b"GSAMPLEMK", b"TSTYSSTK", b"KMAKMAK"];

/// a peptide list of `n` entries made of isomer groups (2..6 members), terminal-vs-residue variants,
/// duplicates and fingerprinted fillers
fn isomer_list(rng: &mut Rng, n: usize) -> (Vec<Pep>, usize) {
    let mut peps: Vec<Pep> = Vec::new();
    let mut groups = 0usize;
    let mut filler = rng.below(40);
    while peps.len() < n {
        let room = n - peps.len();
        let mut g: Vec<Pep> = match rng.below(8) {
            0 => terminal_vs_residue(*rng.pick(&ISO_SEQS), 42.0106),
            1 => {
                // exact duplicates of the same (possibly modified) peptide
                let p = fp_pep(rng.below(60));
                vec![p.clone(), p.clone(), p]
            }
            2 => {
                filler += 1;
                vec![fp_pep(filler)]
            }
            _ => {
                // lengthen the base sequence so that different groups have different masses
                let base = *rng.pick(&ISO_SEQS);
                let mut seq: Vec<u8> = base.to_vec();
                for _ in 0..rng.below(4) {
                    seq.insert(rng.below(seq.len()), *rng.pick(&[b'A', b'G', b'L', b'V', b'E']));
                }
                let (site, delta) = if seq.iter().filter(|&&c| c == b'M').count() >= 2 {
                    (b'M', 15.9949f32)
                } else if seq.iter().filter(|&&c| c == b'S').count() >= 2 {
                    (b'S', 79.9663f32)
                } else {
                    (b'K', 42.0106f32)
                };
                let sites = seq.iter().filter(|&&c| c == site).count();
                let k = 1 + rng.below(sites.saturating_sub(1).max(1).min(2));
                isomer_group(&seq, site, k, delta, 2 + rng.below(5))
            }
        };
        g.truncate(room);
        if g.len() >= 2 {
            groups += 1;
        }
        peps.extend(g);
    }
    (peps, groups)
}

fn gen_isomers(rng: &mut Rng, tier: Tier, emit: &mut dyn FnMut(Case)) {
    let quick = tier == Tier::Quick;
    // directed: two Met, one oxidation (M[+16]AMK / MAM[+16]K); phospho-isomers; every 2-subset of 4 Met
    let two = isomer_group(b"MAMK", b'M', 1, 15.9949, 6);
    emit_idxb(0, Some(0), &Some(vec![1, 4]), None, &[1], &two, "ionidxb:isomers-directed", emit);
    emit_idxb(0, None, &None, None, &[1, 2, 4, 16], &two, "ionidxb:isomers-directed", emit);
    emit_idxb(0, Some(1), &Some(vec![0, 1, 2, 3, 4, 5]), None, &[1, 4], &isomer_group(b"TSTYSSTK", b'S', 2, 79.9663, 6), "ionidxb:isomers-directed", emit);
    emit_idxb(0, Some(0), &Some(vec![1, 4]), None, &[1, 2], &isomer_group(b"MMMMK", b'M', 2, 15.9949, 6), "ionidxb:isomers-directed", emit);
    emit_idxb(0, Some(0), &Some(vec![1, 4]), None, &[1, 16], &terminal_vs_residue(b"KMAKMAK", 42.0106), "ionidxb:isomers-directed", emit);
    let dup = fp_pep(3);
    emit_idxb(0, Some(0), &Some(vec![1, 4]), None, &[1, 4], &[dup.clone(), dup.clone(), dup], "ionidxb:isomers-directed", emit);
    // lists of 2..1200 peptides, in database order and shuffled, pools 1, 2, 4, 16
    let sizes: &[usize] = if quick { &[2, 3, 4, 5, 6, 8, 13, 21, 40, 64, 100, 300, 1200] } else { &[2, 3, 4, 5, 6, 7, 8, 9, 13, 21, 40, 64, 100, 150, 300, 600, 1000, 1200] };
    let reps = if quick { 2 } else { 12 };
    let min_cycle: [Option<usize>; 4] = [Some(0), None, Some(1), Some(2)];
    let kind_cycle: [Option<Vec<usize>>; 4] = [Some(vec![1, 4]), None, Some(vec![0, 1, 2, 3, 4, 5]), Some(vec![4, 1])];
    let mut c = 0usize;
    for &n in sizes {
        for _ in 0..(if n >= 600 { 1 } else { reps }) {
            let (mut peps, groups) = isomer_list(rng, n);
            db_order(&mut peps);
            let pools: &[usize] = if n >= 600 { &[1, 4] } else { &[1, 2, 4, 16] };
            let tag: &'static str = if groups > 0 { "ionidxb:isomers-db-order" } else { "ionidxb:isomers-none" };
            emit_idxb(c % 3, min_cycle[c % 4], &kind_cycle[(c / 2) % 4], None, pools, &peps, tag, emit);
            rng.shuffle(&mut peps);
            emit_idxb(0, min_cycle[(c + 1) % 4], &kind_cycle[c % 4], None, if n >= 600 { &[2, 16] } else { pools }, &peps, "ionidxb:isomers-shuffled", emit);
            c += 1;
        }
    }
}

fn gen_idxb(rng: &mut Rng, tier: Tier, emit: &mut dyn FnMut(Case)) {
    let quick = tier == Tier::Quick;
    let pools = [1usize, 2, 3, 4, 5, 7, 8, 16];
    let min_cycle: [Option<usize>; 6] = [Some(0), None, Some(1), Some(2), Some(3), Some(0)];
    let kind_cycle: [Option<Vec<usize>>; 6] =
        [None, Some(vec![1, 4]), Some(vec![0, 1, 2, 3, 4, 5]), Some(vec![4]), Some(vec![2, 5]), Some(vec![1])];
    // directed: the smallest count that is not a multiple of the pool size with a shorter last slab
    let fam = |n: usize| -> Vec<Pep> { (0..n).map(fp_pep).collect() };
    emit_idxb(0, Some(0), &Some(vec![1, 4]), None, &[1, 4], &fam(11), "ionidxb:directed", emit);
    emit_idxb(0, None, &None, None, &[4, 1], &fam(11), "ionidxb:directed", emit);
    emit_idxb(0, Some(2), &Some(vec![1, 4]), None, &[4], &fam(12), "ionidxb:directed", emit);
    emit_idxb(0, Some(0), &Some(vec![1, 4]), None, &[1], &[simple(b"PEPTIDEK", vec![0.0; 8], None, None)], "ionidxb:directed", emit);
    emit_idxb(1, None, &None, None, &[1], &[simple(b"PEPTIDEK", vec![0.0; 8], None, None)], "ionidxb:directed", emit);
    // pool-size sweep: every peptide count x all pool sizes in one request
    let maxn = if quick { 40 } else { 120 };
    for n in 1..=maxn {
        let c = n % 6;
        emit_idxb(n % 3, min_cycle[c], &kind_cycle[(n / 2) % 6], *rng.pick(&[None, Some(1), Some(8192)]), &pools, &fam(n), "ionidxb:pool-sweep", emit);
        if !quick || n % 2 == 1 {
            emit_idxb(0, Some(0), &Some(vec![1, 4]), None, &pools, &fam(n), "ionidxb:pool-sweep", emit);
        }
    }
    let big: &[usize] = if quick { &[97, 200, 257, 300] } else { &[97, 200, 257, 300, 511, 1000, 1023] };
    for &n in big {
        emit_idxb(0, Some(1), &Some(vec![1, 4]), None, &[1, 3, 4, 7, 16], &fam(n), "ionidxb:pool-sweep", emit);
    }
    // configuration path: min_ion_index / ion_kinds / bucket_size / JSON rendering
    let nb = if quick { 300 } else { 6000 };
    for _ in 0..nb {
        let np = 1 + rng.below(5);
        let off = rng.below(50);
        let mut peps: Vec<Pep> = (0..np).map(|i| fp_pep(off + i)).collect();
        if rng.chance(1, 6) {
            let i = rng.below(np);
            peps[i] = random_pep(rng, 12);
        }
        let n = rng.pick(&peps).seq.len();
        let min_idx = match rng.below(10) {
            0 | 1 => None,
            2 | 3 => Some(0),
            4 => Some(1),
            5 => Some(2),
            6 => Some(3),
            7 => Some((n + rng.below(3)).saturating_sub(2)),
            8 => Some(n + 5),
            _ => Some(rng.below(12)),
        };
        let kinds = match rng.below(6) {
            0 | 1 => None,
            2 => Some(vec![1, 4]),
            3 => Some(vec![rng.below(6)]),
            4 => Some(vec![]),
            _ => {
                let mask = rng.below(64);
                let mut k: Vec<usize> = (0..6).filter(|k| (mask >> k) & 1 == 1).collect();
                rng.shuffle(&mut k);
                Some(k)
            }
        };
        let bucket = *rng.pick(&[None, None, Some(0), Some(1), Some(3), Some(5), Some(8192), Some(10000)]);
        let threads: Vec<usize> = match rng.below(3) {
            0 => vec![1],
            1 => vec![*rng.pick(&pools)],
            _ => vec![2, 1, 3],
        };
        emit_idxb(rng.below(3), min_idx, &kinds, bucket, &threads, &peps, "ionidxb:config", emit);
    }
}

pub fn gen(rng: &mut Rng, tier: Tier, emit: &mut dyn FnMut(Case)) {
    gen_idxb(&mut rng.fork(), tier, emit);
    gen_isomers(&mut rng.fork(), tier, emit);
    let quick = tier == Tier::Quick;
    // ---------------------------------------------------------------- ions: directed
    emit(Case::new("ionconst 100".to_string()).tag("ionconst"));
    // all residue masses 0 (lower-case bytes), no termini, mass 0: the series ARE the constants
    emit_ions(&Pep { seq: b"aa".to_vec(), mods: vec![0.0, 0.0], nterm: None, cterm: None, mono: 0.0 }, "ions:directed", emit);
    for s in [&b""[..], b"A", b"AG", b"PEPTIDE", b"EDITPEP", b"PEPTIDEK", b"LESLIEK", b"ACDEFGHIKLMNPQRSTVWYUO"] {
        let n = s.len();
        emit_ions(&simple(s, vec![0.0; n], None, None), "ions:directed", emit);
        emit_ions(&simple(s, vec![0.0; n], Some(42.0106), None), "ions:directed", emit);
        emit_ions(&simple(s, vec![0.0; n], None, Some(-0.984)), "ions:directed", emit);
        emit_ions(&simple(s, vec![0.0; n], Some(229.1629), Some(17.0265)), "ions:directed", emit);
        // one modification at each position
        for k in 0..n {
            let mut mods = vec![0.0; n];
            mods[k] = 15.9949;
            emit_ions(&simple(s, mods, None, None), "ions:one-mod-at-k", emit);
        }
        // modification vectors of the wrong length
        for ml in [n.saturating_sub(1), n.saturating_sub(2), n + 1] {
            let mods: Vec<f32> = (0..ml).map(|i| if i % 2 == 0 { 57.0215 } else { 0.0 }).collect();
            let mut p = simple(s, mods, None, None);
            p.mono = Pep::consistent_mass(s, &p.mods, None, None);
            emit_ions(&p, "ions:mods-length", emit);
        }
    }
    // ---------------------------------------------------------------- ions: small scope
    let alphabet = [b'A', b'G', b'K', b'W', b'a'];
    let maxl = if quick { 3 } else { 4 };
    for len in 1..=maxl {
        let total = alphabet.len().pow(len as u32);
        for code in 0..total {
            let mut c = code;
            let seq: Vec<u8> = (0..len)
                .map(|_| {
                    let x = alphabet[c % alphabet.len()];
                    c /= alphabet.len();
                    x
                })
                .collect();
            for placement in 0..(1usize << len) {
                let mods: Vec<f32> = (0..len).map(|i| if (placement >> i) & 1 == 1 { 15.9949 } else { 0.0 }).collect();
                for nterm in [None, Some(42.0106f32)] {
                    emit_ions(&simple(&seq, mods.clone(), nterm, None), "ions:small-scope", emit);
                }
            }
        }
    }
    // ---------------------------------------------------------------- ions: random
    let n_rand = if quick { 3000 } else { 150_000 };
    for _ in 0..n_rand {
        let p = random_pep(rng, if quick { 40 } else { 60 });
        emit_ions(&p, "ions:random", emit);
    }

    // ---------------------------------------------------------------- ionidx: directed
    let pepk = simple(b"PEPTIDEK", vec![0.0; 8], None, None);
    let short = simple(b"AG", vec![0.0; 2], None, None);
    let one = simple(b"K", vec![0.0], None, None);
    let modp = simple(b"LESLIEK", vec![0.0, 0.0, 79.9663, 0.0, 0.0, 0.0, 229.1629], Some(229.1629), None);
    for min_idx in 0..=9 {
        emit_idx(&[1, 4], min_idx, 8192, &[pepk.clone(), short.clone(), one.clone(), modp.clone()], "ionidx:directed", emit);
        emit_idx(&[4], min_idx, 2, &[pepk.clone()], "ionidx:directed", emit);
        emit_idx(&[1], min_idx, 3, &[pepk.clone()], "ionidx:directed", emit);
        emit_idx(&[0, 1, 2, 3, 4, 5], min_idx, 7, &[modp.clone(), pepk.clone()], "ionidx:directed", emit);
    }
    emit_idx(&[1, 1, 4], 2, 8192, &[pepk.clone()], "ionidx:directed", emit);
    emit_idx(&[], 0, 8192, &[pepk.clone()], "ionidx:directed", emit);
    emit_idx(&[1, 4], 0, 8192, &[], "ionidx:directed", emit);
    emit_idx(&[1, 4], 2, 8192, &[pepk.clone(), simple(b"", vec![], None, None)], "ionidx:directed", emit);
    emit_idx(&[], 2, 8192, &[simple(b"", vec![], None, None)], "ionidx:directed", emit);
    // two identical peptides: same m/z, different index
    emit_idx(&[1, 4], 1, 1, &[pepk.clone(), pepk.clone(), pepk.clone()], "ionidx:directed", emit);
    // ---------------------------------------------------------------- ionidx: every kind subset
    if !quick {
        for mask in 0..64usize {
            let kinds: Vec<usize> = (0..6).filter(|k| (mask >> k) & 1 == 1).collect();
            for min_idx in 0..=4 {
                let peps: Vec<Pep> = (0..3).map(|_| random_pep(rng, 10)).filter(|p| p.seq.len() >= 1 && p.mods.len() + 1 >= p.seq.len()).collect();
                emit_idx(&kinds, min_idx, *rng.pick(&[1, 2, 3, 7, 8192]), &peps, "ionidx:all-subsets", emit);
            }
        }
    }
    // ---------------------------------------------------------------- ionidx: random
    let n_idx = if quick { 1200 } else { 40_000 };
    for _ in 0..n_idx {
        let mut kinds: Vec<usize> = match rng.below(10) {
            0 => vec![1, 4],
            1 => vec![],
            _ => {
                let mask = rng.below(64);
                (0..6).filter(|k| (mask >> k) & 1 == 1).collect()
            }
        };
        if rng.chance(1, 12) && !kinds.is_empty() {
            let d = *rng.pick(&kinds);
            kinds.push(d);
        }
        rng.shuffle(&mut kinds);
        let np = rng.below(7);
        let allow_bad = rng.chance(1, 15);
        let mut peps = Vec::new();
        while peps.len() < np {
            let p = random_pep(rng, 14);
            if !allow_bad && (p.seq.is_empty() || p.mods.len() + 1 < p.seq.len()) {
                continue;
            }
            peps.push(p);
        }
        let min_idx = match rng.below(4) {
            0 => rng.below(4),
            1 if !peps.is_empty() => {
                // boundary of one of the peptides: n-2, n-1, n
                let n = rng.pick(&peps).seq.len();
                (n + rng.below(3)).saturating_sub(2)
            }
            2 => 2,
            _ => rng.below(18),
        };
        let bucket = *rng.pick(&[1usize, 2, 3, 7, 8192]);
        emit_idx(&kinds, min_idx, bucket, &peps, "ionidx:random", emit);
    }
}

pub fn exec(op: &str, t: &mut Toks) -> Option<String> {
    match op {
        "ions" => {
            let p = Pep::read(t)?;
            if !t.done() {
                return None;
            }
            let pep = p.peptide();
            let mut o = Out::new();
            for kind in KINDS {
                let v: Vec<f32> = IonSeries::new(&pep, kind).map(|ion| ion.monoisotopic_mass).collect();
                o.n(v.len());
                for x in v {
                    o.f32(x);
                }
            }
            Some(o.finish())
        }
        "ionconst" => {
            let _tol = t.usize()?;
            if !t.done() {
                return None;
            }
            // residues of mass 0 (not A..Z), no modifications, no termini, mass 0:
            // the first ion of each series is the start constant itself (x + 0.0 = x)
            let pep = Pep { seq: b"aa".to_vec(), mods: vec![0.0, 0.0], nterm: None, cterm: None, mono: 0.0 }.peptide();
            let mut o = Out::new();
            for kind in [Kind::A, Kind::C, Kind::X, Kind::Z] {
                let v: Vec<f32> = IonSeries::new(&pep, kind).map(|ion| ion.monoisotopic_mass).collect();
                o.f32(*v.first()?);
            }
            Some(o.finish())
        }
        "ionidx" => {
            let kinds = t.list(|t| t.usize())?;
            let min_ion_index = t.usize()?;
            let bucket_size = t.usize()?;
            let peps = t.list(Pep::read)?;
            if !t.done() || bucket_size == 0 {
                return None;
            }
            let ion_kinds: Vec<Kind> = kinds.iter().map(|&k| KINDS.get(k).copied()).collect::<Option<Vec<_>>>()?;
            let params = Parameters {
                bucket_size,
                enzyme: EnzymeBuilder::default(),
                peptide_min_mass: 0.0,
                peptide_max_mass: 1.0e9,
                ion_kinds,
                min_ion_index,
                static_mods: Default::default(),
                variable_mods: Default::default(),
                max_variable_mods: 2,
                decoy_tag: "rev_".into(),
                generate_decoys: false,
                fasta: String::new(),
                prefilter_chunk_size: 0,
                prefilter: false,
                prefilter_low_memory: true,
            };
            let db = params.build_from_peptides(peps.iter().map(|p| p.peptide()).collect());
            let mut frags: Vec<(u32, u32)> = db.fragments.iter().map(|f| (f.peptide_index.0, f.fragment_mz.to_bits())).collect();
            frags.sort();
            let mut o = Out::new();
            o.n(frags.len());
            for (i, m) in frags {
                o.n(i).n(m);
            }
            Some(o.finish())
        }
        "ionidxb" => {
            let style = t.usize()?;
            let min_idx = t.opt(|t| t.usize())?;
            let kinds = t.opt(|t| t.list(|t| t.usize()))?;
            let bucket = t.opt(|t| t.usize())?;
            let threads = t.list(|t| t.usize())?;
            let peps = t.list(Pep::read)?;
            if !t.done() || threads.is_empty() || threads.iter().any(|&n| n == 0 || n > 64) {
                return None;
            }
            let text = config_json(style, min_idx, &kinds, bucket)?;
            // exactly what sage-cli does with the configuration file's text
            let input: sage_cli::input::Input = serde_json::from_str(&text).ok()?;
            let search = input.build().ok()?;
            let params: Parameters = search.database;
            let peptides: Vec<Peptide> = peps.iter().map(|p| p.peptide()).collect();
            let mut o = Out::new();
            o.n(params.min_ion_index).n(params.ion_kinds.len());
            for k in &params.ion_kinds {
                o.n(KINDS.iter().position(|x| x == k)?);
            }
            o.n(params.bucket_size);
            let mut first: Option<Vec<(u32, u32)>> = None;
            let mut order_ok = true;
            for &nt in &threads {
                let pool = rayon::ThreadPoolBuilder::new().num_threads(nt).build().ok()?;
                let (prm, pp) = (params.clone(), peptides.clone());
                let db = pool.install(move || prm.build_from_peptides(pp));
                // layout the lookup relies on (the multiset below is what C09 is about; this is one bit per request)
                let chunks: Vec<&[sage_core::database::Theoretical]> = db.fragments.chunks(db.bucket_size.max(1)).collect();
                order_ok &= db.min_value.len() == chunks.len();
                for (ci, ch) in chunks.iter().enumerate() {
                    let lo = ch.iter().map(|f| f.fragment_mz).fold(f32::INFINITY, f32::min);
                    let hi = ch.iter().map(|f| f.fragment_mz).fold(f32::NEG_INFINITY, f32::max);
                    order_ok &= db.min_value.get(ci).map(|m| m.to_bits() == lo.to_bits() || *m == lo).unwrap_or(false);
                    order_ok &= ch.windows(2).all(|w| w[0].peptide_index <= w[1].peptide_index);
                    if let Some(next) = chunks.get(ci + 1) {
                        let nlo = next.iter().map(|f| f.fragment_mz).fold(f32::INFINITY, f32::min);
                        order_ok &= hi <= nlo;
                    }
                }
                let mut frags: Vec<(u32, u32)> = db.fragments.iter().map(|f| (f.peptide_index.0, f.fragment_mz.to_bits())).collect();
                frags.sort();
                let write = |o: &mut Out, fr: &Vec<(u32, u32)>| {
                    o.n(fr.len());
                    for (i, m) in fr {
                        o.n(*i).n(*m);
                    }
                };
                match &first {
                    None => {
                        write(&mut o, &frags);
                        first = Some(frags);
                    }
                    Some(f) if *f == frags => {
                        o.n(1);
                    }
                    Some(_) => {
                        o.n(0);
                        write(&mut o, &frags);
                    }
                }
            }
            o.b(order_ok);
            Some(o.finish())
        }
        _ => None,
    }
}
