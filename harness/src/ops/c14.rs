//! C14 — posterior error probabilities from kernel density estimates (`sage_core::ml::kde`)
//!   kde [n (u64 score, decoy)…] bins u64(bw_adjust factor) mono [m u64 sweep…]  ->  [m u64 pep…]
//!       Builder::default().monotonic(mono).bins(bins).bw_adjust(|x| x * factor).build(scores, decoys),
//!       then Estimator::posterior_error at every sweep point. The first `bins` sweep points are the
//!       grid points `i as f64 * step + min` (so the reply starts with the implementation's own grid).
//!   psmpep kind u32(lo) u32(hi) [n (decoy rank charge u64 hyperscore u64 delta_next u64 delta_best u32 delta_mass
//!          u32 expmass u32 calcmass u32 isotope_error u32 average_ppm u64 poisson u32 matched_intensity_pct
//!          matched_peaks longest_b longest_y peptide_len missed_cleavages u32 aligned_rt u32 ims
//!          u32 delta_rt_model u32 delta_ims_model)…]
//!       ->  fit(0/1) [n (decoy u32 discriminant_score u32 posterior_error)…]
//!       the real `score_psms(&mut feats, tol)` (kind 0 = Tolerance::Ppm(lo,hi), 1 = Tolerance::Da(lo,hi)) on PSM
//!       features that start, as in `Scorer`, with discriminant_score = 0.0 and posterior_error = 1.0; fit = 0
//!       when `score_psms` returns None (then it has not touched the two fields).
//!   kdeseq [M (model = [n (u64 score, decoy)…] bins u64(bw) mono)…] [S step…]   step = `0 i` (build model i now)
//!          | `1 i u64(score)` (query the estimator last built for model i)   ->  [Q u64 pep…] one per query
//!       all steps run back to back on ONE thread (the request's own): a hidden state shared between
//!       estimators (memo keyed by the score only, cached grid, …) makes an answer depend on earlier steps.
//!   kdepool <kde request>  ->  [5 ([m u64 pep…])] the same estimator built and swept inside rayon pools of
//!       1, 2, 3, 4, 8 threads; the five replies must be bit-identical.
//!   psmpepseq [K (psmpep request without the op name)…]  ->  K psmpep replies, the K calls of `score_psms` made
//!       back to back inside one single-threaded pool.
use super::Info;
use crate::proto::{Case, Out, Rng, Tier, Toks};
use sage_core::mass::Tolerance;
use sage_core::ml::kde::Builder;
use sage_core::ml::linear_discriminant::score_psms;
use sage_core::scoring::Feature;
use std::sync::OnceLock;

pub const OPS: &[&str] = &["kde", "psmpep", "kdeseq", "kdepool", "psmpepseq"];
pub const INFO: Info = Info {
    rule: "score samples with both classes present: overlapping / separated / tight-decoy / 1:1000 imbalance / \
           duplicated (few distinct values) / tiny (2+2) / large common offset; n 4..400 (quick) or ..3000 \
           (thorough); bins in {2,3,7,100,1000}; bw_adjust in {1,2,0.1}; monotonic on/off; sweep = every grid \
           point (as the code computes it) + every midpoint + the neighbouring floats of grid points + random \
           interior points + both end points. Every stream except `zero-variance` has >= 2 distinct scores in \
           each class; every stream except `gap-underflow` has, at every grid point, a sample of some class \
           within 30 bandwidths. Each case runs in a rayon pool of 1..4 threads chosen from the request \
           (perturbs the parallel reduction order). non-trivial = both classes present with >= 2 distinct scores \
           each and bins >= 2. psmpep: synthetic PSM feature tables (a latent quality drives all 20 LDA inputs, every \
           column noisy) through the real score_psms: ordinary overlapping sets; sets with a ladder of outstanding \
           targets far above all decoys (PEP between 1e-300 and 1e-46, where an f32 would already be 0); sets with a \
           target so far out that the PEP is exactly 0 (legitimate -324 floor); sets whose fit fails (a NaN / infinite \
           feature, only targets, only decoys, 1-4 PSMs, identical rows). Stream `degenerate` (kde, outside the \
           precondition, model agreement checked, spec `na` or the zero-variance clause): n = 1, n = 2, a single \
           class, all scores equal, a NaN/+inf/-inf score, bins = 1, bins = 0 (panic), queries outside [min,max] \
           and non-finite queries. kdeseq: 2-4 well-formed estimators built and queried back to back on one thread — chain \
           (estimator k+1's first query is bit-for-bit estimator k's last), interleave (the same score asked of A,B,(C),A,B,…), \
           twin (the same sample fitted twice, another in between, a rebuild in the middle), sweep-then-sweep (control). \
           kdepool: one estimator (100 / 1000 bins) built inside pools of 1,2,3,4,8 threads. psmpepseq: score_psms on \
           tables A,B / A,B,A / C,C in one single-threaded pool. large-class (kde): 33k/3k, 40k/40k, 10k/70k targets/decoys \
           (thorough: also 32768/32769, 100k/20k, …) at 100 bins. psm-ranked: 1-3 ranked PSMs per spectrum (rank, delta_next, \
           delta_best, psm_id, spec_id as the search sets them), half of the tables with every decoy at rank >= 2",
    serial: false,
};

static POOLS: OnceLock<Vec<rayon::ThreadPool>> = OnceLock::new();

fn static_pools(i: usize) -> &'static rayon::ThreadPool {
    &POOLS.get().expect("pools")[i]
}

fn pool(k: usize) -> &'static rayon::ThreadPool {
    let pools = POOLS.get_or_init(|| {
        [1usize, 2, 3, 4, 8].iter().map(|&n| rayon::ThreadPoolBuilder::new().num_threads(n).build().expect("pool")).collect()
    });
    &pools[k % 4]
}

/// the pool with exactly 1, 2, 3, 4 or 8 threads (index 0..5)
fn pool_ix(i: usize) -> &'static rayon::ThreadPool {
    let _ = pool(0);
    static_pools(i)
}

struct KdeCase {
    scores: Vec<f64>,
    decoys: Vec<bool>,
    bins: usize,
    bw: f64,
    mono: bool,
    sweep: Vec<f64>,
}

fn request(c: &KdeCase) -> String {
    let mut o = Out::new();
    o.raw("kde").n(c.scores.len());
    for (s, d) in c.scores.iter().zip(&c.decoys) {
        o.f64(*s).b(*d);
    }
    o.n(c.bins).f64(c.bw).b(c.mono).n(c.sweep.len());
    for s in &c.sweep {
        o.f64(*s);
    }
    o.finish()
}

fn gauss(rng: &mut Rng) -> f64 {
    // Box–Muller
    let u1 = (rng.unit() + 1e-300).min(1.0);
    let u2 = rng.unit();
    (-2.0 * u1.ln()).sqrt() * (2.0 * std::f64::consts::PI * u2).cos()
}

fn min_max(scores: &[f64]) -> (f64, f64) {
    let mut lo = f64::MAX;
    let mut hi = f64::MIN;
    for s in scores {
        lo = lo.min(*s);
        hi = hi.max(*s);
    }
    (lo, hi)
}

fn next_up(x: f64) -> f64 {
    if x.is_nan() || x == f64::INFINITY {
        return x;
    }
    if x == 0.0 {
        return f64::from_bits(1);
    }
    let b = x.to_bits();
    f64::from_bits(if x > 0.0 { b + 1 } else { b - 1 })
}
fn next_down(x: f64) -> f64 {
    -next_up(-x)
}

/// grid points exactly as `Builder::build` computes them
fn grid(scores: &[f64], bins: usize) -> Vec<f64> {
    let (lo, hi) = min_max(scores);
    let step = (hi - lo) / (bins - 1) as f64;
    (0..bins).map(|b| (b as f64 * step) + lo).collect()
}

fn sweep(rng: &mut Rng, scores: &[f64], bins: usize, extra: usize) -> Vec<f64> {
    let (lo, hi) = min_max(scores);
    let g = grid(scores, bins);
    let inside = |x: f64| x >= lo && x <= hi;
    let mut sw = g.clone();
    sw.push(lo);
    sw.push(hi);
    for w in g.windows(2) {
        let m = w[0] + (w[1] - w[0]) / 2.0;
        if inside(m) {
            sw.push(m);
        }
    }
    // floats adjacent to grid points (bin selection / interpolation weight boundaries)
    let stride = (bins / 40).max(1);
    for (i, &x) in g.iter().enumerate() {
        if i % stride == 0 || i + 2 >= bins {
            for y in [next_down(x), next_up(x)] {
                if inside(y) {
                    sw.push(y);
                }
            }
        }
    }
    for _ in 0..extra {
        let x = lo + (hi - lo) * rng.unit();
        if inside(x) {
            sw.push(x);
        }
    }
    // the data points themselves are what the callers ask for
    for _ in 0..extra.min(scores.len()) {
        sw.push(*rng.pick(scores));
    }
    sw
}

fn distinct(xs: &[f64]) -> usize {
    let mut v: Vec<u64> = xs.iter().map(|x| x.to_bits()).collect();
    v.sort();
    v.dedup();
    v.len()
}

fn std_of(xs: &[f64]) -> f64 {
    let m = xs.iter().sum::<f64>() / xs.len() as f64;
    (xs.iter().map(|x| (x - m) * (x - m)).sum::<f64>() / xs.len() as f64).sqrt()
}

/// generator-side precondition of the non-finding streams: at every grid point some sample of some class
/// lies within 30 bandwidths (so the two densities cannot both underflow to 0)
fn dense(c: &KdeCase) -> bool {
    let mut cls: Vec<(Vec<f64>, f64)> = Vec::new();
    for want in [true, false] {
        let mut xs: Vec<f64> =
            c.scores.iter().zip(&c.decoys).filter(|(_, d)| **d == want).map(|(s, _)| *s).collect();
        xs.sort_by(|a, b| a.total_cmp(b));
        let h = std_of(&xs) * (4.0 / 3.0 / xs.len() as f64).powf(0.2) * c.bw;
        cls.push((xs, h));
    }
    grid(&c.scores, c.bins).iter().all(|&g| {
        cls.iter().any(|(xs, h)| {
            let i = xs.partition_point(|x| *x < g);
            let mut d = f64::INFINITY;
            if i < xs.len() {
                d = d.min((xs[i] - g).abs());
            }
            if i > 0 {
                d = d.min((xs[i - 1] - g).abs());
            }
            d <= 30.0 * h
        })
    })
}

fn well_formed(c: &KdeCase) -> bool {
    let d: Vec<f64> = c.scores.iter().zip(&c.decoys).filter(|(_, d)| **d).map(|(s, _)| *s).collect();
    let t: Vec<f64> = c.scores.iter().zip(&c.decoys).filter(|(_, d)| !**d).map(|(s, _)| *s).collect();
    distinct(&d) >= 2 && distinct(&t) >= 2 && c.bins >= 2
}

fn sample(rng: &mut Rng, shape: &str, n: usize) -> (Vec<f64>, Vec<bool>) {
    let mut scores = Vec::new();
    let mut decoys = Vec::new();
    let mut push = |s: f64, d: bool| {
        scores.push(s);
        decoys.push(d);
    };
    match shape {
        "overlapping" => {
            let mu = 0.5 + 2.5 * rng.unit();
            for _ in 0..n {
                if rng.chance(1, 2) {
                    push(gauss(rng), true)
                } else if rng.chance(1, 3) {
                    push(gauss(rng), false) // incorrect targets look like decoys
                } else {
                    push(mu + 1.5 * gauss(rng), false)
                }
            }
        }
        "separated" => {
            let mu = 4.0 + 6.0 * rng.unit();
            for _ in 0..n {
                if rng.chance(1, 2) {
                    push(gauss(rng), true)
                } else {
                    push(mu + gauss(rng), false)
                }
            }
        }
        "tight-decoy" => {
            let sd = *rng.pick(&[0.3, 0.1, 0.03]);
            for _ in 0..n {
                if rng.chance(1, 3) {
                    push(sd * gauss(rng), true)
                } else {
                    push(1.0 + 2.0 * gauss(rng), false)
                }
            }
        }
        "imbalance" => {
            // about one decoy per 1000 targets (or the other way round), at least two of the rare class
            let flip = rng.chance(1, 4);
            let rare = 2 + n / 1000;
            for _ in 0..rare {
                push(gauss(rng), !flip);
            }
            for _ in 0..n.max(1000) {
                push(2.0 + 1.5 * gauss(rng), flip);
            }
        }
        "duplicated" => {
            let levels = 2 + rng.below(6);
            for _ in 0..n {
                let d = rng.chance(1, 2);
                let k = rng.below(levels) as f64 + if d { 0.0 } else { 2.0 };
                push(k * 0.5, d);
            }
        }
        "tiny" => {
            for d in [true, true, false, false] {
                push((rng.range(-8, 8) as f64) * 0.25 + if d { 0.0 } else { 1.0 }, d);
            }
        }
        _ => unreachable!(),
    }
    // make sure both classes are present with two distinct values (rare for small n)
    for d in [true, false] {
        let xs: Vec<f64> = scores.iter().zip(&decoys).filter(|(_, x)| **x == d).map(|(s, _)| *s).collect();
        if distinct(&xs) < 2 {
            let base = if d { 0.0 } else { 2.0 };
            scores.push(base - 0.75);
            decoys.push(d);
            scores.push(base + 0.5);
            decoys.push(d);
        }
    }
    // input order is arbitrary for the callers
    let mut ix: Vec<usize> = (0..scores.len()).collect();
    rng.shuffle(&mut ix);
    (ix.iter().map(|&i| scores[i]).collect(), ix.iter().map(|&i| decoys[i]).collect())
}

fn emit_case(c: KdeCase, shape: &'static str, emit: &mut dyn FnMut(Case)) {
    let wf = well_formed(&c);
    let dn = wf && dense(&c);
    let bins_tag = match c.bins {
        2 => "bins=2",
        3 => "bins=3",
        7 => "bins=7",
        100 => "bins=100",
        1000 => "bins=1000",
        _ => "bins=other",
    };
    emit(Case::new(request(&c))
        .tag(shape)
        .tag(bins_tag)
        .tag(if c.mono { "monotonic" } else { "non-monotonic" })
        .tag_if(c.bw != 1.0, "bw-adjusted")
        .tag_if(!wf, "zero-variance")
        .tag_if(wf && !dn, "gap-underflow")
        .nontrivial(wf));
}

pub fn gen(rng: &mut Rng, tier: Tier, emit: &mut dyn FnMut(Case)) {
    let quick = tier == Tier::Quick;
    let shapes: &[&'static str] = &["overlapping", "separated", "tight-decoy", "imbalance", "duplicated", "tiny"];
    let rounds = if quick { 30 } else { 400 };
    let max_n = if quick { 400 } else { 3000 };
    for round in 0..rounds {
        for &shape in shapes {
            let n = 4 + rng.below(if round % 5 == 0 { max_n } else { 60 });
            let (mut scores, decoys) = sample(rng, shape, n);
            // a common offset makes the grid arithmetic ill-conditioned (|min| >> step)
            let offset = *rng.pick(&[0.0, 0.0, 0.0, -3.0, 100.0, 12345.678]);
            let scale = *rng.pick(&[1.0, 1.0, 1.0, 0.001, 40.0]);
            for s in scores.iter_mut() {
                *s = *s * scale + offset;
            }
            let bins = match rng.below(10) {
                0 => 2,
                1 => 3,
                2 => 7,
                3 | 4 => 1000,
                _ => 100,
            };
            let bins = if shape == "imbalance" && bins == 1000 && quick { 100 } else { bins };
            // the two configurations the callers use, plus the mixed ones
            let (mono, bw) = match rng.below(6) {
                0 | 1 | 2 => (true, 1.0),
                3 => (false, 2.0),
                4 => (false, 0.1),
                _ => (rng.chance(1, 2), *rng.pick(&[1.0, 2.0, 0.1, 0.5])),
            };
            let extra = if quick { 40 } else { 200 };
            let sw = sweep(rng, &scores, bins, extra);
            let mut c = KdeCase { scores, decoys, bins, bw, mono, sweep: sw };
            // keep the ordinary streams inside the precondition: with the envelope off, a grid point farther
            // than ~38 bandwidths from every sample has both densities = 0 (0/0); such cases go to their own
            // stream below
            if !c.mono && !dense(&c) {
                c.mono = true;
            }
            emit_case(c, shape, emit);
        }
    }

    // ---- LARGE classes (a per-class size threshold in the density code: e.g. sub-sampling the kernel sum above
    // 32,768 scores while the normalising constant keeps the full n); 100 bins keep O(n·bins) small
    let large: &[(usize, usize)] = if quick {
        &[(33_000, 3_000), (40_000, 40_000), (10_000, 70_000)]
    } else {
        &[(33_000, 3_000), (40_000, 40_000), (10_000, 70_000), (3_000, 33_000), (32_768, 32_769), (32_769, 500), (100_000, 20_000), (66_000, 66_000)]
    };
    for (k, &(nt, nd)) in large.iter().enumerate() {
        let mut scores = Vec::with_capacity(nt + nd);
        let mut decoys = Vec::with_capacity(nt + nd);
        for _ in 0..nd {
            scores.push(gauss(rng));
            decoys.push(true);
        }
        for _ in 0..nt {
            let s = if rng.chance(1, 3) { gauss(rng) } else { 2.5 + 1.5 * gauss(rng) };
            scores.push(s);
            decoys.push(false);
        }
        let mut ix: Vec<usize> = (0..scores.len()).collect();
        rng.shuffle(&mut ix);
        let scores: Vec<f64> = ix.iter().map(|&i| scores[i]).collect();
        let decoys: Vec<bool> = ix.iter().map(|&i| decoys[i]).collect();
        let sw = sweep(rng, &scores, 100, 20);
        let c = KdeCase { scores, decoys, bins: 100, bw: 1.0, mono: k % 3 != 1, sweep: sw };
        emit_case(c, "large-class", emit);
    }

    // ---- directed: the known defect (a class with zero score variance) — small separate stream
    for k in 0..(if quick { 6 } else { 40 }) {
        let mut scores = vec![1.0, 2.0, 3.0, 4.0];
        let mut decoys = vec![false; 4];
        match k % 3 {
            0 => {
                scores.push(0.5 + k as f64);
                decoys.push(true);
            }
            1 => {
                for _ in 0..3 {
                    scores.push(0.25 * k as f64);
                    decoys.push(true);
                }
            }
            _ => {
                // all targets equal, decoys spread
                scores = vec![2.0; 3];
                decoys = vec![false; 3];
                for j in 0..4 {
                    scores.push(j as f64 * 0.5 + k as f64 * 0.125);
                    decoys.push(true);
                }
            }
        }
        let bins = *rng.pick(&[2usize, 100]);
        let sw = sweep(rng, &scores, bins, 5);
        emit_case(KdeCase { scores, decoys, bins, bw: 1.0, mono: k % 2 == 0, sweep: sw }, "directed-zero-variance", emit);
    }

    // ---- directed: two tight clusters far apart, envelope off: both densities underflow in the gap
    for k in 0..(if quick { 4 } else { 30 }) {
        let mut scores = Vec::new();
        let mut decoys = Vec::new();
        for _ in 0..20 {
            scores.push(0.05 * gauss(rng));
            decoys.push(true);
            scores.push(10.0 + k as f64 + 0.05 * gauss(rng));
            decoys.push(false);
        }
        let bins = 100;
        let sw = sweep(rng, &scores, bins, 10);
        emit_case(KdeCase { scores, decoys, bins, bw: 1.0, mono: k % 2 == 1, sweep: sw }, "directed-gap", emit);
    }

    gen_degenerate(rng, tier, emit);
    gen_psm(rng, tier, emit);
    gen_seq(rng, tier, emit);
}

/// well-formed model for the sequence ops: both classes with >= 2 distinct scores, and (envelope off) dense
fn seq_model(rng: &mut Rng) -> ModelSpec {
    loop {
        let shape = *rng.pick(&["overlapping", "separated", "tight-decoy", "duplicated", "tiny"]);
        let n = 6 + rng.below(50);
        let (scores, decoys) = sample(rng, shape, n);
        let bins = *rng.pick(&[7usize, 100, 100, 1000]);
        let mono = rng.chance(3, 4);
        let bw = *rng.pick(&[1.0, 1.0, 2.0, 0.5]);
        let c = KdeCase { scores, decoys, bins, bw, mono, sweep: vec![] };
        if well_formed(&c) && (c.mono || dense(&c)) {
            return ModelSpec { scores: c.scores, decoys: c.decoys, bins, bw, mono };
        }
    }
}

fn seq_request(models: &[ModelSpec], steps: &[(usize, Option<f64>)]) -> String {
    let mut o = Out::new();
    o.raw("kdeseq").n(models.len());
    for m in models {
        o.n(m.scores.len());
        for (s, d) in m.scores.iter().zip(&m.decoys) {
            o.f64(*s).b(*d);
        }
        o.n(m.bins).f64(m.bw).b(m.mono);
    }
    o.n(steps.len());
    for (i, s) in steps {
        match s {
            None => {
                o.n(0).n(*i);
            }
            Some(x) => {
                o.n(1).n(*i).f64(*x);
            }
        }
    }
    o.finish()
}

/// a few query scores for a model: grid points, data points, random interior points
fn seq_points(rng: &mut Rng, m: &ModelSpec, k: usize) -> Vec<f64> {
    let g = grid(&m.scores, m.bins);
    let (lo, hi) = min_max(&m.scores);
    (0..k)
        .map(|_| match rng.below(3) {
            0 => *rng.pick(&g),
            1 => *rng.pick(&m.scores),
            _ => lo + (hi - lo) * rng.unit(),
        })
        .collect()
}

/// sequences of builds and queries on SEVERAL estimators, back to back on one thread: each answer must be that
/// estimator's own value whatever was built or asked before (hidden shared state, e.g. a memo keyed by the score only)
fn gen_seq(rng: &mut Rng, tier: Tier, emit: &mut dyn FnMut(Case)) {
    let reps = if tier == Tier::Quick { 3 } else { 40 };
    for _ in 0..reps {
        // chain: model k+1's FIRST query is bit-for-bit model k's LAST query
        {
            let m = 2 + rng.below(3);
            let models: Vec<ModelSpec> = (0..m).map(|_| seq_model(rng)).collect();
            let mut steps = Vec::new();
            let mut last: Option<f64> = None;
            for i in 0..m {
                steps.push((i, None));
                if let Some(x) = last {
                    steps.push((i, Some(x)));
                }
                for x in seq_points(rng, &models[i], 4) {
                    steps.push((i, Some(x)));
                    last = Some(x);
                }
            }
            // and back to the first model with the last score
            steps.push((0, last));
            emit(Case::new(seq_request(&models, &steps)).tag("seq-chain"));
        }
        // interleave: the same score asked of A, B, (C), A, B, … ; all estimators built first
        {
            let m = 2 + rng.below(2);
            let models: Vec<ModelSpec> = (0..m).map(|_| seq_model(rng)).collect();
            let mut steps: Vec<(usize, Option<f64>)> = (0..m).map(|i| (i, None)).collect();
            let mut pts = Vec::new();
            for mm in &models {
                pts.extend(seq_points(rng, mm, 3));
            }
            for x in pts {
                for round in 0..2 {
                    for i in 0..m {
                        let _ = round;
                        steps.push((i, Some(x)));
                    }
                }
            }
            emit(Case::new(seq_request(&models, &steps)).tag("seq-interleave"));
        }
        // twin: the same sample fitted twice (two estimators), a different one in between, a rebuild in the middle
        {
            let a = seq_model(rng);
            let b = seq_model(rng);
            let a2 = ModelSpec { scores: a.scores.clone(), decoys: a.decoys.clone(), bins: a.bins, bw: a.bw, mono: a.mono };
            let pts = seq_points(rng, &a, 4);
            let models = vec![a, b, a2];
            let mut steps = vec![(0, None)];
            for &x in &pts {
                steps.push((0, Some(x)));
            }
            steps.push((1, None));
            steps.push((1, Some(*pts.last().unwrap())));
            steps.push((2, None));
            steps.push((2, Some(*pts.last().unwrap())));
            for &x in &pts {
                steps.push((1, Some(x)));
                steps.push((2, Some(x)));
                steps.push((0, Some(x)));
            }
            steps.push((0, None)); // rebuild the first
            for &x in &pts {
                steps.push((0, Some(x)));
            }
            emit(Case::new(seq_request(&models, &steps)).tag("seq-twin"));
        }
        // control: the full list on A, then the full list on B
        {
            let models = vec![seq_model(rng), seq_model(rng)];
            let mut pts = seq_points(rng, &models[0], 4);
            pts.extend(seq_points(rng, &models[1], 4));
            let mut steps = vec![(0, None), (1, None)];
            for i in 0..2 {
                for &x in &pts {
                    steps.push((i, Some(x)));
                }
            }
            emit(Case::new(seq_request(&models, &steps)).tag("seq-sweep-then-sweep"));
        }
    }

    // ---- the same estimator built inside rayon pools of 1, 2, 3, 4, 8 threads: bit-identical answers
    let reps = if tier == Tier::Quick { 6 } else { 60 };
    for k in 0..reps {
        let shape = *rng.pick(&["overlapping", "separated", "tight-decoy"]);
        let n = 40 + rng.below(if tier == Tier::Quick { 200 } else { 1500 });
        let (scores, decoys) = sample(rng, shape, n);
        let bins = if k % 2 == 0 { 1000 } else { 100 };
        let sw = sweep(rng, &scores, bins, 10);
        let mut c = KdeCase { scores, decoys, bins, bw: 1.0, mono: k % 3 != 2, sweep: sw };
        if !well_formed(&c) {
            continue;
        }
        if !c.mono && !dense(&c) {
            c.mono = true;
        }
        let r = request(&c);
        emit(Case::new(format!("kdepool{}", &r[3..])).tag("pool-sizes").tag(if c.mono { "monotonic" } else { "non-monotonic" }));
    }

    // ---- score_psms called several times in one request (same single-threaded pool)
    let reps = if tier == Tier::Quick { 1 } else { 10 };
    for _ in 0..reps {
        let mut set = |rng: &mut Rng, n: usize, ladder: bool| -> Vec<Feature> {
            let mut feats = Vec::new();
            for _ in 0..n {
                if rng.chance(1, 2) {
                    let q = gauss(rng);
                    feats.push(psm(rng, true, q));
                } else {
                    let q = if rng.chance(1, 3) { gauss(rng) } else { 3.0 + gauss(rng) };
                    feats.push(psm(rng, false, q));
                }
            }
            if ladder {
                for i in 0..6 {
                    feats.push(psm(rng, false, 6.0 + 3.0 * i as f64));
                }
            }
            feats
        };
        let (na, nb, nc) = (150 + rng.below(150), 900 + rng.below(300), 80 + rng.below(100));
        let a = set(rng, na, false);
        let b = set(rng, nb, true);
        let c = set(rng, nc, false);
        for (tag, seqs) in [("psmseq-AB", vec![&a, &b]), ("psmseq-ABA", vec![&a, &b, &a]), ("psmseq-CC", vec![&c, &c])] {
            let mut line = format!("psmpepseq {}", seqs.len());
            for fs in seqs {
                let r = psm_request(0, -10.0, 10.0, fs);
                line.push_str(&r["psmpep".len()..]);
            }
            emit(Case::new(line).tag(tag));
        }
    }
}

/// inputs OUTSIDE the property's precondition: every path of `build`/`posterior_error` they reach is mirrored by
/// the model (agreement is checked), the spec answers `na` (or the zero-variance clause)
fn gen_degenerate(rng: &mut Rng, tier: Tier, emit: &mut dyn FnMut(Case)) {
    let reps = if tier == Tier::Quick { 1 } else { 8 };
    let mut put = |scores: Vec<f64>, decoys: Vec<bool>, bins: usize, mono: bool, sweep: Vec<f64>, tag: &'static str| {
        let c = KdeCase { scores, decoys, bins, bw: 1.0, mono, sweep };
        emit(Case::new(request(&c)).tag("degenerate").tag(tag).nontrivial(false));
    };
    for rep in 0..reps {
        let x = (rng.range(-8, 8) as f64) * 0.5 + rep as f64;
        for &mono in &[true, false] {
            // n = 1 (a single class, a single score): pi = 1 or 0, the other class is empty (mean = 0/0)
            for &d in &[true, false] {
                put(vec![x], vec![d], 100, mono, vec![x, x - 1.0, x + 1.0], "n=1");
            }
            // n = 2, one of each: both classes have zero variance
            put(vec![x, x + 1.5], vec![true, false], 100, mono, vec![x, x + 0.75, x + 1.5], "n=2");
            // only decoys / only targets with a proper spread
            for &d in &[true, false] {
                let sc: Vec<f64> = (0..6).map(|i| x + i as f64 * 0.5).collect();
                let sw = sweep(rng, &sc, 7, 3);
                put(sc, vec![d; 6], 7, mono, sw, if d { "only-decoys" } else { "only-targets" });
            }
            // all scores equal (min = max, step = 0, both variances 0)
            put(vec![x; 6], vec![true, false, true, false, false, true], 100, mono, vec![x, x - 1.0, x + 1.0], "all-equal");
            // a non-finite score among ordinary ones (a degenerate discriminant): NaN is skipped by min/max but
            // poisons its class; an infinite one stretches the grid to infinity
            for &bad in &[f64::NAN, f64::INFINITY, f64::NEG_INFINITY] {
                for &cls in &[true, false] {
                    let mut sc = vec![x, x + 1.0, x + 2.0, x + 0.5, x + 1.5, x + 2.5];
                    let mut dc = vec![true, true, true, false, false, false];
                    let at = rng.below(sc.len() + 1);
                    sc.insert(at, bad);
                    dc.insert(at, cls);
                    put(sc, dc, 7, mono, vec![x, x + 1.25, x + 2.5, bad], "non-finite-score");
                }
            }
            // a single bin (step = range/0) and no bin at all (the code panics: `bins - 1` / `last().unwrap()`)
            let sc = vec![x, x + 1.0, x + 2.0, x + 0.5, x + 1.5, x + 2.5];
            let dc = vec![true, true, true, false, false, false];
            put(sc.clone(), dc.clone(), 1, mono, vec![x, x + 1.25, x + 2.5], "bins=1");
            put(sc.clone(), dc.clone(), 0, mono, vec![x, x + 1.25], "bins=0");
            // scores outside the fitted range and non-finite query points on a well-formed estimator
            let mut sw = sweep(rng, &sc, 7, 2);
            sw.extend([x - 3.0, x + 9.0, f64::NAN, f64::INFINITY, f64::NEG_INFINITY, f64::MAX, f64::MIN]);
            put(sc, dc, 7, mono, sw, "query-outside");
        }
    }
}

/// one synthetic PSM: a latent quality `q` (decoys / wrong targets ~ N(0,1), correct targets ~ N(3,1),
/// outstanding targets far above) drives every LDA input, each with its own noise
fn psm(rng: &mut Rng, decoy: bool, q: f64) -> Feature {
    let mut f = super::util::blank_feature();
    let mut nz = |sd: f64| sd * gauss(rng);
    f.label = if decoy { -1 } else { 1 };
    f.rank = 1;
    f.charge = 2 + (nz(1.0).abs() as u8).min(2);
    f.hyperscore = (20.0 + 5.0 * q + nz(3.0)).max(1.0);
    f.delta_next = (2.0 + q + nz(1.0)).max(0.0);
    f.delta_best = nz(0.5).abs();
    f.delta_mass = nz(3.0) as f32;
    f.calcmass = 1200.0 + nz(200.0) as f32;
    f.expmass = f.calcmass * (1.0 + f.delta_mass * 1e-6);
    f.isotope_error = if nz(1.0) > 1.5 { 1.00335 } else { 0.0 };
    f.average_ppm = nz(2.0) as f32;
    f.poisson = -(2.0 + q + nz(1.0)).max(0.05);
    f.matched_intensity_pct = (10.0 + 3.0 * q + nz(2.0)).clamp(0.5, 100.0) as f32;
    f.matched_peaks = (8.0 + 2.0 * q + nz(2.0)).max(1.0).round() as u32;
    f.longest_b = (2.0 + 0.5 * q + nz(1.0)).max(0.0).round() as u32;
    f.longest_y = (3.0 + 0.8 * q + nz(1.0)).max(0.0).round() as u32;
    f.peptide_len = 7 + (nz(6.0).abs() as usize).min(30);
    f.longest_y_pct = f.longest_y as f32 / f.peptide_len as f32;
    f.missed_cleavages = (nz(0.7).abs() as u8).min(2);
    f.aligned_rt = (0.5 + nz(0.2)).clamp(0.0, 1.0) as f32;
    f.rt = f.aligned_rt;
    f.ims = 0.0;
    f.delta_rt_model = (0.1 + nz(0.05).abs() - 0.01 * q).clamp(0.0, 1.0) as f32;
    f.delta_ims_model = 0.0;
    // as `Scorer` initialises them
    f.discriminant_score = 0.0;
    f.posterior_error = 1.0;
    f
}

fn psm_request(kind: usize, lo: f32, hi: f32, feats: &[Feature]) -> String {
    let mut o = Out::new();
    o.raw("psmpep").n(kind).f32(lo).f32(hi).n(feats.len());
    for f in feats {
        o.b(f.label == -1).n(f.rank).n(f.charge).f64(f.hyperscore).f64(f.delta_next).f64(f.delta_best);
        o.f32(f.delta_mass).f32(f.expmass).f32(f.calcmass).f32(f.isotope_error).f32(f.average_ppm).f64(f.poisson);
        o.f32(f.matched_intensity_pct).n(f.matched_peaks).n(f.longest_b).n(f.longest_y).n(f.peptide_len);
        o.n(f.missed_cleavages).f32(f.aligned_rt).f32(f.ims).f32(f.delta_rt_model).f32(f.delta_ims_model);
    }
    o.finish()
}

fn gen_psm(rng: &mut Rng, tier: Tier, emit: &mut dyn FnMut(Case)) {
    let quick = tier == Tier::Quick;
    let rounds = if quick { 10 } else { 120 };
    for round in 0..rounds {
        for &shape in &["psm-overlapping", "psm-outstanding", "psm-floor", "psm-fit-fails"] {
            if shape == "psm-fit-fails" && round % 3 != 0 {
                continue;
            }
            // the outstanding / floor shapes need many ordinary PSMs: a handful of far-out targets must not
            // dominate the target covariance (LDA would turn away from the direction that separates them)
            let far = shape == "psm-outstanding" || shape == "psm-floor";
            let n = if shape == "psm-floor" { 3000 + rng.below(2000) } else if far { 800 + rng.below(1200) } else { 60 + rng.below(if quick { 240 } else { 1500 }) };
            let mut feats = Vec::new();
            for _ in 0..n {
                if rng.chance(1, 2) {
                    { let q = gauss(rng); feats.push(psm(rng, true, q)); }
                } else if rng.chance(1, 3) {
                    { let q = gauss(rng); feats.push(psm(rng, false, q)); }
                } else {
                    { let q = 3.0 + gauss(rng); feats.push(psm(rng, false, q)); }
                }
            }
            match shape {
                "psm-outstanding" => {
                    // a ladder of targets above every decoy: some of them land where the PEP is
                    // between 1e-300 and 1e-46
                    let top = 8.0 + 22.0 * rng.unit();
                    let k = 4 + rng.below(8);
                    for i in 0..k {
                        feats.push(psm(rng, false, 4.0 + (top - 4.0) * (i + 1) as f64 / k as f64));
                    }
                }
                "psm-floor" => {
                    // (ONE target, moderately far, among many ordinary PSMs: several or more extreme ones inflate the
                    // target covariance and LDA turns away from them — the score in decoy bandwidths goes DOWN)
                    { let q = 44.0 + 16.0 * rng.unit(); feats.push(psm(rng, false, q)); }
                }
                "psm-fit-fails" => {
                    let i = rng.below(feats.len());
                    if rng.chance(1, 2) {
                        feats[i].hyperscore = f64::NAN;
                    } else {
                        feats[i].peptide_len = 0; // longest_y / 0
                        feats[i].longest_y = 0;
                    }
                }
                _ => {}
            }
            rng.shuffle(&mut feats);
            let (kind, lo, hi) = *rng.pick(&[(0usize, -50.0f32, 50.0f32), (0, -10.0, 10.0), (1, -0.5, 0.5)]);
            emit(Case::new(psm_request(kind, lo, hi, &feats)).tag(shape));
        }
    }
    // ---- report_psms > 1: several ranked PSMs per spectrum. The PEP model is fitted to ALL reported PSMs, whatever
    // their rank (the driver refits from every reported (score, label) pair)
    let reps = if quick { 4 } else { 40 };
    for rep in 0..reps {
        let low_decoys = rep % 2 == 1; // every decoy at rank >= 2: rank 1 holds targets only
        let spectra = 80 + rng.below(if quick { 200 } else { 900 });
        let mut groups: Vec<Vec<Feature>> = Vec::new();
        for _ in 0..spectra {
            let k = 1 + rng.below(3);
            let mut g = Vec::new();
            let mut q1 = 0.0;
            for r in 0..k {
                let (decoy, q) = if r == 0 {
                    if !low_decoys && rng.chance(1, 3) {
                        (true, gauss(rng))
                    } else if rng.chance(1, 3) {
                        (false, gauss(rng))
                    } else {
                        (false, 3.0 + gauss(rng))
                    }
                } else {
                    // lower ranks are random matches, half of them decoys, never better than rank 1
                    let q = (gauss(rng) - 0.5).min(q1 - 0.1);
                    (rng.chance(1, 2), q)
                };
                if r == 0 {
                    q1 = q;
                }
                let mut f = psm(rng, decoy, q);
                f.rank = r as u32 + 1;
                f.delta_best = ((q1 - q) * 5.0).max(0.0);
                g.push(f);
            }
            // delta_next: distance to the next-ranked candidate
            for r in 0..g.len() {
                let next = if r + 1 < g.len() { g[r + 1].hyperscore } else { 0.0 };
                g[r].delta_next = (g[r].hyperscore - next).max(0.0);
            }
            groups.push(g);
        }
        rng.shuffle(&mut groups);
        let feats: Vec<Feature> = groups.into_iter().flatten().collect();
        let tag = if low_decoys { "psm-ranked-decoys-at-rank>=2" } else { "psm-ranked" };
        let single = psm_request(0, -10.0, 10.0, &feats);
        if rep % 4 >= 2 {
            // the same table twice in one request (psmpepseq), else a single call
            emit(Case::new(format!("psmpepseq 2{}{}", &single["psmpep".len()..], &single["psmpep".len()..])).tag(tag));
        } else {
            emit(Case::new(single).tag(tag));
        }
    }
    // ---- degenerate PSM tables: what `score_psms` does before/instead of fitting the PEP model
    let reps = if quick { 2 } else { 10 };
    for rep in 0..reps {
        for &shape in &["psm-only-targets", "psm-only-decoys", "psm-tiny", "psm-inf-feature", "psm-identical"] {
            let n = match shape {
                "psm-tiny" => 1 + rep % 4,
                _ => 20 + rng.below(60),
            };
            let mut feats = Vec::new();
            for i in 0..n {
                let decoy = match shape {
                    "psm-only-targets" => false,
                    "psm-only-decoys" => true,
                    _ => i % 2 == 0,
                };
                let q = if decoy { gauss(rng) } else { 2.0 + gauss(rng) };
                feats.push(psm(rng, decoy, q));
            }
            if shape == "psm-inf-feature" {
                let i = rng.below(feats.len());
                feats[i].hyperscore = if rep % 2 == 0 { f64::INFINITY } else { 1e308 };
            }
            if shape == "psm-identical" {
                // every PSM of a class has the same features: zero within-class scatter
                let (d0, t0) = (psm(rng, true, 0.0), psm(rng, false, 3.0));
                for f in feats.iter_mut() {
                    *f = if f.label == -1 { d0.clone() } else { t0.clone() };
                }
            }
            emit(Case::new(psm_request(0, -10.0, 10.0, &feats)).tag(shape).nontrivial(false));
        }
    }
}

pub fn exec(op: &str, t: &mut Toks) -> Option<String> {
    match op {
        "kde" => exec_kde(t),
        "psmpep" => {
            let r = exec_psmpep_one(t, None)?;
            if t.done() { Some(r) } else { None }
        }
        "kdeseq" => exec_kdeseq(t),
        "kdepool" => exec_kdepool(t),
        "psmpepseq" => {
            let k = t.usize()?;
            let mut o = Out::new();
            for _ in 0..k {
                // one thread for the whole sequence
                let r = exec_psmpep_one(t, Some(pool_ix(0)))?;
                o.raw(&r);
            }
            if t.done() { Some(o.finish()) } else { None }
        }
        _ => None,
    }
}

fn exec_psmpep_one(t: &mut Toks, fixed: Option<&'static rayon::ThreadPool>) -> Option<String> {
    let kind = t.usize()?;
    let lo = t.f32()?;
    let hi = t.f32()?;
    let mut feats = t.list(|t| {
        let mut f = super::util::blank_feature();
        f.label = if t.bool()? { -1 } else { 1 };
        f.rank = t.usize()? as u32;
        f.charge = t.usize()? as u8;
        f.hyperscore = t.f64()?;
        f.delta_next = t.f64()?;
        f.delta_best = t.f64()?;
        f.delta_mass = t.f32()?;
        f.expmass = t.f32()?;
        f.calcmass = t.f32()?;
        f.isotope_error = t.f32()?;
        f.average_ppm = t.f32()?;
        f.poisson = t.f64()?;
        f.matched_intensity_pct = t.f32()?;
        f.matched_peaks = t.usize()? as u32;
        f.longest_b = t.usize()? as u32;
        f.longest_y = t.usize()? as u32;
        f.peptide_len = t.usize()?;
        f.missed_cleavages = t.usize()? as u8;
        f.aligned_rt = t.f32()?;
        f.rt = f.aligned_rt;
        f.ims = t.f32()?;
        f.delta_rt_model = t.f32()?;
        f.delta_ims_model = t.f32()?;
        f.longest_y_pct = f.longest_y as f32 / f.peptide_len as f32;
        f.discriminant_score = 0.0;
        f.posterior_error = 1.0;
        Some(f)
    })?;
    // ids as the search assigns them: PSMs arrive spectrum by spectrum (a new spectrum starts at each rank-1
    // PSM), every PSM has its own psm_id
    let mut spectrum = 0usize;
    for (i, f) in feats.iter_mut().enumerate() {
        if f.rank <= 1 {
            spectrum += 1;
        }
        f.psm_id = i + 1;
        f.spec_id = format!("controllerType=0 controllerNumber=1 scan={}", spectrum);
        f.scored_candidates = 50 + (spectrum as u32 % 200);
    }
    let tol = if kind == 0 { Tolerance::Ppm(lo, hi) } else { Tolerance::Da(lo, hi) };
    let fit = fixed.unwrap_or_else(|| pool(feats.len())).install(|| score_psms(&mut feats, tol)).is_some();
    let mut o = Out::new();
    o.b(fit).n(feats.len());
    for f in &feats {
        o.b(f.label == -1).f32(f.discriminant_score).f32(f.posterior_error);
    }
    Some(o.finish())
}

fn exec_kde(t: &mut Toks) -> Option<String> {
    let pairs = t.list(|t| Some((t.f64()?, t.bool()?)))?;
    let bins = t.usize()?;
    let bw = t.f64()?;
    let mono = t.bool()?;
    let sweep = t.list(|t| t.f64())?;
    if !t.done() {
        return None;
    }
    let scores: Vec<f64> = pairs.iter().map(|p| p.0).collect();
    let decoys: Vec<bool> = pairs.iter().map(|p| p.1).collect();
    // pool size derived from the request: replays are deterministic, different cases see different
    // reduction trees inside Kde::pdf
    let k = scores.iter().fold(pairs.len() as u64, |h, s| h.wrapping_mul(0x100000001b3) ^ s.to_bits()) as usize;
    let out: Vec<f64> = pool(k >> 7).install(|| {
        let est = Builder::default().monotonic(mono).bins(bins).bw_adjust(move |x| x * bw).build(&scores, &decoys);
        sweep.iter().map(|s| est.posterior_error(*s)).collect()
    });
    let mut o = Out::new();
    o.n(out.len());
    for v in out {
        o.f64(v);
    }
    Some(o.finish())
}

struct ModelSpec {
    scores: Vec<f64>,
    decoys: Vec<bool>,
    bins: usize,
    bw: f64,
    mono: bool,
}

fn parse_model(t: &mut Toks) -> Option<ModelSpec> {
    let pairs = t.list(|t| Some((t.f64()?, t.bool()?)))?;
    Some(ModelSpec {
        scores: pairs.iter().map(|p| p.0).collect(),
        decoys: pairs.iter().map(|p| p.1).collect(),
        bins: t.usize()?,
        bw: t.f64()?,
        mono: t.bool()?,
    })
}

fn build_model(m: &ModelSpec) -> sage_core::ml::kde::Estimator {
    let bw = m.bw;
    Builder::default().monotonic(m.mono).bins(m.bins).bw_adjust(move |x| x * bw).build(&m.scores, &m.decoys)
}

fn exec_kdeseq(t: &mut Toks) -> Option<String> {
    let models = t.list(parse_model)?;
    let steps = t.list(|t| {
        let kind = t.usize()?;
        let i = t.usize()?;
        let s = if kind == 1 { Some(t.f64()?) } else { None };
        Some((i, s))
    })?;
    if !t.done() {
        return None;
    }
    // everything on THIS thread, in request order (no pool.install: a worker waiting inside `build` could
    // steal another request's job and interleave its queries)
    let mut built: Vec<Option<sage_core::ml::kde::Estimator>> = models.iter().map(|_| None).collect();
    let mut out = Vec::new();
    for (i, s) in steps {
        let m = models.get(i)?;
        match s {
            None => built[i] = Some(build_model(m)),
            Some(score) => out.push(built[i].as_ref()?.posterior_error(score)),
        }
    }
    let mut o = Out::new();
    o.n(out.len());
    for v in out {
        o.f64(v);
    }
    Some(o.finish())
}

fn exec_kdepool(t: &mut Toks) -> Option<String> {
    let m = parse_model(t)?;
    let sweep = t.list(|t| t.f64())?;
    if !t.done() {
        return None;
    }
    let mut o = Out::new();
    o.n(5);
    for p in 0..5 {
        let vals: Vec<f64> = pool_ix(p).install(|| {
            let est = build_model(&m);
            sweep.iter().map(|s| est.posterior_error(*s)).collect()
        });
        o.n(vals.len());
        for v in vals {
            o.f64(v);
        }
    }
    Some(o.finish())
}
