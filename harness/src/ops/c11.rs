//! C11 — search results do not depend on threads, scheduling or file batching
//!
//! Both ops share one request body:
//!
//!   <op> h:fasta mc minlen maxlen decoys bucket report chimera minmatched isolo isohi zlo zhi
//!        annotate wide deiso minpeaks ptol ftol [F file…] [C (a b)…] reps seed
//!     file     := [S spectrum…]
//!     spectrum := u32(precursor m/z) z(0 = not annotated, 255 = this is an MS1 scan) u32(rt seconds) [n (u32 m/z, u32 intensity)…]
//!     ptol     := 0: ±20 ppm | 1: ±2.5 Da | 2: ±50 Da          ftol := 0: ±10 ppm | 1: ±0.02 Da
//!
//! `search`: configs (a b) = (threads, jitter?) — the spectra of all files (file_id = file position, id
//!   "f<file>s<scan>") are preprocessed with `SpectrumProcessor::process` and searched with the statement of
//!   `Runner::search_processed_spectra` (`par_iter().filter(min_peaks, level 2).flat_map(|s| scorer.score(s))
//!   .collect()`), first sequentially (`iter()`, reference configuration, always emitted first), then inside
//!   rayon pools of the given sizes, each `reps` times, with a wrapper closure that yields / spins / sleeps
//!   pseudo-randomly before `Scorer::score` when jitter = 1.
//! `batch`: configs (a b) = (batch_size, threads) — FASTA and one MGF file per `file` are written to a
//!   private temp dir, a real `sage_cli::runner::Runner` is built from them and `Runner::batch_files(&scorer,
//!   batch_size)` is run inside a pool of `threads` threads, `reps` times per config.  The first run of the
//!   reply, (0 0), is the reference: all spectra of all files in input order (file_id = file position),
//!   preprocessed and scored one after the other without Runner, batching or threads.
//!
//! `downstream`: configs (a b) = (threads, unused) — the sequential search result is rescored with the real
//!   `score_psms` (mass-error KDE, LDA, PEP KDE: the parallel float reductions) inside a pool of `threads`
//!   threads; reply: K then per run: threads lda_ok [n (u32 discriminant_score, u32 posterior_error)…]
//!
//! `batch` only: every run is followed by the MS1 and TMT sides of its `SageResults`:
//!     [F #MS1 scans per file_id…] mOrd mSet  nQuant qOrd qSet
//!   (TMT6/MS2 reporter quantification is on when bit 0 of `seed` is set and deisotoping is off)
//!   (digests over file_id, id, rt, every peak of each processed MS1 scan; files with MS1 scans are written as
//!   mzML, the others as MGF; `quant.lfq = true`).
//!
//! reply (search, batch): K then per run:  a b dOrd dSet [n (key rank psm_id file file_id)…]
//!   dOrd = digest of the feature list in output order, every field except psm_id, floats by bit pattern;
//!   dSet = digest of the sorted list of per-feature digests; key = global position of the spectrum in the
//!   input (files in order, scans in order); file = position of its file; file_id = Feature.file_id.
use super::Info;
use crate::proto::{Case, Out, Rng, Tier, Toks};
use rayon::prelude::*;
use sage_core::database::{Builder, EnzymeBuilder, IndexedDatabase, Parameters};
use sage_core::fasta::Fasta;
use sage_core::ion_series::{IonSeries, Kind};
use sage_core::mass::{Tolerance, PROTON};
use sage_core::scoring::{Feature, ScoreType, Scorer};
use sage_core::spectrum::{Precursor, ProcessedSpectrum, RawSpectrum, Representation, SpectrumProcessor};
use std::collections::HashMap;
use std::sync::{Arc, Mutex, OnceLock};

pub const OPS: &[&str] = &["search", "batch", "downstream", "alignpools"];
pub const INFO: Info = Info {
    rule: "a random FASTA (2-10 proteins, tryptic, optional decoys) is digested with the real Parameters::build; \
           spectra are synthesised from database peptides' b/y ladders (70-100% of the ions, random intensities) \
           plus noise peaks, with exact or slightly shifted precursors, annotated or missing charge, plus pure-noise \
           spectra, duplicates of earlier spectra (score ties) and spectra below min_peaks (filtered); split over \
           1-6 files. search: sequential reference, then pools of 1,2,3,4,8,16,32 threads x reps with and without \
           jitter (yield/spin/sleep before Scorer::score); directed: many tiny spectra with report_psms 5 (counter \
           contention), chimera, wide-window, isotope errors, annotate_matches; chimeric-multi-psm stream (default on): \
           every spectrum is the union of the full b/y ladders of 2-3 different database peptides inside one precursor \
           window (+-2.5 Da or +-50 Da), chimera on, report_psms 2-3, min_matched_peaks 1-2, so most spectra return \
           >= 2 PSMs (tags chimeric:* count the replies containing such a spectrum and the share per case; every 8th \
           of them goes through op batch). batch: real Runner over temp MGF \
           files for every batch size 1..#files+1 (incl. partial last chunk, bs > #files) x pool sizes; directed: \
           bs = 0 (chunks(0) panics), empty files, a single file; batch:ms1-runs stream (default on): mzML files with MS1 scans woven \
           in as leading runs of 1-8, alternating runs, trailing runs, MS1-only files (pattern table MS1_PATTERNS + random), an occasional MS3 scan, TMT6/MS2 quant on in every \
           second case, \
           LFQ on, every batch size x pools of 2,3,4,8,16 threads x 2 repetitions; the reply carries the MS1 side of \
           SageResults (count per file, digests). alignpools: the real global_alignment on one PSM list (8-200 PSMs over 2-12 files, a few shared peptides, in \
           file order and shuffled) inside pools of 1,2,3,4,8,16,32 threads x 2: max_rt/slope/intercept and every \
           aligned_rt must be bit-identical to the 1-thread run. downstream: 120-650 spectra, decoys on, the sequential search result rescored by \
           score_psms (KDE + LDA + PEP) in pools of 1,1,2,3,4,8,16,32 threads. non-trivial = at least 2 PSMs reported and at \
           least one parallel configuration; distinct by request",
    serial: true,
};

// ------------------------------------------------------------------------------------------------ request

#[derive(Clone)]
struct Spec {
    pmz: f32,
    z: u8,
    rt_sec: f32,
    peaks: Vec<(f32, f32)>,
}

#[derive(Clone)]
struct Cfg {
    fasta: String,
    mc: u8,
    min_len: usize,
    max_len: usize,
    decoys: bool,
    bucket: usize,
    report: usize,
    chimera: bool,
    min_matched: u16,
    iso: (i8, i8),
    z: (u8, u8),
    annotate: bool,
    wide: bool,
    deiso: bool,
    min_peaks: usize,
    ptol: u8,
    ftol: u8,
}

struct Req {
    cfg: Cfg,
    files: Vec<Vec<Spec>>,
    configs: Vec<(usize, usize)>,
    reps: usize,
    seed: u64,
}

fn write_req(op: &str, r: &Req) -> String {
    let c = &r.cfg;
    let mut o = Out::new();
    o.raw(op).s(&c.fasta).n(c.mc).n(c.min_len).n(c.max_len).b(c.decoys).n(c.bucket).n(c.report).b(c.chimera);
    o.n(c.min_matched).n(c.iso.0).n(c.iso.1).n(c.z.0).n(c.z.1).b(c.annotate).b(c.wide).b(c.deiso);
    o.n(c.min_peaks).n(c.ptol).n(c.ftol);
    o.n(r.files.len());
    for f in &r.files {
        o.n(f.len());
        for s in f {
            o.f32(s.pmz).n(s.z).f32(s.rt_sec).n(s.peaks.len());
            for &(m, i) in &s.peaks {
                o.f32(m).f32(i);
            }
        }
    }
    o.n(r.configs.len());
    for &(a, b) in &r.configs {
        o.n(a).n(b);
    }
    o.n(r.reps).n(r.seed);
    o.finish()
}

fn read_req(t: &mut Toks) -> Option<Req> {
    let fasta = t.string()?;
    let mc = t.usize()? as u8;
    let min_len = t.usize()?;
    let max_len = t.usize()?;
    let decoys = t.bool()?;
    let bucket = t.usize()?;
    let report = t.usize()?;
    let chimera = t.bool()?;
    let min_matched = t.usize()? as u16;
    let iso = (t.i64()? as i8, t.i64()? as i8);
    let z = (t.usize()? as u8, t.usize()? as u8);
    let annotate = t.bool()?;
    let wide = t.bool()?;
    let deiso = t.bool()?;
    let min_peaks = t.usize()?;
    let ptol = t.usize()? as u8;
    let ftol = t.usize()? as u8;
    let files = t.list(|t| {
        t.list(|t| {
            let pmz = t.f32()?;
            let z = t.usize()? as u8;
            let rt_sec = t.f32()?;
            let peaks = t.list(|t| Some((t.f32()?, t.f32()?)))?;
            Some(Spec { pmz, z, rt_sec, peaks })
        })
    })?;
    let configs = t.list(|t| Some((t.usize()?, t.usize()?)))?;
    let reps = t.usize()?;
    let seed = t.tok()?.parse::<u64>().ok()?;
    if !t.done() || iso.0 > iso.1 || z.0 > z.1 || z.0 == 0 {
        return None;
    }
    Some(Req {
        cfg: Cfg {
            fasta, mc, min_len, max_len, decoys, bucket, report, chimera, min_matched, iso, z, annotate, wide,
            deiso, min_peaks, ptol, ftol,
        },
        files,
        configs,
        reps,
        seed,
    })
}

// ------------------------------------------------------------------------------------------------ sage glue

fn db_parameters(c: &Cfg, fasta_path: &str) -> Parameters {
    let mut p = Builder { fasta: Some(fasta_path.to_string()), ..Default::default() }.make_parameters();
    p.bucket_size = c.bucket.max(1).next_power_of_two();
    p.enzyme = EnzymeBuilder {
        missed_cleavages: Some(c.mc),
        min_len: Some(c.min_len),
        max_len: Some(c.max_len),
        ..Default::default()
    };
    p.peptide_min_mass = 300.0;
    p.peptide_max_mass = 6000.0;
    p.generate_decoys = c.decoys;
    p
}

fn tolerances(c: &Cfg) -> (Tolerance, Tolerance) {
    let p = match c.ptol {
        0 => Tolerance::Ppm(-20.0, 20.0),
        1 => Tolerance::Da(-2.5, 2.5),
        _ => Tolerance::Da(-50.0, 50.0),
    };
    let f = match c.ftol {
        0 => Tolerance::Ppm(-10.0, 10.0),
        _ => Tolerance::Da(-0.02, 0.02),
    };
    (p, f)
}

fn scorer<'a>(c: &Cfg, db: &'a IndexedDatabase) -> Scorer<'a> {
    let (precursor_tol, fragment_tol) = tolerances(c);
    Scorer {
        db,
        precursor_tol,
        fragment_tol,
        min_matched_peaks: c.min_matched,
        min_isotope_err: c.iso.0,
        max_isotope_err: c.iso.1,
        min_precursor_charge: c.z.0,
        max_precursor_charge: c.z.1,
        override_precursor_charge: false,
        max_fragment_charge: None,
        chimera: c.chimera,
        report_psms: c.report,
        wide_window: c.wide,
        annotate_matches: c.annotate,
        score_type: ScoreType::SageHyperScore,
    }
}

fn spec_id(file: usize, scan: usize) -> String {
    format!("f{file}s{scan}")
}

/// `z == MS1` marks an MS1 scan (precursor m/z unused)
const MS1: u8 = 255;
/// `z == MS3` marks an MS3 scan (kept in `msn` by the accumulator, skipped by the `level == 2` search filter)
const MS3: u8 = 253;

fn raw_spectrum(file: usize, scan: usize, s: &Spec) -> RawSpectrum {
    let ms1 = s.z == MS1;
    RawSpectrum {
        file_id: file,
        ms_level: if ms1 { 1 } else if s.z == MS3 { 3 } else { 2 },
        id: spec_id(file, scan),
        precursors: if ms1 {
            vec![]
        } else {
            vec![Precursor { mz: s.pmz, charge: if s.z == 0 || s.z == MS3 { None } else { Some(s.z) }, ..Default::default() }]
        },
        representation: Representation::Centroid,
        scan_start_time: s.rt_sec / 60.0,
        ion_injection_time: 0.0,
        total_ion_current: s.peaks.iter().map(|p| p.1).sum(),
        mz: s.peaks.iter().map(|p| p.0).collect(),
        intensity: s.peaks.iter().map(|p| p.1).collect(),
        mobility: None,
    }
}

fn mzml_array(values: &[f32], acc: &str, name: &str) -> String {
    let mut raw = Vec::with_capacity(values.len() * 4);
    for v in values {
        raw.extend_from_slice(&v.to_le_bytes());
    }
    let b64 = base64::encode(&raw);
    format!(
        "<binaryDataArray encodedLength=\"{}\"><cvParam cvRef=\"MS\" accession=\"MS:1000521\" name=\"32-bit float\" value=\"\"/>\
         <cvParam cvRef=\"MS\" accession=\"MS:1000576\" name=\"no compression\" value=\"\"/>\
         <cvParam cvRef=\"MS\" accession=\"{}\" name=\"{}\" value=\"\"/><binary>{}</binary></binaryDataArray>\n",
        b64.len(), acc, name, b64
    )
}

/// indexless mzML with MS1 and MS2 scans in the given order (32-bit uncompressed arrays, times in seconds)
fn mzml_text(file: usize, specs: &[Spec]) -> String {
    let mut body = String::new();
    for (scan, sp) in specs.iter().enumerate() {
        let ms1 = sp.z == MS1;
        body.push_str(&format!("<spectrum index=\"{}\" id=\"{}\" defaultArrayLength=\"{}\">\n", scan, spec_id(file, scan), sp.peaks.len()));
        body.push_str(&format!("<cvParam cvRef=\"MS\" accession=\"MS:1000511\" name=\"ms level\" value=\"{}\"/>\n", if ms1 { 1 } else if sp.z == MS3 { 3 } else { 2 }));
        body.push_str("<cvParam cvRef=\"MS\" accession=\"MS:1000127\" name=\"centroid spectrum\" value=\"\"/>\n");
        body.push_str(&format!(
            "<scanList count=\"1\"><scan><cvParam cvRef=\"MS\" accession=\"MS:1000016\" name=\"scan start time\" value=\"{}\" unitCvRef=\"UO\" unitAccession=\"UO:0000010\" unitName=\"second\"/></scan></scanList>\n",
            sp.rt_sec
        ));
        if !ms1 {
            body.push_str(&format!(
                "<precursorList count=\"1\"><precursor><selectedIonList count=\"1\"><selectedIon><cvParam cvRef=\"MS\" accession=\"MS:1000744\" name=\"selected ion m/z\" value=\"{}\"/>",
                sp.pmz
            ));
            if sp.z != 0 && sp.z != MS3 {
                body.push_str(&format!("<cvParam cvRef=\"MS\" accession=\"MS:1000041\" name=\"charge state\" value=\"{}\"/>", sp.z));
            }
            body.push_str("</selectedIon></selectedIonList></precursor></precursorList>\n");
        }
        let mzs: Vec<f32> = sp.peaks.iter().map(|p| p.0).collect();
        let ints: Vec<f32> = sp.peaks.iter().map(|p| p.1).collect();
        body.push_str("<binaryDataArrayList count=\"2\">\n");
        body.push_str(&mzml_array(&mzs, "MS:1000514", "m/z array"));
        body.push_str(&mzml_array(&ints, "MS:1000515", "intensity array"));
        body.push_str("</binaryDataArrayList>\n</spectrum>\n");
    }
    format!(
        "<?xml version=\"1.0\" encoding=\"utf-8\"?>\n<mzML xmlns=\"http://psi.hupo.org/ms/mzml\" version=\"1.1.0\">\n<run id=\"run\">\n<spectrumList count=\"{}\">\n{}</spectrumList>\n</run>\n</mzML>\n",
        specs.len(), body
    )
}

fn mgf_text(file: usize, specs: &[Spec]) -> String {
    let mut s = String::new();
    for (scan, sp) in specs.iter().enumerate() {
        s.push_str("BEGIN IONS\n");
        s.push_str(&format!("TITLE={}\n", spec_id(file, scan)));
        s.push_str(&format!("PEPMASS={}\n", sp.pmz));
        if sp.z != 0 {
            s.push_str(&format!("CHARGE={}+\n", sp.z));
        }
        s.push_str(&format!("RTINSECONDS={}\n", sp.rt_sec));
        for &(m, i) in &sp.peaks {
            s.push_str(&format!("{} {}\n", m, i));
        }
        s.push_str("END IONS\n");
    }
    s
}

fn pool(threads: usize) -> Arc<rayon::ThreadPool> {
    static POOLS: OnceLock<Mutex<HashMap<usize, Arc<rayon::ThreadPool>>>> = OnceLock::new();
    let m = POOLS.get_or_init(|| Mutex::new(HashMap::new()));
    let mut g = m.lock().unwrap_or_else(|e| e.into_inner());
    g.entry(threads)
        .or_insert_with(|| Arc::new(rayon::ThreadPoolBuilder::new().num_threads(threads.max(1)).build().expect("pool")))
        .clone()
}

fn mix(mut z: u64) -> u64 {
    z = z.wrapping_add(0x9E37_79B9_7F4A_7C15);
    z = (z ^ (z >> 30)).wrapping_mul(0xBF58_476D_1CE4_E5B9);
    z = (z ^ (z >> 27)).wrapping_mul(0x94D0_49BB_1331_11EB);
    z ^ (z >> 31)
}

/// schedule perturbation: called on the worker thread right before `Scorer::score`
fn jitter(seed: u64, run: usize, task: usize) {
    let h = mix(seed ^ mix((run as u64) << 32 | task as u64));
    match h % 8 {
        0 | 1 | 2 => {}
        3 | 4 => {
            for _ in 0..(1 + (h >> 8) % 4) {
                std::thread::yield_now();
            }
        }
        5 | 6 => {
            for _ in 0..((h >> 8) % 3000) {
                std::hint::spin_loop();
            }
        }
        _ => std::thread::sleep(std::time::Duration::from_micros(5 + (h >> 8) % 60)),
    }
}

// ------------------------------------------------------------------------------------------------ digests

struct Fnv(u64);
impl Fnv {
    fn new() -> Self {
        Fnv(0xcbf2_9ce4_8422_2325)
    }
    fn bytes(&mut self, b: &[u8]) {
        for &x in b {
            self.0 ^= x as u64;
            self.0 = self.0.wrapping_mul(0x0000_0100_0000_01B3);
        }
    }
    fn u64(&mut self, x: u64) {
        self.bytes(&x.to_le_bytes());
    }
    fn f32(&mut self, x: f32) {
        self.u64(x.to_bits() as u64);
    }
    fn f64(&mut self, x: f64) {
        self.u64(x.to_bits());
    }
}

/// every field of a Feature except `psm_id`, floats by bit pattern
fn feature_digest(f: &Feature) -> u64 {
    let mut h = Fnv::new();
    h.u64(f.peptide_idx.0 as u64);
    h.u64(f.peptide_len as u64);
    h.u64(f.spec_id.len() as u64);
    h.bytes(f.spec_id.as_bytes());
    h.u64(f.file_id as u64);
    h.u64(f.rank as u64);
    h.u64(f.label as i64 as u64);
    h.f32(f.expmass);
    h.f32(f.calcmass);
    h.u64(f.charge as u64);
    h.f32(f.rt);
    h.f32(f.aligned_rt);
    h.f32(f.predicted_rt);
    h.f32(f.delta_rt_model);
    h.f32(f.ims);
    h.f32(f.predicted_ims);
    h.f32(f.delta_ims_model);
    h.f32(f.delta_mass);
    h.f32(f.isotope_error);
    h.f32(f.average_ppm);
    h.f64(f.hyperscore);
    h.f64(f.delta_next);
    h.f64(f.delta_best);
    h.u64(f.matched_peaks as u64);
    h.u64(f.longest_b as u64);
    h.u64(f.longest_y as u64);
    h.f32(f.longest_y_pct);
    h.u64(f.missed_cleavages as u64);
    h.f32(f.matched_intensity_pct);
    h.u64(f.scored_candidates as u64);
    h.f64(f.poisson);
    h.f32(f.discriminant_score);
    h.f32(f.posterior_error);
    h.f32(f.spectrum_q);
    h.f32(f.peptide_q);
    h.f32(f.protein_q);
    h.f32(f.ms2_intensity);
    match &f.fragments {
        None => h.u64(0),
        Some(fr) => {
            h.u64(1 + fr.charges.len() as u64);
            for (i, &c) in fr.charges.iter().enumerate() {
                h.u64(c as i64 as u64);
                h.u64(fr.kinds[i] as u64);
                h.u64(fr.fragment_ordinals[i] as i64 as u64);
                h.f32(fr.intensities[i]);
                h.f32(fr.mz_calculated[i]);
                h.f32(fr.mz_experimental[i]);
            }
        }
    }
    h.0
}

fn emit_run(o: &mut Out, a: usize, b: usize, feats: &[Feature], keys: &HashMap<String, (usize, usize)>) {
    let ds: Vec<u64> = feats.iter().map(feature_digest).collect();
    let mut ord = Fnv::new();
    for &d in &ds {
        ord.u64(d);
    }
    let mut sorted = ds.clone();
    sorted.sort_unstable();
    let mut set = Fnv::new();
    for &d in &sorted {
        set.u64(d);
    }
    o.n(a).n(b).n(ord.0).n(set.0).n(feats.len());
    for f in feats {
        // a spectrum id the input does not contain would be a fabricated PSM: key = a value no input has
        let (key, file) = keys.get(&f.spec_id).copied().unwrap_or((usize::MAX >> 8, usize::MAX >> 8));
        o.n(key).n(f.rank).n(f.psm_id).n(file).n(f.file_id);
    }
}

/// digest of one processed MS1 scan: file_id, id, retention time, #peaks and every peak, by bit pattern
fn ms1_digest(s: &ProcessedSpectrum<sage_core::spectrum::Peak>) -> u64 {
    let mut h = Fnv::new();
    h.u64(s.file_id as u64);
    h.u64(s.level as u64);
    h.u64(s.id.len() as u64);
    h.bytes(s.id.as_bytes());
    h.f32(s.scan_start_time);
    h.u64(s.peaks.len() as u64);
    for p in &s.peaks {
        h.f32(p.mass);
        h.f32(p.intensity);
    }
    h.0
}

/// MS1 side of a result:  [F count per file_id…] dOrd dSet   (a WithMobility container is reported as file count
/// `nfiles + 1` so that it can never look right: no input of this op has ion mobility)
fn emit_ms1(o: &mut Out, nfiles: usize, ms1: &[ProcessedSpectrum<sage_core::spectrum::Peak>], with_mobility: bool) {
    let mut counts = vec![0usize; nfiles + if with_mobility { 1 } else { 0 }];
    let ds: Vec<u64> = ms1.iter().map(ms1_digest).collect();
    for s in ms1 {
        if s.file_id < counts.len() {
            counts[s.file_id] += 1;
        } else {
            counts.push(1); // an MS1 scan of a file that does not exist: the length no longer matches
        }
    }
    let mut ord = Fnv::new();
    for &d in &ds {
        ord.u64(d);
    }
    let mut sorted = ds.clone();
    sorted.sort_unstable();
    let mut set = Fnv::new();
    for &d in &sorted {
        set.u64(d);
    }
    o.n(counts.len());
    for c in counts {
        o.n(c);
    }
    o.n(ord.0).n(set.0);
}

/// TMT side of a result:  nQuant qOrd qSet   (digest over spec_id, file_id, injection time, every reporter intensity)
fn emit_quant(o: &mut Out, quant: &[sage_core::tmt::TmtQuant]) {
    let ds: Vec<u64> = quant
        .iter()
        .map(|q| {
            let mut h = Fnv::new();
            h.u64(q.spec_id.len() as u64);
            h.bytes(q.spec_id.as_bytes());
            h.u64(q.file_id as u64);
            h.f32(q.ion_injection_time);
            h.u64(q.peaks.len() as u64);
            for &p in &q.peaks {
                h.f32(p);
            }
            h.0
        })
        .collect();
    let mut ord = Fnv::new();
    for &d in &ds {
        ord.u64(d);
    }
    let mut sorted = ds.clone();
    sorted.sort_unstable();
    let mut set = Fnv::new();
    for &d in &sorted {
        set.u64(d);
    }
    o.n(quant.len()).n(ord.0).n(set.0);
}

fn key_map(files: &[Vec<Spec>]) -> HashMap<String, (usize, usize)> {
    let mut m = HashMap::new();
    let mut k = 0usize;
    for (fi, f) in files.iter().enumerate() {
        for si in 0..f.len() {
            m.insert(spec_id(fi, si), (k, fi));
            k += 1;
        }
    }
    m
}

// ------------------------------------------------------------------------------------------------ exec

fn exec_search(r: &Req) -> Option<String> {
    let params = db_parameters(&r.cfg, "-");
    let fasta = Fasta::parse(r.cfg.fasta.clone(), params.decoy_tag.clone(), params.generate_decoys);
    let db = params.build(fasta);
    let sc = scorer(&r.cfg, &db);
    let sp = SpectrumProcessor::new(150, r.cfg.deiso, 0.0);
    let spectra: Vec<ProcessedSpectrum<sage_core::spectrum::Peak>> = r
        .files
        .iter()
        .enumerate()
        .flat_map(|(fi, f)| f.iter().enumerate().map(move |(si, s)| raw_spectrum(fi, si, s)))
        .map(|s| sp.process(s))
        .collect();
    let keys = key_map(&r.files);
    let min_peaks = r.cfg.min_peaks;
    let index: HashMap<&str, usize> = spectra.iter().enumerate().map(|(i, s)| (s.id.as_str(), i)).collect();

    let mut o = Out::new();
    let runs = 1 + r.configs.len() * r.reps;
    o.n(runs);
    // reference: the sequential statement
    let reference: Vec<Feature> = spectra
        .iter()
        .filter(|spec| spec.peaks.len() >= min_peaks && spec.level == 2)
        .flat_map(|spec| sc.score(spec))
        .collect();
    emit_run(&mut o, 0, 0, &reference, &keys);
    let mut run = 0usize;
    for &(threads, jit) in &r.configs {
        if threads == 0 || threads > 64 {
            return None;
        }
        let p = pool(threads);
        for _ in 0..r.reps {
            run += 1;
            let seed = r.seed;
            let feats: Vec<Feature> = p.install(|| {
                // the statement of Runner::search_processed_spectra, with the perturbation wrapper
                let counter = std::sync::atomic::AtomicUsize::new(0);
                spectra
                    .par_iter()
                    .filter(|spec| spec.peaks.len() >= min_peaks && spec.level == 2)
                    .map(|x| {
                        counter.fetch_add(1, std::sync::atomic::Ordering::Relaxed);
                        x
                    })
                    .flat_map(|spec| {
                        if jit != 0 {
                            jitter(seed, run, index[spec.id.as_str()]);
                        }
                        sc.score(spec)
                    })
                    .collect()
            });
            emit_run(&mut o, threads, jit, &feats, &keys);
        }
    }
    Some(o.finish())
}

/// `downstream`: the sequential search result is rescored (`score_psms`: mass-error KDE, LDA, PEP KDE — the
/// parallel float reductions of kde.rs / matrix.rs) inside pools of the given sizes.
/// reply: K then per run: threads lda_ok [n (u32 discriminant_score, u32 posterior_error)…]  (rows in input order)
fn exec_downstream(r: &Req) -> Option<String> {
    let params = db_parameters(&r.cfg, "-");
    let fasta = Fasta::parse(r.cfg.fasta.clone(), params.decoy_tag.clone(), params.generate_decoys);
    let db = params.build(fasta);
    let sc = scorer(&r.cfg, &db);
    let sp = SpectrumProcessor::new(150, r.cfg.deiso, 0.0);
    let min_peaks = r.cfg.min_peaks;
    let reference: Vec<Feature> = r
        .files
        .iter()
        .enumerate()
        .flat_map(|(fi, f)| f.iter().enumerate().map(move |(si, s)| raw_spectrum(fi, si, s)))
        .map(|s| sp.process(s))
        .filter(|spec| spec.peaks.len() >= min_peaks && spec.level == 2)
        .flat_map(|spec| sc.score(&spec))
        .collect();
    let (ptol, _) = tolerances(&r.cfg);
    let mut o = Out::new();
    o.n(r.configs.len() * r.reps);
    for &(threads, _) in &r.configs {
        if threads == 0 || threads > 64 {
            return None;
        }
        let p = pool(threads);
        for _ in 0..r.reps {
            let mut feats = reference.clone();
            let ok = p.install(|| sage_core::ml::linear_discriminant::score_psms(&mut feats, ptol).is_some());
            o.n(threads).b(ok).n(feats.len());
            for f in &feats {
                o.f32(f.discriminant_score).f32(f.posterior_error);
            }
        }
    }
    Some(o.finish())
}

struct TempDir(std::path::PathBuf);
impl TempDir {
    fn new() -> Self {
        static N: std::sync::atomic::AtomicUsize = std::sync::atomic::AtomicUsize::new(0);
        let n = N.fetch_add(1, std::sync::atomic::Ordering::Relaxed);
        let t = std::time::SystemTime::now().duration_since(std::time::UNIX_EPOCH).map(|d| d.as_nanos()).unwrap_or(0);
        let p = std::env::temp_dir().join(format!("sage-verif-c11-{}-{}-{}", std::process::id(), n, t));
        std::fs::create_dir_all(&p).expect("temp dir");
        TempDir(p)
    }
}
impl Drop for TempDir {
    fn drop(&mut self) {
        let _ = std::fs::remove_dir_all(&self.0);
    }
}

fn exec_batch(r: &Req) -> Option<String> {
    use sage_cli::input::Search;
    use sage_cli::runner::Runner;
    let dir = TempDir::new();
    let fasta_path = dir.0.join("db.fasta");
    std::fs::write(&fasta_path, &r.cfg.fasta).ok()?;
    let mut paths = Vec::new();
    for (fi, f) in r.files.iter().enumerate() {
        // MGF cannot carry MS1 scans: a file with MS1 scans is written as mzML
        let has_ms1 = f.iter().any(|s| s.z == MS1 || s.z == MS3);
        let p = dir.0.join(if has_ms1 { format!("file{fi}.mzML") } else { format!("file{fi}.mgf") });
        std::fs::write(&p, if has_ms1 { mzml_text(fi, f) } else { mgf_text(fi, f) }).ok()?;
        paths.push(p.to_string_lossy().to_string());
    }
    let (precursor_tol, fragment_tol) = tolerances(&r.cfg);
    let c = &r.cfg;
    // with deisotoping the runner derives a reporter-dependent `min_deisotope_mz`; keep the reference simple
    let tmt = r.seed & 1 == 1 && !c.deiso;
    let search = Search {
        version: "verif".into(),
        database: db_parameters(c, &fasta_path.to_string_lossy()),
        // LFQ on: the run is one in which the MS1 scans matter downstream
        // request `seed` bit 0 (unused otherwise by `batch`): TMT6 reporter quantification at MS2 level, so that the
        // `quant` side of SageResults is populated (one row per MS2 scan)
        quant: sage_cli::input::QuantSettings {
            lfq: true,
            tmt: if tmt { Some(sage_core::tmt::Isobaric::Tmt6) } else { None },
            tmt_settings: sage_cli::input::TmtSettings { level: 2, sn: false },
            ..Default::default()
        },
        precursor_tol,
        fragment_tol,
        precursor_charge: c.z,
        override_precursor_charge: false,
        isotope_errors: c.iso,
        deisotope: c.deiso,
        chimera: c.chimera,
        wide_window: c.wide,
        min_peaks: c.min_peaks,
        max_peaks: 150,
        max_fragment_charge: None,
        min_matched_peaks: c.min_matched,
        report_psms: c.report,
        predict_rt: false,
        mzml_paths: paths,
        output_paths: Vec::new(),
        bruker_config: Default::default(),
        output_directory: sage_cloudpath::CloudPath::Local(dir.0.clone()),
        write_pin: false,
        annotate_matches: c.annotate,
        score_type: ScoreType::SageHyperScore,
    };
    let runner = Runner::new(search, 1).ok()?;
    // exactly the Scorer that Runner::run builds from its parameters
    let p = &runner.parameters;
    let sc = Scorer {
        db: &runner.database,
        precursor_tol: p.precursor_tol,
        fragment_tol: p.fragment_tol,
        min_matched_peaks: p.min_matched_peaks,
        min_isotope_err: p.isotope_errors.0,
        max_isotope_err: p.isotope_errors.1,
        min_precursor_charge: p.precursor_charge.0,
        max_precursor_charge: p.precursor_charge.1,
        override_precursor_charge: p.override_precursor_charge,
        max_fragment_charge: p.max_fragment_charge,
        chimera: p.chimera,
        report_psms: p.report_psms,
        wide_window: p.wide_window,
        annotate_matches: p.annotate_matches,
        score_type: p.score_type,
    };
    let keys = key_map(&r.files);
    let mut o = Out::new();
    // `chunks(0)` panics before anything is searched; do not consume ids for a reference run then
    if r.configs.iter().any(|c| c.0 == 0) {
        let _ = pool(1).install(|| runner.batch_files(&sc, 0));
        return None;
    }
    o.n(1 + r.configs.len() * r.reps);
    // reference run (0 0): no Runner, no batching, no threads — every spectrum of every file in input order,
    // file_id = position of the file, preprocessed and scored one after the other
    {
        let sp = SpectrumProcessor::new(p.max_peaks, p.deisotope, 0.0);
        let processed: Vec<ProcessedSpectrum<sage_core::spectrum::Peak>> = r
            .files
            .iter()
            .enumerate()
            .flat_map(|(fi, f)| f.iter().enumerate().map(move |(si, s)| raw_spectrum(fi, si, s)))
            .map(|s| sp.process(s))
            .collect();
        let reference: Vec<Feature> = processed
            .iter()
            .filter(|spec| spec.peaks.len() >= p.min_peaks && spec.level == 2)
            .flat_map(|spec| sc.score(spec))
            .collect();
        emit_run(&mut o, 0, 0, &reference, &keys);
        // every MS1 scan of the input, in input order
        let (ms1, msn): (Vec<_>, Vec<_>) = processed.into_iter().partition(|s| s.level == 1);
        emit_ms1(&mut o, r.files.len(), &ms1, false);
        // what `complete_features` computes per chunk, here over all MSn scans of all files in input order
        let quant = if tmt {
            sage_core::tmt::quantify(&msn, &sage_core::tmt::Isobaric::Tmt6, Tolerance::Ppm(-20.0, 20.0), 2)
        } else {
            Vec::new()
        };
        emit_quant(&mut o, &quant);
    }
    for &(bs, threads) in &r.configs {
        if threads == 0 || threads > 64 {
            return None;
        }
        let pl = pool(threads);
        for _ in 0..r.reps {
            // bs = 0: `chunks(0)` panics; the panic propagates through `install` to the harness' catch_unwind
            let res = pl.install(|| runner.batch_files(&sc, bs));
            emit_run(&mut o, bs, threads, &res.features, &keys);
            match &res.ms1 {
                sage_core::spectrum::MS1Spectra::Empty => emit_ms1(&mut o, r.files.len(), &[], false),
                sage_core::spectrum::MS1Spectra::NoMobility(v) => emit_ms1(&mut o, r.files.len(), v, false),
                sage_core::spectrum::MS1Spectra::WithMobility(_) => emit_ms1(&mut o, r.files.len(), &[], true),
            }
            emit_quant(&mut o, &res.quant);
        }
    }
    Some(o.finish())
}

/// `alignpools nfiles [n (file_id peptide_ix label u32 spectrum_q u32 rt)…] [C threads…] reps`
///   the real `global_alignment` on the SAME PSM list inside rayon pools of the given sizes (first one: 1 thread)
/// reply: K then per run: threads [nfiles (u32 max_rt u32 slope u32 intercept)…] [n u32 aligned_rt…]
fn exec_alignpools(t: &mut Toks) -> Option<String> {
    let nfiles = t.usize()?;
    let rows = t.list(|t| Some((t.usize()?, t.usize()?, t.i64()?, t.f32()?, t.f32()?)))?;
    let pools = t.list(|t| t.usize())?;
    let reps = t.usize()?;
    if !t.done() || reps == 0 || reps > 16 || pools.len() > 64 || nfiles > 4096 || rows.iter().any(|r| r.0 >= nfiles) {
        return None;
    }
    let feats: Vec<Feature> = rows
        .iter()
        .map(|&(file, pep, label, q, rt)| {
            let mut f = super::util::blank_feature();
            f.file_id = file;
            f.peptide_idx = sage_core::database::PeptideIx(pep as u32);
            f.label = label as i32;
            f.spectrum_q = q;
            f.rt = rt;
            f.aligned_rt = rt;
            f
        })
        .collect();
    let mut o = Out::new();
    o.n(pools.len() * reps);
    for &threads in &pools {
        if threads == 0 || threads > 64 {
            return None;
        }
        let p = pool(threads);
        for _ in 0..reps {
            let mut f = feats.clone();
            let al = p.install(|| sage_core::ml::retention_alignment::global_alignment(&mut f, nfiles));
            o.n(threads).n(al.len());
            for a in &al {
                o.f32(a.max_rt).f32(a.slope).f32(a.intercept);
            }
            o.n(f.len());
            for x in &f {
                o.f32(x.aligned_rt);
            }
        }
    }
    Some(o.finish())
}

pub fn exec(op: &str, t: &mut Toks) -> Option<String> {
    if op == "alignpools" {
        return exec_alignpools(t);
    }
    let r = read_req(t)?;
    if r.reps == 0 || r.reps > 64 || r.configs.len() > 256 {
        return None;
    }
    match op {
        "search" => exec_search(&r),
        "batch" => exec_batch(&r),
        "downstream" => exec_downstream(&r),
        _ => None,
    }
}

// ------------------------------------------------------------------------------------------------ generator

const AA: &[u8] = b"ACDEFGHILMNPQSTVWY";

fn gen_fasta(rng: &mut Rng, nprot: usize) -> String {
    let mut s = String::new();
    for p in 0..nprot {
        s.push_str(&format!(">sp|P{:04}|PROT{}\n", p, p));
        let len = 30 + rng.below(90);
        let mut since = 0usize;
        for _ in 0..len {
            since += 1;
            let c = if since >= 5 && rng.chance(1, 6) || since >= 14 {
                since = 0;
                *rng.pick(b"KR")
            } else {
                *rng.pick(AA)
            };
            s.push(c as char);
        }
        s.push_str("K\n");
    }
    s
}

fn synth_spectrum(rng: &mut Rng, db: &IndexedDatabase, cfg: &Cfg, kind: usize) -> Spec {
    let noise = |rng: &mut Rng, n: usize, peaks: &mut Vec<(f32, f32)>| {
        for _ in 0..n {
            peaks.push((100.0 + (rng.unit() * 1400.0) as f32, 1.0 + (rng.unit() * 200.0) as f32));
        }
    };
    let rt_sec = (rng.unit() * 3600.0) as f32;
    if kind == 0 || db.peptides.is_empty() {
        // pure noise
        let mut peaks = Vec::new();
        let n = 5 + rng.below(40);
        noise(rng, n, &mut peaks);
        return Spec { pmz: 300.0 + (rng.unit() * 900.0) as f32, z: rng.below(4) as u8, rt_sec, peaks };
    }
    let pep = &db.peptides[rng.below(db.peptides.len())];
    let z = 2 + rng.below(2) as u8;
    let keep = 70 + rng.below(31) as u32;
    let mut peaks = Vec::new();
    for kind in [Kind::B, Kind::Y] {
        for ion in IonSeries::new(pep, kind) {
            if rng.chance(keep, 100) {
                peaks.push((ion.monoisotopic_mass + PROTON, 10.0 + (rng.unit() * 990.0) as f32));
            }
        }
    }
    let n = rng.below(25);
    noise(rng, n, &mut peaks);
    if kind == 2 {
        // too few peaks: dropped by the min_peaks filter
        peaks.truncate(cfg.min_peaks.saturating_sub(1).min(peaks.len()));
        if peaks.is_empty() {
            peaks.push((200.0, 5.0));
        }
    }
    let mut pmz = pep.monoisotopic / z as f32 + PROTON;
    if kind == 3 {
        // shifted precursor: one isotope off / inside a wide Da window
        pmz += 1.00335 / z as f32;
    }
    let annotated = !rng.chance(1, 5);
    Spec { pmz, z: if annotated { z } else { 0 }, rt_sec, peaks }
}

struct Shape {
    nprot: usize,
    nspec: usize,
    nfiles: usize,
    report: usize,
    chimera: bool,
    wide: bool,
    iso: (i8, i8),
    annotate: bool,
    ptol: u8,
    small_spectra: bool,
}

fn gen_inputs(rng: &mut Rng, sh: &Shape) -> Option<(Cfg, Vec<Vec<Spec>>, usize)> {
    let cfg = Cfg {
        fasta: gen_fasta(rng, sh.nprot),
        mc: rng.below(3) as u8,
        min_len: 5 + rng.below(3),
        max_len: 20 + rng.below(30),
        decoys: rng.chance(3, 4),
        bucket: *rng.pick(&[2usize, 8, 64, 8192]),
        report: sh.report,
        chimera: sh.chimera,
        min_matched: *rng.pick(&[1u16, 2, 4]),
        iso: sh.iso,
        z: (2, 2 + rng.below(3) as u8),
        annotate: sh.annotate,
        wide: sh.wide,
        deiso: rng.chance(1, 3),
        min_peaks: *rng.pick(&[1usize, 8, 15]),
        ptol: sh.ptol,
        ftol: rng.below(2) as u8,
    };
    let params = db_parameters(&cfg, "-");
    let fasta = Fasta::parse(cfg.fasta.clone(), params.decoy_tag.clone(), params.generate_decoys);
    // Parameters::build panics when nothing survives digestion (outside C11): skip such a FASTA
    let db = std::panic::catch_unwind(|| params.build(fasta)).ok()?;
    if db.peptides.is_empty() {
        return None;
    }
    let mut all: Vec<Spec> = Vec::new();
    for i in 0..sh.nspec {
        let kind = match rng.below(10) {
            0 => 0,
            1 => 2,
            2 => 3,
            3 if i > 0 => 4,
            _ => 1,
        };
        let mut s = if kind == 4 {
            all[rng.below(all.len())].clone() // exact duplicate of an earlier spectrum (ties across tasks)
        } else {
            synth_spectrum(rng, &db, &cfg, kind)
        };
        if sh.small_spectra {
            s.peaks.truncate(12);
        }
        all.push(s);
    }
    // split over files: sizes random, some files may be empty
    let mut files: Vec<Vec<Spec>> = vec![Vec::new(); sh.nfiles.max(1)];
    for s in all {
        let k = rng.below(files.len());
        files[k].push(s);
    }
    // expected number of PSMs is only known after a search; estimate for the non-triviality tag
    let sc = scorer(&cfg, &db);
    let sp = SpectrumProcessor::new(150, cfg.deiso, 0.0);
    let mut npsm = 0usize;
    for (fi, f) in files.iter().enumerate() {
        for (si, s) in f.iter().enumerate() {
            let p = sp.process(raw_spectrum(fi, si, s));
            if p.peaks.len() >= cfg.min_peaks {
                npsm += std::panic::catch_unwind(std::panic::AssertUnwindSafe(|| sc.score(&p).len())).unwrap_or(0);
            }
        }
    }
    Some((cfg, files, npsm))
}

/// one chimeric case: every spectrum is the union of the complete b/y ladders of 2 (sometimes 3) different
/// database peptides whose masses lie inside the same precursor window; chimera on, report_psms 2-3,
/// min_matched_peaks 1-2, no deisotoping, min_peaks 1 — so that after the first peptide's peaks are removed the
/// second one is still found.  Returns (cfg, files, #PSMs, #searched spectra, #spectra with >= 2 PSMs).
fn gen_chimeric(rng: &mut Rng, nspec: usize, nfiles: usize) -> Option<(Cfg, Vec<Vec<Spec>>, usize, usize, usize)> {
    for _attempt in 0..8 {
        let narrow = rng.chance(1, 3);
        let nprot = 8 + rng.below(8);
        let cfg = Cfg {
            fasta: gen_fasta(rng, nprot),
            mc: 1 + rng.below(2) as u8,
            min_len: 6,
            max_len: 30,
            decoys: rng.chance(2, 3),
            bucket: *rng.pick(&[8usize, 64, 8192]),
            report: 2 + rng.below(2),
            chimera: true,
            min_matched: 1 + rng.below(2) as u16,
            iso: (0, 0),
            z: (2, 3),
            annotate: rng.chance(1, 4),
            wide: false,
            deiso: false,
            min_peaks: 1,
            ptol: if narrow { 1 } else { 2 },
            ftol: rng.below(2) as u8,
        };
        let window = if narrow { 2.0f32 } else { 40.0f32 };
        let params = db_parameters(&cfg, "-");
        let fasta = Fasta::parse(cfg.fasta.clone(), params.decoy_tag.clone(), params.generate_decoys);
        let Ok(db) = std::panic::catch_unwind(|| params.build(fasta)) else { continue };
        // peptides are sorted by mass: partners of i are its neighbours within `window`
        let n = db.peptides.len();
        let partners = |i: usize| -> Vec<usize> {
            let m = db.peptides[i].monoisotopic;
            (0..n)
                .filter(|&j| j != i && (db.peptides[j].monoisotopic - m).abs() <= window
                    && db.peptides[j].sequence != db.peptides[i].sequence)
                .collect()
        };
        let with_partner: Vec<usize> = (0..n).filter(|&i| !partners(i).is_empty()).collect();
        if with_partner.len() < 4 {
            continue;
        }
        let mut all: Vec<Spec> = Vec::new();
        for _ in 0..nspec {
            let a = *rng.pick(&with_partner);
            let ps = partners(a);
            let mut members = vec![a, *rng.pick(&ps)];
            if ps.len() >= 2 && rng.chance(1, 4) {
                let c = *rng.pick(&ps);
                if !members.contains(&c) {
                    members.push(c);
                }
            }
            let z = 2 + rng.below(2) as u8;
            let mut peaks: Vec<(f32, f32)> = Vec::new();
            for (k, &m) in members.iter().enumerate() {
                // the first member is the most intense one, so the rounds peel the members off one by one
                let scale = match k { 0 => 1000.0, 1 => 300.0, _ => 100.0 };
                for kind in [Kind::B, Kind::Y] {
                    for ion in IonSeries::new(&db.peptides[m], kind) {
                        peaks.push((ion.monoisotopic_mass + PROTON, scale * (0.5 + rng.unit() as f32)));
                    }
                }
            }
            for _ in 0..rng.below(10) {
                peaks.push((100.0 + (rng.unit() * 1400.0) as f32, 1.0 + (rng.unit() * 50.0) as f32));
            }
            let pmz = db.peptides[a].monoisotopic / z as f32 + PROTON;
            all.push(Spec { pmz, z, rt_sec: (rng.unit() * 3600.0) as f32, peaks });
        }
        let mut files: Vec<Vec<Spec>> = vec![Vec::new(); nfiles.max(1)];
        for s in all {
            let k = rng.below(files.len());
            files[k].push(s);
        }
        let sc = scorer(&cfg, &db);
        let sp = SpectrumProcessor::new(150, cfg.deiso, 0.0);
        let (mut npsm, mut searched, mut multi) = (0usize, 0usize, 0usize);
        for (fi, f) in files.iter().enumerate() {
            for (si, s) in f.iter().enumerate() {
                let p = sp.process(raw_spectrum(fi, si, s));
                if p.peaks.len() >= cfg.min_peaks {
                    let k = std::panic::catch_unwind(std::panic::AssertUnwindSafe(|| sc.score(&p).len())).unwrap_or(0);
                    searched += 1;
                    npsm += k;
                    if k >= 2 {
                        multi += 1;
                    }
                }
            }
        }
        return Some((cfg, files, npsm, searched, multi));
    }
    None
}

/// the level patterns of the MS1 stream: '1' = a fresh MS1 scan, '2' = the file's next MS2 scan (the rest of
/// the MS2 scans follow the pattern).  Leading runs of 1-8 MS1 scans (a whole left-hand piece of a halving split
/// of 8/16/32 scans holds only MS1), alternating, trailing runs, MS1 only.
const MS1_PATTERNS: &[&str] = &[
    "1111221221221222",
    "12", "112", "1112", "11112", "111112", "1111112", "11111112", "111111112",
    "1111111122222222", "1111222211112222", "1212121212121212", "2121212121212121",
    "2222222211111111", "2221", "22211", "222111", "2222221111",
    "1", "11", "1111", "11111111",
    "1211211121111211111",
];

fn ms1_scan(rng: &mut Rng) -> Spec {
    let n = 1 + rng.below(20);
    let peaks = (0..n).map(|_| (300.0 + (rng.unit() * 1200.0) as f32, 10.0 + (rng.unit() * 5000.0) as f32)).collect();
    Spec { pmz: 0.0, z: MS1, rt_sec: (rng.unit() * 3600.0) as f32, peaks }
}

/// weave MS1 scans into the files; returns the number of MS1 scans added
fn weave_ms1(rng: &mut Rng, files: &mut [Vec<Spec>]) -> usize {
    let mut added = 0usize;
    for f in files.iter_mut() {
        if rng.chance(1, 6) {
            continue; // an MS2-only file (stays MGF) next to mzML files
        }
        let ms2: Vec<Spec> = std::mem::take(f);
        let mut it = ms2.into_iter();
        let pattern: String = if rng.chance(3, 4) {
            rng.pick(MS1_PATTERNS).to_string()
        } else {
            // random: leading run of 1-8, then runs of MS1/MS2 of random length
            let mut p = "1".repeat(1 + rng.below(8));
            for _ in 0..rng.below(8) {
                p.push_str(&"2".repeat(1 + rng.below(4)));
                p.push_str(&"1".repeat(rng.below(5)));
            }
            p
        };
        for c in pattern.chars() {
            if c == '1' {
                f.push(ms1_scan(rng));
                added += 1;
            } else if let Some(s) = it.next() {
                let ms3 = if rng.chance(1, 8) { Some(Spec { z: MS3, ..s.clone() }) } else { None };
                f.push(s);
                // an MS3 scan: stays in `msn`, must be skipped by the `level == 2` filter of the search
                f.extend(ms3);
            }
        }
        f.extend(it);
        // sometimes a trailing run as well
        for _ in 0..(if rng.chance(1, 3) { 1 + rng.below(5) } else { 0 }) {
            f.push(ms1_scan(rng));
            added += 1;
        }
    }
    added
}

pub fn gen(rng: &mut Rng, tier: Tier, emit: &mut dyn FnMut(Case)) {
    let quick = tier == Tier::Quick;
    let all_pools: &[usize] = &[1, 2, 3, 4, 8, 16, 32];
    // ---------------------------------------------------------------- search
    let n_search = if quick { 24 } else { 400 };
    for i in 0..n_search {
        let directed = i % 8;
        let sh = Shape {
            nprot: 2 + rng.below(9),
            nspec: if directed == 1 { if quick { 150 } else { 600 } } else { 4 + rng.below(if quick { 40 } else { 120 }) },
            nfiles: 1 + rng.below(4),
            report: if directed == 1 { 5 } else { 1 + rng.below(4) },
            chimera: directed == 2,
            wide: directed == 3,
            iso: if directed == 4 { (-1, 3) } else { (0, 0) },
            annotate: directed == 5,
            ptol: if directed == 1 { 2 } else { rng.below(3) as u8 },
            small_spectra: directed == 1,
        };
        let Some((mut cfg, mut files, npsm)) = gen_inputs(rng, &sh) else { continue };
        let with_ms1 = directed == 0 && weave_ms1(rng, &mut files) > 0; // MS1 scans must be skipped by the level filter
        if directed == 1 {
            cfg.min_peaks = 1;
            cfg.min_matched = 1;
        }
        let mut configs = Vec::new();
        for &t in all_pools {
            if directed == 1 && t < 4 {
                continue;
            }
            configs.push((t, 1usize));
            if rng.chance(1, 2) {
                configs.push((t, 0usize));
            }
        }
        let reps = if quick { 1 + rng.below(2) } else { 2 + rng.below(3) };
        let req = Req { cfg, files, configs, reps, seed: rng.next() >> 1 };
        let tag = match directed {
            1 => "search:counter-contention",
            2 => "search:chimera",
            3 => "search:wide-window",
            4 => "search:isotope-errors",
            5 => "search:annotate-matches",
            _ => "search:standard",
        };
        emit(Case::new(write_req("search", &req)).tag(tag).tag_if(with_ms1, "search:with-ms1-scans").tag_if(npsm < 2, "few-psms").nontrivial(npsm >= 2));
    }
    // ---------------------------------------------------------------- search: chimeric multi-PSM spectra
    let n_chim = if quick { 8 } else { 80 };
    for i in 0..n_chim {
        let nspec = 6 + rng.below(if quick { 30 } else { 100 });
        let nfiles = 1 + rng.below(3);
        let Some((cfg, files, npsm, searched, multi)) = gen_chimeric(rng, nspec, nfiles) else { continue };
        let mut configs = Vec::new();
        for &t in all_pools {
            configs.push((t, 1usize));
            if rng.chance(1, 3) {
                configs.push((t, 0usize));
            }
        }
        let reps = if quick { 1 } else { 2 };
        let op = if i % 8 == 7 { "batch" } else { "search" };
        let req = if op == "batch" {
            let n = files.len();
            let mut cs = vec![(1usize, 1usize)];
            for bs in 1..=n + 1 {
                cs.push((bs, *rng.pick(&[2usize, 4, 8])));
            }
            Req { cfg, files, configs: cs, reps: 1, seed: 0 }
        } else {
            Req { cfg, files, configs, reps, seed: rng.next() >> 1 }
        };
        emit(Case::new(write_req(op, &req))
            .tag("search:chimeric-multi-psm")
            .tag_if(multi >= 1, "chimeric:reply-has-spectrum-with>=2-psms")
            .tag_if(multi == 0, "chimeric:no-multi-psm-spectrum")
            .tag_if(searched > 0 && 4 * multi >= 3 * searched, "chimeric:multi-psm-share>=75%")
            .tag_if(searched > 0 && 2 * multi >= searched && 4 * multi < 3 * searched, "chimeric:multi-psm-share-50..75%")
            .tag_if(searched > 0 && 2 * multi < searched, "chimeric:multi-psm-share<50%")
            .nontrivial(multi >= 1 && npsm >= 2));
        if std::env::var("C11_CHIMERIC_STATS").is_ok() {
            eprintln!("chimeric case {i}: spectra {searched} multi-psm {multi} psms {npsm}");
        }
    }
    // ---------------------------------------------------------------- alignpools: global_alignment across pools
    let n_align = if quick { 40 } else { 600 };
    for i in 0..n_align {
        let nfiles = 2 + rng.below(11);
        let n = 8 + rng.below(if i % 4 == 0 { 25 } else { 193 });
        let npep = 2 + rng.below(30);
        let scale: Vec<f32> = (0..nfiles).map(|_| 5.0 + (rng.unit() * 150.0) as f32).collect();
        let mut rows: Vec<(usize, usize, i64, f32, f32)> = (0..n)
            .map(|_| {
                let file = rng.below(nfiles);
                let label = if rng.chance(1, 8) { -1 } else { 1 };
                let q = if rng.chance(1, 6) { 0.05 } else { 0.001 };
                (file, rng.below(npep), label, q, (rng.unit() as f32) * scale[file])
            })
            .collect();
        let ordered = i % 2 == 0;
        if ordered {
            rows.sort_by_key(|r| r.0); // PSMs in file order, as batch_files delivers them
        }
        let mut o = Out::new();
        o.raw("alignpools").n(nfiles).n(rows.len());
        for r in &rows {
            o.n(r.0).n(r.1).n(r.2).f32(r.3).f32(r.4);
        }
        o.n(7);
        for t in [1usize, 2, 3, 4, 8, 16, 32] {
            o.n(t);
        }
        o.n(2);
        emit(Case::new(o.finish())
            .tag("alignpools")
            .tag(if ordered { "alignpools:file-order" } else { "alignpools:shuffled" })
            .tag_if(n < 33, "alignpools:few-psms")
            .nontrivial(true));
    }
    // ---------------------------------------------------------------- downstream
    let n_down = if quick { 4 } else { 40 };
    for i in 0..n_down {
        let sh = Shape {
            nprot: 6 + rng.below(8),
            nspec: if quick { 120 + rng.below(120) } else { 150 + rng.below(500) },
            nfiles: 1,
            report: 2 + rng.below(3),
            chimera: false,
            wide: false,
            iso: (0, 0),
            annotate: false,
            ptol: if i % 2 == 0 { 1 } else { 2 },
            small_spectra: false,
        };
        let Some((mut cfg, files, npsm)) = gen_inputs(rng, &sh) else { continue };
        cfg.decoys = true;
        // reference first: a single-thread pool
        let configs: Vec<(usize, usize)> = [1usize, 1, 2, 3, 4, 8, 16, 32].iter().map(|&t| (t, 0usize)).collect();
        let req = Req { cfg, files, configs, reps: if quick { 1 } else { 2 }, seed: 0 };
        emit(Case::new(write_req("downstream", &req)).tag("downstream:lda-kde").nontrivial(npsm >= 20));
    }
    // ---------------------------------------------------------------- batch: MS1 scans in runs (mzML files, LFQ on)
    let n_ms1 = if quick { 12 } else { 120 };
    for i in 0..n_ms1 {
        let nfiles = 1 + i % 4;
        let sh = Shape {
            nprot: 2 + rng.below(6),
            nspec: nfiles * (4 + rng.below(if quick { 10 } else { 24 })),
            nfiles,
            report: 1 + rng.below(2),
            chimera: false,
            wide: false,
            iso: (0, 0),
            annotate: false,
            ptol: rng.below(3) as u8,
            small_spectra: false,
        };
        let Some((mut cfg, mut files, npsm)) = gen_inputs(rng, &sh) else { continue };
        let added = weave_ms1(rng, &mut files);
        let tmt = i % 2 == 0;
        if tmt {
            cfg.deiso = false;
            // a reporter-region peak or two, so that the quant rows are not all zero
            for f in files.iter_mut() {
                for s in f.iter_mut().filter(|s| s.z != MS1) {
                    if rng.chance(2, 3) {
                        s.peaks.push((126.127726 + rng.below(6) as f32 * 1.0033, 50.0 + (rng.unit() * 500.0) as f32));
                    }
                }
            }
        }
        let mut configs = vec![(1usize, 1usize)];
        for bs in 1..=nfiles + 1 {
            let mut pools = [2usize, 3, 4, 8, 16];
            rng.shuffle(&mut pools);
            for &t in &pools[..if quick { 3 } else { 5 }] {
                configs.push((bs, t));
            }
        }
        let req = Req { cfg, files, configs, reps: 2, seed: tmt as u64 };
        emit(Case::new(write_req("batch", &req))
            .tag("batch:ms1-runs")
            .tag_if(tmt, "batch:tmt-quant")
            .tag_if(added == 0, "batch:ms1-runs-none-added")
            .nontrivial(added >= 1 && npsm >= 1));
    }
    // ---------------------------------------------------------------- batch
    let n_batch = if quick { 10 } else { 120 };
    for i in 0..n_batch {
        let nfiles = match i % 5 {
            0 => 1,
            1 => 2,
            _ => 3 + rng.below(4),
        };
        let sh = Shape {
            nprot: 2 + rng.below(6),
            nspec: 3 + rng.below(if quick { 20 } else { 60 }),
            nfiles,
            report: 1 + rng.below(3),
            chimera: rng.chance(1, 6),
            wide: false,
            iso: (0, 0),
            annotate: rng.chance(1, 6),
            ptol: rng.below(3) as u8,
            small_spectra: false,
        };
        let Some((cfg, files, npsm)) = gen_inputs(rng, &sh) else { continue };
        let has_empty = files.iter().any(|f| f.is_empty());
        // (the reply starts with the unbatched sequential reference) batch size 1 in a single-thread pool,
        // then every batch size up to #files + 1
        let mut configs = vec![(1usize, 1usize)];
        for bs in 1..=nfiles + 1 {
            configs.push((bs, *rng.pick(&[2usize, 3, 4, 8, 16])));
        }
        configs.push((nfiles + 7, 2));
        let req = Req { cfg: cfg.clone(), files: files.clone(), configs, reps: if quick { 1 } else { 2 }, seed: 0 };
        emit(Case::new(write_req("batch", &req))
            .tag("batch:all-sizes")
            .tag_if(nfiles == 1, "batch:single-file")
            .tag_if(has_empty, "batch:empty-file")
            .nontrivial(npsm >= 2 && nfiles >= 2));
        if i % 5 == 2 {
            // batch size 0: `slice::chunks(0)` panics (what `sage` passes on a 1-CPU machine without --batch-size)
            let req0 = Req { cfg, files, configs: vec![(0, 1)], reps: 1, seed: 0 };
            emit(Case::new(write_req("batch", &req0)).tag("batch:size-0-panics").nontrivial(false));
        }
    }
}
