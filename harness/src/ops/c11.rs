//! C11 — (stub: no ops yet)
use super::Info;
use crate::proto::{Case, Rng, Tier, Toks};

pub const OPS: &[&str] = &[];
pub const INFO: Info = Info { rule: "", serial: false };

pub fn gen(_rng: &mut Rng, _tier: Tier, _emit: &mut dyn FnMut(Case)) {}

pub fn exec(_op: &str, _t: &mut Toks) -> Option<String> {
    None
}
