//! C17 — `sage_cloudpath::mgf::MgfReader::parse`
//!
//!   mgf    fid h:text [k (h:token 0|1 u32)…] [m codepoint…]  ->  ok [n spectrum…] | err | err:utf8 | panic
//!   mgfraw (same format; the text is a mutated / hand-made byte string, possibly not UTF-8)
//!
//! `text` is the document handed to the reader. The token table lists every substring the reader could
//! hand to `str::parse::<f32>` (over-approximated: per trimmed line, everything after the first `=`,
//! and every ASCII-whitespace separated column of the line and of that remainder) together with the
//! result of `str::parse::<f32>` (the one trusted primitive: the Lean model never parses decimal text).
//! The code point list holds the non-ASCII characters of the text for which `char::is_numeric` holds
//! (second trusted primitive, a Unicode table). `exec` ignores both lists.
//!
//!   mgffile fid style h:text [table] [codepoints]  ->  file <reply> direct <reply>
//!          the text is written to a per-run temporary file whose name ends in STYLES[style] (`.mgf`, `.MGF`,
//!          `.mgf.gz`, `.MGF.GZ`, `.mgf.Gz`; gzip-compressed with flate2 where the name says so), read back through
//!          `sage_cloudpath::util::read_spectra(path, fid, ..)` (path -> FileFormat by extension -> CloudPath::read
//!          with the gzip-by-extension heuristic -> read_to_string -> MgfReader::parse) and deleted; `direct` is
//!          MgfReader::parse on the same bytes. reply classes of the file part: ok … | err:utf8 (io error
//!          InvalidData from read_to_string) | err:io | err:other | panic
//!
//!   mgfbig fid style crlf nblocks pad a b [k h:pepmass-token…] [h:header-line…] [m [h:template-line…]…] [table] [codepoints]
//!          ->  file ok n total rec… | file err:… | file panic      followed by      direct ok n total
//!          LARGE files through the same file route, described by a small request: the text is (every line ended by LF,
//!          or CRLF when crlf=1) the header lines, the comment line `#` + pad×`x`, then for i in 0..nblocks the block
//!          `BEGIN IONS`, the lines of template[((i*a+b) % 1000003) % m] with byte 0x01 replaced by the decimal i and
//!          byte 0x02 by pepmass-token[i % k], `END IONS`, and an empty line. Both sides expand the same description.
//!          rec := fid h:id np (np × opt charge) window-of-first-precursor fnv1a64(canonical spectrum text);
//!          total := fnv1a64 of the recs' digests joined by one space. `direct` = MgfReader::parse on the same bytes.
//!
//!   spectrum := fid level h:id [p (u32 mz, opt u32 intensity, opt charge, window, sref?, opt u32 iim)…]
//!               repr u32 rt u32 iit u32 tic [n u32 mz…] [n u32 intensity…] mobility?
//!   window   := 0 | 1 da|ppm|pct u32 lo u32 hi
//! NaNs are printed as the canonical quiet NaN (Lean's `Float32.toBits` canonicalises too).
use super::Info;
use crate::proto::{Case, Out, Rng, Tier, Toks};
use sage_cloudpath::mgf::MgfReader;
use sage_core::mass::Tolerance;
use sage_core::spectrum::{RawSpectrum, Representation};

pub const OPS: &[&str] = &["mgf", "mgfraw", "mgffile", "mgfbig"];
pub const INFO: Info = Info {
    rule: "mgf: structured MGF documents (header CHARGE/TOL/TOLU present/absent/repeated, junk and comment \
           lines (# ; !), blank lines, 0-5 blocks with fields in random order, per-block CHARGE/TOL/TOLU \
           overrides, 0-3 PEPMASS lines with/without intensity, peaks with/without/with rejected intensity, \
           CHARGE forms '2+' '2+ and 3+' '3' '' 'unknown' Unicode digits, TOLU Da/ppm/other, numeric tokens \
           from a table incl. inf/NaN/-0/1e39/malformed, LF/CRLF/mixed endings, ASCII+Unicode indentation, \
           missing END IONS, nested BEGIN IONS, field lines between blocks) + each multi-block document again \
           with its blocks permuted + directed cases (old defects, override-no-leak, first-block defaults) + \
           exhaustive line sequences over 12 line kinds (BEGIN, END, TITLE, PEPMASS, CHARGE, TOL, TOLU, peak, RT, peak with rejected intensity, rejected PEPMASS, CHARGE without digit) up to length 4 (quick) / 5 (thorough); \
           mgfraw: byte-level mutations of such documents (truncation at every kind of position, byte flips, \
           inserted bytes incl. NUL/0xFF/CR/Unicode digits, dropped/duplicated/swapped lines), empty and \
           whitespace-only files, no BEGIN IONS, invalid UTF-8. mgffile: structured, mutated and invalid-UTF-8 documents (and directed ones: empty file, single block, old-defect \
           witnesses) written to a temp file under each of the five name styles .mgf .MGF .mgf.gz .MGF.GZ .mgf.Gz (all five \
           are read correctly by the unchanged code: FileFormat lower-cases the path, the gzip heuristic lower-cases the \
           extension), gzip-compressed where the name says so, read back through util::read_spectra with file ids 0..999 \
           and compared with the direct parse. mgfbig: LARGE files through the same file route, described by a small request expanded identically on both sides \
           (header CHARGE/TOL/TOLU; 5-11 block templates, most without CHARGE/TOL/TOLU of their own, own-CHARGE / own-TOL-TOLU / \
           two-PEPMASS / non-ASCII-title / indented / no-PEPMASS (rejected) templates sprinkled in by a pseudo-random schedule; \
           index-dependent title, pepmass cycling through 1-11 tokens; ~35-45 peaks per block): 24 KiB and 150 KiB files with \
           the 8 KiB / 16 KiB / 64 KiB / 128 KiB offsets and 1.1 MiB (quick: 2; thorough: 8), 2.5 MiB (6), 5 MiB (4) files \
           (2,000-8,000 blocks) with the 1 / 2 / 4 MiB offsets aligned, via a padding comment line, inside or just before \
           END IONS / BEGIN IONS, inside a PEPMASS line, inside a multi-byte UTF-8 character, or between CR and LF; LF and \
           CRLF; plain and gzip under all five name styles; file ids 0-999. non-trivial = document contains at least one \
           BEGIN IONS and one END IONS line; distinct by request",
    serial: false,
};

// ------------------------------------------------------------------------------------------- exec

fn fb(x: f32) -> u32 {
    if x.is_nan() {
        0x7fc0_0000
    } else {
        x.to_bits()
    }
}

fn render_spectrum(o: &mut Out, s: &RawSpectrum) {
    o.n(s.file_id).n(s.ms_level).s(&s.id);
    o.n(s.precursors.len());
    for p in &s.precursors {
        o.n(fb(p.mz));
        match p.intensity {
            Some(i) => o.n(1).n(fb(i)),
            None => o.n(0),
        };
        match p.charge {
            Some(c) => o.n(1).n(c),
            None => o.n(0),
        };
        match p.isolation_window {
            None => o.n(0),
            Some(Tolerance::Da(lo, hi)) => o.n(1).raw("da").n(fb(lo)).n(fb(hi)),
            Some(Tolerance::Ppm(lo, hi)) => o.n(1).raw("ppm").n(fb(lo)).n(fb(hi)),
            Some(Tolerance::Pct(lo, hi)) => o.n(1).raw("pct").n(fb(lo)).n(fb(hi)),
        };
        o.b(p.spectrum_ref.is_some());
        match p.inverse_ion_mobility {
            Some(i) => o.n(1).n(fb(i)),
            None => o.n(0),
        };
    }
    o.raw(match s.representation {
        Representation::Centroid => "c",
        Representation::Profile => "p",
    });
    o.n(fb(s.scan_start_time)).n(fb(s.ion_injection_time)).n(fb(s.total_ion_current));
    o.n(s.mz.len());
    for &m in &s.mz {
        o.n(fb(m));
    }
    o.n(s.intensity.len());
    for &i in &s.intensity {
        o.n(fb(i));
    }
    o.b(s.mobility.is_some());
}

fn skip_tables(t: &mut Toks) -> Option<()> {
    // the two tables are for the model only
    let _ = t.list(|t| {
        let tok = t.bytes()?;
        let v = t.opt(|t| t.usize())?;
        Some((tok, v))
    })?;
    let _ = t.list(|t| t.usize())?;
    Some(())
}

fn render_ok(spectra: &[RawSpectrum]) -> String {
    let mut o = Out::new();
    o.raw("ok").n(spectra.len());
    for s in spectra {
        render_spectrum(&mut o, s);
    }
    o.finish()
}

fn direct(fid: usize, bytes: Vec<u8>) -> String {
    // sage reads the file with `read_to_string`: invalid UTF-8 is an I/O error before the reader runs
    let text = match String::from_utf8(bytes) {
        Ok(s) => s,
        Err(_) => return "err:utf8".into(),
    };
    match MgfReader::with_file_id(fid).parse(text) {
        Ok(spectra) => render_ok(&spectra),
        Err(_) => "err".into(),
    }
}

pub const STYLES: &[&str] = &[".mgf", ".MGF", ".mgf.gz", ".MGF.GZ", ".mgf.Gz"];
static FILE_COUNTER: std::sync::atomic::AtomicUsize = std::sync::atomic::AtomicUsize::new(0);

/// the route `sage` itself takes: path -> `read_spectra`; Err = reply class
fn file_route_raw(fid: usize, style: usize, bytes: &[u8]) -> Result<Vec<RawSpectrum>, String> {
    use std::io::Write;
    let ext = STYLES[style % STYLES.len()];
    let k = FILE_COUNTER.fetch_add(1, std::sync::atomic::Ordering::Relaxed);
    let path = std::env::temp_dir().join(format!("sage-verif-c17-{}-{}{}", std::process::id(), k, ext));
    let payload: Vec<u8> = if ext.to_ascii_lowercase().ends_with(".gz") {
        let mut enc = flate2::write::GzEncoder::new(Vec::new(), flate2::Compression::default());
        enc.write_all(bytes).expect("gzip");
        enc.finish().expect("gzip")
    } else {
        bytes.to_vec()
    };
    std::fs::write(&path, payload).expect("write temp file");
    let p = path.to_str().expect("utf8 temp path").to_string();
    let r = std::panic::catch_unwind(|| {
        sage_cloudpath::util::read_spectra(p, fid, None, sage_cloudpath::tdf::BrukerProcessingConfig::default(), false)
    });
    let _ = std::fs::remove_file(&path);
    match r {
        Err(_) => Err("panic".into()),
        Ok(Ok(spectra)) => Ok(spectra),
        Ok(Err(sage_cloudpath::Error::IO(e))) if e.kind() == std::io::ErrorKind::InvalidData => Err("err:utf8".into()),
        Ok(Err(sage_cloudpath::Error::IO(_))) => Err("err:io".into()),
        Ok(Err(sage_cloudpath::Error::MGF(_))) => Err("err".into()),
        Ok(Err(_)) => Err("err:other".into()),
    }
}

fn file_route(fid: usize, style: usize, bytes: &[u8]) -> String {
    match file_route_raw(fid, style, bytes) {
        Ok(spectra) => render_ok(&spectra),
        Err(class) => class,
    }
}

// ------------------------------------------------------------------------------------------- large files

fn fnv(bytes: &[u8]) -> u64 {
    let mut h: u64 = 0xcbf2_9ce4_8422_2325;
    for &b in bytes {
        h = (h ^ b as u64).wrapping_mul(0x0000_0100_0000_01b3);
    }
    h
}

#[derive(Clone)]
struct Big {
    crlf: bool,
    nblocks: usize,
    pad: usize,
    a: usize,
    b: usize,
    pep: Vec<String>,
    header: Vec<String>,
    templates: Vec<Vec<String>>,
}

fn big_line(out: &mut Vec<u8>, line: &str, i: usize, pep: &[String]) {
    for &c in line.as_bytes() {
        match c {
            1 => out.extend_from_slice(i.to_string().as_bytes()),
            2 => {
                if !pep.is_empty() {
                    out.extend_from_slice(pep[i % pep.len()].as_bytes())
                }
            }
            _ => out.push(c),
        }
    }
}

fn big_render(d: &Big) -> Vec<u8> {
    let eol: &[u8] = if d.crlf { b"\r\n" } else { b"\n" };
    let mut out = Vec::new();
    for h in &d.header {
        out.extend_from_slice(h.as_bytes());
        out.extend_from_slice(eol);
    }
    out.push(b'#');
    out.extend(std::iter::repeat(b'x').take(d.pad));
    out.extend_from_slice(eol);
    let m = d.templates.len().max(1);
    for i in 0..d.nblocks {
        out.extend_from_slice(b"BEGIN IONS");
        out.extend_from_slice(eol);
        if !d.templates.is_empty() {
            for l in &d.templates[((i * d.a + d.b) % 1_000_003) % m] {
                big_line(&mut out, l, i, &d.pep);
                out.extend_from_slice(eol);
            }
        }
        out.extend_from_slice(b"END IONS");
        out.extend_from_slice(eol);
        out.extend_from_slice(eol);
    }
    out
}

fn big_request(fid: usize, style: usize, d: &Big) -> String {
    let mut o = Out::new();
    o.raw("mgfbig").n(fid).n(style).b(d.crlf).n(d.nblocks).n(d.pad).n(d.a).n(d.b);
    o.n(d.pep.len());
    for t in &d.pep {
        o.s(t);
    }
    o.n(d.header.len());
    for t in &d.header {
        o.s(t);
    }
    o.n(d.templates.len());
    for t in &d.templates {
        o.n(t.len());
        for l in t {
            o.s(l);
        }
    }
    // token table / numeric code points from a sample: header + every template with every pepmass token
    let mut sample = String::new();
    for h in &d.header {
        sample.push_str(h);
        sample.push('\n');
    }
    for t in &d.templates {
        for k in 0..d.pep.len().max(1) {
            for l in t {
                let mut v = Vec::new();
                big_line(&mut v, l, k, &d.pep);
                sample.push_str(std::str::from_utf8(&v).expect("utf8 template"));
                sample.push('\n');
            }
        }
    }
    let tbl = token_table(&sample);
    o.n(tbl.len());
    for (tok, v) in &tbl {
        o.s(tok);
        match v {
            Some(b) => o.n(1).n(*b),
            None => o.n(0),
        };
    }
    let mut nums: Vec<u32> = sample.chars().filter(|c| !c.is_ascii() && c.is_numeric()).map(|c| c as u32).collect();
    nums.sort();
    nums.dedup();
    o.n(nums.len());
    for c in nums {
        o.n(c);
    }
    o.finish()
}

fn big_parse(t: &mut Toks) -> Option<(usize, Big)> {
    let style = t.usize()?;
    let crlf = t.bool()?;
    let nblocks = t.usize()?;
    let pad = t.usize()?;
    let a = t.usize()?;
    let b = t.usize()?;
    let pep = t.list(|t| t.string())?;
    let header = t.list(|t| t.string())?;
    let templates = t.list(|t| t.list(|t| t.string()))?;
    skip_tables(t)?;
    Some((style, Big { crlf, nblocks, pad, a, b, pep, header, templates }))
}

/// compact reply for a large result: `ok n total [rec…]`
fn big_reply(spectra: &[RawSpectrum], with_recs: bool) -> String {
    let mut recs = Out::new();
    let mut digests = String::new();
    for s in spectra {
        let mut o = Out::new();
        render_spectrum(&mut o, s);
        let d = fnv(o.finish().as_bytes());
        if !digests.is_empty() {
            digests.push(' ');
        }
        digests.push_str(&d.to_string());
        if with_recs {
            recs.n(s.file_id).s(&s.id).n(s.precursors.len());
            for p in &s.precursors {
                match p.charge {
                    Some(c) => recs.n(1).n(c),
                    None => recs.n(0),
                };
            }
            match s.precursors.first().and_then(|p| p.isolation_window) {
                None => recs.n(0),
                Some(Tolerance::Da(lo, hi)) => recs.n(1).raw("da").n(fb(lo)).n(fb(hi)),
                Some(Tolerance::Ppm(lo, hi)) => recs.n(1).raw("ppm").n(fb(lo)).n(fb(hi)),
                Some(Tolerance::Pct(lo, hi)) => recs.n(1).raw("pct").n(fb(lo)).n(fb(hi)),
            };
            recs.n(d);
        }
    }
    let mut o = Out::new();
    o.raw("ok").n(spectra.len()).n(fnv(digests.as_bytes()));
    let r = recs.finish();
    if !r.is_empty() {
        o.raw(&r);
    }
    o.finish()
}

pub fn exec(op: &str, t: &mut Toks) -> Option<String> {
    let fid = t.usize()?;
    if op == "mgfbig" {
        let (style, d) = big_parse(t)?;
        let bytes = big_render(&d);
        let f = match file_route_raw(fid, style, &bytes) {
            Ok(spectra) => big_reply(&spectra, true),
            Err(class) => class,
        };
        let dr = match String::from_utf8(bytes) {
            Err(_) => "err:utf8".to_string(),
            Ok(text) => match MgfReader::with_file_id(fid).parse(text) {
                Ok(spectra) => big_reply(&spectra, false),
                Err(_) => "err".to_string(),
            },
        };
        return Some(format!("file {f} direct {dr}"));
    }
    if op == "mgffile" {
        let style = t.usize()?;
        let bytes = t.bytes()?;
        skip_tables(t)?;
        let f = file_route(fid, style, &bytes);
        let d = direct(fid, bytes);
        return Some(format!("file {f} direct {d}"));
    }
    let bytes = t.bytes()?;
    skip_tables(t)?;
    Some(direct(fid, bytes))
}

// ------------------------------------------------------------------------------------------- requests

/// every substring the reader could pass to `parse::<f32>`, with the primitive's answer
fn token_table(text: &str) -> Vec<(String, Option<u32>)> {
    let mut seen = std::collections::HashSet::new();
    let mut out = Vec::new();
    let mut add = |s: &str, out: &mut Vec<(String, Option<u32>)>| {
        if seen.insert(s.to_string()) {
            out.push((s.to_string(), s.parse::<f32>().ok().map(fb)));
        }
    };
    for line in text.split('\n') {
        let l = line.trim();
        for tok in l.split_ascii_whitespace().take(2) {
            add(tok, &mut out);
        }
        if let Some(i) = l.find('=') {
            let rest = &l[i + 1..];
            add(rest, &mut out);
            for tok in rest.split_ascii_whitespace().take(2) {
                add(tok, &mut out);
            }
        }
    }
    out
}

fn request(op: &str, fid: usize, bytes: &[u8]) -> String {
    request_styled(op, fid, None, bytes)
}

fn request_styled(op: &str, fid: usize, style: Option<usize>, bytes: &[u8]) -> String {
    let mut o = Out::new();
    o.raw(op).n(fid);
    if let Some(st) = style {
        o.n(st);
    }
    o.bytes(bytes);
    match std::str::from_utf8(bytes) {
        Ok(text) => {
            let tbl = token_table(text);
            o.n(tbl.len());
            for (tok, v) in &tbl {
                o.s(tok);
                match v {
                    Some(b) => o.n(1).n(*b),
                    None => o.n(0),
                };
            }
            let mut nums: Vec<u32> = text.chars().filter(|c| !c.is_ascii() && c.is_numeric()).map(|c| c as u32).collect();
            nums.sort();
            nums.dedup();
            o.n(nums.len());
            for c in nums {
                o.n(c);
            }
        }
        Err(_) => {
            o.n(0).n(0);
        }
    }
    o.finish()
}

// ------------------------------------------------------------------------------------------- generator

const NUM_PEAKY: &[&str] = &[
    "983.6", "846.60", "73", "1e3", "1E-2", "5.", "367.069682741984", "56700.5185546875", "0", "0.0", "16777217",
    "0.1", "1e-46", "25", "0.8963232289", "10", "3", "100.5", "1144.66272", "1e39", "3.4028236e38", "60", "120",
    "4608.2421875", "228.3407898",
];
const NUM_OTHER: &[&str] = &[".5", "+7.25", "-3", "-0", "-0.0", "inf", "-inf", "NaN", "nan", "infinity", "-nan", "+.5e1", "-1e39"];
const NUM_BAD: &[&str] = &["abc", "12abc", "1_000", "0x10", "１２", "1,5", "--1", "1e", "e5", ".", "٣", "2²", "1f32", "½"];
const CHARGES: &[&str] = &[
    "2+", "3+", "2+ and 3+", "3", "1+, 2+ and 3+", "2-", "12", "4+", "1+", "2+,3+,4+", "", "unknown", "٣+", "2+ and ٣+", "0", "+", "2+ and 3+ and 2+",
];
const TOLUS: &[&str] = &["Da", "ppm", "Da", "ppm", "da", "PPM", "mmu", "%", "", " Da", "ppm ", "Dalton", "ppmx"];
const TITLES: &[&str] = &[
    "spectrum 0", "a", "Spectrum 1", "b", "x=y", "τίτλος ٣", "BEGIN IONS", "1", "The first peptide - dodgy", "", "END IONS?", "scan=17 z=2",
];
const JUNK: &[&str] = &[
    "# a comment", "; c", "! c", "COM=10 pmol digest", "SCANS=3", "SEQ=n-AC[DHK]", "ITOL=1", "ITOLU=Da", "MASS=Monoisotopic",
    "CHARGE", "TOL", "END", "BEGIN", "begin ions", "end ions", "TITLE", "PEPMASS 1", "#CHARGE=5+", ";TOL=3", "!TOLU=Da",
    "RTINSECONDS", "USERNAME=Lou Scene", "=", "=5", "###", "IT_MODS=Oxidation (M)", "charge=2+", "Tol=5",
];
const HEADER_NUMERIC_JUNK: &[&str] = &["1024.6", "2321 seq(n-ACTL) comp(2[C])", "1896 ions(345.6:24.7)"];
const UNI_NUMERIC_LINES: &[&str] = &["٣00 5", "² 1", "½ 3", "Ⅷ", "１００ 5", "٣", "०.5 1"];

fn num(rng: &mut Rng, p_other: u32, p_bad: u32) -> &'static str {
    if rng.chance(p_bad, 100) {
        *rng.pick(NUM_BAD)
    } else if rng.chance(p_other, 100) {
        *rng.pick(NUM_OTHER)
    } else {
        *rng.pick(NUM_PEAKY)
    }
}

#[derive(Default, Clone)]
struct Flags {
    header_charge: bool,
    header_tol: bool,
    block_override: bool,
    first_block_default: bool,
    multi_pepmass: bool,
    peak_no_intensity: bool,
    bad_token: bool,
    unterminated: bool,
    nested_begin: bool,
    between_fields: bool,
    unicode: bool,
    complete_blocks: usize,
}

/// one block body (without BEGIN/END), returns (lines, has own charge/tol/tolu)
fn gen_block(rng: &mut Rng, fl: &mut Flags, wellformed: bool) -> (Vec<String>, bool) {
    let mut fields: Vec<String> = Vec::new();
    let p_bad = if wellformed { 0 } else { 8 };
    let p_other = if wellformed { 0 } else { 10 };
    if rng.chance(92, 100) {
        let mut t = *rng.pick(TITLES);
        if wellformed && t.is_empty() {
            t = "t";
        }
        fields.push(format!("TITLE={t}"));
        if !wellformed && rng.chance(5, 100) {
            fields.push(format!("TITLE={}", rng.pick(TITLES)));
        }
    }
    let npm = *rng.pick(&[1usize, 1, 1, 1, 1, 0, 2, 3]);
    if npm > 1 {
        fl.multi_pepmass = true;
    }
    for _ in 0..npm {
        let style = rng.below(10);
        let a = num(rng, p_other, p_bad);
        let b = num(rng, p_other, p_bad * 2);
        fields.push(match style {
            0..=4 => format!("PEPMASS={a}"),
            5..=7 => format!("PEPMASS={a} {b}"),
            8 => format!("PEPMASS={a}\t{b}  17"),
            _ => {
                if wellformed {
                    format!("PEPMASS={a} {b}")
                } else {
                    (*rng.pick(&["PEPMASS=", "PEPMASS= ", "PEPMASS= 500", "PEPMASS=abc 5", "PEPMASS=5 abc"])).to_string()
                }
            }
        });
    }
    let mut own = false;
    if rng.chance(30, 100) {
        own = true;
        fields.push(format!("CHARGE={}", if wellformed { *rng.pick(&CHARGES[..10]) } else { *rng.pick(CHARGES) }));
    }
    if rng.chance(30, 100) {
        own = true;
        fields.push(format!("TOL={}", num(rng, p_other + 5, p_bad)));
    }
    if rng.chance(30, 100) {
        own = true;
        fields.push(format!("TOLU={}", if wellformed { *rng.pick(&TOLUS[..4]) } else { *rng.pick(TOLUS) }));
    }
    if rng.chance(50, 100) {
        fields.push(format!("RTINSECONDS={}", num(rng, p_other, p_bad)));
    }
    for _ in 0..rng.below(3) {
        fields.push((*rng.pick(JUNK)).to_string());
    }
    if rng.chance(20, 100) {
        fields.push(String::new());
    }
    if !wellformed && rng.chance(4, 100) {
        fl.nested_begin = true;
        fields.push("BEGIN IONS".into());
    }
    rng.shuffle(&mut fields);
    let npk = *rng.pick(&[0usize, 1, 1, 2, 3, 4, 6]);
    let mut peaks: Vec<String> = Vec::new();
    for _ in 0..npk {
        let style = rng.below(20);
        let m = if !wellformed && rng.chance(5, 100) { num(rng, 50, 30) } else { *rng.pick(NUM_PEAKY) };
        let i = num(rng, p_other, p_bad);
        peaks.push(match style {
            0..=11 => format!("{m} {i}"),
            12..=15 => {
                fl.peak_no_intensity = true;
                m.to_string()
            }
            16 => {
                fl.peak_no_intensity = true;
                format!("{m} ")
            }
            17 => format!("{m}\t{i}"),
            18 => format!("{m}  {i} 2+"),
            _ => {
                if wellformed {
                    format!("{m} {i}")
                } else {
                    fl.unicode = true;
                    (*rng.pick(UNI_NUMERIC_LINES)).to_string()
                }
            }
        });
    }
    let mut lines = fields;
    if rng.chance(80, 100) {
        lines.extend(peaks);
    } else {
        lines.extend(peaks);
        rng.shuffle(&mut lines);
    }
    (lines, own)
}

struct Structured {
    header: Vec<String>,
    blocks: Vec<Vec<String>>, // each incl. BEGIN/END (END possibly missing) and trailing inter-block lines
}

fn gen_structured(rng: &mut Rng, fl: &mut Flags, wellformed: bool, max_blocks: usize) -> Structured {
    let mut header: Vec<String> = Vec::new();
    for _ in 0..rng.below(4) {
        header.push((*rng.pick(JUNK)).to_string());
    }
    if rng.chance(50, 100) {
        fl.header_charge = true;
        header.push(format!("CHARGE={}", if wellformed { *rng.pick(&CHARGES[..10]) } else { *rng.pick(CHARGES) }));
        if rng.chance(10, 100) {
            header.push(format!("CHARGE={}", rng.pick(&CHARGES[..10])));
        }
    }
    if rng.chance(45, 100) {
        fl.header_tol = true;
        header.push(format!("TOL={}", num(rng, 5, if wellformed { 0 } else { 8 })));
    }
    if rng.chance(45, 100) {
        fl.header_tol = true;
        header.push(format!("TOLU={}", if wellformed { *rng.pick(&TOLUS[..4]) } else { *rng.pick(TOLUS) }));
    }
    if !wellformed && rng.chance(15, 100) {
        header.push((*rng.pick(HEADER_NUMERIC_JUNK)).to_string());
    }
    if !wellformed && rng.chance(10, 100) {
        // query-only fields in the header are ignored
        header.push((*rng.pick(&["TITLE=header title", "PEPMASS=500", "RTINSECONDS=60", "END IONS", "100 5"])).to_string());
    }
    if rng.chance(15, 100) {
        header.push(String::new());
    }
    rng.shuffle(&mut header);
    let nb = rng.below(max_blocks + 1);
    let mut blocks = Vec::new();
    for bi in 0..nb {
        let (body, own) = gen_block(rng, fl, wellformed);
        if own {
            fl.block_override = true;
        }
        if bi == 0 && !own && (fl.header_charge || fl.header_tol) {
            fl.first_block_default = true;
        }
        let mut b = vec![if !wellformed && rng.chance(3, 100) { "BEGIN IONS trailing".to_string() } else { "BEGIN IONS".to_string() }];
        b.extend(body);
        if wellformed || rng.chance(94, 100) {
            b.push(if !wellformed && rng.chance(3, 100) { "END IONS trailing".to_string() } else { "END IONS".to_string() });
            fl.complete_blocks += 1;
        } else {
            fl.unterminated = true;
        }
        // between blocks
        if rng.chance(40, 100) {
            b.push(String::new());
        }
        if rng.chance(15, 100) {
            b.push((*rng.pick(JUNK)).to_string());
        }
        if !wellformed && rng.chance(6, 100) {
            fl.between_fields = true;
            b.push((*rng.pick(&["CHARGE=5+", "TITLE=leak", "TOL=7", "TOLU=Da", "PEPMASS=111", "100 5", "RTINSECONDS=600"])).to_string());
        }
        blocks.push(b);
    }
    Structured { header, blocks }
}

/// lines -> text with a choice of terminators and indentation
fn render(rng: &mut Rng, lines: &[String], fl: &mut Flags) -> String {
    let term_mode = rng.below(10); // 0..=6 LF, 7..=8 CRLF, 9 mixed
    let indent_mode = rng.below(8); // 0..=3 none, 4..=5 eight spaces, 6..=7 random
    const INDENTS: &[&str] = &["", " ", "\t", "  ", "\u{a0}", "\u{3000}", " \t ", "\u{2003}"];
    let mut s = String::new();
    let n = lines.len();
    for (k, l) in lines.iter().enumerate() {
        match indent_mode {
            0..=3 => {}
            4..=5 => s.push_str("        "),
            _ => {
                let i = *rng.pick(INDENTS);
                if !i.is_ascii() {
                    fl.unicode = true;
                }
                s.push_str(i)
            }
        }
        s.push_str(l);
        if indent_mode >= 6 && rng.chance(20, 100) {
            s.push_str(*rng.pick(INDENTS));
        }
        let last = k + 1 == n;
        if last && rng.chance(30, 100) {
            break;
        }
        match term_mode {
            0..=6 => s.push('\n'),
            7..=8 => s.push_str("\r\n"),
            _ => s.push_str(*rng.pick(&["\n", "\r\n", "\n", "\r\n", "\n\n", "\r"])),
        }
    }
    if !s.is_ascii() {
        fl.unicode = true;
    }
    s
}

fn flat(st: &Structured) -> Vec<String> {
    let mut v = st.header.clone();
    for b in &st.blocks {
        v.extend(b.iter().cloned());
    }
    v
}

fn tagged(c: Case, fl: &Flags) -> Case {
    c.tag_if(fl.header_charge, "header-charge")
        .tag_if(fl.header_tol, "header-tol/tolu")
        .tag_if(fl.block_override, "block-override")
        .tag_if(fl.first_block_default, "first-block-uses-header-defaults")
        .tag_if(fl.multi_pepmass, "multi-pepmass")
        .tag_if(fl.peak_no_intensity, "peak-without-intensity")
        .tag_if(fl.unterminated, "missing-END-IONS")
        .tag_if(fl.nested_begin, "nested-BEGIN-IONS")
        .tag_if(fl.between_fields, "field-lines-between-blocks")
        .tag_if(fl.unicode, "non-ascii")
        .tag_if(fl.complete_blocks == 0, "no-complete-block")
        .tag_if(fl.complete_blocks >= 2, "multi-block")
}

fn nontrivial_text(b: &[u8]) -> bool {
    let s = String::from_utf8_lossy(b);
    s.contains("BEGIN IONS") && s.contains("END IONS")
}

fn emit_doc(emit: &mut dyn FnMut(Case), op: &str, fid: usize, bytes: &[u8], fl: &Flags, tags: &[&'static str]) {
    let mut c = tagged(Case::new(request(op, fid, bytes)), fl);
    for t in tags {
        c = c.tag(t);
    }
    emit(c.nontrivial(nontrivial_text(bytes)));
}

const KINDS: &[&str] = &[
    "BEGIN IONS", "END IONS", "TITLE=a", "PEPMASS=500.5 7", "CHARGE=2+ and 3+", "TOL=1.5", "TOLU=Da", "100.5 2", "RTINSECONDS=120", "100.5 x",
    "PEPMASS=abc", "CHARGE=",
];

fn directed() -> Vec<(&'static str, String)> {
    let b = |title: &str, extra: &str| format!("BEGIN IONS\nTITLE={title}\nPEPMASS=500.5\n{extra}100.5 2\nEND IONS\n");
    vec![
        ("old-defect-no-begin", "TITLE=a\n".to_string()),
        ("old-defect-no-begin", "".to_string()),
        ("old-defect-no-begin", "\n".to_string()),
        ("old-defect-no-begin", "CHARGE=2+\nTOL=1\nTOLU=Da\n".to_string()),
        ("old-defect-no-begin", "100 5\nEND IONS\n".to_string()),
        ("old-defect-first-block", format!("CHARGE=2+ and 3+\n{}{}", b("a", ""), b("b", ""))),
        ("old-defect-first-block", format!("TOL=10\nTOLU=ppm\n{}{}", b("a", ""), b("b", ""))),
        ("old-defect-first-block", format!("CHARGE=2+\nTOL=0.5\nTOLU=Da\n{}", b("only", ""))),
        ("override-no-leak", format!("CHARGE=2+\n{}{}{}", b("a", ""), b("b", "CHARGE=4+\nTOL=3\nTOLU=Da\n"), b("c", ""))),
        ("override-no-leak", format!("{}{}", b("a", "CHARGE=4+\nTOL=3\nTOLU=Da\nRTINSECONDS=60\n"), b("b", ""))),
        ("override-no-leak", format!("TOL=1\nTOLU=ppm\n{}{}", b("a", "TOLU=Da\n"), b("b", "TOL=2\n"))),
        ("override-no-leak", format!("{}{}", b("a", "PEPMASS=600 5\n"), b("b", ""))),
        ("rejected-block-no-leak", format!("BEGIN IONS\nTITLE=x\nCHARGE=4+\n100 1\nEND IONS\n{}", b("b", ""))),
        ("rejected-block-no-leak", format!("BEGIN IONS\nPEPMASS=7\n100 1\n200 abc\nEND IONS\n{}", b("b", ""))),
        ("charge-forms", format!("{}{}{}{}", b("a", "CHARGE=2+\n"), b("b", "CHARGE=3\n"), b("c", "CHARGE=12\n"), b("d", "CHARGE=2+ and 3+\n"))),
        ("charge-no-digit", format!("{}{}", b("a", "CHARGE=\n"), b("b", "CHARGE=unknown\n"))),
        ("charge-no-digit", format!("CHARGE=\n{}{}", b("a", ""), b("b", "CHARGE=1+\n"))),
        ("tolu-forms", format!("TOL=2\n{}{}{}{}", b("a", "TOLU=Da\n"), b("b", "TOLU=ppm\n"), b("c", "TOLU=mmu\n"), b("d", ""))),
        ("tol-negative", format!("{}{}", b("a", "TOL=-3\nTOLU=Da\n"), b("b", "TOL=NaN\nTOLU=ppm\n"))),
        ("pepmass-empty", format!("{}", b("a", "PEPMASS=\n"))),
        ("pepmass-empty", "BEGIN IONS\nTITLE=a\nPEPMASS=\n100 1\nEND IONS\n".to_string()),
        ("rt", format!("{}{}{}", b("a", "RTINSECONDS=60\n"), b("b", "RTINSECONDS=abc\n"), b("c", "RTINSECONDS=0.8963232289\n"))),
        ("tic-sum", "BEGIN IONS\nTITLE=a\nPEPMASS=1\n1 -0\nEND IONS\nBEGIN IONS\nTITLE=b\nPEPMASS=1\n1 16777216\n2 1\n3 1\nEND IONS\nBEGIN IONS\nTITLE=c\nPEPMASS=1\n1 inf\n2 -inf\nEND IONS\n".to_string()),
        ("sage-test-file", "\n        BEGIN IONS\n        TITLE=spectrum 0\n        RTINSECONDS=0.8963232289\n        PEPMASS=367.069682741984 56700.5185546875\n        CHARGE=2+ and 3+\n        TOL=10\n        TOLU=ppm\n        148.2041016 \n        169.5001831 4608.2421875\n        END IONS\n        ".to_string()),
        ("crlf", "CHARGE=2+\r\nBEGIN IONS\r\nTITLE=a\r\nPEPMASS=5\r\n100 1\r\nEND IONS\r\n".to_string()),
        ("bare-cr", "CHARGE=2+\rBEGIN IONS\rTITLE=a\rPEPMASS=5\r100 1\rEND IONS\r".to_string()),
        ("unicode-first-char", "BEGIN IONS\nTITLE=a\nPEPMASS=5\n٣00 5\n100 1\n² 1\nEND IONS\n".to_string()),
        ("prefix-boundaries", "BEGIN IONSX\nTITLE=a\nPEPMASS=5\n100 1\nEND IONSX\n".to_string()),
        ("prefix-boundaries", "BEGIN ION\nTITLE=a\nPEPMASS=5\n100 1\nEND IONS\n".to_string()),
        ("prefix-boundaries", " BEGIN IONS \n TITLE= a \n PEPMASS= 5\n 100 1\n END IONS \n".to_string()),
        ("title-no-leak", format!("{}BEGIN IONS\nPEPMASS=7\n100 1\nEND IONS\n{}", b("a", ""), b("c", ""))),
        ("rt-no-leak", format!("{}{}", b("a", "RTINSECONDS=120\n"), b("b", ""))),
        ("peaks-no-leak", format!("BEGIN IONS\nTITLE=x\n300 3\n400 4\nEND IONS\n{}", b("b", ""))),
        ("header-last-wins", format!("CHARGE=1+\nTOL=abc\nTOL=2\nTOLU=ppm\nCHARGE=2+\nTOL=xyz\nTOLU=Da\n{}", b("a", ""))),
        ("header-query-fields-ignored", format!("TITLE=h\nPEPMASS=9\nRTINSECONDS=600\n300 3\nEND IONS\n{}", b("a", ""))),
        ("block-last-wins", b("a", "TITLE=a2\nCHARGE=2+\nCHARGE=3+\nTOL=1\nTOL=2\nTOLU=Da\nTOLU=ppm\nRTINSECONDS=60\nRTINSECONDS=120\n")),
        ("unicode-indent", "\u{3000}CHARGE=2+\u{a0}\n\u{2003}BEGIN IONS\n\u{a0}TITLE=a\u{3000}\n\u{85}PEPMASS=5\n\u{2028}100 1\nEND IONS\u{1680}\n".to_string()),
        ("peak-first-char", "BEGIN IONS\nTITLE=a\nPEPMASS=5\n.5 1\n-3 1\n+7.25 1\n5. 1\n1e3 1\ninf 1\nEND IONS\n".to_string()),
        ("rejected-intensity-drops-block", format!("{}{}", b("a", "200 abc\n"), b("b", ""))),
        ("tol-negative", format!("{}{}", b("a", "TOL=-3\nTOLU=ppm\n"), b("b", "TOL=-0\nTOLU=Da\n"))),
        ("unterminated", "BEGIN IONS\nTITLE=a\nPEPMASS=5\n100 1\n".to_string()),
        ("unterminated", format!("BEGIN IONS\nTITLE=a\nPEPMASS=5\n100 1\n{}", b("b", ""))),
    ]
}

fn mutate(rng: &mut Rng, base: &[u8]) -> (Vec<u8>, &'static str) {
    let mut v = base.to_vec();
    const INS: &[&[u8]] = &[
        b"\0", b"\xff", b"\r", b"=", b"7", b"\n", b" ", "٣".as_bytes(), "²".as_bytes(), "½".as_bytes(), b"\xc3", b"+", b"-", b".",
        b"e", b"BEGIN IONS\n", b"END IONS\n", "\u{a0}".as_bytes(), "\u{85}".as_bytes(), b"\x0b", b"\x0c", b"\x1c",
    ];
    match rng.below(9) {
        0 => {
            let k = rng.below(v.len() + 1);
            v.truncate(k);
            (v, "truncated")
        }
        1 => {
            // truncate right after / inside a line start
            let starts: Vec<usize> = (0..v.len()).filter(|&i| i == 0 || v[i - 1] == b'\n').collect();
            if let Some(&s) = starts.get(rng.below(starts.len().max(1))) {
                let extra = rng.below(6);
                v.truncate((s + extra).min(v.len()));
            }
            (v, "truncated-at-line")
        }
        2 => {
            if !v.is_empty() {
                let k = rng.below(v.len());
                v[k] ^= 1 << rng.below(8);
            }
            (v, "bit-flip")
        }
        3 | 4 => {
            let k = rng.below(v.len() + 1);
            let ins = *rng.pick(INS);
            let tail = v.split_off(k);
            v.extend_from_slice(ins);
            v.extend(tail);
            (v, "inserted-bytes")
        }
        5 => {
            if !v.is_empty() {
                let k = rng.below(v.len());
                let n = 1 + rng.below(4);
                let end = (k + n).min(v.len());
                v.drain(k..end);
            }
            (v, "deleted-bytes")
        }
        6 | 7 => {
            // line-level: drop / duplicate / swap
            let mut lines: Vec<Vec<u8>> = v.split(|&b| b == b'\n').map(|l| l.to_vec()).collect();
            let kind = rng.below(3);
            if lines.len() >= 2 {
                let i = rng.below(lines.len());
                let j = rng.below(lines.len());
                match kind {
                    0 => {
                        lines.remove(i);
                    }
                    1 => {
                        let l = lines[i].clone();
                        lines.insert(j, l);
                    }
                    _ => lines.swap(i, j),
                }
            }
            (lines.join(&b'\n'), ["dropped-line", "duplicated-line", "swapped-lines"][kind])
        }
        _ => {
            // remove every BEGIN IONS line
            let s = String::from_utf8_lossy(&v).replace("BEGIN IONS", if rng.chance(1, 2) { "" } else { "BEGIN_IONS" });
            (s.into_bytes(), "no-BEGIN-IONS")
        }
    }
}


// ------------------------------------------------------------------------------------------- large-file generator

const BIG_HEADERS: &[&[&str]] = &[
    &["COM=large file", "CHARGE=2+ and 3+", "TOL=10", "TOLU=ppm"],
    &["CHARGE=3+", "TOL=0.8", "TOLU=Da", "# header comment"],
    &["CHARGE=2+"],
    &["TOL=5", "TOLU=ppm", "MASS=Monoisotopic"],
    &["CHARGE=1+, 2+ and 3+", "TOLU=Da", "TOL=1.5"],
];
const BIG_PEP: &[&str] = &["400.25", "512.7", "983.6", "367.069682741984", "1084.9", "896.05", "623.33", "751.125", "445.12", "1200", "333.3"];

fn big_template(rng: &mut Rng, kind: usize, np: usize) -> Vec<String> {
    let mut v: Vec<String> = Vec::new();
    let peaks = |rng: &mut Rng, v: &mut Vec<String>, with_int: bool| {
        for _ in 0..np {
            let m = *rng.pick(NUM_PEAKY);
            if with_int {
                v.push(format!("{m} {}", rng.pick(NUM_PEAKY)));
            } else {
                v.push(m.to_string());
            }
        }
    };
    match kind {
        0 => {
            v.push("TITLE=blk \u{1}".into());
            v.push("PEPMASS=\u{2}".into());
            v.push(format!("RTINSECONDS={}", rng.pick(NUM_PEAKY)));
            peaks(rng, &mut v, true);
        }
        1 => {
            v.push("PEPMASS=\u{2} 1000.5".into());
            v.push("TITLE=scan=\u{1} plain".into());
            peaks(rng, &mut v, true);
        }
        2 => {
            v.push("TITLE=own charge \u{1}".into());
            v.push("CHARGE=4+".into());
            v.push("PEPMASS=\u{2}".into());
            peaks(rng, &mut v, true);
        }
        3 => {
            v.push("TITLE=own tol \u{1}".into());
            v.push("PEPMASS=\u{2} 7".into());
            v.push("TOL=0.5".into());
            v.push("TOLU=Da".into());
            v.push("RTINSECONDS=60".into());
            peaks(rng, &mut v, true);
        }
        4 => {
            v.push("TITLE=τίτλος \u{1} ٣".into());
            v.push("PEPMASS=\u{2}".into());
            peaks(rng, &mut v, false);
        }
        5 => {
            // no PEPMASS: rejected block
            v.push("TITLE=no pepmass \u{1}".into());
            v.push("CHARGE=5+".into());
            v.push("TOL=3".into());
            v.push("TOLU=Da".into());
            v.push("RTINSECONDS=600".into());
            peaks(rng, &mut v, true);
        }
        6 => {
            v.push("TITLE=two pepmass \u{1}".into());
            v.push("PEPMASS=\u{2}".into());
            v.push("PEPMASS=600.5 3".into());
            v.push("CHARGE=1+".into());
            v.push("TOLU=ppm".into());
            peaks(rng, &mut v, true);
        }
        _ => {
            v.push("  TITLE=indented \u{1}  ".into());
            v.push("\tPEPMASS=\u{2}".into());
            v.push("# comment in block".into());
            let mut pk = Vec::new();
            peaks(rng, &mut pk, true);
            v.extend(pk.into_iter().map(|l| format!("    {l}")));
        }
    }
    v
}

fn big_doc(rng: &mut Rng, target_bytes: usize, nblocks: usize, crlf: bool, force_unicode: bool) -> Big {
    let per_block = target_bytes / nblocks.max(1);
    let np = (per_block.saturating_sub(95) / 13).max(1);
    // most blocks rely on the header; overrides and a rejected block are sprinkled in
    let mut kinds: Vec<usize> = vec![0, 1, 0, 1, 0];
    let mut extra: Vec<usize> = vec![2, 3, 4, 5, 6, 7];
    rng.shuffle(&mut extra);
    kinds.extend(extra.into_iter().take(2 + rng.below(4)));
    if force_unicode && !kinds.contains(&4) {
        kinds.push(4);
        kinds.push(4);
    }
    rng.shuffle(&mut kinds);
    let templates: Vec<Vec<String>> = kinds.iter().map(|&k| {
        let n = (np as i64 + rng.range(-3, 3)).max(1) as usize;
        big_template(rng, k, n)
    }).collect();
    let npep = 1 + rng.below(BIG_PEP.len());
    let mut pep: Vec<String> = BIG_PEP.iter().map(|s| s.to_string()).collect();
    rng.shuffle(&mut pep);
    pep.truncate(npep);
    Big {
        crlf,
        nblocks,
        pad: 0,
        a: 1 + rng.below(1000),
        b: rng.below(1000),
        pep,
        header: rng.pick(BIG_HEADERS).iter().map(|s| s.to_string()).collect(),
        templates,
    }
}

/// choose `pad` so that byte offset `boundary` of the file falls on a chosen feature; returns the feature's tag
fn big_align(rng: &mut Rng, d: &mut Big, boundary: usize, feature: usize) -> &'static str {
    d.pad = 0;
    let bytes = big_render(d);
    if bytes.len() <= boundary {
        d.pad = rng.below(300);
        return "boundary:none(file-shorter)";
    }
    let feature = if feature == 6 && !d.crlf { 0 } else { feature % 7 };
    let find_last = |pat: &[u8], off: usize| -> Option<usize> {
        // last occurrence of `pat` whose position + off is <= boundary
        let mut i = boundary.min(bytes.len() - pat.len());
        loop {
            if &bytes[i..i + pat.len()] == pat && i + off <= boundary {
                return Some(i + off);
            }
            if i == 0 {
                return None;
            }
            i -= 1;
        }
    };
    let (p, tag) = match feature {
        0 => (find_last(b"END IONS", 4), "boundary:inside-END-IONS"),
        1 => (find_last(b"END IONS", 0), "boundary:before-END-IONS"),
        2 => (find_last(b"BEGIN IONS", 0), "boundary:before-BEGIN-IONS"),
        3 => (find_last(b"BEGIN IONS", 6), "boundary:inside-BEGIN-IONS"),
        4 => (find_last("τ".as_bytes(), 1).or(find_last(b"TITLE=", 3)), "boundary:inside-utf8-char-or-TITLE"),
        5 => (find_last(b"PEPMASS=", 8), "boundary:inside-PEPMASS-line"),
        _ => (find_last(b"END IONS\r\n", 9), "boundary:between-CR-and-LF"),
    };
    match p {
        Some(p) if p <= boundary => {
            d.pad = boundary - p;
            tag
        }
        _ => {
            d.pad = rng.below(300);
            "boundary:unaligned"
        }
    }
}

fn emit_big(rng: &mut Rng, emit: &mut dyn FnMut(Case), target: usize, nblocks: usize, boundary: usize, style: usize, crlf: bool, feature: usize, size_tag: &'static str) {
    let crlf = crlf || feature % 7 == 6;
    let mut d = big_doc(rng, target, nblocks, crlf, feature % 7 == 4);
    let btag = big_align(rng, &mut d, boundary, feature);
    let fid = rng.below(1000);
    const STYLE_TAGS: &[&str] = &["file:.mgf", "file:.MGF", "file:.mgf.gz", "file:.MGF.GZ", "file:.mgf.Gz"];
    let c = Case::new(big_request(fid, style, &d))
        .tag(size_tag)
        .tag(btag)
        .tag(match boundary {
            8192 | 16384 => "io-boundary:8KiB-grid",
            65536 | 131072 => "io-boundary:64KiB-grid",
            _ => "io-boundary:MiB-grid",
        })
        .tag(STYLE_TAGS[style % STYLE_TAGS.len()])
        .tag(if crlf { "big:CRLF" } else { "big:LF" });
    emit(c);
}

pub fn gen(rng: &mut Rng, tier: Tier, emit: &mut dyn FnMut(Case)) {
    let quick = tier == Tier::Quick;
    let none = Flags::default();
    // directed
    for (tag, text) in directed() {
        emit_doc(emit, "mgf", 0, text.as_bytes(), &none, &["directed", tag]);
    }
    // exhaustive small scope over line kinds
    let maxlen = if quick { 4 } else { 5 };
    for len in 0..=maxlen {
        let total = KINDS.len().pow(len as u32);
        for code in 0..total {
            let mut c = code;
            let mut text = String::new();
            for _ in 0..len {
                text.push_str(KINDS[c % KINDS.len()]);
                text.push('\n');
                c /= KINDS.len();
            }
            let nt = nontrivial_text(text.as_bytes());
            emit(Case::new(request("mgf", 0, text.as_bytes())).tag("exhaustive-lines").nontrivial(nt));
        }
    }
    // structured documents (+ block permutations)
    let n_struct = if quick { 1500 } else { 30000 };
    let mut pool: Vec<Vec<u8>> = Vec::new();
    for k in 0..n_struct {
        let wellformed = rng.chance(40, 100);
        let mut fl = Flags::default();
        let st = gen_structured(rng, &mut fl, wellformed, if k % 10 == 0 { 8 } else { 4 });
        let fid = if rng.chance(20, 100) { rng.below(1000) } else { 0 };
        let mut r2 = rng.fork();
        let mut r3 = r2.clone();
        let text = render(&mut r2, &flat(&st), &mut fl);
        emit_doc(emit, "mgf", fid, text.as_bytes(), &fl, &[if wellformed { "well-formed" } else { "loose" }]);
        if pool.len() < 400 || rng.chance(1, 20) {
            if pool.len() < 400 {
                pool.push(text.clone().into_bytes());
            } else {
                let i = rng.below(pool.len());
                pool[i] = text.clone().into_bytes();
            }
        }
        if st.blocks.len() >= 2 && rng.chance(50, 100) {
            let mut st2 = Structured { header: st.header.clone(), blocks: st.blocks.clone() };
            rng.shuffle(&mut st2.blocks);
            // same rendering choices as the original (same rng stream) where line counts agree
            let text2 = render(&mut r3, &flat(&st2), &mut fl);
            emit_doc(emit, "mgf", fid, text2.as_bytes(), &fl, &["blocks-permuted"]);
        }
    }
    // malformed stream
    for text in [
        "", " ", "\n", "\r\n", "\n\n\n", "\t", "BEGIN IONS", "BEGIN IONS\n", "END IONS\n", "BEGIN IONS\nEND IONS\n", "\u{feff}BEGIN IONS\nTITLE=a\nPEPMASS=5\n1 1\nEND IONS\n",
        "TITLE=a", "PEPMASS=", "=\n", "\0", "٣", "٣\n", "BEGIN IONS\n٣\n", "BEGIN IONS\n½\nEND IONS", "BEGIN IONS\nTITLE=a\nPEPMASS=5\n1",
        "BEGIN IONS\nTITLE=a\nPEPMASS=5\n1\nEND IONS", "BEGIN IONS\nTITLE=a\nPEPMASS=5\n1\nEND ION",
    ] {
        emit_doc(emit, "mgfraw", 0, text.as_bytes(), &none, &["hand-made"]);
    }
    for bytes in [&b"\xff"[..], b"BEGIN IONS\n\xff\nEND IONS\n", b"\xc3", b"TITLE=\xe2\x82", b"\xed\xa0\x80", b"\xc0\x80", b"\xf4\x90\x80\x80", b"BEGIN IONS\nTITLE=a\nPEPMASS=5\n1 1\nEND IONS\n\xd9"] {
        emit_doc(emit, "mgfraw", 0, bytes, &none, &["hand-made", "invalid-utf8"]);
    }
    let n_mut = if quick { 2500 } else { 50000 };
    for _ in 0..n_mut {
        let base = rng.pick(&pool).clone();
        let (mut v, tag) = mutate(rng, &base);
        let mut tags = vec![tag];
        if rng.chance(20, 100) {
            let (v2, tag2) = mutate(rng, &v);
            v = v2;
            tags.push(tag2);
        }
        if std::str::from_utf8(&v).is_err() {
            tags.push("invalid-utf8");
        }
        emit_doc(emit, "mgfraw", 0, &v, &none, &tags);
    }
    // the file route
    const STYLE_TAGS: &[&str] = &["file:.mgf", "file:.MGF", "file:.mgf.gz", "file:.MGF.GZ", "file:.mgf.Gz"];
    let mut emit_file = |fid: usize, style: usize, bytes: &[u8], tags: &[&'static str]| {
        let mut c = Case::new(request_styled("mgffile", fid, Some(style), bytes)).tag(STYLE_TAGS[style]);
        for t in tags {
            c = c.tag(t);
        }
        if std::str::from_utf8(bytes).is_err() {
            c = c.tag("invalid-utf8");
        }
        emit(c.nontrivial(nontrivial_text(bytes)));
    };
    let two = "CHARGE=2+ and 3+\nTOL=10\nTOLU=ppm\nBEGIN IONS\nTITLE=a\nPEPMASS=500.5 7\nRTINSECONDS=60\n100.5 2\n200\nEND IONS\nBEGIN IONS\nTITLE=b\nCHARGE=4+\nPEPMASS=600\n100.5 2\nEND IONS\n";
    for style in 0..STYLES.len() {
        for (fid, text) in [(0usize, two), (7, two), (999, "BEGIN IONS\nTITLE=τ ٣\nPEPMASS=5\n1 1\nEND IONS"), (3, ""), (3, "TITLE=a\n"), (1, "\n\n")] {
            emit_file(fid, style, text.as_bytes(), &["directed"]);
        }
        for bytes in [&b"\xff"[..], b"BEGIN IONS\nTITLE=\xe2\x82\nPEPMASS=5\n1 1\nEND IONS\n", b"BEGIN IONS\nTITLE=a\nPEPMASS=5\n1 1\nEND IONS\n\xd9", b"\xed\xa0\x80"] {
            emit_file(5, style, bytes, &["directed"]);
        }
    }
    let n_file = if quick { 600 } else { 12000 };
    for k in 0..n_file {
        let base = rng.pick(&pool).clone();
        let (v, tag) = if rng.chance(30, 100) { mutate(rng, &base) } else { (base, "unmutated") };
        let fid = if rng.chance(50, 100) { rng.below(1000) } else { 0 };
        emit_file(fid, k % STYLES.len(), &v, &[tag]);
    }
    // large files through the file route (header defaults must reach every block, however the reader chunks its input)
    let n_mid = if quick { 14 } else { 84 };
    let f0 = rng.below(7);
    for k in 0..n_mid {
        let (target, nblocks, tag) = if k % 2 == 0 { (24 << 10, 45, "big:24KiB") } else { (150 << 10, 260, "big:150KiB") };
        let boundary = if k % 2 == 0 { 8192 * (1 + rng.below(2)) } else { *rng.pick(&[8192usize, 65536, 65536, 131072]) };
        // every alignment feature occurs in every run, at the 8 KiB grid (even k) and at the 64 KiB grid (odd k)
        emit_big(rng, emit, target, nblocks, boundary, k % STYLES.len(), k % 3 == 1, f0 + k / 2, tag);
    }
    let mib = 1usize << 20;
    if quick {
        emit_big(rng, emit, mib + mib / 10, 2000, mib, 0, false, f0, "big:1.1MiB");
        emit_big(rng, emit, mib + mib / 10, 2200, mib, 3, true, f0 + 3, "big:1.1MiB");
    } else {
        for k in 0..8 {
            let bd = *rng.pick(&[mib, mib, 65536, 8192]);
            emit_big(rng, emit, mib + mib / 10, 2000 + 100 * k, bd, k % STYLES.len(), k % 2 == 1, f0 + k, "big:1.1MiB");
        }
        for k in 0..6 {
            let bd = *rng.pick(&[mib, 2 * mib]);
            emit_big(rng, emit, 2 * mib + mib / 2, 4000 + 250 * k, bd, (k + 2) % STYLES.len(), k % 2 == 0, f0 + k + 1, "big:2.5MiB");
        }
        for k in 0..4 {
            let bd = *rng.pick(&[mib, 2 * mib, 4 * mib]);
            emit_big(rng, emit, 5 * mib, 7000 + 300 * k, bd, (k * 2) % STYLES.len(), k % 2 == 1, f0 + 2 * k, "big:5MiB");
        }
    }
}
