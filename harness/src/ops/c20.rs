//! C20 — retention-time alignment and the clamp/delta step of RT / ion-mobility prediction
//!
//!   align n_files [n (file pep label q:f32 rt:f32 charge rank)…]     (charge, rank, psm_id, masses, scores: must not matter)
//!       -> [n_files (max_rt:f32 slope:f32 intercept:f32)…] [n aligned_rt:f32…]      | panic
//!   rtpredict  [np seq…] [n (pep label q:f32 aligned_rt:f32)…]
//!       -> 1 [n (r:f64 predicted_rt:f32 delta_rt_model:f32)…]   (model fitted; r = predict_peptide)
//!        | 0 [n (predicted_rt:f32 delta_rt_model:f32)…]           (fit failed: fields untouched)
//!   rtpredictq / imspredictq [np seq…] [n (pep label charge obs:f32)…]
//!       spectrum_q is NOT given: the harness runs the real `spectrum_q_value` on the PSMs in the listed
//!       (= score) order first, so q-values exactly at 0.01 arise naturally (100 targets + 0 decoys, …);
//!       reply as rtpredict / imspredict
//!   trainset kind(0 = rt, 1 = ims) delta:f32 [np seq…] [n (pep label q:f32 charge obs:f32 mask)…]
//!       fit twice: on obs, and on obs + delta for the PSMs with mask = 1
//!       -> fitA fitB [n (rA:f64 rB:f64)…]     (raw predictions of every PSM under both fits; 0 if no fit)
//!   alignbig seed n a b8 half tmax        (2 files x n peptides; the table is GENERATED, see `big_k`)
//!       -> 2 (max_rt slope intercept)x2  32 aligned_rt:f32 (of PSMs idx_j = j*(2n-1)/31)…  n_nonfinite_aligned
//!   predpools kind(0 = rt, 1 = ims) [np seq…] [n (pep label q:f32 charge obs:f32)…]
//!       -> 4 then, for rayon pools of 1, 2, 4, 16 threads (ThreadPoolBuilder::install):
//!          fit(0/1) r2:f64 [n (r:f64 predicted:f32 delta:f32)…]     (r2, r = 0 when the fit failed)
//!   chainpools [np seq…] n_files [n (file pep label q:f32 rt:f32)…]      (observational)
//!       -> 4 then per pool: global_alignment + retention_model::predict:
//!          [n_files (max_rt slope intercept)…] [n (aligned_rt predicted_rt delta_rt_model)…]
//!   imspredict [np seq…] [n (pep label q:f32 charge ims:f32)…]
//!       -> 1 [n (r:f64 predicted_ims:f32 delta_ims_model:f32)…] | 0 [n (predicted_ims delta_ims_model)…]
use super::Info;
use crate::proto::{Case, Out, Rng, Tier, Toks};
use sage_core::database::{IndexedDatabase, PeptideIx};
use sage_core::enzyme::Digest;
use sage_core::ml::mobility_model::{self, MobilityModel};
use sage_core::ml::retention_alignment::global_alignment;
use sage_core::ml::retention_model::{self, RetentionModel};
use sage_core::peptide::Peptide;
use sage_core::scoring::Feature;

pub const OPS: &[&str] = &["align", "rtpredict", "imspredict", "rtpredictq", "imspredictq", "trainset", "predpools", "chainpools", "alignbig"];
pub const INFO: Info = Info {
    rule: "align: multi-file PSM sets, 1..8 files, up to 40 peptides (quick) / 100 (thorough); each file is an \
           affine distortion a*t+b of a common profile t (exactly representable distortions of a dyadic profile, \
           or random distortions with noise); peptides are dropped per file at random (unshared peptides), files \
           are made all-decoy / all q>0.01 (no confident PSM), all-zero RT (MGF without RTINSECONDS), constant RT, \
           1-2 confident peptides (fewer PSMs than parameters), single file, duplicate PSMs per peptide (min is \
           taken), q-values exactly at / one ulp around 0.01, labels outside {1,-1}, negative / huge / non-finite \
           RTs, file_id >= n_files (panic); every PSM carries a precursor charge 1..4 that is a function of (file, peptide, index parity) - the same peptide has different charges in different files and among duplicates within a file - a rank 1..3 and index-derived psm_id / spec_id / masses / scores / ims, none of which the alignment may read; plus an exhaustive small scope (all PSM sets of <= 2 (quick) / 3 (thorough) PSMs over 1-2 files x 2 peptides x {confident, not} x rt in {0, 0.5, 2, 3.5}), plus 200 / 3000 sets in which every file is an exact affine image (incl. reversed gradients) of one profile over the same peptides. non-trivial = some file has \
           at least 2 confident target PSMs of distinct peptides. rtpredict/imspredict: 4..80 random tryptic-like \
           peptides, observed values a noisy linear function of composition (or constant / far outside the clamp \
           range), 0..all PSMs confident, q-values Q, exactly 0.01f32, one ulp below (confident) and one ulp above / 0.2 \
           (not confident), incl. directed sets where ONE target sits exactly at 0.01 and where all do; \
           rtpredictq/imspredictq: q from the real spectrum_q_value on 100 targets + 0 decoys, 200 + 1, 300 + 2, \
           99/101 targets (all q at / just off 0.01) and random label sequences; trainset: the training set is \
           probed by perturbing the observed value of chosen PSMs (all non-confident ones / one PSM exactly at \
           0.01 / one ulp above / a decoy / a plain confident one) and comparing the raw predictions of two fits; \
           non-trivial = the model was fitted. predpools: the same kind of \
           database with 200..3000 PSMs (large enough for rayon to split the par_iter pipelines), RT and IM, run \
           under pools of 1/2/4/16 threads; chainpools: alignment + RT prediction of a multi-file set under the \
           same pools (observational). alignbig: 2 files x n peptides (n = 70,000 / 120,000 and 65,535..65,537, \
           65,600; thorough also 131,072 and 200,000) whose PSM table both sides generate from the request's \
           integers (never listed): file 0 has every peptide confident at rt = k_p/8 (k_p a hash of p and the \
           seed, k_0 = the maximum), file 1 is the exact affine image a*rt + b with all / every second peptide \
           confident; a = 2, b = 0 makes every anchor lie on y = x in both files (diagonal clause + identity \
           equivariance although the peptide sets differ)",
    serial: false,
};

// ---------------------------------------------------------------------------------------------
// align

#[derive(Clone, Copy)]
struct F {
    file: usize,
    pep: usize,
    label: i32,
    q: f32,
    rt: f32,
}

fn align_request(n_files: usize, fs: &[F]) -> String {
    let mut o = Out::new();
    o.raw("align").n(n_files).n(fs.len());
    for (i, f) in fs.iter().enumerate() {
        o.n(f.file).n(f.pep).n(f.label).f32(f.q).f32(f.rt).n(charge_of(f.file, f.pep, i)).n(1 + (i * 7 + f.pep) % 3);
    }
    o.finish()
}

/// precursor charge of PSM `i`: a function of (file, peptide) so that the SAME peptide is seen at
/// different charges in different files (3 in 4 pairs), and of the PSM index so that duplicates of a
/// peptide within a file differ too. The alignment must key its anchors by peptide only.
fn charge_of(file: usize, pep: usize, i: usize) -> usize {
    let h = (pep as u64).wrapping_mul(0x9E37_79B9_7F4A_7C15) ^ (file as u64).wrapping_mul(0xBF58_476D_1CE4_E5B9) ^ ((i % 2) as u64 * 0x94D0_49BB);
    1 + ((h >> 29) % 4) as usize
}

fn align_case(n_files: usize, fs: &[F]) -> Case {
    // non-trivial: some file has >= 2 confident targets of distinct peptides
    let mut nt = false;
    for file in 0..n_files {
        let mut peps: Vec<usize> = fs
            .iter()
            .filter(|f| f.file == file && f.label == 1 && f.q <= 0.01)
            .map(|f| f.pep)
            .collect();
        peps.sort_unstable();
        peps.dedup();
        if peps.len() >= 2 {
            nt = true;
        }
    }
    Case::new(align_request(n_files, fs)).nontrivial(nt).tag_if(n_files == 1, "single-file")
}

const Q_CONF: f32 = 0.001;

fn next_up(x: f32) -> f32 {
    f32::from_bits(x.to_bits() + 1)
}
fn next_down(x: f32) -> f32 {
    f32::from_bits(x.to_bits() - 1)
}

#[derive(Clone, Copy, PartialEq)]
enum FileKind {
    Normal,
    NoConfident, // every PSM is a decoy or has q > 0.01
    AllZero,     // rt = 0 everywhere
    Constant,    // one rt value everywhere
    Sparse,      // only 1-2 confident peptides
    Negative,    // all RTs negative (max_rt falls back to 1)
}

/// a structured random multi-file PSM set
fn random_set(rng: &mut Rng, n_files: usize, max_peps: usize, exact: bool) -> (Vec<F>, Vec<&'static str>) {
    let mut tags: Vec<&'static str> = vec![];
    let n_peps = 1 + rng.below(max_peps);
    // common profile
    let profile: Vec<f64> = (0..n_peps)
        .map(|_| if exact { (8 + rng.below(8 * 120)) as f64 / 8.0 } else { 1.0 + rng.unit() * 119.0 })
        .collect();
    let mut fs = Vec::new();
    for file in 0..n_files {
        let kind = match rng.below(14) {
            0 => FileKind::NoConfident,
            1 => FileKind::AllZero,
            2 => FileKind::Constant,
            3 => FileKind::Sparse,
            4 if !exact => FileKind::Negative,
            _ => FileKind::Normal,
        };
        match kind {
            FileKind::NoConfident => tags.push("file-no-confident"),
            FileKind::AllZero => tags.push("file-all-zero-rt"),
            FileKind::Constant => tags.push("file-constant-rt"),
            FileKind::Sparse => tags.push("file-fewer-psms-than-parameters"),
            FileKind::Negative => tags.push("file-negative-rt"),
            FileKind::Normal => {}
        }
        let (a, b) = if exact {
            (*rng.pick(&[1.0f64, 2.0, 0.5, 1.5, 3.0, 0.25, 0.75]), rng.below(121) as f64 / 4.0)
        } else {
            (0.5 + rng.unit() * 1.5, rng.unit() * 30.0)
        };
        let noise = if exact || rng.chance(1, 4) { 0.0 } else { *rng.pick(&[0.01f64, 0.5, 5.0]) };
        let p_present = if exact && rng.chance(1, 2) { 100 } else { *rng.pick(&[100u32, 90, 60, 30]) };
        let constant = (rng.unit() * 100.0) as f32;
        let mut n_conf = 0usize;
        for (pep, &t) in profile.iter().enumerate() {
            if !rng.chance(p_present, 100) {
                continue;
            }
            let copies = if rng.chance(1, 5) { 2 + rng.below(2) } else { 1 };
            for c in 0..copies {
                let jitter = if c == 0 { 0.0 } else { rng.unit() * 3.0 };
                let mut rt = (a * t + b + noise * (rng.unit() - 0.5) + jitter) as f32;
                let mut label = if rng.chance(1, 8) { -1 } else { 1 };
                let mut q = if rng.chance(1, 6) {
                    // not confident; sometimes by one ulp
                    if rng.chance(1, 4) { next_up(0.01) } else { 0.02 + rng.unit() as f32 * 0.5 }
                } else if rng.chance(1, 8) {
                    0.01 // exactly at the threshold: confident
                } else {
                    Q_CONF
                };
                match kind {
                    FileKind::NoConfident => {
                        if rng.chance(1, 2) {
                            label = -1
                        } else {
                            q = 0.05
                        }
                    }
                    FileKind::AllZero => rt = 0.0,
                    FileKind::Constant => rt = constant,
                    FileKind::Sparse => {
                        if label == 1 && q <= 0.01 {
                            if n_conf >= 2 {
                                q = 0.5
                            } else {
                                n_conf += 1
                            }
                        }
                    }
                    FileKind::Negative => rt = -rt,
                    FileKind::Normal => {}
                }
                fs.push(F { file, pep, label, q, rt });
            }
        }
    }
    // peptide ids need not be dense: spread them
    if rng.chance(1, 3) {
        for f in fs.iter_mut() {
            f.pep = f.pep * 7919 + 13;
        }
    }
    rng.shuffle(&mut fs);
    tags.push(if exact { "affine-exact" } else { "affine-noisy" });
    (fs, tags)
}

fn emit_tagged(emit: &mut dyn FnMut(Case), n_files: usize, fs: &[F], tags: &[&'static str]) {
    let mut c = align_case(n_files, fs);
    let mut seen: Vec<&'static str> = vec![];
    for t in tags {
        if !seen.contains(t) {
            seen.push(t);
            c = c.tag(t);
        }
    }
    emit(c);
}

fn gen_align(rng: &mut Rng, tier: Tier, emit: &mut dyn FnMut(Case)) {
    let ft = |file: usize, pep: usize, rt: f32| F { file, pep, label: 1, q: Q_CONF, rt };

    // ---- directed cases
    // empty inputs
    emit_tagged(emit, 0, &[], &["directed", "empty"]);
    emit_tagged(emit, 1, &[], &["directed", "empty"]);
    emit_tagged(emit, 3, &[], &["directed", "empty"]);
    // the repaired defect: a file whose RTs are all zero (with and without a normal second file)
    emit_tagged(emit, 1, &[ft(0, 0, 0.0), ft(0, 1, 0.0)], &["directed", "file-all-zero-rt"]);
    emit_tagged(
        emit,
        2,
        &[ft(0, 0, 0.0), ft(0, 1, 0.0), ft(1, 0, 10.0), ft(1, 1, 20.0), ft(1, 2, 30.5)],
        &["directed", "file-all-zero-rt"],
    );
    // -0.0, tiny positive, subnormal RTs (ceil = 1 / 0)
    emit_tagged(emit, 1, &[ft(0, 0, -0.0), ft(0, 1, 0.0)], &["directed", "file-all-zero-rt"]);
    emit_tagged(emit, 1, &[ft(0, 0, 1e-45), ft(0, 1, 1e-30), ft(0, 2, 0.25)], &["directed", "tiny-rt"]);
    // exact integers: ceil(rt) == rt (x reaches exactly 1.0), and just above
    emit_tagged(emit, 1, &[ft(0, 0, 10.0), ft(0, 1, 5.0), ft(0, 2, 2.5)], &["directed", "ceil-boundary"]);
    emit_tagged(emit, 1, &[ft(0, 0, next_up(10.0)), ft(0, 1, 5.0), ft(0, 2, 2.5)], &["directed", "ceil-boundary"]);
    emit_tagged(emit, 1, &[ft(0, 0, next_down(10.0)), ft(0, 1, 5.0), ft(0, 2, 2.5)], &["directed", "ceil-boundary"]);
    // the max comes from a decoy / non-confident PSM
    emit_tagged(
        emit,
        1,
        &[ft(0, 0, 10.0), ft(0, 1, 5.0), F { file: 0, pep: 2, label: -1, q: Q_CONF, rt: 99.5 }],
        &["directed", "max-from-decoy"],
    );
    // q exactly at the threshold and one ulp either side; NaN q; labels 0 / 2
    for q in [0.01f32, next_up(0.01), next_down(0.01), 0.0, 1.0, f32::NAN] {
        emit_tagged(
            emit,
            1,
            &[ft(0, 0, 10.0), ft(0, 1, 20.0), F { file: 0, pep: 2, label: 1, q, rt: 55.0 }],
            &["directed", "q-threshold"],
        );
    }
    for label in [0, 2, -1] {
        emit_tagged(
            emit,
            1,
            &[ft(0, 0, 10.0), ft(0, 1, 20.0), F { file: 0, pep: 2, label, q: Q_CONF, rt: 55.0 }],
            &["directed", "label-variants"],
        );
    }
    // min over duplicates (the later / earlier PSM is the smaller one)
    emit_tagged(
        emit,
        2,
        &[ft(0, 0, 10.0), ft(0, 0, 8.0), ft(0, 1, 20.0), ft(0, 1, 25.0), ft(1, 0, 4.0), ft(1, 1, 10.0), ft(1, 1, 9.0)],
        &["directed", "duplicates-min"],
    );
    // two files, exact affine images (a = 2, b = 3), three peptides; and with a negative direction
    emit_tagged(
        emit,
        2,
        &[ft(0, 0, 10.0), ft(0, 1, 20.0), ft(0, 2, 40.0), ft(1, 0, 23.0), ft(1, 1, 43.0), ft(1, 2, 83.0)],
        &["directed", "affine-exact"],
    );
    emit_tagged(
        emit,
        2,
        &[ft(0, 0, 10.0), ft(0, 1, 20.0), ft(0, 2, 40.0), ft(1, 0, 90.0), ft(1, 1, 80.0), ft(1, 2, 60.0)],
        &["directed", "affine-exact", "reversed-gradient"],
    );
    // one confident peptide per file (fewer PSMs than parameters), one file with none
    emit_tagged(emit, 3, &[ft(0, 0, 10.0), ft(1, 0, 12.0)], &["directed", "file-fewer-psms-than-parameters"]);
    emit_tagged(emit, 2, &[ft(0, 0, 10.0), ft(0, 1, 10.0), ft(0, 2, 10.0)], &["directed", "file-constant-rt"]);
    // negative RTs only / mixed
    emit_tagged(emit, 1, &[ft(0, 0, -10.0), ft(0, 1, -20.5)], &["directed", "file-negative-rt"]);
    emit_tagged(emit, 2, &[ft(0, 0, -0.5), ft(1, 0, 0.5), ft(0, 1, 0.25), ft(1, 1, 0.75)], &["directed", "mean-cancels-to-zero"]);
    // non-finite RTs
    emit_tagged(emit, 1, &[ft(0, 0, f32::NAN), ft(0, 1, 5.0), ft(0, 2, 7.0)], &["directed", "nonfinite-rt"]);
    emit_tagged(emit, 1, &[ft(0, 0, f32::INFINITY), ft(0, 1, 5.0), ft(0, 2, 7.0)], &["directed", "nonfinite-rt"]);
    emit_tagged(emit, 2, &[ft(0, 0, f32::NAN), ft(0, 0, 3.0), ft(1, 0, f32::NAN), ft(0, 1, 5.0), ft(1, 1, 7.0)], &["directed", "nonfinite-rt"]);
    // large RTs (seconds instead of minutes, and absurd)
    emit_tagged(emit, 1, &[ft(0, 0, 7200.0), ft(0, 1, 3600.5), ft(0, 2, 15.25)], &["directed", "large-rt"]);
    emit_tagged(emit, 1, &[ft(0, 0, 1.0e6), ft(0, 1, 3.0e5), ft(0, 2, 15.25)], &["directed", "large-rt"]);
    // file_id >= n_files: the real code indexes out of bounds
    emit_tagged(emit, 1, &[ft(0, 0, 10.0), ft(1, 1, 5.0)], &["directed", "file-id-out-of-range"]);
    emit_tagged(emit, 0, &[ft(0, 0, 10.0)], &["directed", "file-id-out-of-range"]);

    // ---- exhaustive small scope: <= 2 files, <= 3 PSMs over {0, 0.5, 2, 3.5} x 2 peptides x {conf, not}
    let vals = [0.0f32, 0.5, 2.0, 3.5];
    let max_n = if tier == Tier::Quick { 2 } else { 3 };
    for n_files in 1..=2usize {
        for n in 1..=max_n {
            let per = n_files * 2 * 2 * vals.len();
            let total = per.pow(n as u32);
            for code in 0..total {
                let mut c = code;
                let mut fs = Vec::new();
                for _ in 0..n {
                    let d = c % per;
                    c /= per;
                    let file = d % n_files;
                    let pep = (d / n_files) % 2;
                    let conf = (d / n_files / 2) % 2 == 0;
                    let rt = vals[d / n_files / 4];
                    fs.push(F { file, pep, label: 1, q: if conf { Q_CONF } else { 0.5 }, rt });
                }
                emit_tagged(emit, n_files, &fs, &["exhaustive-small"]);
            }
        }
    }

    // ---- structured random
    let (n_random, max_peps) = if tier == Tier::Quick { (700, 40) } else { (9000, 100) };
    for i in 0..n_random {
        let n_files = 1 + rng.below(8);
        let exact = i % 2 == 0;
        let (fs, tags) = random_set(rng, n_files, max_peps, exact);
        emit_tagged(emit, n_files, &fs, &tags);
    }
    // ---- exact affine images over the SAME peptide set in every file (the equivariance clause applies
    //      to every pair of files); single PSM per peptide, all confident
    let n_eq = if tier == Tier::Quick { 200 } else { 3000 };
    for _ in 0..n_eq {
        let n_files = 2 + rng.below(7);
        let n_peps = 2 + rng.below(if tier == Tier::Quick { 20 } else { 60 });
        let profile: Vec<f64> = (0..n_peps).map(|_| (8 + rng.below(8 * 100)) as f64 / 8.0).collect();
        let mut fs = Vec::new();
        for file in 0..n_files {
            let a = *rng.pick(&[1.0f64, 2.0, 0.5, 1.5, 3.0, 0.25, 0.75, -1.0, -0.5]);
            let b = if a < 0.0 { 400.0 } else { 0.0 } + rng.below(121) as f64 / 4.0;
            for (pep, &t) in profile.iter().enumerate() {
                fs.push(ft(file, pep, (a * t + b) as f32));
            }
            // an extra decoy stretches the scale of some files (normalisation is itself affine)
            if rng.chance(1, 3) {
                fs.push(F { file, pep: 100_000, label: -1, q: Q_CONF, rt: 700.0 + rng.below(300) as f32 });
            }
        }
        rng.shuffle(&mut fs);
        emit_tagged(emit, n_files, &fs, &["affine-exact", "affine-exact-all-shared"]);
    }
}

fn exec_align(t: &mut Toks) -> Option<String> {
    let n_files = t.usize()?;
    let fs = t.list(|t| {
        let f = F { file: t.usize()?, pep: t.usize()?, label: t.i64()? as i32, q: t.f32()?, rt: t.f32()? };
        Some((f, t.usize()?, t.usize()?))
    })?;
    if !t.done() {
        return None;
    }
    let mut feats: Vec<Feature> = fs
        .iter()
        .enumerate()
        .map(|(i, (f, charge, rank))| {
            let mut x = super::util::blank_feature();
            x.file_id = f.file;
            x.peptide_idx = PeptideIx(f.pep as u32);
            x.label = f.label;
            x.spectrum_q = f.q;
            x.rt = f.rt;
            x.aligned_rt = f32::NAN; // must be overwritten
            // fields the alignment must not read
            x.charge = *charge as u8;
            x.rank = *rank as u32;
            x.psm_id = i * 13 + 5;
            x.spec_id = format!("scan={}", 1000 - i);
            x.peptide_len = 7 + i % 20;
            x.expmass = 800.0 + (i * 37 % 1900) as f32;
            x.calcmass = x.expmass - 0.001 * (i % 5) as f32;
            x.hyperscore = 10.0 + (i * 17 % 50) as f64;
            x.discriminant_score = (i as f32 * 0.37).sin();
            x.ims = 0.5 + (i % 11) as f32 * 0.07;
            x.predicted_rt = 0.123;
            x.delta_rt_model = 0.456;
            x.peptide_q = 0.5;
            x.protein_q = 0.25;
            x.posterior_error = -3.0;
            x
        })
        .collect();
    let al = global_alignment(&mut feats, n_files);
    let mut o = Out::new();
    o.n(al.len());
    // `file_id` of entry i is i (indexed collect); anything else would show up as a different order
    for (i, a) in al.iter().enumerate() {
        if a.file_id != i {
            return Some(format!("err:file_id_order {} {}", i, a.file_id));
        }
        o.f32(a.max_rt).f32(a.slope).f32(a.intercept);
    }
    o.n(feats.len());
    for f in &feats {
        o.f32(f.aligned_rt);
    }
    Some(o.finish())
}

// ---------------------------------------------------------------------------------------------
// rtpredict / imspredict

const AAS: &[u8] = b"ACDEFGHIKLMNPQRSTVWY";

struct PF {
    pep: usize,
    label: i32,
    q: f32,
    charge: u8,
    obs: f32,
}

fn predict_request(op: &str, seqs: &[String], fs: &[PF]) -> String {
    let mut o = Out::new();
    o.raw(op).n(seqs.len());
    for s in seqs {
        o.s(s);
    }
    o.n(fs.len());
    for f in fs {
        o.n(f.pep).n(f.label).f32(f.q);
        if op == "imspredict" {
            o.n(f.charge);
        }
        o.f32(f.obs);
    }
    o.finish()
}

fn random_peptide(rng: &mut Rng) -> String {
    let len = 6 + rng.below(20);
    let mut s: Vec<u8> = (0..len - 1).map(|_| *rng.pick(AAS)).collect();
    s.push(if rng.chance(1, 2) { b'K' } else { b'R' });
    String::from_utf8(s).unwrap()
}

fn gen_predict(rng: &mut Rng, tier: Tier, emit: &mut dyn FnMut(Case)) {
    let n_cases = if tier == Tier::Quick { 60 } else { 1200 };
    for i in 0..n_cases {
        let op = if i % 3 == 2 { "imspredict" } else { "rtpredict" };
        let n_peps = 4 + rng.below(if tier == Tier::Quick { 40 } else { 77 });
        let seqs: Vec<String> = (0..n_peps).map(|_| random_peptide(rng)).collect();
        // hidden linear model over composition
        let w: Vec<f64> = (0..26).map(|_| rng.unit() - 0.35).collect();
        let scale = *rng.pick(&[0.02f64, 0.05, 0.2]);
        let mode = rng.below(8);
        let mut fs = Vec::new();
        let n = 1 + rng.below(3 * n_peps);
        for _ in 0..n {
            let pep = rng.below(n_peps);
            let charge = 1 + rng.below(4) as u8;
            let lin: f64 = seqs[pep].bytes().map(|c| w[(c - b'A') as usize]).sum::<f64>() * scale;
            let obs = match mode {
                0 => 5.0,                        // constant, far above the clamp range
                1 => -3.0,                       // constant, below
                2 => 0.5,                        // constant inside
                3 => rng.unit() * 4.0 - 1.5, // pure noise straddling both bounds
                _ => lin + 0.05 * (rng.unit() - 0.5) + if op == "imspredict" { 0.3 / charge as f64 } else { 0.0 },
            } as f32;
            let confident = match mode {
                7 => false, // nothing to train on
                _ => rng.chance(3, 4),
            };
            let label = if rng.chance(1, 10) { -1 } else { 1 };
            let q = if confident {
                match rng.below(12) {
                    0 | 1 => 0.01,            // exactly at the threshold: still a training PSM
                    2 => next_down(0.01),
                    _ => Q_CONF,
                }
            } else if rng.chance(1, 4) {
                next_up(0.01)
            } else {
                0.2
            };
            fs.push(PF { pep, label, q, charge, obs });
        }
        let tag = match mode {
            0 => "obs-above-range",
            1 => "obs-below-range",
            2 => "obs-constant",
            3 => "obs-noise",
            7 => "no-training-data",
            _ => "obs-linear",
        };
        emit(Case::new(predict_request(op, &seqs, &fs)).tag(tag));
    }
    // directed: q exactly AT the threshold of the two `spectrum_q <= 0.01` filters of each model
    // (response vector and design matrix must keep the same PSMs)
    for op in ["rtpredict", "imspredict"] {
        for variant in 0..4 {
            let n_peps = 12;
            let seqs: Vec<String> = (0..n_peps).map(|_| random_peptide(rng)).collect();
            let mut fs = Vec::new();
            for i in 0..30usize {
                let q = match variant {
                    0 => if i == 17 { 0.01 } else { Q_CONF },          // ONE target exactly at 0.01
                    1 => 0.01,                                          // all exactly at 0.01
                    2 => if i % 3 == 0 { next_up(0.01) } else { next_down(0.01) },
                    _ => if i == 3 { 0.01 } else { 0.2 },               // the only training PSM is AT the threshold
                };
                let label = if i % 11 == 10 { -1 } else { 1 };
                fs.push(PF { pep: i % n_peps, label, q, charge: 2 + (i % 3) as u8, obs: 0.1 + 0.02 * i as f32 });
            }
            emit(Case::new(predict_request(op, &seqs, &fs)).tag("q-at-threshold"));
        }
    }
    gen_predictq(rng, tier, emit);
    gen_trainset(rng, tier, emit);
    // directed: empty feature list, single PSM
    emit(Case::new(predict_request("rtpredict", &["PEPTIDEK".to_string()], &[])).tag("empty").nontrivial(false));
    emit(Case::new(predict_request(
        "rtpredict",
        &["PEPTIDEK".to_string()],
        &[PF { pep: 0, label: 1, q: Q_CONF, charge: 2, obs: 0.4 }],
    ))
    .tag("single-psm"));
    emit(Case::new(predict_request(
        "imspredict",
        &["PEPTIDEK".to_string(), "LESLIEK".to_string()],
        &[PF { pep: 0, label: 1, q: Q_CONF, charge: 2, obs: 0.9 }, PF { pep: 1, label: 1, q: Q_CONF, charge: 3, obs: 1.1 }],
    ))
    .tag("single-psm"));
}

/// label sequences (true = decoy) whose real `spectrum_q_value` lands exactly on / next to 0.01
fn gen_predictq(rng: &mut Rng, tier: Tier, emit: &mut dyn FnMut(Case)) {
    let mut seqs_of_labels: Vec<(Vec<bool>, &'static str)> = vec![];
    let t = |n: usize| vec![false; n];
    seqs_of_labels.push((t(100), "q-natural-100t-0d")); // every q = 1/100 = 0.01f32 exactly
    seqs_of_labels.push((t(99), "q-natural-99t"));     // 1/99 > 0.01: nobody confident
    seqs_of_labels.push((t(101), "q-natural-101t"));   // 1/101 < 0.01
    // 200 targets + 1 decoy: (1+1)/200 = 0.01 at the end
    for pos in [0usize, 57, 150, 199] {
        let mut l = t(200);
        l.insert(pos, true);
        seqs_of_labels.push((l, "q-natural-200t-1d"));
    }
    // 100 targets (q = 0.01), then a decoy and a tail of targets with larger q
    let mut l = t(100);
    l.push(true);
    l.extend(t(30));
    seqs_of_labels.push((l, "q-natural-100t-then-decoy"));
    let mut l = t(300);
    l.insert(120, true);
    l.insert(250, true);
    seqs_of_labels.push((l, "q-natural-300t-2d"));
    let n_rand = if tier == Tier::Quick { 6 } else { 100 };
    for _ in 0..n_rand {
        let n = 50 + rng.below(400);
        let rate = *rng.pick(&[0u32, 1, 3]);
        seqs_of_labels.push(((0..n).map(|_| rng.chance(rate, 100)).collect(), "q-natural-random"));
    }
    for (k, (labels, tag)) in seqs_of_labels.into_iter().enumerate() {
        let ims = k % 2 == 1;
        let n_peps = 15 + rng.below(30);
        let seqs: Vec<String> = (0..n_peps).map(|_| random_peptide(rng)).collect();
        let mut o = Out::new();
        o.raw(if ims { "imspredictq" } else { "rtpredictq" }).n(seqs.len());
        for s in &seqs {
            o.s(s);
        }
        o.n(labels.len());
        for (i, &decoy) in labels.iter().enumerate() {
            let pep = rng.below(n_peps);
            let obs = (0.1 + 0.6 * (pep as f64 / n_peps as f64) + 0.02 * (rng.unit() - 0.5)) as f32;
            o.n(pep).n(if decoy { -1 } else { 1 }).n(1 + (i + pep) % 4).f32(obs);
        }
        emit(Case::new(o.finish()).tag(tag).tag("q-from-spectrum_q_value"));
    }
}

fn gen_trainset(rng: &mut Rng, tier: Tier, emit: &mut dyn FnMut(Case)) {
    let n_cases = if tier == Tier::Quick { 48 } else { 600 };
    for k in 0..n_cases {
        let ims = (k / 6) % 2 == 1;
        let n_peps = 8 + rng.below(30);
        let seqs: Vec<String> = (0..n_peps).map(|_| random_peptide(rng)).collect();
        let n = 20 + rng.below(100);
        let mut fs: Vec<(PF, bool)> = Vec::new();
        for i in 0..n {
            let pep = rng.below(n_peps);
            let q = match rng.below(8) {
                0 => 0.01,
                1 => next_up(0.01),
                2 => next_down(0.01),
                3 => 0.2,
                _ => Q_CONF,
            };
            let label = if rng.chance(1, 8) { -1 } else { 1 };
            let obs = (0.1 + 0.6 * (pep as f64 / n_peps as f64) + 0.02 * (rng.unit() - 0.5)) as f32;
            fs.push((PF { pep, label, q, charge: 1 + ((i + pep) % 4) as u8, obs }, false));
        }
        let conf = |f: &PF| f.label == 1 && f.q <= 0.01;
        // which PSMs get their observed value perturbed
        let mode = k % 6;
        let mut delta = 0.25f32;
        let tag = match mode {
            0 => {
                for f in fs.iter_mut() {
                    f.1 = !conf(&f.0);
                }
                "perturb-all-non-training"
            }
            1 => {
                // one target exactly AT the threshold (force one to exist)
                let i = rng.below(n);
                fs[i].0.q = 0.01;
                fs[i].0.label = 1;
                fs[i].1 = true;
                "perturb-one-at-threshold"
            }
            2 => {
                let i = rng.below(n);
                fs[i].0.q = next_up(0.01);
                fs[i].0.label = 1;
                fs[i].1 = true;
                "perturb-one-ulp-above-threshold"
            }
            3 => {
                let i = rng.below(n);
                fs[i].0.q = Q_CONF;
                fs[i].0.label = -1;
                fs[i].1 = true;
                "perturb-one-decoy"
            }
            4 => {
                let i = rng.below(n);
                fs[i].0.q = Q_CONF;
                fs[i].0.label = 1;
                fs[i].1 = true;
                "perturb-one-training"
            }
            _ => {
                // wreck the fit quality (every other training PSM shifted by 3): whether the model can be
                // fitted depends on the design matrix only (Gauss::left_solved), never on the observed values
                for (i, f) in fs.iter_mut().enumerate() {
                    f.1 = conf(&f.0) && i % 2 == 0;
                }
                delta = 3.0;
                "perturb-half-of-training"
            }
        };
        let mut o = Out::new();
        o.raw("trainset").b(ims).f32(delta).n(seqs.len());
        for s in &seqs {
            o.s(s);
        }
        o.n(fs.len());
        for (f, m) in &fs {
            o.n(f.pep).n(f.label).f32(f.q).n(f.charge).f32(f.obs).b(*m);
        }
        emit(Case::new(o.finish()).tag(tag).tag("training-set-probe"));
    }
}

fn feature_of(f: &PF, ims: bool, obs: f32) -> Feature {
    let mut x = super::util::blank_feature();
    x.peptide_idx = PeptideIx(f.pep as u32);
    x.label = f.label;
    x.spectrum_q = f.q;
    x.charge = f.charge;
    if ims {
        x.ims = obs;
    } else {
        x.aligned_rt = obs;
    }
    x
}

fn exec_trainset(t: &mut Toks) -> Option<String> {
    let ims = t.bool()?;
    let delta = t.f32()?;
    let seqs = t.list(|t| t.string())?;
    let fs = t.list(|t| {
        let f = PF { pep: t.usize()?, label: t.i64()? as i32, q: t.f32()?, charge: t.usize()? as u8, obs: t.f32()? };
        Some((f, t.bool()?))
    })?;
    if !t.done() {
        return None;
    }
    let db = build_db(&seqs)?;
    let raw = |perturbed: bool| -> Option<Vec<f64>> {
        let feats: Vec<Feature> =
            fs.iter().map(|(f, m)| feature_of(f, ims, if perturbed && *m { f.obs + delta } else { f.obs })).collect();
        if ims {
            MobilityModel::fit(&db, &feats).map(|lr| feats.iter().map(|f| lr.predict_peptide(&db, f)).collect())
        } else {
            RetentionModel::fit(&db, &feats).map(|lr| feats.iter().map(|f| lr.predict_peptide(&db, f)).collect())
        }
    };
    let (a, b) = (raw(false), raw(true));
    let mut o = Out::new();
    o.b(a.is_some()).b(b.is_some()).n(fs.len());
    for i in 0..fs.len() {
        o.f64(a.as_ref().map(|v| v[i]).unwrap_or(0.0)).f64(b.as_ref().map(|v| v[i]).unwrap_or(0.0));
    }
    Some(o.finish())
}

fn exec_predict(op: &str, t: &mut Toks) -> Option<String> {
    let ims = op.starts_with("ims");
    let natural_q = op.ends_with('q');
    let seqs = t.list(|t| t.string())?;
    let mut fs = t.list(|t| {
        let pep = t.usize()?;
        let label = t.i64()? as i32;
        let q = if natural_q { 1.0 } else { t.f32()? };
        let charge = if ims || natural_q { t.usize()? as u8 } else { 2 };
        let obs = t.f32()?;
        Some(PF { pep, label, q, charge, obs })
    })?;
    if !t.done() {
        return None;
    }
    if natural_q {
        // q-values from the REAL `spectrum_q_value`, PSMs in the listed (= decreasing score) order
        let mut tmp: Vec<Feature> = fs.iter().map(|f| feature_of(f, ims, f.obs)).collect();
        sage_core::ml::qvalue::spectrum_q_value(&mut tmp);
        for (f, x) in fs.iter_mut().zip(tmp.iter()) {
            f.q = x.spectrum_q;
        }
    }
    let mut peptides = Vec::new();
    for s in &seqs {
        let p = Peptide::try_from(Digest { decoy: false, sequence: s.clone(), missed_cleavages: 0, ..Default::default() })
            .ok()?;
        peptides.push(p);
    }
    let db = IndexedDatabase { peptides, ..Default::default() };
    let mut feats: Vec<Feature> = fs
        .iter()
        .map(|f| {
            let mut x = super::util::blank_feature();
            x.peptide_idx = PeptideIx(f.pep as u32);
            x.label = f.label;
            x.spectrum_q = f.q;
            x.charge = f.charge;
            if ims {
                x.ims = f.obs;
            } else {
                x.aligned_rt = f.obs;
            }
            x
        })
        .collect();
    // the raw model outputs, from the same (deterministic) fit that `predict` performs internally
    let raw: Option<Vec<f64>> = if ims {
        MobilityModel::fit(&db, &feats).map(|lr| feats.iter().map(|f| lr.predict_peptide(&db, f)).collect())
    } else {
        RetentionModel::fit(&db, &feats).map(|lr| feats.iter().map(|f| lr.predict_peptide(&db, f)).collect())
    };
    let fitted = if ims { mobility_model::predict(&db, &mut feats) } else { retention_model::predict(&db, &mut feats) };
    if fitted.is_some() != raw.is_some() {
        return Some("err:fit_not_deterministic".into());
    }
    let mut o = Out::new();
    o.b(fitted.is_some()).n(feats.len());
    for (i, f) in feats.iter().enumerate() {
        if let Some(r) = &raw {
            o.f64(r[i]);
        }
        if ims {
            o.f32(f.predicted_ims).f32(f.delta_ims_model);
        } else {
            o.f32(f.predicted_rt).f32(f.delta_rt_model);
        }
    }
    Some(o.finish())
}


// ---------------------------------------------------------------------------------------------
// predpools / chainpools: the same computation under rayon pools of different sizes

const POOLS: [usize; 4] = [1, 2, 4, 16];

fn in_pool<T: Send>(threads: usize, f: impl FnOnce() -> T + Send) -> T {
    rayon::ThreadPoolBuilder::new().num_threads(threads).build().expect("pool").install(f)
}

fn build_db(seqs: &[String]) -> Option<IndexedDatabase> {
    let mut peptides = Vec::new();
    for s in seqs {
        let p = Peptide::try_from(Digest { decoy: false, sequence: s.clone(), missed_cleavages: 0, ..Default::default() })
            .ok()?;
        peptides.push(p);
    }
    Some(IndexedDatabase { peptides, ..Default::default() })
}

fn gen_pools(rng: &mut Rng, tier: Tier, emit: &mut dyn FnMut(Case)) {
    let n_cases = if tier == Tier::Quick { 24 } else { 240 };
    for i in 0..n_cases {
        let ims = i % 3 == 2;
        let n_peps = 20 + rng.below(180);
        let seqs: Vec<String> = (0..n_peps).map(|_| random_peptide(rng)).collect();
        let w: Vec<f64> = (0..26).map(|_| rng.unit() - 0.35).collect();
        let scale = *rng.pick(&[0.02f64, 0.05, 0.2]);
        let n = 200 + rng.below(if tier == Tier::Quick { 1300 } else { 2800 });
        let mut o = Out::new();
        o.raw("predpools").b(ims).n(seqs.len());
        for s in &seqs {
            o.s(s);
        }
        o.n(n);
        for _ in 0..n {
            let pep = rng.below(n_peps);
            let charge = 1 + rng.below(4);
            let lin: f64 = seqs[pep].bytes().map(|c| w[(c - b'A') as usize]).sum::<f64>() * scale;
            let obs = (lin + 0.05 * (rng.unit() - 0.5)) as f32;
            let label = if rng.chance(1, 10) { -1 } else { 1 };
            let q = if rng.chance(3, 4) { Q_CONF } else { 0.2 };
            o.n(pep).n(label).f32(q).n(charge).f32(obs);
        }
        emit(Case::new(o.finish()).tag("pool-sizes-1-2-4-16").tag(if ims { "pools-ims" } else { "pools-rt" }));
    }
    // alignment + prediction chain (observational): 2-6 files over one database
    let n_chain = if tier == Tier::Quick { 8 } else { 80 };
    for _ in 0..n_chain {
        let n_peps = 30 + rng.below(120);
        let seqs: Vec<String> = (0..n_peps).map(|_| random_peptide(rng)).collect();
        let profile: Vec<f64> = (0..n_peps).map(|_| 1.0 + rng.unit() * 119.0).collect();
        let n_files = 2 + rng.below(5);
        let mut fs = Vec::new();
        for file in 0..n_files {
            let (a, b) = (0.5 + rng.unit() * 1.5, rng.unit() * 30.0);
            for (pep, &t) in profile.iter().enumerate() {
                if rng.chance(1, 5) {
                    continue;
                }
                let label = if rng.chance(1, 10) { -1 } else { 1 };
                let q = if rng.chance(5, 6) { Q_CONF } else { 0.2 };
                fs.push(F { file, pep, label, q, rt: (a * t + b + 0.5 * (rng.unit() - 0.5)) as f32 });
            }
        }
        rng.shuffle(&mut fs);
        let mut o = Out::new();
        o.raw("chainpools").n(seqs.len());
        for s in &seqs {
            o.s(s);
        }
        o.n(n_files).n(fs.len());
        for f in &fs {
            o.n(f.file).n(f.pep).n(f.label).f32(f.q).f32(f.rt);
        }
        emit(Case::new(o.finish()).tag("pool-sizes-1-2-4-16").tag("pools-chain"));
    }
}

fn exec_predpools(t: &mut Toks) -> Option<String> {
    let ims = t.bool()?;
    let seqs = t.list(|t| t.string())?;
    let fs = t.list(|t| {
        Some(PF { pep: t.usize()?, label: t.i64()? as i32, q: t.f32()?, charge: t.usize()? as u8, obs: t.f32()? })
    })?;
    if !t.done() {
        return None;
    }
    let db = build_db(&seqs)?;
    let mut o = Out::new();
    o.n(POOLS.len());
    for &threads in &POOLS {
        let mut feats: Vec<Feature> = fs
            .iter()
            .map(|f| {
                let mut x = super::util::blank_feature();
                x.peptide_idx = PeptideIx(f.pep as u32);
                x.label = f.label;
                x.spectrum_q = f.q;
                x.charge = f.charge;
                if ims {
                    x.ims = f.obs;
                } else {
                    x.aligned_rt = f.obs;
                }
                x
            })
            .collect();
        // everything (fit for r / r2, and the real `predict`) inside the pool
        let (fitted, r2, raw): (bool, f64, Vec<f64>) = in_pool(threads, || {
            let (r2, raw) = if ims {
                match MobilityModel::fit(&db, &feats) {
                    Some(lr) => (lr.r2, feats.iter().map(|f| lr.predict_peptide(&db, f)).collect()),
                    None => (0.0, vec![0.0; feats.len()]),
                }
            } else {
                match RetentionModel::fit(&db, &feats) {
                    Some(lr) => (lr.r2, feats.iter().map(|f| lr.predict_peptide(&db, f)).collect()),
                    None => (0.0, vec![0.0; feats.len()]),
                }
            };
            let fitted =
                if ims { mobility_model::predict(&db, &mut feats) } else { retention_model::predict(&db, &mut feats) };
            (fitted.is_some(), r2, raw)
        });
        o.b(fitted).f64(r2).n(feats.len());
        for (i, f) in feats.iter().enumerate() {
            o.f64(raw[i]);
            if ims {
                o.f32(f.predicted_ims).f32(f.delta_ims_model);
            } else {
                o.f32(f.predicted_rt).f32(f.delta_rt_model);
            }
        }
    }
    Some(o.finish())
}

fn exec_chainpools(t: &mut Toks) -> Option<String> {
    let seqs = t.list(|t| t.string())?;
    let n_files = t.usize()?;
    let fs = t.list(|t| {
        Some(F { file: t.usize()?, pep: t.usize()?, label: t.i64()? as i32, q: t.f32()?, rt: t.f32()? })
    })?;
    if !t.done() {
        return None;
    }
    let db = build_db(&seqs)?;
    let mut o = Out::new();
    o.n(POOLS.len());
    for &threads in &POOLS {
        let mut feats: Vec<Feature> = fs
            .iter()
            .map(|f| {
                let mut x = super::util::blank_feature();
                x.file_id = f.file;
                x.peptide_idx = PeptideIx(f.pep as u32);
                x.label = f.label;
                x.spectrum_q = f.q;
                x.rt = f.rt;
                x
            })
            .collect();
        let al = in_pool(threads, || {
            let al = global_alignment(&mut feats, n_files);
            let _ = retention_model::predict(&db, &mut feats);
            al
        });
        o.n(al.len());
        for a in &al {
            o.f32(a.max_rt).f32(a.slope).f32(a.intercept);
        }
        o.n(feats.len());
        for f in &feats {
            o.f32(f.aligned_rt).f32(f.predicted_rt).f32(f.delta_rt_model);
        }
    }
    Some(o.finish())
}


// ---------------------------------------------------------------------------------------------
// alignbig: large anchor tables generated from the request's integers on both sides

/// numerator of peptide p's profile time in eighths of a minute: k_0 is the maximum 8*tmax, the others
/// lie in [8, 8*tmax - 1]. The Lean driver (`bigK`) uses the same formula on naturals (no overflow:
/// p < 2^20, seed < 2^31).
fn big_k(seed: u64, tmax: u64, p: u64) -> u64 {
    if p == 0 {
        8 * tmax
    } else {
        8 + (p * 2654435761 + seed * 40503) % (8 * tmax - 8)
    }
}

fn alignbig_request(seed: u64, n: usize, a: u64, b8: u64, half: bool, tmax: u64) -> String {
    let mut o = Out::new();
    o.raw("alignbig").n(seed).n(n).n(a).n(b8).b(half).n(tmax);
    o.finish()
}

fn gen_alignbig(rng: &mut Rng, tier: Tier, emit: &mut dyn FnMut(Case)) {
    let seed = |rng: &mut Rng| rng.below(1 << 30) as u64;
    // quick: the two sizes of the report plus the first size above 2^16
    let s = seed(rng);
    emit(Case::new(alignbig_request(s, 70_000, 2, 0, true, 120)).tag("big-70k").tag("big-diagonal"));
    let s = seed(rng);
    emit(Case::new(alignbig_request(s, 65_537, 2, 0, true, 120)).tag("big-around-65536").tag("big-diagonal"));
    let s = seed(rng);
    emit(Case::new(alignbig_request(s, 120_000, 2, 24, true, 90)).tag("big-120k"));
    if tier == Tier::Thorough {
        for &n in &[65_535usize, 65_536, 65_537, 65_600, 70_000, 120_000, 131_072, 131_073, 200_000] {
            for &(a, b8, half) in &[(2u64, 0u64, true), (2, 0, false), (3, 20, true), (1, 56, true), (2, 24, false)] {
                let s = seed(rng);
                let tmax = *rng.pick(&[60u64, 90, 120, 240]);
                let mut c = Case::new(alignbig_request(s, n, a, b8, half, tmax))
                    .tag(if n >= 65_535 && n <= 65_600 { "big-around-65536" } else if n <= 70_000 { "big-70k" } else { "big-120k+" });
                if a == 2 && b8 == 0 {
                    c = c.tag("big-diagonal");
                }
                emit(c);
            }
        }
    }
}

fn exec_alignbig(t: &mut Toks) -> Option<String> {
    let seed = t.usize()? as u64;
    let n = t.usize()?;
    let a = t.usize()? as u64;
    let b8 = t.usize()? as u64;
    let half = t.bool()?;
    let tmax = t.usize()? as u64;
    if !t.done() || n == 0 || n > (1 << 20) || seed >= (1 << 31) || tmax < 2 || tmax > 4096 || a == 0 || a > 8 || b8 > 4096 {
        return None;
    }
    let mut feats: Vec<Feature> = Vec::with_capacity(2 * n);
    for file in 0..2usize {
        for p in 0..n {
            let k = big_k(seed, tmax, p as u64);
            let mut x = super::util::blank_feature();
            x.file_id = file;
            x.peptide_idx = PeptideIx(p as u32);
            x.label = 1;
            x.rt = if file == 0 { k as f32 / 8.0 } else { (a * k + b8) as f32 / 8.0 };
            x.spectrum_q = if file == 0 || !half || p % 2 == 0 { Q_CONF } else { 0.5 };
            x.charge = 1 + ((p + file) % 4) as u8;
            x.psm_id = file * n + p;
            x.aligned_rt = f32::NAN;
            feats.push(x);
        }
    }
    let al = global_alignment(&mut feats, 2);
    let mut o = Out::new();
    o.n(al.len());
    for a in &al {
        o.f32(a.max_rt).f32(a.slope).f32(a.intercept);
    }
    o.n(32);
    for j in 0..32usize {
        o.f32(feats[j * (2 * n - 1) / 31].aligned_rt);
    }
    o.n(feats.iter().filter(|f| !f.aligned_rt.is_finite()).count());
    Some(o.finish())
}

// ---------------------------------------------------------------------------------------------

pub fn gen(rng: &mut Rng, tier: Tier, emit: &mut dyn FnMut(Case)) {
    gen_align(rng, tier, emit);
    gen_predict(rng, tier, emit);
    gen_pools(rng, tier, emit);
    gen_alignbig(rng, tier, emit);
}

pub fn exec(op: &str, t: &mut Toks) -> Option<String> {
    match op {
        "align" => exec_align(t),
        "rtpredict" | "imspredict" | "rtpredictq" | "imspredictq" => exec_predict(op, t),
        "trainset" => exec_trainset(t),
        "predpools" => exec_predpools(t),
        "chainpools" => exec_chainpools(t),
        "alignbig" => exec_alignbig(t),
        _ => None,
    }
}
