//! C12 — `spectrum_q_value`
//!   specq    [n label…] junk            ->  [n u32 q…] passing frame        (label 1 = decoy, 0 = target)
//!   specqrle [k (label runlen)…] junk   ->  [m (u32 q, runlen)…] passing frame
//!   specqlab [n (i32 label, u32 stale spectrum_q, rank)…]  ->  [n u32 q…] passing frame
//!            (raw `Feature.label` values — also values other than ±1 — and an explicit stale `spectrum_q` and
//!            rank per PSM: the record-level model `spectrumQPsm` is run on exactly these records)
//! `junk` seeds the values every OTHER field of the PSMs holds before the call (including a stale
//! `spectrum_q` from an earlier pass, as in sage-cli's predict_rt flow): the result must depend on the
//! labels only. junk = 0 means freshly initialised PSMs. `frame` = 1 iff every field other than
//! `spectrum_q` is bit-identical after the call.
//! `specqrle`: the runs are expanded into a real `Vec<Feature>` (336 bytes per PSM: 2^24 + 2 PSMs need
//! about 5.6 GB), the real function is called on it, and the q-values are returned run-length encoded
//! (maximal runs of equal bit patterns). Expansions of more than 2^22 PSMs are serialised by a mutex so
//! that at most one of them is alive at a time.
use super::Info;
use crate::proto::{Case, Out, Rng, Tier, Toks};
use sage_core::ml::qvalue::spectrum_q_value;
use sage_core::scoring::Feature;
use std::sync::Mutex;

pub const OPS: &[&str] = &["specq", "specqrle", "specqlab"];
pub const INFO: Info = Info {
    rule: "label sequences: exhaustive up to length L (quick 10, thorough 16) plus random sequences with \
           decoy rate in {1%,10%,50%,90%} and lengths up to 400 (quick) / 5000 (thorough), directed \
           1%-threshold boundaries, stale-field (junk seed) variants; run-length encoded lists (op specqrle): \
           random runs (tiny: total <= 48, checked against the O(n^2) definition; medium; large: runs up to \
           1e5, total <= 1e6 in quick), 1% boundaries at 1e5 scale, and in the thorough tier lists around \
           2^24 PSMs (2^24-1 targets, 2^24-1 decoys + targets, 2^24+2 targets, 2^24+65 decoys followed by \
           2^24+1001 targets); non-trivial = contains at least one target and one decoy; distinct by label \
           sequence",
    serial: false,
};

/// larger expansions than this are refused (bad-request): 2^26 PSMs = 22.5 GB
const MAX_TOTAL: usize = 1 << 26;
/// expansions above this size take the lock below
const BIG: usize = 1 << 22;
static BIG_LOCK: Mutex<()> = Mutex::new(());

fn request_junk(labels: &[bool], junk: u64) -> String {
    let mut o = Out::new();
    o.raw("specq").n(labels.len());
    for &l in labels {
        o.b(l);
    }
    o.n(junk);
    o.finish()
}

fn request(labels: &[bool]) -> String {
    // a deterministic mix of fresh (junk = 0) and stale PSMs
    let h = labels.iter().fold(labels.len() as u64 * 31 + 7, |a, &b| a.wrapping_mul(1099511628211) ^ (b as u64 + 1));
    request_junk(labels, if h % 3 == 0 { 0 } else { 1 + h % 1000 })
}

fn request_rle(runs: &[(bool, usize)], junk: u64) -> String {
    let mut o = Out::new();
    o.raw("specqrle").n(runs.len());
    for &(l, k) in runs {
        o.b(l).n(k);
    }
    o.n(junk);
    o.finish()
}

fn rle_case(runs: &[(bool, usize)], junk: u64, tag: &'static str) -> Case {
    let nt = runs.iter().any(|&(b, k)| b && k > 0) && runs.iter().any(|&(b, k)| !b && k > 0);
    Case::new(request_rle(runs, junk)).tag("rle").tag(tag).nontrivial(nt)
}

pub fn gen(rng: &mut Rng, tier: Tier, emit: &mut dyn FnMut(Case)) {
    let quick = tier == Tier::Quick;
    let exhaustive = if quick { 10 } else { 16 };
    for len in 0..=exhaustive {
        for bits in 0u32..(1u32 << len) {
            let labels: Vec<bool> = (0..len).map(|i| (bits >> i) & 1 == 1).collect();
            let nt = labels.iter().any(|&b| b) && labels.iter().any(|&b| !b);
            emit(Case::new(request(&labels))
                .tag("exhaustive")
                .tag_if(len == 0, "empty")
                .tag_if(len > 0 && !labels.iter().any(|&b| b), "all-target")
                .tag_if(len > 0 && labels.iter().all(|&b| b), "all-decoy")
                .nontrivial(nt));
        }
    }
    // every sequence up to length 6 once more with stale PSMs (the exhaustive stream above picks fresh or
    // stale by a hash): a stale `spectrum_q` below the right answer at every position
    for len in 1..=6 {
        for bits in 0u32..(1u32 << len) {
            let labels: Vec<bool> = (0..len).map(|i| (bits >> i) & 1 == 1).collect();
            let nt = labels.iter().any(|&b| b) && labels.iter().any(|&b| !b);
            emit(Case::new(request_junk(&labels, 1 + (bits as u64) * 7 + len as u64)).tag("exhaustive-stale").nontrivial(nt));
        }
    }
    // directed: q-values that land exactly on / next to the 0.01 threshold ((d+1)/t = 1/100 …)
    for &t in &[50usize, 99, 100, 101, 199, 200, 201, 299, 300, 301, 1000] {
        for d in 0..3usize {
            for reps in 1..=2usize {
                let mut labels = Vec::new();
                for _ in 0..reps {
                    labels.extend(std::iter::repeat(false).take(t));
                    labels.extend(std::iter::repeat(true).take(d));
                }
                labels.push(true);
                emit(Case::new(request(&labels)).tag("threshold-boundary"));
            }
        }
    }
    // directed: the passing PSMs are a strict prefix followed by a long non-passing tail that contains
    // a local dip which does NOT reach 1% (an early `break` / a forward running minimum would differ)
    for &t in &[100usize, 150, 200] {
        for &gap in &[1usize, 2, 5] {
            let mut labels = vec![false; t];
            labels.extend(std::iter::repeat(true).take(gap));
            labels.extend(std::iter::repeat(false).take(t / 2));
            labels.extend(std::iter::repeat(true).take(gap + 1));
            labels.extend(std::iter::repeat(false).take(3));
            emit(Case::new(request_junk(&labels, 11 + t as u64)).tag("prefix-then-tail"));
        }
    }
    let (n, maxlen) = if quick { (300, 400) } else { (3000, 5000) };
    for _ in 0..n {
        let len = 1 + rng.below(maxlen);
        let rate = *rng.pick(&[1u32, 10, 50, 90]);
        let labels: Vec<bool> = (0..len).map(|_| rng.chance(rate, 100)).collect();
        let nt = labels.iter().any(|&b| b) && labels.iter().any(|&b| !b);
        emit(Case::new(request(&labels)).tag("random").nontrivial(nt));
    }

    // raw labels with explicit stale fields: the record-level model is run on exactly these records.
    // Labels other than +-1 never occur in sage (`Peptide::label`), the code counts them as targets
    // (`label == -1` is the decoy test); the property is silent there (spec verdict `na`).
    for i in 0..(if quick { 150 } else { 2000 }) {
        let len = 1 + rng.below(if i % 3 == 0 { 8 } else { 60 });
        let foreign = i % 2 == 1;
        let mut o = Out::new();
        o.raw("specqlab").n(len);
        let mut any_foreign = false;
        for _ in 0..len {
            let lab: i64 = if foreign && rng.chance(1, 4) {
                any_foreign = true;
                *rng.pick(&[0i64, 2, -2, 3])
            } else if rng.chance(3, 10) {
                -1
            } else {
                1
            };
            let sq = *rng.pick(&[0.0f32, 1e-9, 0.001, 0.0057, 0.01, 0.5, 1.0, 7.5, f32::INFINITY]);
            o.n(lab).f32(sq).n(1 + rng.below(3));
        }
        emit(Case::new(o.finish()).tag("raw-labels").tag_if(any_foreign, "foreign-label"));
    }

    // ---------------------------------------------------------------- run-length encoded lists
    // tiny: total <= 48, the driver evaluates the O(n^2) definition on the expansion
    for _ in 0..(if quick { 200 } else { 3000 }) {
        let k = 1 + rng.below(6);
        let mut runs = Vec::new();
        let mut left = 48usize;
        let mut lab = rng.chance(1, 2);
        for _ in 0..k {
            let len = rng.below(9).min(left);
            left -= len;
            runs.push((lab, len));
            // mostly alternate; sometimes repeat the label (adjacent runs of one label) or emit an empty run
            if !rng.chance(1, 5) {
                lab = !lab;
            }
        }
        emit(rle_case(&runs, if rng.chance(1, 2) { 0 } else { 1 + rng.below(1000) as u64 }, "tiny"));
    }
    // medium: runs up to 2000
    for _ in 0..(if quick { 40 } else { 600 }) {
        let k = 1 + rng.below(12);
        let mut runs = Vec::new();
        let mut lab = rng.chance(1, 3);
        for _ in 0..k {
            let m = if lab { *rng.pick(&[4usize, 40, 400]) } else { *rng.pick(&[20usize, 200, 2000]) };
            let len = rng.below(m);
            runs.push((lab, len));
            if !rng.chance(1, 8) {
                lab = !lab;
            }
        }
        emit(rle_case(&runs, 1 + rng.below(1000) as u64, "medium"));
    }
    // large: runs up to 1e5 (quick: total <= 1e6); decoy runs that follow targets stay <= 2e4 PSMs unless
    // capped early, so that the reply (one token pair per distinct q-value) stays small
    let big_t = 100_000usize;
    let directed: Vec<Vec<(bool, usize)>> = vec![
        vec![(false, big_t)],
        vec![(true, big_t), (false, big_t)],
        vec![(true, big_t), (false, 3 * big_t), (true, 5)],
        // 1% boundary at scale: (d+1)/t = 1000/100000 exactly, one below, one above
        vec![(false, big_t), (true, 998), (false, 0), (true, 1)],
        vec![(false, big_t), (true, 999), (true, 1)],
        vec![(false, big_t), (true, 1000)],
        vec![(false, big_t), (true, 500), (false, big_t), (true, 1499), (false, 7)],
        // a long capped tail: 100 targets, then 1e5 decoys (all q = 1 after the first 99)
        vec![(false, 100), (true, big_t)],
        // staircase: every decoy of the run has its own q-value
        vec![(false, big_t), (true, 20_000), (false, 50_000)],
    ];
    for (i, runs) in directed.iter().enumerate() {
        emit(rle_case(runs, if i % 2 == 0 { 0 } else { 40 + i as u64 }, "large-directed"));
    }
    for _ in 0..(if quick { 6 } else { 40 }) {
        let k = 2 + rng.below(8);
        let mut runs = Vec::new();
        let mut lab = rng.chance(1, 3);
        let mut total = 0usize;
        let cap = if quick { 1_000_000 } else { 4_000_000 };
        let mut seen_target = false;
        for _ in 0..k {
            let m = if lab {
                if seen_target { *rng.pick(&[10usize, 1000, 20_000]) } else { big_t }
            } else {
                *rng.pick(&[1000usize, big_t, big_t])
            };
            let mut len = rng.below(m);
            len = len.min(cap - total);
            total += len;
            seen_target |= !lab && len > 0;
            runs.push((lab, len));
            lab = !lab;
        }
        emit(rle_case(&runs, 1 + rng.below(1000) as u64, "large"));
    }
    if !quick {
        // around 2^24: the `as f32` conversion of the two tallies starts to round
        let p24 = 1usize << 24;
        // just below: every tally is exactly representable (the decoy tally, which starts at 1, reaches 2^24)
        emit(rle_case(&[(false, p24 - 1)], 0, "below-2^24"));
        emit(rle_case(&[(true, p24 - 1), (false, 3)], 3, "below-2^24"));
        emit(rle_case(&[(false, 5_000_000), (true, 40_000), (false, p24 - 5_040_001), (true, 1)], 5, "below-2^24"));
        // just above: 2^24 + 2 targets (q = 1/16777218; a saturating f32 tally gives 1/16777216)
        emit(rle_case(&[(false, p24 + 2)], 0, "above-2^24"));
        emit(rle_case(&[(false, p24 + 1), (true, 1), (false, 100)], 7, "above-2^24"));
        // both tallies above 2^24: 2^24 + 65 decoys, then 2^24 + 1001 targets (11.3 GB)
        emit(rle_case(&[(true, p24 + 65), (false, p24 + 1001)], 0, "above-2^24"));
    }
}

/// a 64-bit digest of every field of the PSM except `spectrum_q`
fn sig(f: &Feature) -> u64 {
    let mut h: u64 = 0xcbf29ce484222325;
    let mut mix = |x: u64| {
        h = (h ^ x).wrapping_mul(0x100000001b3);
        h ^= h >> 29;
    };
    mix(f.peptide_idx.0 as u64);
    mix(f.psm_id as u64);
    mix(f.peptide_len as u64);
    mix(f.spec_id.len() as u64);
    for b in f.spec_id.bytes() {
        mix(b as u64);
    }
    mix(f.file_id as u64);
    mix(f.rank as u64);
    mix(f.label as i64 as u64);
    mix(f.expmass.to_bits() as u64);
    mix(f.calcmass.to_bits() as u64);
    mix(f.charge as u64);
    mix(f.rt.to_bits() as u64);
    mix(f.aligned_rt.to_bits() as u64);
    mix(f.predicted_rt.to_bits() as u64);
    mix(f.delta_rt_model.to_bits() as u64);
    mix(f.ims.to_bits() as u64);
    mix(f.predicted_ims.to_bits() as u64);
    mix(f.delta_ims_model.to_bits() as u64);
    mix(f.delta_mass.to_bits() as u64);
    mix(f.isotope_error.to_bits() as u64);
    mix(f.average_ppm.to_bits() as u64);
    mix(f.hyperscore.to_bits());
    mix(f.delta_next.to_bits());
    mix(f.delta_best.to_bits());
    mix(f.matched_peaks as u64);
    mix(f.longest_b as u64);
    mix(f.longest_y as u64);
    mix(f.longest_y_pct.to_bits() as u64);
    mix(f.missed_cleavages as u64);
    mix(f.matched_intensity_pct.to_bits() as u64);
    mix(f.scored_candidates as u64);
    mix(f.poisson.to_bits());
    mix(f.discriminant_score.to_bits() as u64);
    mix(f.posterior_error.to_bits() as u64);
    mix(f.peptide_q.to_bits() as u64);
    mix(f.protein_q.to_bits() as u64);
    mix(f.ms2_intensity.to_bits() as u64);
    mix(f.fragments.is_some() as u64);
    h
}

fn digest(feats: &[Feature]) -> u64 {
    feats.iter().fold(feats.len() as u64, |a, f| a.rotate_left(7).wrapping_mul(0x9E37_79B9_7F4A_7C15) ^ sig(f))
}

/// whatever an earlier pass left behind
fn stale(f: &mut Feature, jr: &mut Rng) {
    f.spectrum_q = *jr.pick(&[0.0f32, 0.001, 0.0057, 0.01, 0.5, 1.0, 7.5]);
    f.peptide_q = jr.unit() as f32;
    f.protein_q = jr.unit() as f32;
    f.discriminant_score = (jr.unit() * 10.0 - 5.0) as f32;
    f.posterior_error = -(jr.unit() * 30.0) as f32;
    f.hyperscore = jr.unit() * 80.0;
    f.rank = 1 + jr.below(3) as u32;
    f.psm_id = jr.below(100000);
}

pub fn exec(op: &str, t: &mut Toks) -> Option<String> {
    match op {
        "specq" | "specqlab" => {
            let mut feats: Vec<Feature> = if op == "specq" {
                let labels = t.list(|t| t.bool())?;
                let junk = t.usize()? as u64;
                let mut jr = Rng::new(junk);
                labels
                    .iter()
                    .map(|&decoy| {
                        let mut f = super::util::blank_feature();
                        f.label = if decoy { -1 } else { 1 };
                        if junk != 0 {
                            stale(&mut f, &mut jr);
                        }
                        f
                    })
                    .collect()
            } else {
                t.list(|t| {
                    let mut f = super::util::blank_feature();
                    f.label = t.i64()? as i32;
                    f.spectrum_q = t.f32()?;
                    f.rank = t.usize()? as u32;
                    Some(f)
                })?
            };
            if !t.done() {
                return None;
            }
            let before = digest(&feats);
            let passing = spectrum_q_value(&mut feats);
            let frame = digest(&feats) == before;
            let mut o = Out::new();
            o.n(feats.len());
            for f in &feats {
                o.f32(f.spectrum_q);
            }
            o.n(passing);
            o.b(frame);
            Some(o.finish())
        }
        "specqrle" => {
            let runs = t.list(|t| Some((t.bool()?, t.usize()?)))?;
            let junk = t.usize()? as u64;
            let mut total = 0usize;
            for &(_, k) in &runs {
                total = total.checked_add(k)?;
            }
            if total > MAX_TOTAL {
                return None;
            }
            // one big expansion at a time (a poisoned lock only means an earlier big case panicked)
            let _guard = if total > BIG { Some(BIG_LOCK.lock().unwrap_or_else(|e| e.into_inner())) } else { None };
            let mut jr = Rng::new(junk);
            let mut feats: Vec<Feature> = Vec::with_capacity(total);
            for &(decoy, k) in &runs {
                let mut proto = super::util::blank_feature();
                proto.label = if decoy { -1 } else { 1 };
                for _ in 0..k {
                    let mut f = proto.clone();
                    if junk != 0 {
                        stale(&mut f, &mut jr);
                    }
                    feats.push(f);
                }
            }
            let before = digest(&feats);
            let passing = spectrum_q_value(&mut feats);
            let frame = digest(&feats) == before && feats.len() == total;
            // maximal runs of equal bit patterns
            let mut out_runs: Vec<(u32, usize)> = Vec::new();
            for f in &feats {
                let b = f.spectrum_q.to_bits();
                match out_runs.last_mut() {
                    Some((pb, k)) if *pb == b => *k += 1,
                    _ => out_runs.push((b, 1)),
                }
            }
            drop(feats);
            let mut o = Out::new();
            o.n(out_runs.len());
            for &(b, k) in &out_runs {
                o.n(b).n(k);
            }
            o.n(passing);
            o.b(frame);
            Some(o.finish())
        }
        _ => None,
    }
}
