//! C12 — `spectrum_q_value`
//!   specq [n label…]  ->  [n u32 q…] passing          (label 1 = decoy, 0 = target)
use super::Info;
use crate::proto::{Case, Out, Rng, Tier, Toks};
use sage_core::ml::qvalue::spectrum_q_value;

pub const OPS: &[&str] = &["specq"];
pub const INFO: Info = Info {
    rule: "label sequences: exhaustive up to length L (quick 10, thorough 16) plus random sequences with \
           decoy rate in {1%,10%,50%,90%} and lengths up to 400 (quick) / 5000 (thorough); non-trivial = \
           contains at least one target and one decoy; distinct by label sequence",
    serial: false,
};

fn request(labels: &[bool]) -> String {
    let mut o = Out::new();
    o.raw("specq").n(labels.len());
    for &l in labels {
        o.b(l);
    }
    o.finish()
}

pub fn gen(rng: &mut Rng, tier: Tier, emit: &mut dyn FnMut(Case)) {
    let exhaustive = if tier == Tier::Quick { 10 } else { 16 };
    for len in 0..=exhaustive {
        for bits in 0u32..(1u32 << len) {
            let labels: Vec<bool> = (0..len).map(|i| (bits >> i) & 1 == 1).collect();
            let nt = labels.iter().any(|&b| b) && labels.iter().any(|&b| !b);
            emit(Case::new(request(&labels))
                .tag("exhaustive")
                .tag_if(len == 0, "empty")
                .tag_if(len > 0 && !labels.iter().any(|&b| b), "all-target")
                .tag_if(len > 0 && labels.iter().all(|&b| b), "all-decoy")
                .nontrivial(nt));
        }
    }
    // directed: q-values that land exactly on / next to the 0.01 threshold ((d+1)/t = 1/100 …)
    for &t in &[50usize, 99, 100, 101, 199, 200, 201, 299, 300, 301, 1000] {
        for d in 0..3usize {
            for reps in 1..=2usize {
                let mut labels = Vec::new();
                for _ in 0..reps {
                    labels.extend(std::iter::repeat(false).take(t));
                    labels.extend(std::iter::repeat(true).take(d));
                }
                labels.push(true);
                emit(Case::new(request(&labels)).tag("threshold-boundary"));
            }
        }
    }
    let (n, maxlen) = if tier == Tier::Quick { (300, 400) } else { (3000, 5000) };
    for _ in 0..n {
        let len = 1 + rng.below(maxlen);
        let rate = *rng.pick(&[1u32, 10, 50, 90]);
        let labels: Vec<bool> = (0..len).map(|_| rng.chance(rate, 100)).collect();
        let nt = labels.iter().any(|&b| b) && labels.iter().any(|&b| !b);
        emit(Case::new(request(&labels)).tag("random").nontrivial(nt));
    }
}

pub fn exec(_op: &str, t: &mut Toks) -> Option<String> {
    let labels = t.list(|t| t.bool())?;
    let mut feats: Vec<_> = labels
        .iter()
        .map(|&decoy| {
            let mut f = super::util::blank_feature();
            f.label = if decoy { -1 } else { 1 };
            f
        })
        .collect();
    let passing = spectrum_q_value(&mut feats);
    let mut o = Out::new();
    o.n(feats.len());
    for f in &feats {
        o.f32(f.spectrum_q);
    }
    o.n(passing);
    Some(o.finish())
}
