//! C12 — `spectrum_q_value`
//!   specq [n label…] junk  ->  [n u32 q…] passing      (label 1 = decoy, 0 = target)
//! `junk` seeds the values every OTHER field of the PSMs holds before the call (including a stale
//! `spectrum_q` from an earlier pass, as in sage-cli's predict_rt flow): the result must depend on the
//! labels only. junk = 0 means freshly initialised PSMs.
use super::Info;
use crate::proto::{Case, Out, Rng, Tier, Toks};
use sage_core::ml::qvalue::spectrum_q_value;

pub const OPS: &[&str] = &["specq"];
pub const INFO: Info = Info {
    rule: "label sequences: exhaustive up to length L (quick 10, thorough 16) plus random sequences with \
           decoy rate in {1%,10%,50%,90%} and lengths up to 400 (quick) / 5000 (thorough); non-trivial = \
           contains at least one target and one decoy; distinct by label sequence",
    serial: false,
};

fn request_junk(labels: &[bool], junk: u64) -> String {
    let mut o = Out::new();
    o.raw("specq").n(labels.len());
    for &l in labels {
        o.b(l);
    }
    o.n(junk);
    o.finish()
}

fn request(labels: &[bool]) -> String {
    // a deterministic mix of fresh (junk = 0) and stale PSMs
    let h = labels.iter().fold(labels.len() as u64 * 31 + 7, |a, &b| a.wrapping_mul(1099511628211) ^ (b as u64 + 1));
    request_junk(labels, if h % 3 == 0 { 0 } else { 1 + h % 1000 })
}

pub fn gen(rng: &mut Rng, tier: Tier, emit: &mut dyn FnMut(Case)) {
    let exhaustive = if tier == Tier::Quick { 10 } else { 16 };
    for len in 0..=exhaustive {
        for bits in 0u32..(1u32 << len) {
            let labels: Vec<bool> = (0..len).map(|i| (bits >> i) & 1 == 1).collect();
            let nt = labels.iter().any(|&b| b) && labels.iter().any(|&b| !b);
            emit(Case::new(request(&labels))
                .tag("exhaustive")
                .tag_if(len == 0, "empty")
                .tag_if(len > 0 && !labels.iter().any(|&b| b), "all-target")
                .tag_if(len > 0 && labels.iter().all(|&b| b), "all-decoy")
                .nontrivial(nt));
        }
    }
    // directed: q-values that land exactly on / next to the 0.01 threshold ((d+1)/t = 1/100 …)
    for &t in &[50usize, 99, 100, 101, 199, 200, 201, 299, 300, 301, 1000] {
        for d in 0..3usize {
            for reps in 1..=2usize {
                let mut labels = Vec::new();
                for _ in 0..reps {
                    labels.extend(std::iter::repeat(false).take(t));
                    labels.extend(std::iter::repeat(true).take(d));
                }
                labels.push(true);
                emit(Case::new(request(&labels)).tag("threshold-boundary"));
            }
        }
    }
    let (n, maxlen) = if tier == Tier::Quick { (300, 400) } else { (3000, 5000) };
    for _ in 0..n {
        let len = 1 + rng.below(maxlen);
        let rate = *rng.pick(&[1u32, 10, 50, 90]);
        let labels: Vec<bool> = (0..len).map(|_| rng.chance(rate, 100)).collect();
        let nt = labels.iter().any(|&b| b) && labels.iter().any(|&b| !b);
        emit(Case::new(request(&labels)).tag("random").nontrivial(nt));
    }
}

pub fn exec(_op: &str, t: &mut Toks) -> Option<String> {
    let labels = t.list(|t| t.bool())?;
    let junk = t.usize()? as u64;
    let mut jr = Rng::new(junk);
    let mut feats: Vec<_> = labels
        .iter()
        .map(|&decoy| {
            let mut f = super::util::blank_feature();
            f.label = if decoy { -1 } else { 1 };
            if junk != 0 {
                // whatever an earlier pass left behind
                f.spectrum_q = *jr.pick(&[0.0f32, 0.001, 0.0057, 0.01, 0.5, 1.0, 7.5]);
                f.peptide_q = jr.unit() as f32;
                f.protein_q = jr.unit() as f32;
                f.discriminant_score = (jr.unit() * 10.0 - 5.0) as f32;
                f.posterior_error = -(jr.unit() * 30.0) as f32;
                f.hyperscore = jr.unit() * 80.0;
                f.rank = 1 + jr.below(3) as u32;
                f.psm_id = jr.below(100000);
            }
            f
        })
        .collect();
    let passing = spectrum_q_value(&mut feats);
    let mut o = Out::new();
    o.n(feats.len());
    for f in &feats {
        o.f32(f.spectrum_q);
    }
    o.n(passing);
    Some(o.finish())
}
